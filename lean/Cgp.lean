-- Root of the `Cgp` library: models, drivers' model-side code, and (under Cgp.Props) the property theorems.
import Cgp.Basic
import Cgp.Keccak
import Cgp.Xdr
import Cgp.Tok
import Cgp.Gateway
import Cgp.Drive.Gw
