/-
  cgp-driver — replays a harness trace on the Lean models and reports, per line, whether the model's
  observation equals the implementation's (strict mode), classifying every discrepancy and then
  following the implementation (follow mode):
     safety        impl accepted, model (hence P) rejects        -> cannot follow; rest of scenario skipped
     completeness  impl rejected, model accepts                  -> continue from the unchanged state
     exactness     both accept, observable differs               -> continue from the model's post-state
-/
import Cgp.Drive.Gw
import Cgp.Drive.Tk
import Cgp.Drive.Gs
import Cgp.Drive.Op
import Cgp.Drive.Up
import Cgp.Drive.Ex
import Cgp.Drive.AbiD
import Cgp.Drive.ItsD
open Cgp Cgp.Tok

inductive World where
  | none
  | gw (s : Cgp.Drive.Gw.GwS)
  | tk (s : Cgp.Drive.Tk.TkS)
  | gs (s : Cgp.Drive.Gs.GsS)
  | op (s : Cgp.Drive.Op.OpS)
  | up (s : Cgp.Drive.Up.UpS)
  | ex (s : Cgp.Drive.Ex.ExS)
  | abi
  | its (s : Cgp.Drive.ItsD.ItsS)

structure Out where
  obs : String
  kind : String
  pviol : Option String := none

def World.step (w : World) (t : List String) (implObs : String) : World × Out :=
  -- `tick n`: n ledgers close, fewer than any persistent or instance entry lives (the harness keeps the total per
  -- scenario below that): no modelled state depends on it. The token worlds move the ledger themselves (`time`).
  -- `probe_extra …`: the harness calls, without any authorisation, every exported function of the contract under test that
  -- the model does not know (none on the unchanged tree, apart from `todo!()` stubs): no modelled state may change
  if t.head? = some "probe_extra" then
    match w with
    | .none => (w, ⟨"parse-error:no-scenario", "parse-error", Option.none⟩)
    | _ => (w, ⟨"ok", "ok", Option.none⟩)
  else
  if t.head? = some "tick" then
    match w with
    | .tk _ => (w, ⟨"parse-error:tick", "parse-error", Option.none⟩)
    | .none => (w, ⟨"parse-error:no-scenario", "parse-error", Option.none⟩)
    | _ => (w, ⟨"ok", "ok", Option.none⟩)
  else
  match w with
  | .none => (w, ⟨"parse-error:no-scenario", "parse-error", Option.none⟩)
  | .gw s => let (s', o) := Cgp.Drive.Gw.step s t; (.gw s', ⟨o.obs, o.kind, Option.none⟩)
  | .tk s => let (s', o) := Cgp.Drive.Tk.step s t; (.tk s', ⟨o.obs, o.kind, Option.none⟩)
  | .gs s => let (s', o) := Cgp.Drive.Gs.step s t implObs; (.gs s', ⟨o.obs, o.kind, Option.none⟩)
  | .op s => let (s', o) := Cgp.Drive.Op.step s t; (.op s', ⟨o.obs, o.kind, Option.none⟩)
  | .up s => let (s', o) := Cgp.Drive.Up.step s t implObs; (.up s', ⟨o.obs, o.kind, Option.none⟩)
  | .ex s => let (s', o) := Cgp.Drive.Ex.step s t implObs; (.ex s', ⟨o.obs, o.kind, Option.none⟩)
  | .abi => let o := Cgp.Drive.AbiD.step t; (.abi, ⟨o.obs, o.kind, Option.none⟩)
  | .its s => let (s', o) := Cgp.Drive.ItsD.step s t implObs; (.its s', ⟨o.obs, o.kind, o.pviol⟩)

def World.known : World → List String
  | .none => []
  | .gw _ => Cgp.Drive.Gw.known
  | .tk _ => Cgp.Drive.Tk.known
  | .gs _ => Cgp.Drive.Gs.known
  | .op _ => Cgp.Drive.Op.known
  | .up _ => Cgp.Drive.Up.known
  | .ex _ => Cgp.Drive.Ex.known
  | .abi => []
  | .its _ => Cgp.Drive.ItsD.known

def newWorld (cluster : String) : World :=
  match cluster with
  | "gw" => .gw {}
  | "tk" => .tk {}
  | "tkw" => .tk {}
  | "gs" => .gs {}
  | "op" => .op {}
  | "up" => .up {}
  | "ex" => .ex {}
  | "abi" => .abi
  | "its" => .its {}
  | _ => .none

structure RunAcc where
  world : World := .none
  scenario : String := ""
  diverged : Bool := false
  lines : Nat := 0
  ops : Nat := 0
  agree : Nat := 0
  disagree : Nat := 0
  skipped : Nat := 0
  cov : List (String × Nat) := []

def bump (cov : List (String × Nat)) (k : String) : List (String × Nat) :=
  match cov with
  | [] => [(k, 1)]
  | (k', n) :: r => if k' = k then (k', n + 1) :: r else (k', n) :: bump r k

def isOk (obs : String) : Bool := obs = "ok" || obs.startsWith "ok "

partial def loop (h : IO.FS.Stream) (acc : RunAcc) : IO RunAcc := do
  let line ← h.getLine
  if line.isEmpty then return acc
  let line := line.trimAscii.toString
  let acc := { acc with lines := acc.lines + 1 }
  if line.isEmpty || line.startsWith "#" then loop h acc
  else if line.startsWith "scenario " then
    match line.splitOn " " with
    | _ :: cluster :: name =>
      loop h { acc with world := newWorld cluster, scenario := String.intercalate " " name, diverged := false }
    | _ => loop h acc
  else
    -- `<op tokens> => <obs tokens> ## diagnostics`
    let main := (line.splitOn " ## ").head!
    let cls0 := match line.splitOn "class=" with
      | _ :: r :: _ => (r.splitOn " ").head!
      | _ => "-"
    match main.splitOn " => " with
    | [opS, implObs] =>
      if acc.diverged then loop h { acc with skipped := acc.skipped + 1 }
      else
        let toks := opS.splitOn " "
        let implC := filterObs acc.world.known implObs
        let (w', out) := acc.world.step toks implC
        let acc := { acc with ops := acc.ops + 1, cov := bump acc.cov (toks.head! ++ "|" ++ cls0 ++ "|" ++ out.kind) }
        if out.obs = implC then
          -- full-strength property clause evaluated on an operation both accept (known-finding detection)
          match out.pviol with
          | some clause =>
            IO.println s!"DISAGREE line={acc.lines} scenario={acc.scenario} class=p-clause op={toks.head!} kind={clause} model=[{out.obs}] impl=[{implC}]"
            loop h { acc with world := w', agree := acc.agree + 1, disagree := acc.disagree + 1 }
          | none => loop h { acc with world := w', agree := acc.agree + 1 }
        else
          let cls :=
            if out.obs.startsWith "parse-error" then "driver-error"
            else if implC.startsWith "panic" && !out.obs.startsWith "panic" then "crash"
            else if isOk implC && !isOk out.obs then "safety"
            else if !isOk implC && isOk out.obs then "completeness"
            else "exactness"
          IO.println s!"DISAGREE line={acc.lines} scenario={acc.scenario} class={cls} op={toks.head!} kind={out.kind} model=[{out.obs}] impl=[{implC}]"
          let acc := { acc with disagree := acc.disagree + 1 }
          let stateless := match acc.world with | .abi => true | _ => false
          if (cls = "safety" || cls = "driver-error") && !stateless then loop h { acc with diverged := true }
          else if cls = "completeness" then loop h acc            -- keep the pre-state, as the implementation did
          else loop h { acc with world := w' }
    | _ =>
      IO.println s!"DISAGREE line={acc.lines} scenario={acc.scenario} class=driver-error op=? kind=malformed-line model=[] impl=[]"
      loop h { acc with disagree := acc.disagree + 1 }

def main (args : List String) : IO UInt32 := do
  match args with
  | [path] =>
    let hd ← IO.FS.Handle.mk path .read
    let acc ← loop (IO.FS.Stream.ofHandle hd) {}
    for (k, n) in acc.cov do
      IO.println s!"COV {k} {n}"
    IO.println s!"SUMMARY lines={acc.lines} ops={acc.ops} agree={acc.agree} disagree={acc.disagree} skipped={acc.skipped}"
    return 0
  | _ =>
    IO.eprintln "usage: cgp-driver <trace-file>"
    return 2
