/-
  Cgp.Abi — model **M** of contracts/interchain-token-service/src/abi.rs: the ITS message structs encoded with the
  Solidity ABI "params" (head/tail) encoding, and decoding the way alloy-sol-types does with `validate = true`:
  parse leniently by following offsets, type-check, then RE-ENCODE AND COMPARE WITH THE INPUT.
-/
import Cgp.Basic
namespace Cgp.Abi
open Cgp

/-! ### generic head/tail codec over static words and dynamic byte strings -/

def word (n : Nat) : Bytes := beN 32 n
theorem word_length (n : Nat) : (word n).length = 32 := beN_length 32 n

def padTo32 (n : Nat) : Nat := (32 - n % 32) % 32

inductive Field where
  | w (x : Bytes)      -- static 32-byte word
  | d (b : Bytes)      -- dynamic `bytes` / `string`
deriving DecidableEq, Repr

def tailOf (b : Bytes) : Bytes := word b.length ++ b ++ List.replicate (padTo32 b.length) 0

/-- heads and tails, given the absolute offset where the next tail goes -/
def encAux : List Field → Nat → Bytes × Bytes
  | [], _ => ([], [])
  | .w x :: fs, off => let (h, t) := encAux fs off; (x ++ h, t)
  | .d b :: fs, off => let (h, t) := encAux fs (off + (tailOf b).length); (word off ++ h, tailOf b ++ t)

def encodeSeq (fs : List Field) : Bytes :=
  let (h, t) := encAux fs (32 * fs.length); h ++ t

/-- lenient parser: `kinds` says which positions are dynamic; `heads` = remaining head bytes; offsets are followed
    into the `whole` buffer -/
def parseAux : List Bool → Bytes → Bytes → Option (List Field)
  | [], _, _ => some []
  | false :: ks, heads, whole =>
    if heads.length < 32 then none else
    match parseAux ks (heads.drop 32) whole with
    | none => none
    | some fs => some (.w (heads.take 32) :: fs)
  | true :: ks, heads, whole =>
    if heads.length < 32 then none else
    let off := ofBE (heads.take 32)
    let at1 := whole.drop off
    if at1.length < 32 then none else
    let len := ofBE (at1.take 32)
    let body := at1.drop 32
    if body.length < len then none else
    match parseAux ks (heads.drop 32) whole with
    | none => none
    | some fs => some (.d (body.take len) :: fs)

def kindOf : Field → Bool | .w _ => false | .d _ => true

def Field.WF : Field → Prop
  | .w x => x.length = 32
  | .d b => b.length < 256 ^ 32

/-- alloy's `validate = true` sequence decoding: lenient parse, then the re-encoding must reproduce the input -/
def decodeSeq (kinds : List Bool) (b : Bytes) : Option (List Field) :=
  match parseAux kinds b b with
  | none => none
  | some fs => if encodeSeq fs = b then some fs else none

/-! ### UTF-8 (what `String::from_utf8` / alloy's string type check accept) -/

def validUtf8 : Bytes → Bool
  | [] => true
  | b0 :: r =>
    if b0 < 0x80 then validUtf8 r
    else if 0xC2 ≤ b0 ∧ b0 ≤ 0xDF then
      match r with
      | b1 :: r' => if 0x80 ≤ b1 ∧ b1 ≤ 0xBF then validUtf8 r' else false
      | _ => false
    else if 0xE0 ≤ b0 ∧ b0 ≤ 0xEF then
      match r with
      | b1 :: b2 :: r' =>
        let lo : UInt8 := if b0 = 0xE0 then 0xA0 else 0x80
        let hi : UInt8 := if b0 = 0xED then 0x9F else 0xBF
        if lo ≤ b1 ∧ b1 ≤ hi ∧ 0x80 ≤ b2 ∧ b2 ≤ 0xBF then validUtf8 r' else false
      | _ => false
    else if 0xF0 ≤ b0 ∧ b0 ≤ 0xF4 then
      match r with
      | b1 :: b2 :: b3 :: r' =>
        let lo : UInt8 := if b0 = 0xF0 then 0x90 else 0x80
        let hi : UInt8 := if b0 = 0xF4 then 0x8F else 0xBF
        if lo ≤ b1 ∧ b1 ≤ hi ∧ 0x80 ≤ b2 ∧ b2 ≤ 0xBF ∧ 0x80 ≤ b3 ∧ b3 ≤ 0xBF then validUtf8 r' else false
      | _ => false
    else false

/-! ### the ITS messages -/

structure Transfer where
  tokenId : Bytes
  source : Bytes
  dest : Bytes
  amount : Int
  data : Option Bytes
deriving DecidableEq, Repr

structure Deploy where
  tokenId : Bytes
  name : Bytes
  symbol : Bytes
  decimals : Nat
  minter : Option Bytes
deriving DecidableEq, Repr

inductive Msg where
  | transfer (t : Transfer)
  | deploy (d : Deploy)
deriving DecidableEq, Repr

inductive HubMsg where
  | sendToHub (chain : Bytes) (m : Msg)
  | receiveFromHub (chain : Bytes) (m : Msg)
deriving DecidableEq, Repr

inductive Err where
  | insufficientMessageLength | invalidMessageType | abiDecodeFailed | invalidAmount | invalidUtf8
  | panicNegativeAmount        -- `amount.try_into().expect(..)` in abi_encode
deriving DecidableEq, Repr

/-- `into_vec`: an absent optional byte field is encoded as empty bytes -/
def optBytes (o : Option Bytes) : Bytes := o.getD []
/-- `from_vec`: empty bytes read back as absent -/
def ofBytesOpt (b : Bytes) : Option Bytes := if b.isEmpty then none else some b

def transferFields (t : Transfer) : List Field :=
  [.w (word 0), .w t.tokenId, .d t.source, .d t.dest, .w (word t.amount.toNat), .d (optBytes t.data)]

def deployFields (d : Deploy) : List Field :=
  [.w (word 1), .w d.tokenId, .d d.name, .d d.symbol, .w (word d.decimals), .d (optBytes d.minter)]

def transferKinds : List Bool := [false, false, true, true, false, true]
def deployKinds : List Bool := [false, false, true, true, false, true]
def hubKinds : List Bool := [false, true, true]

/-- `Message::abi_encode` -/
def encodeMsg : Msg → Except Err Bytes
  | .transfer t => if t.amount < 0 then .error .panicNegativeAmount else .ok (encodeSeq (transferFields t))
  | .deploy d =>
    if !validUtf8 d.name ∨ !validUtf8 d.symbol then .error .invalidUtf8
    else .ok (encodeSeq (deployFields d))

/-- `HubMessage::abi_encode` -/
def encodeHub : HubMsg → Except Err Bytes
  | .sendToHub chain m =>
    if !validUtf8 chain then .error .invalidUtf8
    else match encodeMsg m with
      | .error e => .error e
      | .ok inner => .ok (encodeSeq [.w (word 3), .d chain, .d inner])
  | .receiveFromHub chain m =>
    if !validUtf8 chain then .error .invalidUtf8
    else match encodeMsg m with
      | .error e => .error e
      | .ok inner => .ok (encodeSeq [.w (word 4), .d chain, .d inner])

/-- `get_message_type`: at least one word, and that word is a valid enum value (0..4, upper bytes zero) -/
def messageType (b : Bytes) : Except Err Nat :=
  if b.length < 32 then .error .insufficientMessageLength
  else if ofBE (b.take 32) < 5 then .ok (ofBE (b.take 32)) else .error .invalidMessageType

/-- `to_i128`: the upper 128 bits are zero and the sign bit is clear -/
def toI128 (w : Bytes) : Except Err Int :=
  if ofBE w < 2 ^ 127 then .ok (ofBE w) else .error .invalidAmount

/-- `Message::abi_decode` -/
def decodeMsg (b : Bytes) : Except Err Msg :=
  match messageType b with
  | .error e => .error e
  | .ok ty =>
    if ty = 0 then
      match decodeSeq transferKinds b with
      | some [.w _, .w tid, .d src, .d dst, .w amt, .d data] =>
        match toI128 amt with
        | .error e => .error e
        | .ok a => .ok (.transfer ⟨tid, src, dst, a, ofBytesOpt data⟩)
      | _ => .error .abiDecodeFailed
    else if ty = 1 then
      match decodeSeq deployKinds b with
      | some [.w _, .w tid, .d name, .d symbol, .w dec, .d minter] =>
        -- alloy type check: `string` fields must be UTF-8, `uint8` must fit
        if !validUtf8 name ∨ !validUtf8 symbol ∨ ofBE dec ≥ 256 then .error .abiDecodeFailed
        else .ok (.deploy ⟨tid, name, symbol, ofBE dec, ofBytesOpt minter⟩)
      | _ => .error .abiDecodeFailed
    else .error .invalidMessageType

/-- `HubMessage::abi_decode` -/
def decodeHub (b : Bytes) : Except Err HubMsg :=
  match messageType b with
  | .error e => .error e
  | .ok ty =>
    if ty = 3 ∨ ty = 4 then
      match decodeSeq hubKinds b with
      | some [.w _, .d chain, .d inner] =>
        if !validUtf8 chain then .error .abiDecodeFailed
        else match decodeMsg inner with
          | .error e => .error e
          | .ok m => .ok (if ty = 3 then .sendToHub chain m else .receiveFromHub chain m)
      | _ => .error .abiDecodeFailed
    else .error .invalidMessageType

/-- a dynamic length word that makes alloy 0.8.14's decoder overflow `usize` arithmetic (native: 64 bit) instead of
    returning an error: upper 24 bytes zero and `next_multiple_of_32(len) + 32 ≥ 2^64`.  Only used by the driver to
    recognise the known finding; the model's verdict is "rejected" either way. -/
def lenOverflows64 (len : Nat) : Bool := len < 2 ^ 64 && len + 63 ≥ 2 ^ 64

/-! ### declarative side: well-formed and normalised messages -/

def Msg.wf : Msg → Prop
  | .transfer t => t.tokenId.length = 32 ∧ 0 ≤ t.amount ∧ t.amount < 2 ^ 127
  | .deploy d => d.tokenId.length = 32 ∧ validUtf8 d.name = true ∧ validUtf8 d.symbol = true ∧ d.decimals < 256

/-- an empty optional byte field reads back as absent -/
def normOpt : Option Bytes → Option Bytes
  | some [] => none
  | o => o

def Msg.normalize : Msg → Msg
  | .transfer t => .transfer { t with data := normOpt t.data }
  | .deploy d => .deploy { d with minter := normOpt d.minter }

def HubMsg.normalize : HubMsg → HubMsg
  | .sendToHub c m => .sendToHub c m.normalize
  | .receiveFromHub c m => .receiveFromHub c m.normalize

def HubMsg.wf : HubMsg → Prop
  | .sendToHub c m => validUtf8 c = true ∧ m.wf
  | .receiveFromHub c m => validUtf8 c = true ∧ m.wf

end Cgp.Abi
