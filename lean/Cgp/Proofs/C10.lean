/-
  Helper lemmas and proofs for Cgp.Props.C10 (ABI codec).
-/
import Cgp.Abi
namespace Cgp.Proofs.C10
open Cgp Cgp.Abi

/-! ### generic head/tail codec -/

theorem encAux_heads_length (fs : List Field) (off : Nat) (h : ∀ f ∈ fs, f.WF) :
    (encAux fs off).1.length = 32 * fs.length := by
  induction fs generalizing off with
  | nil => rfl
  | cons f fs ih =>
    cases f with
    | w x =>
      have hx : x.length = 32 := h (.w x) (by simp)
      simp only [encAux, List.length_append, List.length_cons]
      rw [ih off (fun f hf => h f (by simp [hf]))]; omega
    | d b =>
      simp only [encAux, List.length_append, List.length_cons, word_length]
      rw [ih _ (fun f hf => h f (by simp [hf]))]; omega

theorem readTail (b rest : Bytes) (hb : b.length < 256 ^ 32) :
    ¬ ((tailOf b ++ rest).length < 32) ∧
    ofBE ((tailOf b ++ rest).take 32) = b.length ∧
    ¬ (((tailOf b ++ rest).drop 32).length < b.length) ∧
    ((tailOf b ++ rest).drop 32).take b.length = b := by
  have ht : (tailOf b ++ rest).take 32 = word b.length := by
    simp only [tailOf, List.append_assoc]; rw [← word_length b.length]; simp
  have hd : (tailOf b ++ rest).drop 32 = b ++ (List.replicate (padTo32 b.length) 0 ++ rest) := by
    simp only [tailOf, List.append_assoc]; rw [← word_length b.length]; simp
  refine ⟨?_, ?_, ?_, ?_⟩
  · simp [tailOf, word_length]
  · rw [ht]; exact ofBE_beN 32 _ hb
  · rw [hd]; simp
  · rw [hd]; simp

/-- Core lemma: if `whole = pre ++ tails ++ post` with `pre.length = off`, parsing the heads of `fs` recovers `fs`. -/
theorem parseAux_encAux (fs : List Field) (off : Nat) (pre post hrest : Bytes)
    (hwf : ∀ f ∈ fs, f.WF) (hpre : pre.length = off)
    (hoff : off + (encAux fs off).2.length < 256 ^ 32) :
    parseAux (fs.map kindOf) ((encAux fs off).1 ++ hrest) (pre ++ (encAux fs off).2 ++ post) = some fs := by
  induction fs generalizing off pre with
  | nil => rfl
  | cons f fs ih =>
    cases f with
    | w x =>
      have hx : x.length = 32 := hwf (.w x) (by simp)
      have hwf' : ∀ f ∈ fs, f.WF := fun f hf => hwf f (by simp [hf])
      simp only [encAux, List.map_cons, kindOf, parseAux, List.append_assoc]
      have : ¬ ((x ++ ((encAux fs off).1 ++ hrest)).length < 32) := by simp; omega
      rw [if_neg this]
      have hd : (x ++ ((encAux fs off).1 ++ hrest)).drop 32 = (encAux fs off).1 ++ hrest := by
        rw [← hx]; simp
      have ht : (x ++ ((encAux fs off).1 ++ hrest)).take 32 = x := by
        rw [← hx]; simp
      rw [hd, ht]
      have := ih off pre hwf' hpre (by simpa [encAux] using hoff)
      simp only [List.append_assoc] at this
      rw [this]
    | d b =>
      have hb : b.length < 256 ^ 32 := hwf (.d b) (by simp)
      have hwf' : ∀ f ∈ fs, f.WF := fun f hf => hwf f (by simp [hf])
      simp only [encAux, List.map_cons, kindOf, parseAux, List.append_assoc] at hoff ⊢
      have hlen : ¬ ((word off ++ ((encAux fs (off + (tailOf b).length)).1 ++ hrest)).length < 32) := by
        simp [word_length]
      rw [if_neg hlen]
      have hd : (word off ++ ((encAux fs (off + (tailOf b).length)).1 ++ hrest)).drop 32
          = (encAux fs (off + (tailOf b).length)).1 ++ hrest := by
        rw [← word_length off]; simp
      have ht : (word off ++ ((encAux fs (off + (tailOf b).length)).1 ++ hrest)).take 32 = word off := by
        rw [← word_length off]; simp
      rw [hd, ht]
      have hoffv : ofBE (word off) = off := ofBE_beN 32 off (by simp at hoff; omega)
      simp only [hoffv]
      have hdrop : (pre ++ (tailOf b ++ ((encAux fs (off + (tailOf b).length)).2 ++ post))).drop off
          = tailOf b ++ ((encAux fs (off + (tailOf b).length)).2 ++ post) := by
        rw [← hpre]; simp
      rw [hdrop]
      obtain ⟨r1, r2, r3, r4⟩ := readTail b ((encAux fs (off + (tailOf b).length)).2 ++ post) hb
      rw [if_neg r1]
      simp only [r2]
      rw [if_neg r3, r4]
      have := ih (off + (tailOf b).length) (pre ++ tailOf b) hwf' (by simp [hpre]) (by
        simp only [List.length_append] at hoff ⊢; omega)
      simp only [List.append_assoc] at this
      rw [this]

theorem parse_encode (fs : List Field) (hwf : ∀ f ∈ fs, f.WF)
    (hsz : (encodeSeq fs).length < 256 ^ 32) :
    parseAux (fs.map kindOf) (encodeSeq fs) (encodeSeq fs) = some fs := by
  unfold encodeSeq at *
  have hh := encAux_heads_length fs (32 * fs.length) hwf
  have := parseAux_encAux fs (32 * fs.length) (encAux fs (32 * fs.length)).1 [] (encAux fs (32 * fs.length)).2 hwf hh
    (by simp only [List.length_append] at hsz; omega)
  simpa using this

theorem decodeSeq_encodeSeq (fs : List Field) (hwf : ∀ f ∈ fs, f.WF) (hsz : (encodeSeq fs).length < 256 ^ 32) :
    decodeSeq (fs.map kindOf) (encodeSeq fs) = some fs := by
  unfold decodeSeq
  rw [parse_encode fs hwf hsz]
  simp

theorem parseAux_shape (ks : List Bool) (heads whole : Bytes) (fs : List Field)
    (h : parseAux ks heads whole = some fs) :
    fs.map kindOf = ks ∧ (∀ f ∈ fs, ∀ x, f = .w x → x.length = 32) := by
  induction ks generalizing heads fs with
  | nil =>
    simp only [parseAux, Option.some.injEq] at h
    subst h; simp
  | cons k ks ih =>
    cases k with
    | false =>
      simp only [parseAux] at h
      split at h
      · contradiction
      · rename_i hl
        split at h
        · contradiction
        · rename_i fs' hp
          simp only [Option.some.injEq] at h
          subst h
          obtain ⟨h1, h2⟩ := ih _ _ hp
          refine ⟨by simp [kindOf, h1], ?_⟩
          intro f hf x hx
          rcases List.mem_cons.mp hf with rfl | hf
          · injection hx with hx; subst hx
            simp; omega
          · exact h2 f hf x hx
    | true =>
      simp only [parseAux] at h
      split at h
      · contradiction
      · split at h
        · contradiction
        · split at h
          · contradiction
          · split at h
            · contradiction
            · rename_i fs' hp
              simp only [Option.some.injEq] at h
              subst h
              obtain ⟨h1, h2⟩ := ih _ _ hp
              refine ⟨by simp [kindOf, h1], ?_⟩
              intro f hf x hx
              rcases List.mem_cons.mp hf with rfl | hf
              · cases hx
              · exact h2 f hf x hx

theorem decodeSeq_canonical (ks : List Bool) (b : Bytes) (fs : List Field) (h : decodeSeq ks b = some fs) :
    encodeSeq fs = b ∧ fs.map kindOf = ks ∧ (∀ f ∈ fs, ∀ x, f = .w x → x.length = 32) := by
  unfold decodeSeq at h
  split at h
  · contradiction
  · rename_i fs' hp
    split at h
    · rename_i he
      simp only [Option.some.injEq] at h
      subst h
      exact ⟨he, parseAux_shape _ _ _ _ hp⟩
    · contradiction

/-! ### small facts -/

theorem ofBE_word (n : Nat) (h : n < 256 ^ 32) : ofBE (word n) = n := ofBE_beN 32 n h

theorem word_ofBE (w : Bytes) (h : w.length = 32) : word (ofBE w) = w := by
  unfold word; rw [← h]; exact beN_ofBE w

theorem optBytes_ofBytesOpt (b : Bytes) : optBytes (ofBytesOpt b) = b := by
  cases b <;> simp [ofBytesOpt, optBytes]

theorem ofBytesOpt_optBytes (o : Option Bytes) : ofBytesOpt (optBytes o) = normOpt o := by
  cases o with
  | none => simp [ofBytesOpt, optBytes, normOpt]
  | some b => cases b <;> simp [ofBytesOpt, optBytes, normOpt]

theorem normOpt_ofBytesOpt (b : Bytes) : normOpt (ofBytesOpt b) = ofBytesOpt b := by
  cases b <;> simp [ofBytesOpt, normOpt]

theorem encodeSeq_w_cons (x : Bytes) (fs : List Field) : ∃ r, encodeSeq (.w x :: fs) = x ++ r := by
  simp only [encodeSeq, encAux]
  exact ⟨_, List.append_assoc _ _ _⟩

theorem encodeSeq_take32 (x : Bytes) (fs : List Field) (hx : x.length = 32) :
    (encodeSeq (.w x :: fs)).take 32 = x := by
  obtain ⟨r, hr⟩ := encodeSeq_w_cons x fs
  rw [hr, ← hx]; simp

theorem encodeSeq_w_length (x : Bytes) (fs : List Field) (hx : x.length = 32) :
    32 ≤ (encodeSeq (.w x :: fs)).length := by
  obtain ⟨r, hr⟩ := encodeSeq_w_cons x fs
  rw [hr]; simp; omega

theorem encAux_tail_ge (fs : List Field) (off : Nat) (b : Bytes) (h : Field.d b ∈ fs) :
    b.length ≤ (encAux fs off).2.length := by
  induction fs generalizing off with
  | nil => cases h
  | cons f fs ih =>
    cases f with
    | w x =>
      simp only [encAux]
      rcases List.mem_cons.mp h with h | h
      · cases h
      · exact ih off h
    | d c =>
      simp only [encAux, List.length_append]
      rcases List.mem_cons.mp h with h | h
      · injection h with h; subst h
        simp [tailOf]; omega
      · have := ih (off + (tailOf c).length) h
        omega

theorem wf_of_size (fs : List Field) (hw : ∀ x, Field.w x ∈ fs → x.length = 32)
    (hsz : (encodeSeq fs).length < 256 ^ 32) : ∀ f ∈ fs, f.WF := by
  intro f hf
  cases f with
  | w x => exact hw x hf
  | d b =>
    have := encAux_tail_ge fs (32 * fs.length) b hf
    simp only [encodeSeq, List.length_append] at hsz
    simp only [Field.WF]
    omega

theorem messageType_of_take (b : Bytes) (n : Nat) (hlen : 32 ≤ b.length) (h : ofBE (b.take 32) = n) (hn : n < 5) :
    messageType b = .ok n := by
  unfold messageType
  rw [if_neg (by omega), h, if_pos hn]

theorem messageType_inv (b : Bytes) (n : Nat) (h : messageType b = .ok n) :
    32 ≤ b.length ∧ ofBE (b.take 32) = n := by
  unfold messageType at h
  split at h
  · cases h
  · split at h
    · injection h with h; exact ⟨by omega, h⟩
    · cases h

theorem messageType_encodeSeq (n : Nat) (fs : List Field) (hn : n < 5) :
    messageType (encodeSeq (.w (word n) :: fs)) = .ok n := by
  apply messageType_of_take _ _ (encodeSeq_w_length _ _ (word_length n)) _ hn
  rw [encodeSeq_take32 _ _ (word_length n)]
  exact ofBE_word n (by omega)

/-! ### computation lemmas for the decoders -/

theorem decodeMsg_transfer_eq (b x0 tid src dst amt data : Bytes) (hmt : messageType b = .ok 0)
    (hds : decodeSeq transferKinds b = some [.w x0, .w tid, .d src, .d dst, .w amt, .d data]) :
    decodeMsg b = (match toI128 amt with
      | .error e => .error e
      | .ok a => .ok (.transfer ⟨tid, src, dst, a, ofBytesOpt data⟩)) := by
  unfold decodeMsg
  rw [hmt]
  simp only [hds, if_true]
  cases toI128 amt <;> rfl

theorem decodeMsg_deploy_eq (b x0 tid name symbol dec minter : Bytes) (hmt : messageType b = .ok 1)
    (hds : decodeSeq deployKinds b = some [.w x0, .w tid, .d name, .d symbol, .w dec, .d minter]) :
    decodeMsg b = (if !validUtf8 name ∨ !validUtf8 symbol ∨ ofBE dec ≥ 256 then .error .abiDecodeFailed
        else .ok (.deploy ⟨tid, name, symbol, ofBE dec, ofBytesOpt minter⟩)) := by
  unfold decodeMsg
  rw [hmt]
  simp only [hds, Nat.one_ne_zero, if_false, if_true]

theorem decodeHub_eq (b x0 chain inner : Bytes) (ty : Nat) (hty : ty = 3 ∨ ty = 4) (hmt : messageType b = .ok ty)
    (hds : decodeSeq hubKinds b = some [.w x0, .d chain, .d inner]) :
    decodeHub b = (if !validUtf8 chain then .error .abiDecodeFailed
        else match decodeMsg inner with
          | .error e => .error e
          | .ok m => .ok (if ty = 3 then .sendToHub chain m else .receiveFromHub chain m)) := by
  unfold decodeHub
  rw [hmt]
  simp only [hds, hty, if_true]
  cases decodeMsg inner <;> rfl

/-! ### inversion of the decoders -/

theorem decodeMsg_inv (b : Bytes) (m : Msg) (h : decodeMsg b = .ok m) :
    (∃ x0 tid src dst amt data, messageType b = .ok 0 ∧
        decodeSeq transferKinds b = some [.w x0, .w tid, .d src, .d dst, .w amt, .d data] ∧
        ofBE amt < 2 ^ 127 ∧ m = .transfer ⟨tid, src, dst, ((ofBE amt : Nat) : Int), ofBytesOpt data⟩) ∨
    (∃ x0 tid name symbol dec minter, messageType b = .ok 1 ∧
        decodeSeq deployKinds b = some [.w x0, .w tid, .d name, .d symbol, .w dec, .d minter] ∧
        validUtf8 name = true ∧ validUtf8 symbol = true ∧ ofBE dec < 256 ∧
        m = .deploy ⟨tid, name, symbol, ofBE dec, ofBytesOpt minter⟩) := by
  unfold decodeMsg at h
  split at h
  · cases h
  · rename_i ty hmt
    split at h
    · rename_i hty
      subst hty
      split at h
      · rename_i x0 tid src dst amt data hds
        left
        refine ⟨x0, tid, src, dst, amt, data, hmt, hds, ?_⟩
        unfold toI128 at h
        by_cases ha : ofBE amt < 2 ^ 127
        · simp only [ha, if_true] at h
          injection h with h
          exact ⟨ha, h.symm⟩
        · simp only [ha, if_false] at h
          cases h
      · cases h
    · split at h
      · rename_i hty
        subst hty
        split at h
        · rename_i x0 tid name symbol dec minter hds
          right
          refine ⟨x0, tid, name, symbol, dec, minter, hmt, hds, ?_⟩
          split at h
          · cases h
          · rename_i hc
            injection h with h
            simp only [Bool.not_eq_true', ge_iff_le, not_or, Bool.not_eq_false, Nat.not_le] at hc
            exact ⟨hc.1, hc.2.1, hc.2.2, h.symm⟩
        · cases h
      · cases h

theorem decodeHub_inv (b : Bytes) (hm : HubMsg) (h : decodeHub b = .ok hm) :
    ∃ ty x0 chain inner m, (ty = 3 ∨ ty = 4) ∧ messageType b = .ok ty ∧
      decodeSeq hubKinds b = some [.w x0, .d chain, .d inner] ∧ validUtf8 chain = true ∧
      decodeMsg inner = .ok m ∧ hm = (if ty = 3 then .sendToHub chain m else .receiveFromHub chain m) := by
  unfold decodeHub at h
  split at h
  · cases h
  · rename_i ty hmt
    split at h
    · rename_i hty
      split at h
      · rename_i x0 chain inner hds
        split at h
        · cases h
        · rename_i hc
          split at h
          · cases h
          · rename_i m hdm
            injection h with h
            simp only [Bool.not_eq_true', Bool.not_eq_false] at hc
            exact ⟨ty, x0, chain, inner, m, hty, hmt, hds, hc, hdm, h.symm⟩
      · cases h
    · cases h

/-! ### messages -/

theorem encodeMsg_ok_iff (m : Msg) :
    (∃ b, encodeMsg m = .ok b) ↔
      (match m with
       | .transfer t => 0 ≤ t.amount
       | .deploy d => validUtf8 d.name = true ∧ validUtf8 d.symbol = true) := by
  cases m with
  | transfer t =>
    simp only [encodeMsg]
    by_cases h : t.amount < 0
    · simp only [h, if_true]
      constructor
      · rintro ⟨b, hb⟩; cases hb
      · intro h'; omega
    · simp only [h, if_false]
      constructor
      · intro _; omega
      · intro _; exact ⟨_, rfl⟩
  | deploy d =>
    simp only [encodeMsg]
    by_cases h : (!validUtf8 d.name) = true ∨ (!validUtf8 d.symbol) = true
    · rw [if_pos h]
      constructor
      · rintro ⟨b, hb⟩; cases hb
      · intro h'
        simp only [h'.1, h'.2, Bool.not_true, Bool.false_eq_true, or_self] at h
    · rw [if_neg h]
      constructor
      · intro _
        simp only [Bool.not_eq_true', not_or, Bool.not_eq_false] at h
        exact h
      · intro _; exact ⟨_, rfl⟩

theorem toI128_word (n : Nat) (h : n < 2 ^ 127) : toI128 (word n) = .ok (n : Int) := by
  unfold toI128
  rw [ofBE_word n (by omega), if_pos h]

theorem decodeMsg_encodeMsg (m : Msg) (b : Bytes) (hwf : m.wf) (henc : encodeMsg m = .ok b) (hsz : b.length < 256 ^ 32) :
    decodeMsg b = .ok m.normalize := by
  cases m with
  | transfer t =>
    simp only [Msg.wf] at hwf
    obtain ⟨h1, h2, h3⟩ := hwf
    simp only [encodeMsg] at henc
    rw [if_neg (by omega)] at henc
    injection henc with henc; subst henc
    have hw : ∀ x, Field.w x ∈ transferFields t → x.length = 32 := by
      intro x hx
      simp only [transferFields, List.mem_cons, Field.w.injEq, reduceCtorEq, List.not_mem_nil, or_false, false_or] at hx
      rcases hx with hx | hx | hx
      · rw [hx]; exact word_length _
      · rw [hx]; exact h1
      · rw [hx]; exact word_length _
    have hfw : ∀ f ∈ transferFields t, f.WF := wf_of_size (transferFields t) hw hsz
    have hds := decodeSeq_encodeSeq (transferFields t) hfw hsz
    have hmt : messageType (encodeSeq (transferFields t)) = .ok 0 := messageType_encodeSeq 0 _ (by omega)
    rw [decodeMsg_transfer_eq _ (word 0) t.tokenId t.source t.dest (word t.amount.toNat) (optBytes t.data) hmt hds]
    have hn : t.amount.toNat < 2 ^ 127 := by omega
    rw [toI128_word _ hn]
    simp only [Msg.normalize, ofBytesOpt_optBytes, Int.toNat_of_nonneg h2]
  | deploy d =>
    simp only [Msg.wf] at hwf
    obtain ⟨h1, h2, h3, h4⟩ := hwf
    simp only [encodeMsg, h2, h3, Bool.not_true, Bool.false_eq_true, or_self, if_false] at henc
    injection henc with henc; subst henc
    have hw : ∀ x, Field.w x ∈ deployFields d → x.length = 32 := by
      intro x hx
      simp only [deployFields, List.mem_cons, Field.w.injEq, reduceCtorEq, List.not_mem_nil, or_false, false_or] at hx
      rcases hx with hx | hx | hx
      · rw [hx]; exact word_length _
      · rw [hx]; exact h1
      · rw [hx]; exact word_length _
    have hfw : ∀ f ∈ deployFields d, f.WF := wf_of_size (deployFields d) hw hsz
    have hds := decodeSeq_encodeSeq (deployFields d) hfw hsz
    have hmt : messageType (encodeSeq (deployFields d)) = .ok 1 := messageType_encodeSeq 1 _ (by omega)
    rw [decodeMsg_deploy_eq _ (word 1) d.tokenId d.name d.symbol (word d.decimals) (optBytes d.minter) hmt hds]
    have hdec : ofBE (word d.decimals) = d.decimals := ofBE_word _ (by omega)
    rw [hdec, if_neg (by simp only [h2, h3, Bool.not_true, Bool.false_eq_true, false_or]; omega)]
    simp only [Msg.normalize, ofBytesOpt_optBytes]

theorem decodeMsg_canonical (b : Bytes) (m : Msg) (h : decodeMsg b = .ok m) :
    encodeMsg m = .ok b ∧ m.wf ∧ m.normalize = m := by
  rcases decodeMsg_inv b m h with ⟨x0, tid, src, dst, amt, data, hmt, hds, ha, rfl⟩ |
    ⟨x0, tid, name, symbol, dec, minter, hmt, hds, hn, hs, hd, rfl⟩
  · obtain ⟨he, _, hw⟩ := decodeSeq_canonical _ _ _ hds
    have hx0 : x0.length = 32 := hw (.w x0) (by simp) x0 rfl
    have htid : tid.length = 32 := hw (.w tid) (by simp) tid rfl
    have hamt : amt.length = 32 := hw (.w amt) (by simp) amt rfl
    subst he
    obtain ⟨_, hty⟩ := messageType_inv _ _ hmt
    rw [encodeSeq_take32 _ _ hx0] at hty
    have hx0' : word 0 = x0 := by rw [← hty]; exact word_ofBE x0 hx0
    refine ⟨?_, ?_, ?_⟩
    · simp only [encodeMsg]
      rw [if_neg (by omega)]
      simp only [transferFields, Int.toNat_natCast, word_ofBE amt hamt, optBytes_ofBytesOpt, hx0']
    · simp only [Msg.wf]
      exact ⟨htid, by omega, by omega⟩
    · simp only [Msg.normalize, normOpt_ofBytesOpt]
  · obtain ⟨he, _, hw⟩ := decodeSeq_canonical _ _ _ hds
    have hx0 : x0.length = 32 := hw (.w x0) (by simp) x0 rfl
    have htid : tid.length = 32 := hw (.w tid) (by simp) tid rfl
    have hdec : dec.length = 32 := hw (.w dec) (by simp) dec rfl
    subst he
    obtain ⟨_, hty⟩ := messageType_inv _ _ hmt
    rw [encodeSeq_take32 _ _ hx0] at hty
    have hx0' : word 1 = x0 := by rw [← hty]; exact word_ofBE x0 hx0
    refine ⟨?_, ?_, ?_⟩
    · simp only [encodeMsg, hn, hs, Bool.not_true, Bool.false_eq_true, or_self, if_false]
      simp only [deployFields, word_ofBE dec hdec, optBytes_ofBytesOpt, hx0']
    · simp only [Msg.wf]
      exact ⟨htid, hn, hs, hd⟩
    · simp only [Msg.normalize, normOpt_ofBytesOpt]

theorem decodeMsg_iff (b : Bytes) (m : Msg) (hsz : b.length < 256 ^ 32) :
    decodeMsg b = .ok m ↔ (m.wf ∧ m.normalize = m ∧ encodeMsg m = .ok b) := by
  constructor
  · intro h
    obtain ⟨h1, h2, h3⟩ := decodeMsg_canonical b m h
    exact ⟨h2, h3, h1⟩
  · rintro ⟨h1, h2, h3⟩
    have := decodeMsg_encodeMsg m b h1 h3 hsz
    rw [h2] at this
    exact this

/-! ### hub messages -/

theorem hub_roundtrip (ty : Nat) (hty : ty = 3 ∨ ty = 4) (chain inner : Bytes) (m : Msg)
    (hc : validUtf8 chain = true) (hwf : m.wf) (hi : encodeMsg m = .ok inner)
    (hsz : (encodeSeq [.w (word ty), .d chain, .d inner]).length < 256 ^ 32) :
    decodeHub (encodeSeq [.w (word ty), .d chain, .d inner]) =
      .ok (if ty = 3 then .sendToHub chain m.normalize else .receiveFromHub chain m.normalize) := by
  have hw : ∀ x, Field.w x ∈ [Field.w (word ty), .d chain, .d inner] → x.length = 32 := by
    intro x hx
    simp only [List.mem_cons, Field.w.injEq, reduceCtorEq, List.not_mem_nil, or_false] at hx
    rw [hx]; exact word_length _
  have hfw := wf_of_size [Field.w (word ty), .d chain, .d inner] hw hsz
  have hds := decodeSeq_encodeSeq [Field.w (word ty), .d chain, .d inner] hfw hsz
  have hmt : messageType (encodeSeq [Field.w (word ty), .d chain, .d inner]) = .ok ty :=
    messageType_encodeSeq ty _ (by omega)
  have hil : inner.length < 256 ^ 32 := hfw (.d inner) (by simp)
  rw [decodeHub_eq _ (word ty) chain inner ty hty hmt hds]
  rw [decodeMsg_encodeMsg m inner hwf hi hil]
  simp only [hc, Bool.not_true, Bool.false_eq_true, if_false]

theorem decodeHub_encodeHub (m : HubMsg) (b : Bytes) (hwf : m.wf) (henc : encodeHub m = .ok b) (hsz : b.length < 256 ^ 32) :
    decodeHub b = .ok m.normalize := by
  cases m with
  | sendToHub chain m =>
    simp only [HubMsg.wf] at hwf
    obtain ⟨hc, hm⟩ := hwf
    cases hi : encodeMsg m with
    | error e =>
      simp only [encodeHub, hc, hi, Bool.not_true, Bool.false_eq_true, if_false] at henc
      cases henc
    | ok inner =>
      simp only [encodeHub, hc, hi, Bool.not_true, Bool.false_eq_true, if_false] at henc
      injection henc with henc; subst henc
      rw [hub_roundtrip 3 (Or.inl rfl) chain inner m hc hm hi hsz]
      simp only [HubMsg.normalize, if_true]
  | receiveFromHub chain m =>
    simp only [HubMsg.wf] at hwf
    obtain ⟨hc, hm⟩ := hwf
    cases hi : encodeMsg m with
    | error e =>
      simp only [encodeHub, hc, hi, Bool.not_true, Bool.false_eq_true, if_false] at henc
      cases henc
    | ok inner =>
      simp only [encodeHub, hc, hi, Bool.not_true, Bool.false_eq_true, if_false] at henc
      injection henc with henc; subst henc
      rw [hub_roundtrip 4 (Or.inr rfl) chain inner m hc hm hi hsz]
      simp only [HubMsg.normalize, Nat.reduceEqDiff, if_false]

theorem decodeHub_canonical (b : Bytes) (m : HubMsg) (h : decodeHub b = .ok m) :
    encodeHub m = .ok b ∧ m.wf ∧ m.normalize = m := by
  obtain ⟨ty, x0, chain, inner, im, hty, hmt, hds, hc, hdm, rfl⟩ := decodeHub_inv b m h
  obtain ⟨he, _, hw⟩ := decodeSeq_canonical _ _ _ hds
  have hx0 : x0.length = 32 := hw (.w x0) (by simp) x0 rfl
  subst he
  obtain ⟨_, hty'⟩ := messageType_inv _ _ hmt
  rw [encodeSeq_take32 _ _ hx0] at hty'
  have hx0' : word ty = x0 := by rw [← hty']; exact word_ofBE x0 hx0
  obtain ⟨hie, hiw, hin⟩ := decodeMsg_canonical inner im hdm
  rcases hty with rfl | rfl
  · simp only [if_true]
    refine ⟨?_, ?_, ?_⟩
    · simp only [encodeHub, hc, hie, Bool.not_true, Bool.false_eq_true, if_false, hx0']
    · exact ⟨hc, hiw⟩
    · simp only [HubMsg.normalize, hin]
  · simp only [Nat.reduceEqDiff, if_false]
    refine ⟨?_, ?_, ?_⟩
    · simp only [encodeHub, hc, hie, Bool.not_true, Bool.false_eq_true, if_false, hx0']
    · exact ⟨hc, hiw⟩
    · simp only [HubMsg.normalize, hin]

/-! ### rejections -/

theorem decoded_amount_in_range (b : Bytes) (t : Transfer) (h : decodeMsg b = .ok (.transfer t)) :
    0 ≤ t.amount ∧ t.amount < 2 ^ 127 := by
  obtain ⟨_, hwf, _⟩ := decodeMsg_canonical b _ h
  simp only [Msg.wf] at hwf
  exact ⟨hwf.2.1, hwf.2.2⟩

theorem unsupported_types_rejected (b : Bytes) (_hlen : 32 ≤ b.length) :
    (ofBE (b.take 32) ≠ 0 → ofBE (b.take 32) ≠ 1 → ∃ e, decodeMsg b = .error e) ∧
    (ofBE (b.take 32) ≠ 3 → ofBE (b.take 32) ≠ 4 → ∃ e, decodeHub b = .error e) := by
  constructor
  · intro h0 h1
    cases hd : decodeMsg b with
    | error e => exact ⟨e, rfl⟩
    | ok m =>
      exfalso
      rcases decodeMsg_inv b m hd with ⟨_, _, _, _, _, _, hmt, _⟩ | ⟨_, _, _, _, _, _, hmt, _⟩
      · exact h0 (messageType_inv _ _ hmt).2
      · exact h1 (messageType_inv _ _ hmt).2
  · intro h3 h4
    cases hd : decodeHub b with
    | error e => exact ⟨e, rfl⟩
    | ok m =>
      exfalso
      obtain ⟨ty, _, _, _, _, hty, hmt, _⟩ := decodeHub_inv b m hd
      have := (messageType_inv _ _ hmt).2
      rcases hty with rfl | rfl
      · exact h3 this
      · exact h4 this

theorem short_input_rejected (b : Bytes) (hlen : b.length < 32) :
    (∃ e, decodeMsg b = .error e) ∧ (∃ e, decodeHub b = .error e) := by
  have hmt : messageType b = .error .insufficientMessageLength := by
    unfold messageType; rw [if_pos hlen]
  constructor
  · exact ⟨_, by unfold decodeMsg; rw [hmt]⟩
  · exact ⟨_, by unfold decodeHub; rw [hmt]⟩

theorem trailing_bytes_rejected (b extra : Bytes) (m : Msg) (h : decodeMsg b = .ok m) (hne : extra ≠ []) :
    decodeMsg (b ++ extra) ≠ .ok m := by
  intro h'
  have h1 := (decodeMsg_canonical _ _ h).1
  have h2 := (decodeMsg_canonical _ _ h').1
  rw [h1] at h2
  injection h2 with h2
  have : extra = [] := by
    have := congrArg List.length h2
    simp only [List.length_append] at this
    exact List.length_eq_zero_iff.mp (by omega)
  exact hne this

end Cgp.Proofs.C10
