import Cgp.Token
import Cgp.Props.C12
namespace Cgp.Proofs.C07
open Cgp Cgp.Xdr

/-- every positive entry of `st'` is dominated by an entry of `st` with the same expiration -/
def AllowLe (st' st : Token.State) : Prop :=
  ∀ f s al', st'.allow f s = some al' → 0 < al'.amount →
    ∃ al, st.allow f s = some al ∧ al.expiration = al'.expiration ∧ al'.amount ≤ al.amount

theorem allowLe_of_eq {st' st : Token.State} (h : st'.allow = st.allow) : AllowLe st' st := by
  intro f s al' h1 _
  exact ⟨al', by rw [← h]; exact h1, rfl, Int.le_refl _⟩

theorem spendAllowance_le {st st1 : Token.State} {c : Token.Ctx} {src spender : Addr} {amount : Int}
    (h : Token.spendAllowance st c src spender amount = .ok st1) : AllowLe st1 st := by
  unfold Token.spendAllowance at h
  simp only at h
  split at h
  · cases h
  · split at h
    · rename_i hpos
      obtain ⟨_, rfl⟩ := Cgp.Props.C12.writeAllowance_ok h
      intro f s al' h1 hp
      simp only at h1
      split at h1
      · rename_i hfs
        obtain ⟨rfl, rfl⟩ := hfs
        cases h1
        simp only at hp ⊢
        unfold Token.readAllowance at hp ⊢
        cases hst : st.allow f s with
        | none => rw [hst] at hp; simp only at hp; omega
        | some a =>
          rw [hst] at hp
          simp only at hp ⊢
          split at hp
          · simp only at hp; omega
          · rename_i hlive
            rw [if_neg hlive]
            exact ⟨a, rfl, rfl, by omega⟩
      · exact ⟨al', h1, rfl, Int.le_refl _⟩
    · cases h
      exact allowLe_of_eq rfl

/-- one successful call: either it is the holder's own approve writing exactly this entry, or every positive entry
    afterwards is dominated by an entry before -/
theorem apply_allow (st st' : Token.State) (c : Token.Ctx) (op : Token.Op) (evs : List Token.Event)
    (h : Token.apply st c op = .ok (st', evs)) (f s : Addr) (al' : Token.Allowance)
    (hal : st'.allow f s = some al') (hp : 0 < al'.amount) :
    (∃ al, st.allow f s = some al ∧ al.expiration = al'.expiration ∧ al'.amount ≤ al.amount) ∨
    (op = .approve f s al'.amount al'.expiration ∧ f ∈ c.auths) := by
  cases op with
  | mintFrom m t x =>
    exact Or.inl (allowLe_of_eq (Cgp.Props.C12.mintFrom_exact _ _ _ _ _ _ _ h).2.2.2.2.2.1 f s al' hal hp)
  | mint t x =>
    exact Or.inl (allowLe_of_eq (Cgp.Props.C12.mintFrom_exact _ _ _ _ _ _ _ h).2.2.2.2.2.1 f s al' hal hp)
  | addMinter m =>
    obtain ⟨_, rfl⟩ := Cgp.Props.C12.addMinter_ok h
    exact Or.inl (allowLe_of_eq rfl f s al' hal hp)
  | removeMinter m =>
    obtain ⟨_, rfl⟩ := Cgp.Props.C12.removeMinter_ok h
    exact Or.inl (allowLe_of_eq rfl f s al' hal hp)
  | transferOwnership n =>
    obtain ⟨_, rfl, _⟩ := Cgp.Props.C12.transferOwnership_ok h
    exact Or.inl (allowLe_of_eq rfl f s al' hal hp)
  | approve src sp x e =>
    obtain ⟨hau, _, _, rfl, _⟩ := Cgp.Props.C12.approve_exact' _ _ _ _ _ _ _ _ h
    simp only at hal
    split at hal
    · rename_i hfs
      obtain ⟨rfl, rfl⟩ := hfs
      cases hal
      exact Or.inr ⟨rfl, hau⟩
    · exact Or.inl ⟨al', hal, rfl, Int.le_refl _⟩
  | transfer src d x =>
    exact Or.inl (allowLe_of_eq (Cgp.Props.C12.transfer_exact _ _ _ _ _ _ _ h).2.2.2.2.2.2.1 f s al' hal hp)
  | burn src x =>
    exact Or.inl (allowLe_of_eq (Cgp.Props.C12.burn_exact _ _ _ _ _ _ h).2.2.2.2.2.1 f s al' hal hp)
  | transferFrom p src d x =>
    simp only [Token.apply] at h
    unfold Token.transferFrom at h
    split at h
    · cases h
    split at h
    · cases h
    split at h
    · cases h
    rename_i st0 h0
    split at h
    · cases h
    rename_i st1 h1
    split at h
    · cases h
    rename_i st2 h2
    cases h
    obtain ⟨_, rfl⟩ := Cgp.Props.C12.spendBalance_ok h1
    have := Cgp.Props.C12.receiveBalance_ok h2
    subst this
    exact Or.inl (spendAllowance_le h0 f s al' hal hp)
  | burnFrom p src x =>
    simp only [Token.apply] at h
    unfold Token.burnFrom at h
    split at h
    · cases h
    split at h
    · cases h
    split at h
    · cases h
    rename_i st0 h0
    split at h
    · cases h
    rename_i st1 h1
    cases h
    obtain ⟨_, rfl⟩ := Cgp.Props.C12.spendBalance_ok h1
    exact Or.inl (spendAllowance_le h0 f s al' hal hp)
  | upgradeMigrate =>
    cases (Token.apply_upgradeMigrate_ok _ _ _ h).1
    exact Or.inl (allowLe_of_eq rfl f s al' hal hp)

end Cgp.Proofs.C07
