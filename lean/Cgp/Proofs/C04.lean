import Cgp.ItsOps
import Cgp.Props.C10
namespace Cgp.Proofs.C04
open Cgp Cgp.Xdr Cgp.Its

variable (H S : Bytes → Bytes) (k : Consts)

theorem tokTransfer_gw {st : State} {token src dst amount au st'} (h : tokTransfer st token src dst amount au = .ok st') :
    st'.gw = st.gw := by
  unfold tokTransfer at h
  split at h
  · cases h
  · split at h
    · cases h
    · extract_lets b1 at h
      split at h
      · cases h
      · cases h; rfl

theorem tokBurn_gw {st : State} {token src amount au st'} (h : tokBurn st token src amount au = .ok st') :
    st'.gw = st.gw := by
  unfold tokBurn at h
  split at h
  · cases h
  · split at h
    · cases h
    · split at h
      · cases h
      · cases h; rfl

theorem tokMint_gw {st : State} {token dst amount st'} (h : tokMintByService st token dst amount = .ok st') :
    st'.gw = st.gw := by
  unfold tokMintByService at h
  split at h
  · cases h
  · split at h
    · cases h
    · split at h
      · cases h
      · cases h; rfl

theorem deployTok_gw {st : State} {m tid name symbol dec r} (h : deployTokenContract S k st m tid name symbol dec = .ok r) :
    r.1.gw = st.gw := by
  unfold deployTokenContract at h
  dsimp only at h
  split at h
  · cases h
  · split at h
    · cases h
    · cases h; rfl

theorem deployIT_gw {st : State} {au ca sa n sy d su m r}
    (h : deployInterchainToken H S k st au ca sa n sy d su m = .ok r) : r.1.gw = st.gw := by
  unfold deployInterchainToken at h
  split at h
  · cases h
  · dsimp only at h
    split at h
    · cases h
    · split at h
      · cases h
      · rename_i hd
        have h1 := deployTok_gw S k hd
        dsimp only at h1
        split at h
        · cases h
        · rename_i ha
          cases h
          dsimp only
          rw [← h1]
          split at ha
          · split at ha
            · cases ha
            · rename_i hm
              have h2 := tokMint_gw hm
              split at ha
              · split at ha
                · cases ha; exact h2
                · cases ha
              · cases ha; exact h2
          · cases ha; rfl

theorem payGas_gw {st : State} {sp spa dc msg gt ga r}
    (h : payGasAndCall H k st sp spa dc msg gt ga = .ok r) : r.1.gw = st.gw := by
  unfold payGasAndCall at h
  split at h
  · cases h
  · split at h
    · cases h
    · cases h
    · split at h
      · cases h
      · split at h
        · cases h
        · split at h
          · cases h
          · rename_i ht
            cases h
            exact tokTransfer_gw ht

theorem deployRemote_gw {st : State} {sp spa ds dc gt ga r}
    (h : deployRemoteToken H k st sp spa ds dc gt ga = .ok r) : r.1.gw = st.gw := by
  unfold deployRemoteToken at h
  dsimp only at h
  split at h
  · cases h
  · split at h
    · cases h
    · split at h
      · cases h
      · split at h
        · cases h
        · rename_i hp
          cases h
          exact payGas_gw H k hp

theorem interchainTransfer_gw {st : State} {au ca tid dc da am dt gt ga r}
    (h : interchainTransfer H k st au ca tid dc da am dt gt ga = .ok r) : r.1.gw = st.gw := by
  unfold interchainTransfer at h
  split at h
  · cases h
  · split at h
    · cases h
    · split at h
      · cases h
      · dsimp only at h
        split at h
        · cases h
        · rename_i ht
          split at h
          · cases h
          · rename_i hp
            cases h
            have := payGas_gw H k hp
            dsimp only at this ⊢
            rw [this]
            split at ht
            · exact tokBurn_gw ht
            · exact tokTransfer_gw ht

/-- the approvals map after consuming `(c, i)` -/
def consumed (g : Gateway.State) (c i : Bytes) : Gateway.State :=
  { g with approvals := fun c' i' => if c' = c ∧ i' = i then .executed else g.approvals c' i' }

/-- inversion of a successful `execute` -/
theorem execute_inv {st : State} {c i sa payload : Bytes} {r : State × List Event}
    (h : execute H S k st c i sa payload = .ok r) :
    st.gw.approvals c i = .approved (Gateway.messageHash H
      { sourceChain := c, messageId := i, sourceAddress := sa, contract := st.self, payloadHash := H payload }) ∧
    Abi.messageType payload = .ok 4 ∧
    c = k.hubChain ∧
    r.1.gw = consumed st.gw c i ∧
    ∃ origin inner, Abi.decodeHub payload = .ok (.receiveFromHub origin inner) ∧
      st.trusted origin = true ∧
      (match inner with
       | .transfer t => (st.registry t.tokenId).isSome = true ∧ (addrFromXdr t.dest).isSome = true
       | .deploy d => st.registry d.tokenId = none ∧ validMetadata d.name d.symbol d.decimals = true ∧
                      (∀ m, d.minter = some m → (addrFromXdr m).isSome = true)) := by
  unfold execute at h
  split at h
  · cases h
  · cases h
  · rename_i gw' gwEvs hv
    unfold Gateway.validateMessage at hv
    split at hv
    · cases hv
    · dsimp only at hv
      split at hv
      · rename_i happ
        cases hv
        dsimp only at h
        split at h
        · cases h
        · cases h
        · split at h
          · cases h
          · split at h
            · cases h
            · rename_i ty hty hty4 hc
              split at h
              · cases h
              · cases h
              · rename_i origin inner hdec
                split at h
                · cases h
                · rename_i htr
                  have hty' : ty = 4 := by simpa using hty4
                  have hc' : c = k.hubChain := by simpa using hc
                  have htr' : st.trusted origin = true := by simpa using htr
                  subst hty'
                  refine ⟨happ, hty, hc', ?_, origin, inner, hdec, htr', ?_⟩
                  · split at h
                    · split at h
                      · cases h
                      · split at h
                        · cases h
                        · split at h
                          · cases h
                          · rename_i st2 hg
                            have : st2.gw = consumed st.gw c i := by
                              split at hg
                              · exact tokMint_gw hg
                              · exact tokTransfer_gw hg
                            split at h
                            · cases h; exact this
                            · split at h
                              · cases h; exact this
                              · cases h
                    · split at h
                      · cases h
                      · split at h
                        · cases h
                        · split at h
                          · cases h
                          · split at h
                            · cases h
                            · rename_i hd
                              cases h
                              exact deployTok_gw S k hd
                  · split at h
                    · split at h
                      · cases h
                      · rename_i hdest
                        split at h
                        · cases h
                        · rename_i hreg
                          simp [hdest, hreg]
                    · split at h
                      · cases h
                      · rename_i hreg
                        split at h
                        · cases h
                        · rename_i hmeta
                          split at h
                          · cases h
                          · rename_i hmin
                            refine ⟨by simpa using hreg, by simpa using hmeta, ?_⟩
                            intro m hm
                            rw [hm] at hmin
                            dsimp only at hmin
                            split at hmin
                            · rename_i hx; simp [hx]
                            · cases hmin
      · cases hv

/-! ### independence of the hub address -/

def setHub (o : Bytes) (s : State) : State := { s with hubAddress := o }

def liftS (o : Bytes) : Except Err State → Except Err State
  | .ok s => .ok (setHub o s)
  | .error e => .error e

theorem tokTransfer_hub (o : Bytes) (st : State) (t s d : Addr) (a : Int) (au : Bool) :
    tokTransfer (setHub o st) t s d a au = liftS o (tokTransfer st t s d a au) := by
  unfold tokTransfer setHub
  dsimp only
  split
  · rfl
  · split
    · rfl
    · split <;> (split <;> rfl)

theorem tokMint_hub (o : Bytes) (st : State) (t d : Addr) (a : Int) :
    tokMintByService (setHub o st) t d a = liftS o (tokMintByService st t d a) := by
  unfold tokMintByService setHub
  dsimp only
  split
  · rfl
  · split
    · rfl
    · split <;> rfl

def liftD (o : Bytes) : Except Err (State × Addr × Event) → Except Err (State × Addr × Event)
  | .ok (s, a, e) => .ok (setHub o s, a, e)
  | .error e => .error e

theorem deployTok_hub (o : Bytes) (st : State) (m : Option Addr) (tid n sy : Bytes) (d : Nat) :
    deployTokenContract S k (setHub o st) m tid n sy d = liftD o (deployTokenContract S k st m tid n sy d) := by
  unfold deployTokenContract setHub
  dsimp only
  split
  · rfl
  · split <;> rfl

def liftE (o : Bytes) : Except Err (State × List Event) → Except Err (State × List Event)
  | .ok (s, e) => .ok (setHub o s, e)
  | .error e => .error e

/-- the part of `execute` after the gateway validation (verbatim) -/
def body (st st0 : State) (gwEvents : List Event) (srcChain msgId payload : Bytes) : Except Err (State × List Event) :=
    match Abi.messageType payload with
    | .error .insufficientMessageLength => .error .insufficientMessageLength
    | .error _ => .error .invalidMessageType
    | .ok ty =>
      if ty ≠ 4 then .error .invalidMessageType
      else if srcChain ≠ k.hubChain then .error .invalidHubChain
      else match Abi.decodeHub payload with
        | .error _ => .error .abiDecodeFailed
        | .ok (.sendToHub _ _) => .error .invalidMessageType
        | .ok (.receiveFromHub origin inner) =>
          if !st0.trusted origin then .error .untrustedChain
          else match inner with
            | .transfer t =>
              match addrFromXdr t.dest with
              | none => .error .invalidDestinationAddress
              | some recipient =>
                match st0.registry t.tokenId with
                | none => .error .invalidTokenId
                | some (addr, mgr) =>
                  let given := match mgr with
                    | .native => tokMintByService st0 addr recipient t.amount
                    | .lockUnlock => tokTransfer st0 addr st0.self recipient t.amount true
                  match given with
                  | .error e => .error e
                  | .ok st1 =>
                    let ev := evTransferReceived st origin t.tokenId t.source recipient t.amount t.data
                    match t.data with
                    | none => .ok (st1, gwEvents ++ [ev])
                    | some d =>
                      if st1.executable recipient then
                        .ok (st1, gwEvents ++ [ev, evAppExecuted recipient origin msgId t.source d t.tokenId addr t.amount])
                      else .error .executableCallFailed
            | .deploy d =>
              if (st0.registry d.tokenId).isSome then .error .tokenAlreadyDeployed
              else if !validMetadata d.name d.symbol d.decimals then .error .invalidTokenMetaData
              else
                let minter : Except Err (Option Addr) := match d.minter with
                  | none => .ok none
                  | some m => match addrFromXdr m with
                    | some a => .ok (some a)
                    | none => .error .invalidMinter
                match minter with
                | .error e => .error e
                | .ok mo =>
                  match deployTokenContract S k st0 mo d.tokenId d.name d.symbol d.decimals with
                  | .error e => .error e
                  | .ok (st1, addr, ev) =>
                    .ok ({ st1 with registry := fun x => if x = d.tokenId then some (addr, .native) else st1.registry x },
                         gwEvents ++ [ev])

theorem execute_eq (st : State) (c i sa p : Bytes) :
    execute H S k st c i sa p =
      match Gateway.validateMessage H st.gw [st.self] st.self c i sa (H p) with
      | .error _ => .error .notApproved
      | .ok (_, false, _) => .error .notApproved
      | .ok (gw', true, gwEvs) =>
        body S k st { st with gw := gw' } (gwEvs.map (fun e => (⟨st.gatewayAddr, e.topics, e.data⟩ : Event))) c i p := by
  rfl

theorem body_hub (o : Bytes) (st st0 : State) (evs : List Event) (c i p : Bytes) :
    body S k (setHub o st) (setHub o st0) evs c i p = liftE o (body S k st st0 evs c i p) := by
  unfold body
  split
  · rfl
  · rfl
  · split
    · rfl
    · split
      · rfl
      · split
        · rfl
        · rfl
        · simp only [show ∀ x, (setHub o st0).trusted x = st0.trusted x from fun _ => rfl,
            show ∀ x, (setHub o st0).registry x = st0.registry x from fun _ => rfl,
            show (setHub o st0).self = st0.self from rfl, tokMint_hub, tokTransfer_hub, deployTok_hub]
          split
          · rfl
          · split
            · split
              · rfl
              · split
                · rfl
                · rename_i mgr _
                  cases mgr <;> dsimp only
                  · generalize tokMintByService st0 _ _ _ = g
                    cases g with
                    | error e => rfl
                    | ok s1 =>
                      dsimp only [liftS]
                      split
                      · rfl
                      · simp only [show (setHub o s1).executable = s1.executable from rfl]
                        split <;> rfl
                  · generalize tokTransfer st0 _ _ _ _ _ = g
                    cases g with
                    | error e => rfl
                    | ok s1 =>
                      dsimp only [liftS]
                      split
                      · rfl
                      · simp only [show (setHub o s1).executable = s1.executable from rfl]
                        split <;> rfl
            · split
              · rfl
              · split
                · rfl
                · split
                  · rfl
                  · generalize deployTokenContract S k st0 _ _ _ _ _ = g
                    cases g with
                    | error e => rfl
                    | ok r => rfl

theorem execute_hub (o : Bytes) (st : State) (c i sa p : Bytes) :
    execute H S k (setHub o st) c i sa p = liftE o (execute H S k st c i sa p) := by
  rw [execute_eq, execute_eq]
  show ((match Gateway.validateMessage H st.gw [st.self] st.self c i sa (H p) with
      | .error _ => .error .notApproved
      | .ok (_, false, _) => .error .notApproved
      | .ok (gw', true, gwEvs) =>
        body S k (setHub o st) (setHub o { st with gw := gw' })
          (gwEvs.map (fun e => (⟨st.gatewayAddr, e.topics, e.data⟩ : Event))) c i p) : Except Err (State × List Event)) = _
  split
  · rfl
  · rfl
  · exact body_hub S k o _ _ _ _ _ _

/-! ### the gateway record under the other operations -/

theorem wrapEv_gw {st : State} {r : Except Err (State × List Event)} (hf : ∀ x, r = .ok x → x.1.gw = st.gw) :
    (wrapEv st r).1.gw = st.gw := by
  unfold wrapEv
  split
  · exact hf _ rfl
  · rfl

theorem wrapId_gw {st : State} {r : Except Err (State × Bytes × List Event)} (hf : ∀ x, r = .ok x → x.1.gw = st.gw) :
    (wrapId st r).1.gw = st.gw := by
  unfold wrapId
  split
  · exact hf _ rfl
  · rfl

/-- every operation other than `execute` and the gateway's own activity leaves the gateway record alone -/
theorem step_gw (st : State) (op : Op) (hne : ∀ c i sa p, op ≠ .execute c i sa p) (hng : ∀ f, op ≠ .gateway f) :
    (step H S k st op).1.gw = st.gw := by
  cases op with
  | setTrusted au c =>
    apply wrapEv_gw; intro x hx; unfold setTrustedChain at hx
    split at hx
    · cases hx
    · split at hx
      · cases hx
      · cases hx; rfl
  | removeTrusted au c =>
    apply wrapEv_gw; intro x hx; unfold removeTrustedChain at hx
    split at hx
    · cases hx
    · split at hx
      · cases hx
      · cases hx; rfl
  | transferOwnership au n =>
    apply wrapEv_gw; intro x hx; unfold transferOwnership at hx
    split at hx
    · cases hx
    · cases hx; rfl
  | deploy au ca sa n sy d su m => exact wrapId_gw fun x hx => deployIT_gw H S k hx
  | registerCanonical t =>
    apply wrapId_gw; intro x hx; unfold registerCanonicalToken at hx
    dsimp only at hx
    split at hx
    · cases hx
    · cases hx; rfl
  | deployRemote au ca sa de gt ga =>
    apply wrapId_gw; intro x hx; unfold deployRemoteInterchainToken at hx
    split at hx
    · cases hx
    · exact deployRemote_gw H k hx
  | deployRemoteCanonical au t de sp gt ga =>
    exact wrapId_gw fun x hx => deployRemote_gw H k hx
  | transfer au ca ti de da am dt gt ga => exact wrapEv_gw fun x hx => interchainTransfer_gw H k hx
  | execute c i sa p => exact absurd rfl (hne c i sa p)
  | gateway f => exact absurd rfl (hng f)
  | userTransfer t s d a au =>
    simp only [step]
    split
    · rfl
    · split
      · rename_i h; exact tokTransfer_gw h
      · rfl
  | minterMint t m d a au =>
    simp only [step]
    split
    · split
      · rfl
      · rfl
    · rfl
  | upgradeMigrate au => rw [step_upgradeMigrate_fst]

/-- a delivery either fails (state unchanged) or consumes its approval -/
theorem step_execute (st : State) (c i sa p : Bytes) :
    ((∃ e, (step H S k st (.execute c i sa p)).2 = .err e) ∧ (step H S k st (.execute c i sa p)).1 = st) ∨
    ((∃ evs, (step H S k st (.execute c i sa p)).2 = .ok evs) ∧
      (step H S k st (.execute c i sa p)).1.gw = consumed st.gw c i ∧
      ∃ h, st.gw.approvals c i = .approved h) := by
  show ((∃ e, (wrapEv st (execute H S k st c i sa p)).2 = .err e) ∧ (wrapEv st (execute H S k st c i sa p)).1 = st) ∨
    ((∃ evs, (wrapEv st (execute H S k st c i sa p)).2 = .ok evs) ∧
      (wrapEv st (execute H S k st c i sa p)).1.gw = consumed st.gw c i ∧
      ∃ h, st.gw.approvals c i = .approved h)
  cases hx : execute H S k st c i sa p with
  | error e => exact Or.inl ⟨⟨e, rfl⟩, rfl⟩
  | ok r =>
    obtain ⟨h1, _, _, h4, _⟩ := execute_inv H S k hx
    exact Or.inr ⟨⟨r.2, rfl⟩, h4, _, h1⟩

end Cgp.Proofs.C04
