/-
  Helper lemmas for Cgp.Props.C16.
-/
import Cgp.Executable
import Cgp.GatewaySpec
import Cgp.Proofs.C02
namespace Cgp.Proofs.C16
open Cgp Cgp.Xdr Cgp.Gateway Cgp.Executable
open Cgp.Proofs.C02

variable (H : Bytes → Bytes)

/-- closed form of `appExecute` -/
theorem appExecute_eq (gw : State) (app : Addr) (eff : Effects) (c i sa p : Bytes) :
    appExecute H gw app eff c i sa p =
      if gw.approvals c i = .approved (messageHash H
          { sourceChain := c, messageId := i, sourceAddress := sa, contract := app, payloadHash := H p }) then
        .ok ({ gw with approvals := fun c' i' => if c' = c ∧ i' = i then .executed else gw.approvals c' i' },
             eff ++ [(c, i, sa, p)],
             [evExecuted { sourceChain := c, messageId := i, sourceAddress := sa, contract := app, payloadHash := H p }])
      else .error .notApproved := by
  unfold appExecute validateMessage
  rw [if_neg (by simp)]
  dsimp only
  by_cases hc : gw.approvals c i = .approved (messageHash H
          { sourceChain := c, messageId := i, sourceAddress := sa, contract := app, payloadHash := H p })
  · rw [if_pos hc, if_pos hc]
  · rw [if_neg hc, if_neg hc]

end Cgp.Proofs.C16
