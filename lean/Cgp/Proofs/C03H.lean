/-
  Helper lemmas for the history-level theorem `installed_was_authorised` of Cgp.Props.C03
  (copies of the C01 lemmas about `validateProof`, `signersHash` and the typed auth invariant, which C03 cannot import).
-/
import Cgp.GatewaySpec
import Cgp.Proofs.C03
namespace Cgp.Proofs.C03H
open Cgp Cgp.Xdr Cgp.Gateway

variable (H : Bytes → Bytes) {σ : Type} (V : Bytes → Bytes → σ → Bool)

theorem loop_iff_aux (digest : Bytes) (thr : Nat) (ps : List (PSigner σ)) :
    ∀ total, total < thr →
      (validateSignaturesLoop V digest thr ps total = .ok true ↔
        ∃ k, k ≤ ps.length ∧ AllSigsValid V digest (ps.take k) ∧
          thr ≤ total + signedWeight (ps.take k) ∧ total + signedWeight (ps.take k) < two128) := by
  induction ps with
  | nil =>
    intro total ht
    simp only [validateSignaturesLoop, List.take_nil, signedWeight, List.length_nil]
    constructor
    · intro h; cases h
    · rintro ⟨k, _, _, h1, _⟩; omega
  | cons p rest ih =>
    intro total ht
    constructor
    · intro h
      unfold validateSignaturesLoop at h
      cases hs : p.sig with
      | none =>
        rw [hs] at h
        simp only at h
        obtain ⟨k, hk, hv, h1, h2⟩ := (ih total ht).mp h
        refine ⟨k + 1, by simp; omega, ?_, ?_, ?_⟩
        · intro q hq s hqs
          simp only [List.take_succ_cons, List.mem_cons] at hq
          rcases hq with rfl | hq
          · rw [hs] at hqs; cases hqs
          · exact hv q hq s hqs
        · simp only [List.take_succ_cons, signedWeight, hs, Option.isSome_none]; simpa using h1
        · simp only [List.take_succ_cons, signedWeight, hs, Option.isSome_none]; simpa using h2
      | some s =>
        rw [hs] at h
        simp only at h
        by_cases hV : V p.signer.key digest s = true
        · simp only [hV, Bool.not_true, Bool.false_eq_true, if_false] at h
          by_cases ho : total + p.signer.weight ≥ two128
          · simp only [ho, if_true] at h; cases h
          · simp only [ho, if_false] at h
            by_cases hthr : total + p.signer.weight ≥ thr
            · refine ⟨1, by simp, ?_, ?_, ?_⟩
              · intro q hq s' hqs
                simp only [List.take_succ_cons, List.take_zero, List.mem_singleton] at hq
                subst hq
                rw [hs] at hqs; cases hqs; exact hV
              · simp only [List.take_succ_cons, List.take_zero, signedWeight, hs, Option.isSome_some, if_true]; omega
              · simp only [List.take_succ_cons, List.take_zero, signedWeight, hs, Option.isSome_some, if_true]; omega
            · simp only [hthr, if_false] at h
              obtain ⟨k, hk, hv, h1, h2⟩ := (ih (total + p.signer.weight) (by omega)).mp h
              refine ⟨k + 1, by simp; omega, ?_, ?_, ?_⟩
              · intro q hq s' hqs
                simp only [List.take_succ_cons, List.mem_cons] at hq
                rcases hq with rfl | hq
                · rw [hs] at hqs; cases hqs; exact hV
                · exact hv q hq s' hqs
              · simp only [List.take_succ_cons, signedWeight, hs, Option.isSome_some, if_true]; omega
              · simp only [List.take_succ_cons, signedWeight, hs, Option.isSome_some, if_true]; omega
        · simp only [hV, Bool.not_false, if_true] at h
          cases h
    · rintro ⟨k, hk, hv, h1, h2⟩
      cases k with
      | zero => simp only [List.take_zero, signedWeight] at h1; omega
      | succ k =>
        simp only [List.take_succ_cons, signedWeight] at h1 h2
        simp only [List.length_cons] at hk
        have hv' : AllSigsValid V digest (rest.take k) := by
          intro q hq s hqs
          exact hv q (by simp only [List.take_succ_cons, List.mem_cons]; exact Or.inr hq) s hqs
        unfold validateSignaturesLoop
        cases hs : p.sig with
        | none =>
          simp only
          rw [hs] at h1 h2
          simp only [Option.isSome_none, Bool.false_eq_true, if_false, Nat.zero_add] at h1 h2
          exact (ih total ht).mpr ⟨k, by omega, hv', h1, h2⟩
        | some s =>
          simp only
          rw [hs] at h1 h2
          simp only [Option.isSome_some, if_true] at h1 h2
          have hV : V p.signer.key digest s = true :=
            hv p (by simp) s hs
          simp only [hV, Bool.not_true, Bool.false_eq_true, if_false]
          have ho : ¬ (total + p.signer.weight ≥ two128) := by omega
          simp only [ho, if_false]
          by_cases hthr : total + p.signer.weight ≥ thr
          · simp only [hthr, if_true]
          · simp only [hthr, if_false]
            exact (ih (total + p.signer.weight) (by omega)).mpr ⟨k, by omega, hv', by omega, by omega⟩

/-- The signature loop accepts exactly when P's signature condition holds (any threshold > 0, any list). -/
theorem validateSignatures_iff (digest : Bytes) (thr : Nat) (ps : List (PSigner σ)) (hthr : 0 < thr) :
    validateSignaturesLoop V digest thr ps 0 = .ok true ↔ SigsOk V digest thr ps := by
  rw [loop_iff_aux V digest thr ps 0 hthr]
  simp only [SigsOk, Nat.zero_add]

theorem validateProof_ok_iff (st : State) (dh : Bytes) (proof : Proof σ) (b : Bool) :
    validateProof H V st dh proof = .ok b ↔
      ∃ e, st.epochByHash (signersHash H proof.weightedSigners) = some e ∧ e ≤ st.epoch ∧
        st.epoch - e ≤ st.retention ∧
        validateSignaturesLoop V (messageHashToSign H st.domain (signersHash H proof.weightedSigners) dh)
          proof.threshold proof.signers 0 = .ok true ∧ b = (e == st.epoch) := by
  unfold validateProof
  simp only
  cases he : st.epochByHash (signersHash H proof.weightedSigners) with
  | none =>
    simp only
    constructor
    · intro h; cases h
    · rintro ⟨e, he', _⟩; cases he'
  | some e =>
    simp only
    by_cases h1 : st.epoch < e
    · simp only [h1, if_true]
      constructor
      · intro h; cases h
      · rintro ⟨e', he', hle, _⟩; cases he'; omega
    · simp only [h1, if_false]
      by_cases h2 : st.epoch - e > st.retention
      · simp only [h2, if_true]
        constructor
        · intro h; cases h
        · rintro ⟨e', he', _, hle, _⟩; cases he'; omega
      · simp only [h2, if_false]
        cases hl : validateSignaturesLoop V (messageHashToSign H st.domain (signersHash H proof.weightedSigners) dh)
            proof.threshold proof.signers 0 with
        | error x =>
          simp only
          constructor
          · intro h; cases h
          · rintro ⟨e', _, _, _, hx, _⟩; cases hx
        | ok r =>
          cases r with
          | false =>
            simp only
            constructor
            · intro h; cases h
            · rintro ⟨e', _, _, _, hx, _⟩; cases hx
          | true =>
            simp only
            constructor
            · intro h
              cases h
              exact ⟨e, rfl, by omega, by omega, by first | rfl | trivial, by first | rfl | trivial⟩
            · rintro ⟨e', he', _, _, _, hb⟩
              cases he'
              rw [hb]

/-- **operational ⇔ declarative**: a proof check succeeds exactly when `ProofValid` holds. -/
theorem validateProof_iff (st : State) (dh : Bytes) (proof : Proof σ) (hthr : 0 < proof.threshold) :
    (∃ b, validateProof H V st dh proof = .ok b) ↔ ProofValid H V st dh proof := by
  unfold ProofValid
  constructor
  · rintro ⟨b, hb⟩
    obtain ⟨e, he, h1, h2, hl, _⟩ := (validateProof_ok_iff H V st dh proof b).mp hb
    exact ⟨e, he, h1, h2, (validateSignatures_iff V _ _ _ hthr).mp hl⟩
  · rintro ⟨e, he, h1, h2, hs⟩
    exact ⟨e == st.epoch, (validateProof_ok_iff H V st dh proof _).mpr
      ⟨e, he, h1, h2, (validateSignatures_iff V _ _ _ hthr).mpr hs, rfl⟩⟩

/-- the boolean returned says whether the proof's set is the latest one -/
theorem validateProof_latest (st : State) (dh : Bytes) (proof : Proof σ) (b : Bool)
    (h : validateProof H V st dh proof = .ok b) :
    (b = true ↔ st.epochByHash (signersHash H proof.weightedSigners) = some st.epoch) := by
  obtain ⟨e, he, _, _, _, hb⟩ := (validateProof_ok_iff H V st dh proof b).mp h
  rw [he, hb]
  simp

theorem list_map_inj {α β} (f : α → β) (hf : ∀ a b, f a = f b → a = b) :
    ∀ (l₁ l₂ : List α), l₁.map f = l₂.map f → l₁ = l₂ := by
  intro l₁
  induction l₁ with
  | nil =>
    intro l₂ h
    cases l₂ with
    | nil => rfl
    | cons _ _ => simp at h
  | cons x xs ih =>
    intro l₂ h
    cases l₂ with
    | nil => simp at h
    | cons y ys =>
      simp only [List.map_cons, List.cons.injEq] at h
      rw [hf x y h.1, ih ys h.2]

theorem wsigner_toSc_inj (a b : WSigner) (h : a.toSc = b.toSc) : a = b := by
  cases a; cases b
  simp [WSigner.toSc] at h
  simp [h]

theorem wsigner_wf (s : WSigner) (h : s.Typed) : s.toSc.WF := by
  obtain ⟨h1, h2⟩ := h
  simp [WSigner.toSc, ScVal.WF, ScPairs.WF, ScPairs.len, symSigner, symWeight, h1]
  simpa [two128] using h2

theorem wsigners_wf (ws : WSigners) (h : ws.Typed) : ws.toSc.WF := by
  obtain ⟨h1, h2, h3, h4⟩ := h
  simp only [WSigners.toSc, ScVal.WF, ScPairs.WF, ScPairs.len, ScVals.len_ofList, List.length_map,
    ScVals.WF_ofList, List.mem_map]
  refine ⟨by decide, by decide, by omega, by decide, ⟨h2, ?_⟩, by decide, ?_, trivial⟩
  · rintro v ⟨s, hs, rfl⟩
    exact wsigner_wf s (h1 s hs)
  · simpa [two128] using h3

theorem toSc_injective_signers (a b : WSigners) (h : a.toSc = b.toSc) : a = b := by
  cases a; cases b
  simp [WSigners.toSc] at h
  obtain ⟨h1, h2, h3⟩ := h
  have := list_map_inj _ wsigner_toSc_inj _ _ (ScVals.ofList_injective h2)
  simp [*]

theorem signersHash_binds (a b : WSigners) (ha : a.Typed) (hb : b.Typed)
    (h : signersHash H a = signersHash H b) : a = b ∨ Collision H := by
  unfold signersHash at h
  by_cases hx : enc a.toSc = enc b.toSc
  · exact Or.inl (toSc_injective_signers a b (enc_injective _ _ (wsigners_wf a ha) (wsigners_wf b hb) hx))
  · exact Or.inr ⟨_, _, hx, h⟩

/-- the auth invariant together with "every set recorded in the ghost field is typed" -/
def AInv (st : State) : Prop := GInv H st ∧ ∀ e ws, st.setAt e = some ws → ws.Typed

theorem AInv_sameAuth (st st' : State) (h : AInv H st) (hs : Cgp.Proofs.C03.SameAuth st' st) : AInv H st' := by
  obtain ⟨h1, h2, h3, h4⟩ := hs
  refine ⟨Cgp.Proofs.C03.GInv_congr H st st' h.1 h1 h2 h3 h4, ?_⟩
  intro e ws hws
  rw [h4] at hws
  exact h.2 e ws hws

theorem AInv_rotated (st : State) (ws : WSigners) (now : Nat) (h : AInv H st) (hty : ws.Typed)
    (hwf : WellFormed ws) (hn : st.epochByHash (signersHash H ws) = none) :
    AInv H (Cgp.Proofs.C03.rotated H st ws now) := by
  refine ⟨Cgp.Proofs.C03.GInv_rotated H st ws now h.1 hwf hn, ?_⟩
  intro e ws' hws
  simp only [Cgp.Proofs.C03.rotated] at hws
  split at hws
  · cases hws; exact hty
  · exact h.2 e ws' hws

/-- every typed operation preserves the invariant -/
theorem AInv_step (w : World) (op : Op σ) (hty : op.Typed) (h : AInv H w.st) : AInv H (step H V w op).1.st := by
  rcases Cgp.Proofs.C03.step_auth H V w op with hs | ⟨auths, ws, proof, bypass, evs, hop, _, hst, hwf, hn⟩
  · exact AInv_sameAuth H _ _ h hs
  · subst hop
    rw [hst]
    exact AInv_rotated H w.st ws w.now h hty.1 hwf hn

theorem initSets_AInv (now : Nat) (sets : List WSigners) (st st' : State) (evs : List Event)
    (h : initSets H now sets st = .ok (st', evs)) (hty : ∀ ws ∈ sets, ws.Typed) (hg : AInv H st) :
    AInv H st' := by
  induction sets generalizing st evs with
  | nil =>
    unfold initSets at h
    injection h with h
    injection h with h1 h2
    subst h1
    exact hg
  | cons ws rest ih =>
    obtain ⟨hwf, hn, evs', hr⟩ := Cgp.Proofs.C03.initSets_cons_ok H now ws rest st st' evs h
    exact ih _ evs' hr (fun x hx => hty x (List.mem_cons_of_mem _ hx))
      (AInv_rotated H st ws now hg (hty ws List.mem_cons_self) hwf hn)

theorem AInv_initState (owner operator : Addr) (domain : Bytes) (minDelay retention : Nat) :
    AInv H (initState owner operator domain minDelay retention) := by
  refine ⟨Cgp.Proofs.C03.GInv_initState H owner operator domain minDelay retention, ?_⟩
  intro e ws h
  simp [initState] at h

theorem constructed_initSets (owner operator : Addr) (domain : Bytes) (minDelay retention : Nat) (sets : List WSigners)
    (now : Nat) (w0 : World) (hc : constructed H owner operator domain minDelay retention sets now = some w0) :
    ∃ evs, initSets H now sets (initState owner operator domain minDelay retention) = .ok (w0.st, evs) := by
  unfold constructed at hc
  cases hcon : construct H owner operator domain minDelay retention sets now with
  | error e => rw [hcon] at hc; cases hc
  | ok r =>
    obtain ⟨st, evs⟩ := r
    rw [hcon] at hc
    dsimp only at hc
    injection hc with hc
    subst hc
    unfold construct at hcon
    by_cases he : sets.isEmpty = true
    · rw [if_pos he] at hcon; cases hcon
    · rw [if_neg he] at hcon
      exact ⟨evs, hcon⟩

/-- the invariant holds right after a construction with typed sets -/
theorem AInv_constructed (owner operator : Addr) (domain : Bytes) (minDelay retention : Nat) (sets : List WSigners)
    (now : Nat) (w0 : World) (hsets : ∀ ws ∈ sets, ws.Typed)
    (hc : constructed H owner operator domain minDelay retention sets now = some w0) : AInv H w0.st := by
  obtain ⟨evs, h⟩ := constructed_initSets H owner operator domain minDelay retention sets now w0 hc
  exact initSets_AInv H now sets _ _ evs h hsets (AInv_initState H owner operator domain minDelay retention)

/-- under the invariant an accepted proof is a valid proof (or a collision is exhibited) -/
theorem proofValid_of_ok (st : State) (hinv : AInv H st) (dh : Bytes) (proof : Proof σ) (b : Bool)
    (htyped : proof.weightedSigners.Typed) (h : validateProof H V st dh proof = .ok b) :
    ProofValid H V st dh proof ∨ Collision H := by
  obtain ⟨e, he, _, _, _, _⟩ := (validateProof_ok_iff H V st dh proof b).mp h
  obtain ⟨ws, hws, hh, hwf⟩ := hinv.1.ghost e _ (hinv.1.bwd e _ he)
  rcases signersHash_binds H ws proof.weightedSigners (hinv.2 e ws hws) htyped hh with heq | hc
  · subst heq
    exact Or.inl ((validateProof_iff H V st dh proof hwf.2.2.2.2.2.1).mp ⟨b, h⟩)
  · exact Or.inr hc


/-! ### the ghost field beyond the current epoch is empty; one-step analysis of `setAt` -/

/-- nothing is recorded beyond the current epoch -/
def SInv (st : State) : Prop := ∀ e, st.epoch < e → st.setAt e = none

theorem SInv_sameAuth (st st' : State) (h : SInv st) (hs : Cgp.Proofs.C03.SameAuth st' st) : SInv st' := by
  obtain ⟨_, _, h3, h4⟩ := hs
  intro e he
  rw [h4]
  exact h e (by omega)

theorem SInv_rotated (st : State) (ws : WSigners) (now : Nat) (h : SInv st) :
    SInv (Cgp.Proofs.C03.rotated H st ws now) := by
  intro e he
  simp only [Cgp.Proofs.C03.rotated] at he ⊢
  rw [if_neg (by omega)]
  exact h e (by omega)

theorem SInv_step (w : World) (op : Op σ) (h : SInv w.st) : SInv (step H V w op).1.st := by
  rcases Cgp.Proofs.C03.step_auth H V w op with hs | ⟨auths, ws, proof, bypass, evs, _, _, hst, _, _⟩
  · exact SInv_sameAuth _ _ h hs
  · rw [hst]
    exact SInv_rotated H w.st ws w.now h

theorem initSets_SInv (now : Nat) (sets : List WSigners) (st st' : State) (evs : List Event)
    (h : initSets H now sets st = .ok (st', evs)) (hg : SInv st) : SInv st' := by
  induction sets generalizing st evs with
  | nil =>
    unfold initSets at h
    injection h with h
    injection h with h1 h2
    subst h1
    exact hg
  | cons ws rest ih =>
    obtain ⟨_, _, evs', hr⟩ := Cgp.Proofs.C03.initSets_cons_ok H now ws rest st st' evs h
    exact ih _ evs' hr (SInv_rotated H st ws now hg)

theorem SInv_constructed (owner operator : Addr) (domain : Bytes) (minDelay retention : Nat) (sets : List WSigners)
    (now : Nat) (w0 : World)
    (hc : constructed H owner operator domain minDelay retention sets now = some w0) : SInv w0.st := by
  obtain ⟨evs, h⟩ := constructed_initSets H owner operator domain minDelay retention sets now w0 hc
  refine initSets_SInv H now sets _ _ evs h ?_
  intro e _
  rfl

/-- **one step**: a set on record at epoch `e` after a typed operation was on record before, or the operation was a
    successful `rotate_signers` installing exactly that set at `epoch + 1 = e`, with all its acceptance conditions -/
theorem step_installed (w : World) (op : Op σ) (hty : op.Typed) (hinv : AInv H w.st) (e : Nat) (ws : WSigners)
    (h1 : (step H V w op).1.st.setAt e = some ws) :
    w.st.setAt e = some ws ∨
    (∃ auths proof bypass evs, op = .rotate auths ws proof bypass ∧ (step H V w op).2 = .ok evs ∧
        w.st.epoch + 1 = e ∧ WellFormed ws ∧ ProofValid H V w.st (rotateDataHash H ws) proof ∧
        (bypass = true → w.st.operator ∈ auths) ∧
        (bypass = false →
          w.st.epochByHash (signersHash H proof.weightedSigners) = some w.st.epoch ∧
          w.st.lastRot.getD 0 ≤ w.now ∧ w.st.minDelay ≤ w.now - w.st.lastRot.getD 0)) ∨ Collision H := by
  rcases Cgp.Proofs.C03.step_auth H V w op with hs | ⟨auths, ws', proof, bypass, evs, hop, hobs, hst, hwf, hn⟩
  · obtain ⟨_, _, _, h4⟩ := hs
    rw [h4] at h1
    exact Or.inl h1
  · subst hop
    rw [hst] at h1
    simp only [Cgp.Proofs.C03.rotated] at h1
    by_cases hE : e = w.st.epoch + 1
    · rw [if_pos hE] at h1
      injection h1 with h1
      subst h1
      cases hr : rotateSigners H V w.st auths ws' proof bypass w.now with
      | error x =>
        have : (step H V w (.rotate auths ws' proof bypass)).2 = .err x := by simp only [step, hr]
        rw [this] at hobs; cases hobs
      | ok r =>
        obtain ⟨hop, ⟨b, hb, hlat⟩, _, hdelay, _, _⟩ :=
          (Cgp.Proofs.C03.rotate_ok_iff' H V w.st auths ws' proof bypass w.now r).mp hr
        rcases proofValid_of_ok H V w.st hinv _ proof b hty.2 hb with hp | hcol
        · refine Or.inr (Or.inl ⟨auths, proof, bypass, evs, rfl, hobs, hE.symm, hwf, hp, hop, ?_⟩)
          intro hbp
          exact ⟨(validateProof_latest H V w.st _ proof b hb).mp (hlat hbp), hdelay hbp⟩
        · exact Or.inr (Or.inr hcol)
    · rw [if_neg hE] at h1
      exact Or.inl h1

theorem run_cons (w : World) (op : Op σ) (ops : List (Op σ)) :
    run H V w (op :: ops) =
      ((run H V (step H V w op).1 ops).1, (step H V w op).2 :: (run H V (step H V w op).1 ops).2) := rfl

theorem trace_cons (w : World) (op : Op σ) (ops : List (Op σ)) :
    trace H V w (op :: ops) = (w, op, (step H V w op).2) :: trace H V (step H V w op).1 ops := rfl

/-- the history-level statement from any world satisfying the invariant -/
theorem run_installed (ops : List (Op σ)) : ∀ (w : World), AInv H w.st → (∀ op ∈ ops, op.Typed) →
    ∀ (e : Nat) (ws : WSigners), (run H V w ops).1.st.setAt e = some ws →
    w.st.setAt e = some ws ∨
    (∃ wa auths proof bypass evs,
        (wa, Op.rotate auths ws proof bypass, Obs.ok evs) ∈ trace H V w ops ∧ wa.st.epoch + 1 = e ∧
        WellFormed ws ∧ ProofValid H V wa.st (rotateDataHash H ws) proof ∧
        (bypass = true → wa.st.operator ∈ auths) ∧
        (bypass = false →
          wa.st.epochByHash (signersHash H proof.weightedSigners) = some wa.st.epoch ∧
          wa.st.lastRot.getD 0 ≤ wa.now ∧ wa.st.minDelay ≤ wa.now - wa.st.lastRot.getD 0))
    ∨ Collision H := by
  induction ops with
  | nil => intro w _ _ e ws hfin; exact Or.inl hfin
  | cons op ops ih =>
    intro w hinv hty e ws hfin
    rw [run_cons] at hfin
    have hop : op.Typed := hty op List.mem_cons_self
    rcases ih (step H V w op).1 (AInv_step H V w op hop hinv) (fun o ho => hty o (List.mem_cons_of_mem _ ho)) e ws hfin with
      h1 | ⟨wa, auths, proof, bypass, evs, hmem, hr⟩ | hcol
    · rcases step_installed H V w op hop hinv e ws h1 with h2 | ⟨auths, proof, bypass, evs, rfl, hobs, hr⟩ | hcol
      · exact Or.inl h2
      · refine Or.inr (Or.inl ⟨w, auths, proof, bypass, evs, ?_, hr⟩)
        rw [trace_cons, hobs]
        exact List.mem_cons_self
      · exact Or.inr (Or.inr hcol)
    · refine Or.inr (Or.inl ⟨wa, auths, proof, bypass, evs, ?_, hr⟩)
      rw [trace_cons]
      exact List.mem_cons_of_mem _ hmem
    · exact Or.inr (Or.inr hcol)

end Cgp.Proofs.C03H
