/-
  Helper lemmas for property C06.
-/
import Cgp.Token
import Cgp.GasService
import Cgp.GatewayOps
import Cgp.ItsOps
import Cgp.Operators
import Cgp.Upgradable
import Cgp.Props.C12
import Cgp.Props.C14
import Cgp.Props.C15
import Cgp.Props.C18
namespace Cgp.Proofs.C06
open Cgp Cgp.Xdr

/-! ### gateway -/
namespace Gw
open Cgp.Gateway

variable (H : Bytes → Bytes) {σ : Type} (V : Bytes → Bytes → σ → Bool)

theorem inner_owner (st : State) (ws : WSigners) (enforce : Bool) (now : Nat) (r : State × Event)
    (h : rotateSignersInner H st ws enforce now = .ok r) : r.1.owner = st.owner := by
  unfold rotateSignersInner at h
  split at h
  · cases h
  · simp only at h
    split at h
    · cases h
    · split at h
      · cases h
      · split at h
        · cases h
        · cases h
          rfl

theorem rotate_inv (st : State) (auths : List Addr) (ws : WSigners) (proof : Proof σ) (bypass : Bool) (now : Nat)
    (r : State × List Event) (h : rotateSigners H V st auths ws proof bypass now = .ok r) :
    (bypass = true → st.operator ∈ auths) ∧ r.1.owner = st.owner := by
  unfold rotateSigners at h
  split at h
  · cases h
  · rename_i hb
    split at h
    · cases h
    · split at h
      · cases h
      · split at h
        · cases h
        · rename_i st' ev hin
          cases h
          refine ⟨?_, inner_owner H _ _ _ _ _ hin⟩
          intro hb'
          subst hb'
          simpa using hb

theorem approveLoop_owner (ms : List Message) (st : State) :
    (approveLoop H ms st).1.owner = st.owner := by
  induction ms generalizing st with
  | nil => simp [approveLoop]
  | cons m rest ih =>
    unfold approveLoop
    split
    · exact ih st
    · simp only
      have := ih { st with approvals := fun c i =>
        if c = m.sourceChain ∧ i = m.messageId then .approved (messageHash H m) else st.approvals c i }
      simpa using this

theorem approveMessages_owner (st : State) (ms : List Message) (proof : Proof σ) (r : State × List Event)
    (h : approveMessages H V st ms proof = .ok r) : r.1.owner = st.owner := by
  unfold approveMessages at h
  split at h
  · cases h
  · split at h
    · cases h
    · cases h
      exact approveLoop_owner H ms st

theorem validateMessage_owner (st : State) (auths : List Addr) (caller : Addr) (chain id src ph : Bytes)
    (r : State × Bool × List Event) (h : validateMessage H st auths caller chain id src ph = .ok r) :
    r.1.owner = st.owner := by
  unfold validateMessage at h
  split at h
  · cases h
  · simp only at h
    split at h
    · cases h; rfl
    · cases h; rfl

theorem callContract_owner (st : State) (auths : List Addr) (caller : Addr) (chain dest payload : Bytes)
    (r : State × List Event) (h : callContract H st auths caller chain dest payload = .ok r) :
    r.1.owner = st.owner := by
  unfold callContract at h
  split at h
  · cases h
  · cases h; rfl

theorem transferOwnership_inv (st : State) (auths : List Addr) (new : Addr)
    (r : State × List Event) (h : transferOwnership st auths new = .ok r) :
    st.owner ∈ auths ∧ r.1.owner = new := by
  unfold transferOwnership at h
  split at h
  · cases h
  · rename_i hop
    cases h; exact ⟨by simpa using hop, rfl⟩

theorem transferOperatorship_inv (st : State) (auths : List Addr) (new : Addr)
    (r : State × List Event) (h : transferOperatorship st auths new = .ok r) :
    st.operator ∈ auths ∧ r.1.owner = st.owner := by
  unfold transferOperatorship at h
  split at h
  · cases h
  · rename_i hop
    cases h; exact ⟨by simpa using hop, rfl⟩

theorem run_cons (w : World) (op : Op σ) (ops : List (Op σ)) :
    run H V w (op :: ops) =
      ((run H V (step H V w op).1 ops).1, (step H V w op).2 :: (run H V (step H V w op).1 ops).2) := rfl

end Gw

/-! ### interchain token service -/
namespace ItsL
open Cgp.Its

variable (H : Bytes → Bytes) (S : Bytes → Bytes) (k : Consts)

/-- the roles (trusted chains, owner) of two states coincide -/
def Same (a b : State) : Prop := a.trusted = b.trusted ∧ a.owner = b.owner

theorem Same.refl (a : State) : Same a a := ⟨rfl, rfl⟩
theorem Same.trans {a b c : State} (h1 : Same a b) (h2 : Same b c) : Same a c :=
  ⟨h1.1.trans h2.1, h1.2.trans h2.2⟩

theorem setTok_same (st : State) (a : Addr) (t : Tok) : Same (setTok st a t) st := ⟨rfl, rfl⟩

theorem tokTransfer_same (st st' : State) (token src dst : Addr) (amount : Int) (au : Bool)
    (h : tokTransfer st token src dst amount au = .ok st') : Same st' st := by
  unfold tokTransfer at h
  split at h
  · cases h
  · split at h
    · cases h
    · rename_i t ht hc0
      simp only at h
      by_cases hc : (if dst = src then t.bal src - amount else t.bal dst) + amount > i128Max
      · rw [if_pos hc] at h; cases h
      · rw [if_neg hc] at h
        cases h
        exact setTok_same _ _ _

theorem tokBurn_same (st st' : State) (token src : Addr) (amount : Int) (au : Bool)
    (h : tokBurn st token src amount au = .ok st') : Same st' st := by
  unfold tokBurn at h
  split at h
  · cases h
  · split at h
    · cases h
    · split at h
      · cases h
      · cases h
        exact setTok_same _ _ _

theorem tokMint_same (st st' : State) (token dst : Addr) (amount : Int)
    (h : tokMintByService st token dst amount = .ok st') : Same st' st := by
  unfold tokMintByService at h
  split at h
  · cases h
  · split at h
    · cases h
    · split at h
      · cases h
      · cases h
        exact setTok_same _ _ _

theorem deployTokenContract_same (st : State) (minter : Option Addr) (tid name symbol : Bytes) (decimals : Nat)
    (r : State × Addr × Event) (h : deployTokenContract S k st minter tid name symbol decimals = .ok r) :
    Same r.1 st := by
  unfold deployTokenContract at h
  simp only at h
  split at h
  · cases h
  · split at h
    · cases h
    · cases h
      exact setTok_same _ _ _

theorem payGasAndCall_same (st : State) (spender : Addr) (spenderAuth : Bool) (dest : Bytes) (msg : Abi.Msg)
    (gasToken : Addr) (gasAmount : Int) (r : State × List Event)
    (h : payGasAndCall H k st spender spenderAuth dest msg gasToken gasAmount = .ok r) : Same r.1 st := by
  obtain ⟨st', evs⟩ := r
  obtain ⟨-, -, -, payload, -, -, htt⟩ := Cgp.Props.C18.payGasAndCall_inv H k _ _ _ _ _ _ _ _ _ h
  exact tokTransfer_same _ _ _ _ _ _ _ htt

theorem deployRemoteToken_same (st : State) (spender : Addr) (spenderAuth : Bool) (salt' dest : Bytes)
    (gasToken : Addr) (gasAmount : Int) (r : State × Bytes × List Event)
    (h : deployRemoteToken H k st spender spenderAuth salt' dest gasToken gasAmount = .ok r) : Same r.1 st := by
  obtain ⟨st', tid, evs⟩ := r
  have := Cgp.Props.C18.remote_deploy_moves_only_gas H k _ _ _ _ _ _ _ _ _ _ h
  exact ⟨this.2.1, this.2.2.2.1⟩

theorem registerCanonical_same (st : State) (token : Addr) (r : State × Bytes × List Event)
    (h : registerCanonicalToken H k st token = .ok r) : Same r.1 st := by
  unfold registerCanonicalToken at h
  simp only at h
  split at h
  · cases h
  · cases h
    exact ⟨rfl, rfl⟩

theorem wrapEv_same (st : State) (r : Except Err (State × List Event))
    (h : ∀ x, r = .ok x → Same x.1 st) : Same (wrapEv st r).1 st := by
  unfold wrapEv
  split
  · exact h _ rfl
  · exact Same.refl _

theorem wrapId_same (st : State) (r : Except Err (State × Bytes × List Event))
    (h : ∀ x, r = .ok x → Same x.1 st) : Same (wrapId st r).1 st := by
  unfold wrapId
  split
  · exact h _ rfl
  · exact Same.refl _


theorem interchainTransfer_same (st : State) (auths : List Addr) (caller : Addr) (tid destChain destAddr : Bytes)
    (amount : Int) (data : Option Bytes) (gasToken : Addr) (gasAmount : Int) (r : State × List Event)
    (h : interchainTransfer H k st auths caller tid destChain destAddr amount data gasToken gasAmount = .ok r) :
    Same r.1 st := by
  unfold interchainTransfer at h
  split at h
  · cases h
  · split at h
    · cases h
    · split at h
      · cases h
      · rename_i addr mgr hreg
        simp only at h
        split at h
        · cases h
        · rename_i st1 htk
          split at h
          · cases h
          · rename_i st2 evs hp
            cases h
            have h2 := payGasAndCall_same H k _ _ _ _ _ _ _ _ hp
            refine Same.trans h2 ?_
            cases mgr
            · exact tokBurn_same _ _ _ _ _ _ htk
            · exact tokTransfer_same _ _ _ _ _ _ _ htk

theorem deployInterchainToken_same (st : State) (auths : List Addr) (caller : Addr) (salt name symbol : Bytes)
    (decimals : Nat) (supply : Int) (minter : Option Addr) (r : State × Bytes × List Event)
    (h : deployInterchainToken H S k st auths caller salt name symbol decimals supply minter = .ok r) :
    Same r.1 st := by
  unfold deployInterchainToken at h
  split at h
  · cases h
  · simp only at h
    split at h
    · cases h
    · rename_i im him
      split at h
      · cases h
      · rename_i st1 addr ev hd
        have h1 := deployTokenContract_same S k _ _ _ _ _ _ _ hd
        split at h
        · cases h
        · rename_i st3 h3
          cases h
          have h31 : Same st3 st1 := by
            split at h3
            · split at h3
              · cases h3
              · rename_i st2 hm
                have hm' := tokMint_same _ _ _ _ _ hm
                split at h3
                · split at h3
                  · cases h3
                    exact Same.trans (setTok_same _ _ _) hm'
                  · cases h3
                · cases h3
                  exact hm'
            · cases h3
              exact Same.refl _
          exact Same.trans ⟨h31.1, h31.2⟩ h1

theorem execute_same (st : State) (srcChain msgId srcAddr payload : Bytes) (r : State × List Event)
    (h : execute H S k st srcChain msgId srcAddr payload = .ok r) : Same r.1 st := by
  unfold execute at h
  split at h
  · cases h
  · cases h
  · rename_i gw' gwEvs hv
    simp only at h
    split at h
    · cases h
    · cases h
    · split at h
      · cases h
      · split at h
        · cases h
        · split at h
          · cases h
          · cases h
          · split at h
            · cases h
            · split at h
              · -- transfer
                split at h
                · cases h
                · split at h
                  · cases h
                  · rename_i addr mgr hreg
                    split at h
                    · cases h
                    · rename_i st1 hg
                      have hs1 : Same st1 st := by
                        cases mgr
                        · have := tokMint_same _ _ _ _ _ hg
                          exact ⟨this.1, this.2⟩
                        · have := tokTransfer_same _ _ _ _ _ _ _ hg
                          exact ⟨this.1, this.2⟩
                      split at h
                      · cases h; exact hs1
                      · split at h
                        · cases h; exact hs1
                        · cases h
              · -- deploy
                split at h
                · cases h
                · split at h
                  · cases h
                  · split at h
                    · cases h
                    · split at h
                      · cases h
                      · rename_i st1 addr ev hd
                        have h1 := deployTokenContract_same S k _ _ _ _ _ _ _ hd
                        cases h
                        exact ⟨h1.1, h1.2⟩

end ItsL


/-! ### token -/
namespace Tk
open Cgp.Token Cgp.Props.C12

theorem spendBalance_owner {st st1 : State} {who : Addr} {amount : Int}
    (h : spendBalance st who amount = .ok st1) : st1.owner = st.owner := by
  obtain ⟨_, rfl⟩ := spendBalance_ok h; rfl

theorem receiveBalance_owner {st st1 : State} {who : Addr} {amount : Int}
    (h : receiveBalance st who amount = .ok st1) : st1.owner = st.owner := by
  have := receiveBalance_ok h; subst this; rfl

theorem writeAllowance_owner {st st1 : State} {c : Ctx} {src spender : Addr} {amount : Int} {exp : Nat}
    (h : writeAllowance st c src spender amount exp = .ok st1) : st1.owner = st.owner := by
  obtain ⟨_, rfl⟩ := writeAllowance_ok h; rfl

theorem spendAllowance_owner {st st1 : State} {c : Ctx} {src spender : Addr} {amount : Int}
    (h : spendAllowance st c src spender amount = .ok st1) : st1.owner = st.owner :=
  (spendAllowance_ok h).2.2.2.1

theorem apply_owner (st st' : State) (c : Ctx) (op : Op) (evs : List Event)
    (h : apply st c op = .ok (st', evs)) :
    st'.owner = st.owner ∨ (∃ new, op = .transferOwnership new ∧ st.owner ∈ c.auths ∧ st'.owner = new) := by
  cases op with
  | mintFrom m t a =>
    left
    simp only [apply, mintFrom] at h
    split at h; · cases h
    split at h; · cases h
    split at h; · cases h
    split at h; · cases h
    rename_i st1 h1
    cases h
    exact receiveBalance_owner h1
  | mint t a =>
    left
    simp only [apply, mint, mintFrom] at h
    split at h; · cases h
    split at h; · cases h
    split at h; · cases h
    split at h; · cases h
    rename_i st1 h1
    cases h
    exact receiveBalance_owner h1
  | addMinter m =>
    left
    simp only [apply] at h
    obtain ⟨_, rfl⟩ := addMinter_ok h; rfl
  | removeMinter m =>
    left
    simp only [apply] at h
    obtain ⟨_, rfl⟩ := removeMinter_ok h; rfl
  | approve s p a e =>
    left
    simp only [apply] at h
    obtain ⟨_, _, _, rfl, _⟩ := approve_exact' _ _ _ _ _ _ _ _ h; rfl
  | transfer s d a =>
    left
    simp only [apply] at h
    exact (transfer_exact _ _ _ _ _ _ _ h).2.2.2.2.2.2.2.2.1
  | transferFrom p s d a =>
    left
    simp only [apply, transferFrom] at h
    split at h; · cases h
    split at h; · cases h
    split at h; · cases h
    rename_i st0 h0
    split at h; · cases h
    rename_i st1 h1
    split at h; · cases h
    rename_i st2 h2
    cases h
    rw [receiveBalance_owner h2, spendBalance_owner h1, spendAllowance_owner h0]
  | burn s a =>
    left
    simp only [apply, burn] at h
    split at h; · cases h
    split at h; · cases h
    split at h; · cases h
    rename_i st1 h1
    cases h
    exact spendBalance_owner h1
  | burnFrom p s a =>
    left
    simp only [apply, burnFrom] at h
    split at h; · cases h
    split at h; · cases h
    split at h; · cases h
    rename_i st0 h0
    split at h; · cases h
    rename_i st1 h1
    cases h
    rw [spendBalance_owner h1, spendAllowance_owner h0]
  | transferOwnership n =>
    right
    simp only [apply] at h
    obtain ⟨ho, rfl, _⟩ := transferOwnership_ok h
    exact ⟨n, rfl, ho, rfl⟩
  | upgradeMigrate =>
    left
    cases (apply_upgradeMigrate_ok _ _ _ h).1
    rfl

end Tk

/-! ### upgradable -/
namespace Up
open Cgp.Upgradable

theorem migrate_owner {c c' : Contract} {auths : List Addr} {d : List ScVal} {evs : List Event}
    (hok : migrate c auths d = .ok (c', evs)) : c'.owner = c.owner := by
  rcases (Cgp.Props.C15.migrate_ok hok).2.2 with ⟨_, _, rfl, _⟩ | ⟨_, _, h, _⟩
  · rfl
  · exact h

end Up

end Cgp.Proofs.C06
