/-
  Helper lemmas for Cgp.Props.C02.
-/
import Cgp.GatewaySpec
namespace Cgp.Proofs.C02
open Cgp Cgp.Xdr Cgp.Gateway

variable (H : Bytes → Bytes) {σ : Type} (V : Bytes → Bytes → σ → Bool)

/-- the allowed moves of a message status in one operation -/
def Adv (a b : Approval) : Prop :=
  a = b ∨ (a = .notApproved ∧ ∃ h, b = .approved h) ∨ ((∃ h, a = .approved h) ∧ b = .executed)

theorem Adv.refl (a : Approval) : Adv a a := Or.inl rfl

theorem Adv.rank {a b : Approval} (h : Adv a b) : a.rank ≤ b.rank := by
  rcases h with h | ⟨h, h', hb⟩ | ⟨⟨h', ha⟩, hb⟩
  · subst h; exact Nat.le_refl _
  · subst h; subst hb; simp [Approval.rank]
  · subst ha; subst hb; simp [Approval.rank]

/-- the state after recording `m` as approved -/
def setApproved (st : State) (m : Message) : State :=
  { st with approvals := fun c i =>
      if c = m.sourceChain ∧ i = m.messageId then .approved (messageHash H m) else st.approvals c i }

theorem approveLoop_known (st : State) (m : Message) (rest : List Message)
    (hk : st.approvals m.sourceChain m.messageId ≠ .notApproved) :
    approveLoop H (m :: rest) st = approveLoop H rest st := by
  simp only [approveLoop, hk, ne_eq, not_false_eq_true, if_true]

theorem approveLoop_fresh (st : State) (m : Message) (rest : List Message)
    (hk : st.approvals m.sourceChain m.messageId = .notApproved) :
    approveLoop H (m :: rest) st =
      ((approveLoop H rest (setApproved H st m)).1, evApproved m :: (approveLoop H rest (setApproved H st m)).2) := by
  simp only [approveLoop, hk, ne_eq, not_true_eq_false, if_false, setApproved]

/-- the approval loop either leaves a key alone, or moves it from not-approved to approved -/
theorem approveLoop_approvals (ms : List Message) (st : State) (c i : Bytes) :
    (approveLoop H ms st).1.approvals c i = st.approvals c i ∨
    (st.approvals c i = .notApproved ∧ ∃ h, (approveLoop H ms st).1.approvals c i = .approved h) := by
  induction ms generalizing st with
  | nil => exact Or.inl rfl
  | cons m rest ih =>
    by_cases hk : st.approvals m.sourceChain m.messageId = .notApproved
    · rw [approveLoop_fresh H st m rest hk]
      by_cases hci : c = m.sourceChain ∧ i = m.messageId
      · obtain ⟨rfl, rfl⟩ := hci
        refine Or.inr ⟨hk, ?_⟩
        rcases ih (setApproved H st m) with h | ⟨h, _⟩
        · exact ⟨messageHash H m, by rw [h]; simp [setApproved]⟩
        · simp [setApproved] at h
      · have hs : (setApproved H st m).approvals c i = st.approvals c i := by
          simp [setApproved, hci]
        rcases ih (setApproved H st m) with h | ⟨h, h'⟩
        · exact Or.inl (by rw [h, hs])
        · exact Or.inr ⟨by rw [← hs]; exact h, h'⟩
    · rw [approveLoop_known H st m rest hk]
      exact ih st

theorem approveLoop_known_key (ms : List Message) (st : State) (c i : Bytes)
    (hk : st.approvals c i ≠ .notApproved) :
    (approveLoop H ms st).1.approvals c i = st.approvals c i := by
  rcases approveLoop_approvals H ms st c i with h | ⟨h, _⟩
  · exact h
  · exact absurd h hk

theorem approveMessages_ok (st st' : State) (ms : List Message) (proof : Proof σ) (evs : List Event)
    (h : approveMessages H V st ms proof = .ok (st', evs)) : approveLoop H ms st = (st', evs) := by
  unfold approveMessages at h
  split at h
  · cases h
  · split at h
    · cases h
    · exact (Except.ok.inj h)

theorem rotateInner_approvals (st st' : State) (ws : WSigners) (enforce : Bool) (now : Nat) (ev : Event)
    (h : rotateSignersInner H st ws enforce now = .ok (st', ev)) : st'.approvals = st.approvals := by
  unfold rotateSignersInner at h
  split at h
  · cases h
  · dsimp only at h
    split at h
    · cases h
    · split at h
      · cases h
      · split at h
        · cases h
        · cases h; rfl

theorem rotateSigners_approvals (st st' : State) (auths : List Addr) (ws : WSigners) (proof : Proof σ)
    (bypass : Bool) (now : Nat) (evs : List Event)
    (h : rotateSigners H V st auths ws proof bypass now = .ok (st', evs)) : st'.approvals = st.approvals := by
  unfold rotateSigners at h
  split at h
  · cases h
  · split at h
    · cases h
    · split at h
      · cases h
      · split at h
        · cases h
        · rename_i st'' ev hr
          cases h
          exact rotateInner_approvals H _ _ _ _ _ _ hr

/-- what `validateMessage` does, in one statement -/
theorem validateMessage_ok (st st' : State) (auths : List Addr) (caller : Addr) (c i sa ph : Bytes) (b : Bool)
    (evs : List Event) (h : validateMessage H st auths caller c i sa ph = .ok (st', b, evs)) :
    caller ∈ auths ∧
    ((b = true ∧ st.approvals c i = .approved (messageHash H
          { sourceChain := c, messageId := i, sourceAddress := sa, contract := caller, payloadHash := ph }) ∧
        st' = { st with approvals := fun c' i' => if c' = c ∧ i' = i then .executed else st.approvals c' i' } ∧
        evs = [evExecuted { sourceChain := c, messageId := i, sourceAddress := sa, contract := caller, payloadHash := ph }]) ∨
     (b = false ∧ st.approvals c i ≠ .approved (messageHash H
          { sourceChain := c, messageId := i, sourceAddress := sa, contract := caller, payloadHash := ph }) ∧
        st' = st ∧ evs = [])) := by
  unfold validateMessage at h
  split at h
  · cases h
  · rename_i hc
    refine ⟨Classical.not_not.mp hc, ?_⟩
    dsimp only at h
    split at h
    · rename_i ha
      cases h
      exact Or.inl ⟨rfl, ha, rfl, rfl⟩
    · rename_i ha
      cases h
      exact Or.inr ⟨rfl, ha, rfl, rfl⟩

/-- one operation moves every key's status along `Adv` -/
theorem step_adv (w : World) (op : Op σ) (c i : Bytes) :
    Adv (w.st.approvals c i) ((step H V w op).1.st.approvals c i) := by
  cases op with
  | approve ms proof =>
    simp only [step]
    split
    · rename_i st' evs h
      have := approveMessages_ok H V _ _ _ _ _ h
      have h2 := approveLoop_approvals H ms w.st c i
      rw [this] at h2
      rcases h2 with h2 | ⟨h2, h3⟩
      · exact Or.inl h2.symm
      · exact Or.inr (Or.inl ⟨h2, h3⟩)
    · exact Adv.refl _
  | rotate auths ws proof bypass =>
    simp only [step]
    split
    · rename_i st' evs h
      have := rotateSigners_approvals H V _ _ _ _ _ _ _ _ h
      simp only [this]
      exact Adv.refl _
    · exact Adv.refl _
  | validateMessage auths caller chain id src ph =>
    simp only [step]
    split
    · rename_i st' b evs h
      obtain ⟨_, ⟨_, ha, hs, _⟩ | ⟨_, _, hs, _⟩⟩ := validateMessage_ok H _ _ _ _ _ _ _ _ _ _ h
      · subst hs
        by_cases hci : c = chain ∧ i = id
        · obtain ⟨rfl, rfl⟩ := hci
          exact Or.inr (Or.inr ⟨⟨_, ha⟩, by simp⟩)
        · simp only [hci, if_false]
          exact Adv.refl _
      · subst hs; exact Adv.refl _
    · exact Adv.refl _
  | callContract auths caller chain dest payload =>
    simp only [step, callContract]
    split
    · rename_i h
      split at h
      · cases h
      · cases h; exact Adv.refl _
    · exact Adv.refl _
  | transferOwnership auths new =>
    simp only [step, transferOwnership]
    split
    · rename_i h
      split at h
      · cases h
      · cases h; exact Adv.refl _
    · exact Adv.refl _
  | transferOperatorship auths new =>
    simp only [step, transferOperatorship]
    split
    · rename_i h
      split at h
      · cases h
      · cases h; exact Adv.refl _
    · exact Adv.refl _
  | setTime now => exact Adv.refl _
  | upgrade auths =>
    obtain ⟨b, hb⟩ := step_upgrade_fst H V w auths
    rw [hb]; exact Adv.refl _
  | migrate auths =>
    obtain ⟨b, hb⟩ := step_migrate_fst H V w auths
    rw [hb]; exact Adv.refl _

theorem run_nil (w : World) : run H V w ([] : List (Op σ)) = (w, []) := rfl

theorem run_cons (w : World) (op : Op σ) (ops : List (Op σ)) :
    run H V w (op :: ops) =
      ((run H V (step H V w op).1 ops).1, (step H V w op).2 :: (run H V (step H V w op).1 ops).2) := rfl

theorem step_executed (w : World) (op : Op σ) (c i : Bytes) (h0 : w.st.approvals c i = .executed) :
    (step H V w op).1.st.approvals c i = .executed := by
  rcases step_adv H V w op c i with h | ⟨h, _⟩ | ⟨_, h⟩
  · rw [← h]; exact h0
  · rw [h0] at h; cases h
  · exact h

theorem run_executed (w : World) (ops : List (Op σ)) (c i : Bytes) (h0 : w.st.approvals c i = .executed) :
    (run H V w ops).1.st.approvals c i = .executed := by
  induction ops generalizing w with
  | nil => exact h0
  | cons op ops ih =>
    rw [run_cons]
    exact ih _ (step_executed H V w op c i h0)

/-- every event of the approval loop is the approval event of a message whose key was fresh in the start state -/
theorem approveLoop_events (ms : List Message) (st : State) (ev : Event) (hev : ev ∈ (approveLoop H ms st).2) :
    ∃ m, m ∈ ms ∧ st.approvals m.sourceChain m.messageId = .notApproved ∧ ev = evApproved m := by
  induction ms generalizing st with
  | nil => simp [approveLoop] at hev
  | cons m rest ih =>
    by_cases hk : st.approvals m.sourceChain m.messageId = .notApproved
    · rw [approveLoop_fresh H st m rest hk] at hev
      rcases List.mem_cons.mp hev with h | h
      · exact ⟨m, List.mem_cons_self, hk, h⟩
      · obtain ⟨m', hm', hst, he⟩ := ih _ h
        refine ⟨m', List.mem_cons_of_mem _ hm', ?_, he⟩
        by_cases hci : m'.sourceChain = m.sourceChain ∧ m'.messageId = m.messageId
        · simp [setApproved, hci] at hst
        · simpa [setApproved, hci] using hst
    · rw [approveLoop_known H st m rest hk] at hev
      obtain ⟨m', hm', hst, he⟩ := ih _ hev
      exact ⟨m', List.mem_cons_of_mem _ hm', hst, he⟩

theorem toSc_injective {m m' : Message} (h : m.toSc = m'.toSc) : m = m' := by
  cases m; cases m'
  simp only [Message.toSc, ScVal.map.injEq, ScPairs.cons.injEq, ScVal.addr.injEq, ScVal.str.injEq,
    ScVal.bytes.injEq, true_and, and_true] at h
  obtain ⟨h1, h2, h3, h4, h5⟩ := h
  subst h1 h2 h3 h4 h5
  rfl

theorem toSc_WF {m : Message} (h : m.Typed) : m.toSc.WF := by
  obtain ⟨h1, h2, h3, h4, h5⟩ := h
  simp only [Message.toSc, ScVal.WF, ScPairs.WF, ScPairs.len, symContractAddress, symMessageId, symPayloadHash,
    symSourceAddress, symSourceChain, List.length_cons, List.length_nil]
  refine ⟨by decide, ⟨by decide, h4, by decide, h2, by decide, ?_, by decide, h3, by decide, h1, trivial⟩⟩
  rw [h5]; decide

end Cgp.Proofs.C02
