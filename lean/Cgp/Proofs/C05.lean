import Cgp.ItsOps
import Cgp.Props.C18
import Cgp.Proofs.C04
namespace Cgp.Proofs.C05
open Cgp Cgp.Xdr Cgp.Its

variable (H S : Bytes → Bytes) (k : Consts)

/-- no balance of any token is negative (same body as `Props.C05.TokNonNeg`) -/
def NN (st : State) : Prop := ∀ a t h', st.tokens a = some t → 0 ≤ t.bal h'

/-! ### primitives -/

theorem balOf_setTok (st : State) (token a x : Addr) (t' : Tok) :
    balOf (setTok st token t') a x = if a = token then t'.bal x else balOf st a x := by
  by_cases hc : a = token
  · subst hc; simp [balOf, setTok]
  · simp [balOf, setTok, hc]

theorem tokTransfer_inv {st st' : State} {token src dst : Addr} {amount : Int} {au : Bool}
    (h : tokTransfer st token src dst amount au = .ok st') :
    au = true ∧ 0 ≤ amount ∧ ∃ t, st.tokens token = some t ∧ amount ≤ t.bal src ∧
      st' = setTok st token { t with bal := fun a => if a = dst then (if dst = src then t.bal src - amount else t.bal dst) + amount
                                                      else if a = src then t.bal src - amount else t.bal a } := by
  unfold tokTransfer at h
  split at h
  · cases h
  · rename_i t ht
    split at h
    · cases h
    · rename_i hc
      simp only at h
      by_cases hc2 : (if dst = src then t.bal src - amount else t.bal dst) + amount > i128Max
      · rw [if_pos hc2] at h; cases h
      · rw [if_neg hc2] at h
        simp only [Except.ok.injEq] at h
        simp only [not_or] at hc
        obtain ⟨h1, h2, h3⟩ := hc
        refine ⟨?_, by omega, t, ht, by omega, h.symm⟩
        cases au
        · exact absurd rfl h1
        · rfl

theorem tokBurn_inv {st st' : State} {token src : Addr} {amount : Int} {au : Bool}
    (h : tokBurn st token src amount au = .ok st') :
    au = true ∧ 0 ≤ amount ∧ ∃ t, st.tokens token = some t ∧ amount ≤ t.bal src ∧
      st' = setTok st token { t with bal := fun a => if a = src then t.bal src - amount else t.bal a } := by
  unfold tokBurn at h
  split at h
  · cases h
  · rename_i t ht
    split at h
    · cases h
    · split at h
      · cases h
      · rename_i hc
        simp only [Except.ok.injEq] at h
        simp only [not_or] at hc
        obtain ⟨h1, h2, h3⟩ := hc
        refine ⟨?_, by omega, t, ht, by omega, h.symm⟩
        cases au
        · exact absurd rfl h1
        · rfl

theorem tokMint_inv {st st' : State} {token dst : Addr} {amount : Int}
    (h : tokMintByService st token dst amount = .ok st') :
    0 ≤ amount ∧ ∃ t, st.tokens token = some t ∧ t.kind = .interchain ∧ t.owner = st.self ∧ t.minter st.self = true ∧
      st' = setTok st token { t with bal := fun a => if a = dst then t.bal dst + amount else t.bal a } := by
  unfold tokMintByService at h
  split at h
  · cases h
  · rename_i t ht
    split at h
    · cases h
    · rename_i hk
      split at h
      · cases h
      · rename_i hc
        simp only [Except.ok.injEq] at h
        simp only [not_or] at hc
        obtain ⟨h1, h2, h3, h4⟩ := hc
        have ho : t.owner = st.self := by
          by_cases e : t.owner = st.self
          · exact e
          · exact absurd e h1
        have hm : t.minter t.owner = true := by
          cases hx : t.minter t.owner
          · rw [hx] at h2; exact absurd rfl h2
          · rfl
        have hk' : t.kind = .interchain := by
          by_cases e : t.kind = .interchain
          · exact e
          · exact absurd e hk
        rw [ho] at hm
        exact ⟨by omega, t, ht, hk', ho, hm, h.symm⟩

theorem tokTransfer_exact (st st' : State) (token src dst : Addr) (amount : Int) (au : Bool)
    (h : tokTransfer st token src dst amount au = .ok st') :
    au = true ∧ 0 ≤ amount ∧ amount ≤ balOf st token src ∧
    (src ≠ dst → balOf st' token src = balOf st token src - amount ∧ balOf st' token dst = balOf st token dst + amount) ∧
    (src = dst → balOf st' token src = balOf st token src) ∧
    (∀ x, x ≠ src → x ≠ dst → balOf st' token x = balOf st token x) ∧
    (∀ tk, tk ≠ token → st'.tokens tk = st.tokens tk) ∧
    st'.registry = st.registry ∧ st'.gw = st.gw ∧ st'.trusted = st.trusted ∧ st'.self = st.self ∧
    st'.gasService = st.gasService ∧ st'.owner = st.owner := by
  obtain ⟨hau, ham, t, ht, hle, rfl⟩ := tokTransfer_inv h
  refine ⟨hau, ham, ?_, ?_, ?_, ?_, ?_, rfl, rfl, rfl, rfl, rfl, rfl⟩
  · simp only [balOf, ht]; exact hle
  · intro hne
    have hne' : dst ≠ src := fun e => hne e.symm
    constructor
    · rw [balOf_setTok]; simp [balOf, ht, hne]
    · rw [balOf_setTok]; simp [balOf, ht, hne']
  · intro he
    subst he
    rw [balOf_setTok]; simp [balOf, ht]
  · intro x h1 h2
    rw [balOf_setTok]; simp [balOf, ht, h1, h2]
  · intro tk htk
    simp [setTok, htk]

theorem tokBurn_exact (st st' : State) (token src : Addr) (amount : Int) (au : Bool)
    (h : tokBurn st token src amount au = .ok st') :
    au = true ∧ 0 ≤ amount ∧ amount ≤ balOf st token src ∧
    balOf st' token src = balOf st token src - amount ∧
    (∀ x, x ≠ src → balOf st' token x = balOf st token x) ∧
    (∀ tk, tk ≠ token → st'.tokens tk = st.tokens tk) ∧
    st'.registry = st.registry ∧ st'.gw = st.gw ∧ st'.trusted = st.trusted ∧ st'.self = st.self := by
  obtain ⟨hau, ham, t, ht, hle, rfl⟩ := tokBurn_inv h
  refine ⟨hau, ham, ?_, ?_, ?_, ?_, rfl, rfl, rfl, rfl⟩
  · simp only [balOf, ht]; exact hle
  · rw [balOf_setTok]; simp [balOf, ht]
  · intro x h1
    rw [balOf_setTok]; simp [balOf, ht, h1]
  · intro tk htk
    simp [setTok, htk]

theorem tokMint_exact (st st' : State) (token dst : Addr) (amount : Int)
    (h : tokMintByService st token dst amount = .ok st') :
    0 ≤ amount ∧ (∃ t, st.tokens token = some t ∧ t.kind = .interchain ∧ t.owner = st.self ∧ t.minter st.self = true) ∧
    balOf st' token dst = balOf st token dst + amount ∧
    (∀ x, x ≠ dst → balOf st' token x = balOf st token x) ∧
    (∀ tk, tk ≠ token → st'.tokens tk = st.tokens tk) ∧
    st'.registry = st.registry ∧ st'.gw = st.gw ∧ st'.trusted = st.trusted ∧ st'.self = st.self := by
  obtain ⟨ham, t, ht, hk, ho, hm, rfl⟩ := tokMint_inv h
  refine ⟨ham, ⟨t, ht, hk, ho, hm⟩, ?_, ?_, ?_, rfl, rfl, rfl, rfl⟩
  · rw [balOf_setTok]; simp [balOf, ht]
  · intro x h1
    rw [balOf_setTok]; simp [balOf, ht, h1]
  · intro tk htk
    simp [setTok, htk]

/-! ### frame + custody-keeping structure -/

/-- `st'` has the same identity as `st`, non-negativity is preserved, and (under condition `c`) the balance of `s` in
    token `a` is unchanged -/
structure FK (s a : Addr) (c : Prop) (st st' : State) : Prop where
  self : st'.self = st.self
  gs : st'.gasService = st.gasService
  ga : st'.gatewayAddr = st.gatewayAddr
  nn : NN st → NN st'
  keep : c → balOf st' a s = balOf st a s

variable {s a : Addr} {c : Prop}

theorem FK.refl {st : State} : FK s a c st st := ⟨rfl, rfl, rfl, id, fun _ => rfl⟩

theorem FK.trans {st st1 st2 : State} (h1 : FK s a c st st1) (h2 : FK s a c st1 st2) : FK s a c st st2 :=
  ⟨h2.self.trans h1.self, h2.gs.trans h1.gs, h2.ga.trans h1.ga, fun h => h2.nn (h1.nn h),
   fun hc => (h2.keep hc).trans (h1.keep hc)⟩

theorem FK.weaken {c' : Prop} {st st' : State} (h : FK s a c st st') (hc : c' → c) : FK s a c' st st' :=
  ⟨h.self, h.gs, h.ga, h.nn, fun x => h.keep (hc x)⟩

theorem FK_setTok {st : State} {token : Addr} {t' : Tok} (hnn : NN st → ∀ x, 0 ≤ t'.bal x)
    (hk : c → a = token → t'.bal s = balOf st a s) : FK s a c st (setTok st token t') := by
  refine ⟨rfl, rfl, rfl, ?_, ?_⟩
  · intro h b tb x hb
    unfold setTok at hb
    dsimp only at hb
    split at hb
    · cases hb; exact hnn h x
    · exact h b tb x hb
  · intro hc
    rw [balOf_setTok]
    split
    · rename_i he; exact hk hc he
    · rfl

theorem FK_other {st st' : State} (h1 : st'.self = st.self) (h2 : st'.gasService = st.gasService)
    (h3 : st'.gatewayAddr = st.gatewayAddr) (ht : st'.tokens = st.tokens) : FK s a c st st' := by
  refine ⟨h1, h2, h3, ?_, ?_⟩
  · intro h b tb x hb
    rw [ht] at hb
    exact h b tb x hb
  · intro _
    unfold balOf
    rw [ht]

theorem tokTransfer_FK {st st' : State} {token src dst : Addr} {amount : Int} {au : Bool}
    (h : tokTransfer st token src dst amount au = .ok st') : FK s a (src ≠ s ∧ dst ≠ s) st st' := by
  obtain ⟨-, ham, t, ht, hle, rfl⟩ := tokTransfer_inv h
  apply FK_setTok
  · intro hn x
    have hx := hn token t x ht
    have hs := hn token t src ht
    have hd := hn token t dst ht
    dsimp only
    split
    · split <;> omega
    · split <;> omega
  · intro ⟨h1, h2⟩ he
    subst he
    have h1' : ¬ s = src := fun e => h1 e.symm
    have h2' : ¬ s = dst := fun e => h2 e.symm
    simp [balOf, ht, h1', h2']

theorem tokBurn_FK {st st' : State} {token src : Addr} {amount : Int} {au : Bool}
    (h : tokBurn st token src amount au = .ok st') : FK s a (src ≠ s) st st' := by
  obtain ⟨-, ham, t, ht, hle, rfl⟩ := tokBurn_inv h
  apply FK_setTok
  · intro hn x
    have hx := hn token t x ht
    have hs := hn token t src ht
    dsimp only
    split <;> omega
  · intro h1 he
    subst he
    have h1' : ¬ s = src := fun e => h1 e.symm
    simp [balOf, ht, h1']

theorem tokMint_FK {st st' : State} {token dst : Addr} {amount : Int}
    (h : tokMintByService st token dst amount = .ok st') : FK s a (dst ≠ s) st st' := by
  obtain ⟨ham, t, ht, -, -, -, rfl⟩ := tokMint_inv h
  apply FK_setTok
  · intro hn x
    have hx := hn token t x ht
    have hd := hn token t dst ht
    dsimp only
    split <;> omega
  · intro h1 he
    subst he
    have h1' : ¬ s = dst := fun e => h1 e.symm
    simp [balOf, ht, h1']

theorem deployTok_FK {st : State} {m tid name symbol dec r}
    (h : deployTokenContract S k st m tid name symbol dec = .ok r) : FK s a c st r.1 := by
  unfold deployTokenContract at h
  dsimp only at h
  split at h
  · cases h
  · rename_i h1
    split at h
    · cases h
    · cases h
      dsimp only
      apply FK_setTok
      · intro _ x; exact Int.le_refl 0
      · intro _ he
        subst he
        simp only [not_or] at h1
        cases htk : st.tokens (deployedAddress S k st.self tid) with
        | none => simp [balOf, htk]
        | some t => rw [htk] at h1; exact absurd rfl h1.1

theorem payGas_FK {st : State} {sp spa dc msg gt ga st' evs}
    (h : payGasAndCall H k st sp spa dc msg gt ga = .ok (st', evs)) :
    FK s a (sp ≠ s ∧ st.gasService ≠ s) st st' := by
  obtain ⟨-, -, -, payload, -, -, htt⟩ := Props.C18.payGasAndCall_inv H k _ _ _ _ _ _ _ _ _ h
  exact tokTransfer_FK htt

theorem deployRemote_FK {st : State} {sp spa ds dc gt ga r}
    (h : deployRemoteToken H k st sp spa ds dc gt ga = .ok r) :
    FK s a (sp ≠ s ∧ st.gasService ≠ s) st r.1 := by
  obtain ⟨st', tid, evs⟩ := r
  obtain ⟨-, addr, mgr, t, payload, -, -, -, -, -, -, -, -, htt⟩ :=
    Props.C18.deployRemoteToken_exact H k _ _ _ _ _ _ _ _ _ _ h
  exact tokTransfer_FK htt

theorem deployIT_FK {st : State} {au ca sa n sy d su m r}
    (h : deployInterchainToken H S k st au ca sa n sy d su m = .ok r) : FK s a (ca ≠ s) st r.1 := by
  unfold deployInterchainToken at h
  split at h
  · cases h
  · dsimp only at h
    split at h
    · cases h
    · split at h
      · cases h
      · rename_i st1 addr ev hd
        have h1 : FK s a (ca ≠ s) st st1 := deployTok_FK S k hd
        split at h
        · cases h
        · rename_i st3 ha
          cases h
          dsimp only
          have h3 : FK s a (ca ≠ s) st1 st3 := by
            split at ha
            · split at ha
              · cases ha
              · rename_i st2 hm
                have h2 : FK s a (ca ≠ s) st1 st2 := tokMint_FK hm
                split at ha
                · split at ha
                  · rename_i t htk
                    cases ha
                    refine h2.trans (FK_setTok ?_ ?_)
                    · intro hn x; exact hn addr t x htk
                    · intro _ he; subst he; simp [balOf, htk]
                  · cases ha
                · cases ha; exact h2
            · cases ha; exact FK.refl
          exact (h1.trans h3).trans (FK_other rfl rfl rfl rfl)

/-! ### outbound -/

theorem interchainTransfer_inv {st st' : State} {auths : List Addr} {caller : Addr} {tid dest destAddr : Bytes} {amount : Int}
    {data : Option Bytes} {gasToken : Addr} {gasAmount : Int} {evs : List Event}
    (h : interchainTransfer H k st auths caller tid dest destAddr amount data gasToken gasAmount = .ok (st', evs)) :
    0 < amount ∧ caller ∈ auths ∧ st.trusted dest = true ∧ 0 < gasAmount ∧
    ∃ addr mgr st1 payload,
      st.registry tid = some (addr, mgr) ∧
      (match mgr with
       | .native => tokBurn st addr caller amount true = .ok st1
       | .lockUnlock => tokTransfer st addr caller st.self amount true = .ok st1) ∧
      Abi.encodeHub (.sendToHub dest (.transfer ⟨tid, enc (.addr caller), destAddr, amount, data⟩)) = .ok payload ∧
      tokTransfer st1 gasToken caller st1.gasService gasAmount true = .ok st' ∧
      evs = [evTransferSent st tid caller dest destAddr amount data,
             evGasPaid H k st1 payload caller gasToken gasAmount, evContractCalled H k st1 payload] := by
  unfold interchainTransfer at h
  split at h
  · cases h
  · rename_i ham
    split at h
    · cases h
    · rename_i hca
      split at h
      · cases h
      · rename_i addr mgr hreg
        dsimp only at h
        split at h
        · cases h
        · rename_i st1 ht
          split at h
          · cases h
          · rename_i st2 evs2 hp
            simp only [Except.ok.injEq, Prod.mk.injEq] at h
            obtain ⟨rfl, rfl⟩ := h
            obtain ⟨h1, -, h3, payload, h4, rfl, h6⟩ := Props.C18.payGasAndCall_inv H k _ _ _ _ _ _ _ _ _ hp
            have htr : st1.trusted = st.trusted := by
              cases mgr
              · obtain ⟨-, -, t, -, -, rfl⟩ := tokBurn_inv ht; rfl
              · obtain ⟨-, -, t, -, -, rfl⟩ := tokTransfer_inv ht; rfl
            rw [htr] at h1
            refine ⟨by omega, by simpa using hca, h1, h3, addr, mgr, st1, payload, hreg, ?_, h4, h6, rfl⟩
            cases mgr <;> exact ht

theorem interchainTransfer_FK {st : State} {au ca tid dc da am dt gt ga r}
    (h : interchainTransfer H k st au ca tid dc da am dt gt ga = .ok r) : FK s a False st r.1 := by
  obtain ⟨st', evs⟩ := r
  obtain ⟨-, -, -, -, addr, mgr, st1, payload, -, ht, -, hg, -⟩ := interchainTransfer_inv H k h
  have f2 : FK s a False st1 st' := (tokTransfer_FK hg).weaken False.elim
  have f1 : FK s a False st st1 := by
    cases mgr
    · exact (tokBurn_FK ht).weaken False.elim
    · exact (tokTransfer_FK ht).weaken False.elim
  exact f1.trans f2

/-! ### inbound -/

theorem execute_inv5 {st : State} {c i sa payload : Bytes} {st' : State} {evs : List Event}
    (h : execute H S k st c i sa payload = .ok (st', evs)) :
    ∃ gw' gwEvs origin inner, Abi.decodeHub payload = .ok (.receiveFromHub origin inner) ∧
      match inner with
      | .transfer t => ∃ recipient addr mgr, addrFromXdr t.dest = some recipient ∧ st.registry t.tokenId = some (addr, mgr) ∧
          (match mgr with
           | .native => tokMintByService { st with gw := gw' } addr recipient t.amount = .ok st'
           | .lockUnlock => tokTransfer { st with gw := gw' } addr st.self recipient t.amount true = .ok st') ∧
          evs = gwEvs ++ (evTransferReceived st origin t.tokenId t.source recipient t.amount t.data ::
                  (match t.data with
                   | none => []
                   | some d => [evAppExecuted recipient origin i t.source d t.tokenId addr t.amount]))
      | .deploy d => ∃ mo st1 addr ev,
          deployTokenContract S k { st with gw := gw' } mo d.tokenId d.name d.symbol d.decimals = .ok (st1, addr, ev) ∧
          st' = { st1 with registry := fun x => if x = d.tokenId then some (addr, .native) else st1.registry x } := by
  unfold execute at h
  split at h
  · cases h
  · cases h
  · rename_i gw' gwEvs hv
    dsimp only at h
    split at h
    · cases h
    · cases h
    · split at h
      · cases h
      · split at h
        · cases h
        · split at h
          · cases h
          · cases h
          · rename_i origin inner hdec
            split at h
            · cases h
            · refine ⟨gw', gwEvs.map (fun e => (⟨st.gatewayAddr, e.topics, e.data⟩ : Event)), origin, inner, hdec, ?_⟩
              split at h
              · rename_i t
                dsimp only
                split at h
                · cases h
                · rename_i recipient hdest
                  split at h
                  · cases h
                  · rename_i addr mgr hreg
                    split at h
                    · cases h
                    · rename_i st2 hg
                      split at h
                      · rename_i hdata
                        simp only [Except.ok.injEq, Prod.mk.injEq] at h
                        obtain ⟨rfl, rfl⟩ := h
                        refine ⟨recipient, addr, mgr, hdest, hreg, ?_, ?_⟩
                        · cases mgr <;> exact hg
                        · rw [hdata]
                      · rename_i d hdata
                        split at h
                        · simp only [Except.ok.injEq, Prod.mk.injEq] at h
                          obtain ⟨rfl, rfl⟩ := h
                          refine ⟨recipient, addr, mgr, hdest, hreg, ?_, ?_⟩
                          · cases mgr <;> exact hg
                          · rw [hdata]
                        · cases h
              · rename_i d
                dsimp only
                split at h
                · cases h
                · split at h
                  · cases h
                  · split at h
                    · cases h
                    · rename_i mo hmo
                      split at h
                      · cases h
                      · rename_i st1 addr ev hd
                        simp only [Except.ok.injEq, Prod.mk.injEq] at h
                        obtain ⟨rfl, rfl⟩ := h
                        exact ⟨mo, st1, addr, ev, hd, rfl⟩

theorem inbound_exact (st st' : State) (c i sa payload origin : Bytes) (t : Abi.Transfer) (evs : List Event)
    (h : execute H S k st c i sa payload = .ok (st', evs))
    (hd : Abi.decodeHub payload = .ok (.receiveFromHub origin (.transfer t))) :
    ∃ addr mgr recipient st0,
      st0 = { st with gw := st'.gw } ∧
      st.registry t.tokenId = some (addr, mgr) ∧ addrFromXdr t.dest = some recipient ∧
      (match mgr with
       | .native => tokMintByService st0 addr recipient t.amount = .ok st'
       | .lockUnlock => tokTransfer st0 addr st0.self recipient t.amount true = .ok st') ∧
      (∃ gwEvs, evs = gwEvs ++ (evTransferReceived st origin t.tokenId t.source recipient t.amount t.data ::
          (match t.data with
           | none => []
           | some d => [evAppExecuted recipient origin i t.source d t.tokenId addr t.amount]))) := by
  obtain ⟨gw', gwEvs, origin', inner, hdec, hm⟩ := execute_inv5 H S k h
  rw [hd] at hdec
  cases hdec
  dsimp only at hm
  obtain ⟨recipient, addr, mgr, hdest, hreg, hg, rfl⟩ := hm
  have hgw : st'.gw = gw' := by
    cases mgr
    · exact Proofs.C04.tokMint_gw hg
    · exact Proofs.C04.tokTransfer_gw hg
  refine ⟨addr, mgr, recipient, { st with gw := st'.gw }, rfl, hreg, hdest, ?_, ⟨_, rfl⟩⟩
  rw [hgw]
  cases mgr <;> exact hg

theorem execute_FK {st : State} {c' i sa p r}
    (h : execute H S k st c' i sa p = .ok r) : FK s a False st r.1 := by
  obtain ⟨st', evs⟩ := r
  obtain ⟨gw', gwEvs, origin, inner, -, hm⟩ := execute_inv5 H S k h
  have f0 : FK s a False st { st with gw := gw' } := FK_other rfl rfl rfl rfl
  cases inner with
  | transfer t =>
    dsimp only at hm
    obtain ⟨recipient, addr, mgr, -, -, hg, -⟩ := hm
    cases mgr
    · exact f0.trans ((tokMint_FK hg).weaken False.elim)
    · exact f0.trans ((tokTransfer_FK hg).weaken False.elim)
  | deploy d =>
    dsimp only at hm
    obtain ⟨mo, st1, addr, ev, hd, rfl⟩ := hm
    exact (f0.trans (deployTok_FK S k hd)).trans (FK_other rfl rfl rfl rfl)

/-! ### steps -/

theorem wrapEv_FK {st : State} {r : Except Err (State × List Event)} (hf : ∀ x, r = .ok x → FK s a c st x.1) :
    FK s a c st (wrapEv st r).1 := by
  unfold wrapEv
  split
  · exact hf _ rfl
  · exact FK.refl

theorem wrapId_FK {st : State} {r : Except Err (State × Bytes × List Event)} (hf : ∀ x, r = .ok x → FK s a c st x.1) :
    FK s a c st (wrapId st r).1 := by
  unfold wrapId
  split
  · exact hf _ rfl
  · exact FK.refl

/-- `Props.C05.Clean`, with the two custody-moving operations excluded -/
def Clean' (self : Addr) : Op → Prop
  | .deploy _ caller _ _ _ _ _ _ => caller ≠ self
  | .deployRemote _ caller _ _ _ _ => caller ≠ self
  | .deployRemoteCanonical _ _ _ spender _ _ => spender ≠ self
  | .transfer _ _ _ _ _ _ _ _ _ => False
  | .execute _ _ _ _ => False
  | .minterMint _ _ dst _ _ => dst ≠ self
  | _ => True

theorem step_FK (st : State) (op : Op) (a : Addr) :
    FK st.self a (Clean' st.self op ∧ st.gasService ≠ st.self) st (step H S k st op).1 := by
  cases op with
  | setTrusted au ch =>
    apply wrapEv_FK; intro x hx; unfold setTrustedChain at hx
    split at hx
    · cases hx
    · split at hx
      · cases hx
      · cases hx; exact FK_other rfl rfl rfl rfl
  | removeTrusted au ch =>
    apply wrapEv_FK; intro x hx; unfold removeTrustedChain at hx
    split at hx
    · cases hx
    · split at hx
      · cases hx
      · cases hx; exact FK_other rfl rfl rfl rfl
  | transferOwnership au n =>
    apply wrapEv_FK; intro x hx; unfold transferOwnership at hx
    split at hx
    · cases hx
    · cases hx; exact FK_other rfl rfl rfl rfl
  | deploy au ca sa n sy d su m =>
    exact wrapId_FK fun x hx => (deployIT_FK H S k hx).weaken (fun hc => hc.1)
  | registerCanonical t =>
    apply wrapId_FK; intro x hx; unfold registerCanonicalToken at hx
    dsimp only at hx
    split at hx
    · cases hx
    · cases hx; exact FK_other rfl rfl rfl rfl
  | deployRemote au ca sa de gt ga =>
    apply wrapId_FK; intro x hx; unfold deployRemoteInterchainToken at hx
    split at hx
    · cases hx
    · exact (deployRemote_FK H k hx).weaken (fun hc => ⟨hc.1, hc.2⟩)
  | deployRemoteCanonical au t de sp gt ga =>
    exact wrapId_FK fun x hx => (deployRemote_FK H k hx).weaken (fun hc => ⟨hc.1, hc.2⟩)
  | transfer au ca ti de da am dt gt ga =>
    exact wrapEv_FK fun x hx => (interchainTransfer_FK H k hx).weaken (fun hc => hc.1)
  | execute c' i sa p =>
    exact wrapEv_FK fun x hx => (execute_FK H S k hx).weaken (fun hc => hc.1)
  | gateway f => exact FK_other rfl rfl rfl rfl
  | userTransfer t sr d am au =>
    simp only [step]
    split
    · exact FK.refl
    · rename_i hc
      split
      · rename_i st' hx
        exact (tokTransfer_FK hx).weaken (fun _ => not_or.mp hc)
      · exact FK.refl
  | minterMint t m d am au =>
    simp only [step]
    split
    · rename_i tk htk
      split
      · exact FK.refl
      · rename_i hc
        simp only [not_or] at hc
        obtain ⟨-, -, -, -, h5, -⟩ := hc
        apply FK_setTok
        · intro hn x
          have hx := hn t tk x htk
          have hd := hn t tk d htk
          dsimp only
          split <;> omega
        · intro hcl he
          subst he
          have h1 : d ≠ st.self := hcl.1
          have h1' : ¬ st.self = d := fun e => h1 e.symm
          simp [balOf, htk, h1']
    · exact FK.refl
  | upgradeMigrate au => rw [step_upgradeMigrate_fst]; exact FK.refl

/-! ### custody -/

theorem custody_transfer (st : State) (a : Addr) (au : List Addr) (ca : Addr) (ti de da : Bytes) (am : Int)
    (dt : Option Bytes) (gt : Addr) (ga : Int) (hgs : st.gasService ≠ st.self) (hca : ca ≠ st.self) :
    balOf (step H S k st (.transfer au ca ti de da am dt gt ga)).1 a st.self = balOf st a st.self ∨
    (st.registry ti = some (a, .lockUnlock) ∧ 0 < am ∧
      balOf (step H S k st (.transfer au ca ti de da am dt gt ga)).1 a st.self = balOf st a st.self + am) := by
  cases hx : interchainTransfer H k st au ca ti de da am dt gt ga with
  | error e => left; simp only [step, hx, wrapEv]
  | ok r =>
    obtain ⟨st', evs⟩ := r
    have hs : (step H S k st (.transfer au ca ti de da am dt gt ga)).1 = st' := by simp only [step, hx, wrapEv]
    rw [hs]
    obtain ⟨hpos, -, -, -, addr, mgr, st1, payload, hreg, htk, -, hgas, -⟩ := interchainTransfer_inv H k hx
    have f2 : FK st.self a (ca ≠ st.self ∧ st1.gasService ≠ st.self) st1 st' := tokTransfer_FK hgas
    cases mgr with
    | native =>
      left
      have f1 : FK st.self a (ca ≠ st.self) st st1 := tokBurn_FK htk
      rw [f2.keep ⟨hca, by rw [f1.gs]; exact hgs⟩, f1.keep hca]
    | lockUnlock =>
      dsimp only at htk
      obtain ⟨-, -, -, hne, -, -, hoth, -, -, -, -, hgs1, -⟩ := tokTransfer_exact _ _ _ _ _ _ _ htk
      rw [f2.keep ⟨hca, by rw [hgs1]; exact hgs⟩]
      by_cases he : a = addr
      · subst he; right; exact ⟨hreg, hpos, (hne hca).2⟩
      · left; unfold balOf; rw [hoth a he]

theorem custody_execute (st : State) (a : Addr) (c' i sa p : Bytes) :
    balOf (step H S k st (.execute c' i sa p)).1 a st.self = balOf st a st.self ∨
    (∃ origin t, Abi.decodeHub p = .ok (.receiveFromHub origin (.transfer t)) ∧
        (∃ mgr, st.registry t.tokenId = some (a, mgr)) ∧
        (balOf (step H S k st (.execute c' i sa p)).1 a st.self = balOf st a st.self - t.amount ∨
         balOf (step H S k st (.execute c' i sa p)).1 a st.self = balOf st a st.self + t.amount)) := by
  cases hx : execute H S k st c' i sa p with
  | error e => left; simp only [step, hx, wrapEv]
  | ok r =>
    obtain ⟨st', evs⟩ := r
    have hs : (step H S k st (.execute c' i sa p)).1 = st' := by simp only [step, hx, wrapEv]
    rw [hs]
    obtain ⟨gw', gwEvs, origin, inner, hdec, hm⟩ := execute_inv5 H S k hx
    cases inner with
    | deploy d =>
      dsimp only at hm
      obtain ⟨mo, st1, addr, ev, hd, rfl⟩ := hm
      left
      have f : FK st.self a True { st with gw := gw' } st1 := deployTok_FK S k hd
      exact f.keep trivial
    | transfer t =>
      dsimp only at hm
      obtain ⟨recipient, addr, mgr, -, hreg, hg, -⟩ := hm
      by_cases he : a = addr
      · subst he
        by_cases hr : recipient = st.self
        · subst hr
          cases mgr with
          | native =>
            dsimp only at hg
            obtain ⟨-, -, hb, -⟩ := tokMint_exact _ _ _ _ _ hg
            right
            exact ⟨origin, t, hdec, ⟨_, hreg⟩, Or.inr hb⟩
          | lockUnlock =>
            dsimp only at hg
            obtain ⟨-, -, -, -, hb, -⟩ := tokTransfer_exact _ _ _ _ _ _ _ hg
            left
            exact hb rfl
        · cases mgr with
          | native =>
            dsimp only at hg
            have f : FK st.self a (recipient ≠ st.self) { st with gw := gw' } st' := tokMint_FK hg
            left
            exact f.keep hr
          | lockUnlock =>
            dsimp only at hg
            obtain ⟨-, -, -, hb, -⟩ := tokTransfer_exact _ _ _ _ _ _ _ hg
            right
            exact ⟨origin, t, hdec, ⟨_, hreg⟩, Or.inl (hb (fun e => hr e.symm)).1⟩
      · left
        have htk : st'.tokens a = st.tokens a := by
          cases mgr with
          | native =>
            dsimp only at hg
            obtain ⟨-, -, -, -, hb, -⟩ := tokMint_exact _ _ _ _ _ hg
            exact hb a he
          | lockUnlock =>
            dsimp only at hg
            obtain ⟨-, -, -, -, -, -, hb, -⟩ := tokTransfer_exact _ _ _ _ _ _ _ hg
            exact hb a he
        unfold balOf
        rw [htk]

/-! ### custody, as an equation -/

theorem custody_other_eq (st : State) (op : Op) (a : Addr) (hc : Clean' st.self op) (hgs : st.gasService ≠ st.self) :
    balOf (step H S k st op).1 a st.self =
      balOf st a st.self + (match (step H S k st op).2 with | .err _ => (0 : Int) | _ => 0) := by
  have h0 : (match (step H S k st op).2 with | .err _ => (0 : Int) | _ => 0) = 0 := by
    split <;> rfl
  rw [h0, Int.add_zero]
  exact (step_FK H S k st op a).keep ⟨hc, hgs⟩

theorem custody_transfer_eq (st : State) (a : Addr) (au : List Addr) (ca : Addr) (ti de da : Bytes) (am : Int)
    (dt : Option Bytes) (gt : Addr) (ga : Int) (hgs : st.gasService ≠ st.self) (hca : ca ≠ st.self) :
    balOf (step H S k st (.transfer au ca ti de da am dt gt ga)).1 a st.self =
      balOf st a st.self +
        (match (step H S k st (.transfer au ca ti de da am dt gt ga)).2 with
         | .err _ => 0
         | _ => if st.registry ti = some (a, .lockUnlock) then am else 0) := by
  cases hx : interchainTransfer H k st au ca ti de da am dt gt ga with
  | error e => simp only [step, hx, wrapEv, Int.add_zero]
  | ok r =>
    obtain ⟨st', evs⟩ := r
    simp only [step, hx, wrapEv]
    obtain ⟨hpos, -, -, -, addr, mgr, st1, payload, hreg, htk, -, hgas, -⟩ := interchainTransfer_inv H k hx
    have f2 : FK st.self a (ca ≠ st.self ∧ st1.gasService ≠ st.self) st1 st' := tokTransfer_FK hgas
    cases mgr with
    | native =>
      have f1 : FK st.self a (ca ≠ st.self) st st1 := tokBurn_FK htk
      rw [f2.keep ⟨hca, by rw [f1.gs]; exact hgs⟩, f1.keep hca, hreg]
      simp
    | lockUnlock =>
      dsimp only at htk
      obtain ⟨-, -, -, hne, -, -, hoth, -, -, -, -, hgs1, -⟩ := tokTransfer_exact _ _ _ _ _ _ _ htk
      rw [f2.keep ⟨hca, by rw [hgs1]; exact hgs⟩, hreg]
      by_cases he : a = addr
      · subst he; rw [(hne hca).2]; simp
      · have he' : ¬ addr = a := fun e => he e.symm
        have : balOf st1 a st.self = balOf st a st.self := by unfold balOf; rw [hoth a he]
        rw [this]; simp [he']

theorem custody_execute_eq (st : State) (a : Addr) (c' i sa p : Bytes) :
    balOf (step H S k st (.execute c' i sa p)).1 a st.self =
      balOf st a st.self +
        (match (step H S k st (.execute c' i sa p)).2 with
         | .err _ => 0
         | _ =>
           match Abi.decodeHub p with
           | .ok (.receiveFromHub _ (.transfer t)) =>
             match st.registry t.tokenId, addrFromXdr t.dest with
             | some (addr, .lockUnlock), some r => if addr = a ∧ r ≠ st.self then - t.amount else 0
             | some (addr, .native), some r => if addr = a ∧ r = st.self then t.amount else 0
             | _, _ => 0
           | _ => 0) := by
  cases hx : execute H S k st c' i sa p with
  | error e => simp only [step, hx, wrapEv, Int.add_zero]
  | ok r =>
    obtain ⟨st', evs⟩ := r
    simp only [step, hx, wrapEv]
    obtain ⟨gw', gwEvs, origin, inner, hdec, hm⟩ := execute_inv5 H S k hx
    rw [hdec]
    cases inner with
    | deploy d =>
      dsimp only at hm
      obtain ⟨mo, st1, addr, ev, hd, rfl⟩ := hm
      have f : FK st.self a True { st with gw := gw' } st1 := deployTok_FK S k hd
      have := f.keep trivial
      simp only [Int.add_zero]
      exact this
    | transfer t =>
      dsimp only at hm
      obtain ⟨recipient, addr, mgr, hdest, hreg, hg, -⟩ := hm
      simp only [hreg, hdest]
      cases mgr with
      | native =>
        dsimp only at hg
        obtain ⟨-, -, hb, hoth, htk, -⟩ := tokMint_exact _ _ _ _ _ hg
        by_cases he : addr = a
        · subst he
          by_cases hr : recipient = st.self
          · subst hr
            simp only [true_and, if_true]
            exact hb
          · have f : FK st.self addr (recipient ≠ st.self) { st with gw := gw' } st' := tokMint_FK hg
            have := f.keep hr
            simp only [hr, and_false, if_false, Int.add_zero]
            exact this
        · have he' : a ≠ addr := fun e => he e.symm
          have : balOf st' a st.self = balOf st a st.self := by
            unfold balOf; rw [htk a he']
          simp only [he, false_and, if_false, Int.add_zero]
          exact this
      | lockUnlock =>
        dsimp only at hg
        obtain ⟨-, -, -, hne, heq, -, htk, -⟩ := tokTransfer_exact _ _ _ _ _ _ _ hg
        by_cases he : addr = a
        · subst he
          by_cases hr : recipient = st.self
          · subst hr
            have := heq rfl
            simp only [ne_eq, not_true_eq_false, and_false, if_false, Int.add_zero]
            exact this
          · have := (hne (fun e => hr e.symm)).1
            simp only [ne_eq, hr, not_false_eq_true, and_self, if_true]
            rw [← Int.sub_eq_add_neg]
            exact this
        · have he' : a ≠ addr := fun e => he e.symm
          have : balOf st' a st.self = balOf st a st.self := by
            unfold balOf; rw [htk a he']
          simp only [he, false_and, if_false, Int.add_zero]
          exact this

/-! ### supply: sums of balances over a duplicate-free list of holders -/

theorem sum_congr {f g : Addr → Int} {hs : List Addr} (h : ∀ y ∈ hs, g y = f y) :
    (hs.map g).sum = (hs.map f).sum := by
  rw [List.map_congr_left h]

theorem sum_update {f g : Addr → Int} {x : Addr} {hs : List Addr} (hnd : hs.Nodup) (hx : x ∈ hs)
    (h : ∀ y, y ≠ x → g y = f y) : (hs.map g).sum = (hs.map f).sum + (g x - f x) := by
  induction hs with
  | nil => cases hx
  | cons y ys ih =>
    obtain ⟨hy, hys⟩ := List.nodup_cons.mp hnd
    simp only [List.map_cons, List.sum_cons]
    by_cases e : y = x
    · subst e
      have : (ys.map g).sum = (ys.map f).sum :=
        sum_congr fun z hz => h z (fun e => hy (e ▸ hz))
      omega
    · have hx' : x ∈ ys := by
        cases hx with
        | head => exact absurd rfl e
        | tail _ h' => exact h'
      have := ih hys hx'
      have := h y e
      omega

/-- the sum only looks at the token ledger -/
theorem sumBal_tokens {st st' : State} (h : st'.tokens = st.tokens) (a : Addr) (hs : List Addr) :
    (hs.map (balOf st' a)).sum = (hs.map (balOf st a)).sum := by
  apply sum_congr
  intro y _
  unfold balOf
  rw [h]

theorem tokTransfer_sum {st st' : State} {token src dst : Addr} {amount : Int} {au : Bool}
    (h : tokTransfer st token src dst amount au = .ok st') (a : Addr) {hs : List Addr} (hnd : hs.Nodup)
    (hsrc : src ∈ hs) (hdst : dst ∈ hs) :
    (hs.map (balOf st' a)).sum = (hs.map (balOf st a)).sum := by
  obtain ⟨-, -, t, ht, -, rfl⟩ := tokTransfer_inv h
  by_cases he : a = token
  · subst he
    have h1 := sum_update (f := balOf st a)
      (g := fun y => if y = src then t.bal src - amount else t.bal y) hnd hsrc
      (by intro y hy; simp [balOf, ht, hy])
    have h2 := sum_update (f := fun y => if y = src then t.bal src - amount else t.bal y)
      (g := balOf (setTok st a { t with bal := fun y => if y = dst then (if dst = src then t.bal src - amount else t.bal dst) + amount
                                                      else if y = src then t.bal src - amount else t.bal y }) a) hnd hdst
      (by intro y hy; rw [balOf_setTok]; simp [hy])
    rw [h2, h1, balOf_setTok]
    simp [balOf, ht]
    omega
  · apply sum_congr
    intro y _
    rw [balOf_setTok, if_neg he]

theorem tokBurn_sum {st st' : State} {token src : Addr} {amount : Int} {au : Bool}
    (h : tokBurn st token src amount au = .ok st') (a : Addr) {hs : List Addr} (hnd : hs.Nodup) (hsrc : src ∈ hs) :
    (hs.map (balOf st' a)).sum = (hs.map (balOf st a)).sum + (if a = token then - amount else 0) := by
  obtain ⟨-, -, t, ht, -, rfl⟩ := tokBurn_inv h
  by_cases he : a = token
  · subst he
    rw [sum_update (f := balOf st a) hnd hsrc (by intro y hy; rw [balOf_setTok]; simp [balOf, ht, hy]), balOf_setTok]
    simp [balOf, ht]
    omega
  · rw [if_neg he, Int.add_zero]
    apply sum_congr
    intro y _
    rw [balOf_setTok, if_neg he]

theorem bal_add_sum {st : State} {token dst : Addr} {amount : Int} {t : Tok} (ht : st.tokens token = some t)
    (a : Addr) {hs : List Addr} (hnd : hs.Nodup) (hdst : dst ∈ hs) :
    (hs.map (balOf (setTok st token { t with bal := fun y => if y = dst then t.bal dst + amount else t.bal y }) a)).sum =
      (hs.map (balOf st a)).sum + (if a = token then amount else 0) := by
  by_cases he : a = token
  · subst he
    rw [sum_update (f := balOf st a) hnd hdst (by intro y hy; rw [balOf_setTok]; simp [balOf, ht, hy]), balOf_setTok]
    simp [balOf, ht]
    omega
  · rw [if_neg he, Int.add_zero]
    apply sum_congr
    intro y _
    rw [balOf_setTok, if_neg he]

theorem tokMint_sum {st st' : State} {token dst : Addr} {amount : Int}
    (h : tokMintByService st token dst amount = .ok st') (a : Addr) {hs : List Addr} (hnd : hs.Nodup) (hdst : dst ∈ hs) :
    (hs.map (balOf st' a)).sum = (hs.map (balOf st a)).sum + (if a = token then amount else 0) := by
  obtain ⟨-, t, ht, -, -, -, rfl⟩ := tokMint_inv h
  exact bal_add_sum ht a hnd hdst

theorem deployTok_sum {st : State} {m tid name symbol dec r}
    (h : deployTokenContract S k st m tid name symbol dec = .ok r) (a : Addr) (hs : List Addr) :
    r.2.1 = deployedAddress S k st.self tid ∧
    (hs.map (balOf r.1 a)).sum = (hs.map (balOf st a)).sum := by
  unfold deployTokenContract at h
  dsimp only at h
  split at h
  · cases h
  · rename_i h1
    split at h
    · cases h
    · cases h
      dsimp only
      refine ⟨rfl, sum_congr ?_⟩
      intro y _
      rw [balOf_setTok]
      split
      · rename_i he
        subst he
        simp only [not_or] at h1
        cases htk : st.tokens (deployedAddress S k st.self tid) with
        | none => simp [balOf, htk]
        | some t => rw [htk] at h1; exact absurd rfl h1.1
      · rfl

theorem payGas_sum {st : State} {sp spa dc msg gt ga st' evs}
    (h : payGasAndCall H k st sp spa dc msg gt ga = .ok (st', evs)) (a : Addr) {hs : List Addr} (hnd : hs.Nodup)
    (hsp : sp ∈ hs) (hgs : st.gasService ∈ hs) :
    (hs.map (balOf st' a)).sum = (hs.map (balOf st a)).sum := by
  obtain ⟨-, -, -, payload, -, -, htt⟩ := Props.C18.payGasAndCall_inv H k _ _ _ _ _ _ _ _ _ h
  exact tokTransfer_sum htt a hnd hsp hgs

theorem deployRemote_sum {st : State} {sp spa ds dc gt ga r}
    (h : deployRemoteToken H k st sp spa ds dc gt ga = .ok r) (a : Addr) {hs : List Addr} (hnd : hs.Nodup)
    (hsp : sp ∈ hs) (hgs : st.gasService ∈ hs) :
    (hs.map (balOf r.1 a)).sum = (hs.map (balOf st a)).sum := by
  obtain ⟨st', tid, evs⟩ := r
  obtain ⟨-, addr, mgr, t, payload, -, -, -, -, -, -, -, -, htt⟩ :=
    Props.C18.deployRemoteToken_exact H k _ _ _ _ _ _ _ _ _ _ h
  exact tokTransfer_sum htt a hnd hsp hgs

theorem deployIT_sum {st : State} {au ca sa n sy d su m r}
    (h : deployInterchainToken H S k st au ca sa n sy d su m = .ok r) (a : Addr) {hs : List Addr} (hnd : hs.Nodup)
    (hca : ca ∈ hs) :
    (hs.map (balOf r.1 a)).sum = (hs.map (balOf st a)).sum +
      (if deployedAddress S k st.self (interchainTokenId H k st.chainName ca sa) = a ∧ su > 0 then su else 0) := by
  unfold deployInterchainToken at h
  split at h
  · cases h
  · dsimp only at h
    split at h
    · cases h
    · split at h
      · cases h
      · rename_i st1 addr ev hd
        obtain ⟨haddr, h1⟩ := deployTok_sum S k hd a hs
        dsimp only at haddr h1
        split at h
        · cases h
        · rename_i st3 ha
          cases h
          dsimp only
          show (hs.map (balOf st3 a)).sum = _
          rw [← haddr]
          split at ha
          · rename_i hsu
            split at ha
            · cases ha
            · rename_i st2 hm
              have h2 := tokMint_sum hm a hnd hca
              have h3 : (hs.map (balOf st3 a)).sum = (hs.map (balOf st2 a)).sum := by
                split at ha
                · split at ha
                  · rename_i t htk
                    cases ha
                    apply sum_congr
                    intro y _
                    rw [balOf_setTok]
                    split
                    · rename_i he; subst he; simp [balOf, htk]
                    · rfl
                  · cases ha
                · cases ha; rfl
              rw [h3, h2, h1]
              by_cases he : a = addr
              · subst he; simp [hsu]
              · have he' : ¬ addr = a := fun e => he e.symm
                simp [he, he']
          · rename_i hsu
            cases ha
            rw [h1]
            simp [hsu]

theorem interchainTransfer_sum {st : State} {au ca tid dc da am dt gt ga r}
    (h : interchainTransfer H k st au ca tid dc da am dt gt ga = .ok r) (a : Addr) {hs : List Addr} (hnd : hs.Nodup)
    (hca : ca ∈ hs) (hself : st.self ∈ hs) (hgs : st.gasService ∈ hs) :
    (hs.map (balOf r.1 a)).sum = (hs.map (balOf st a)).sum +
      (if st.registry tid = some (a, .native) then - am else 0) := by
  obtain ⟨st', evs⟩ := r
  obtain ⟨-, -, -, -, addr, mgr, st1, payload, hreg, ht, -, hg, -⟩ := interchainTransfer_inv H k h
  dsimp only
  cases mgr with
  | native =>
    dsimp only at ht
    have hgs1 : st1.gasService = st.gasService := by
      obtain ⟨-, -, t, -, -, rfl⟩ := tokBurn_inv ht; rfl
    rw [tokTransfer_sum hg a hnd hca (by rw [hgs1]; exact hgs), tokBurn_sum ht a hnd hca, hreg]
    by_cases he : a = addr
    · subst he; simp
    · have he' : ¬ addr = a := fun e => he e.symm
      simp [he, he']
  | lockUnlock =>
    dsimp only at ht
    have hgs1 : st1.gasService = st.gasService := by
      obtain ⟨-, -, t, -, -, rfl⟩ := tokTransfer_inv ht; rfl
    rw [tokTransfer_sum hg a hnd hca (by rw [hgs1]; exact hgs), tokTransfer_sum ht a hnd hca hself, hreg]
    simp

theorem execute_sum {st : State} {c' i sa p r}
    (h : execute H S k st c' i sa p = .ok r) (a : Addr) {hs : List Addr} (hnd : hs.Nodup)
    (hcov : ∀ x ∈ (match Abi.decodeHub p with
                    | .ok (.receiveFromHub _ (.transfer t)) =>
                      match addrFromXdr t.dest with
                      | some r => [r, st.self]
                      | none => []
                    | _ => []), x ∈ hs) :
    (hs.map (balOf r.1 a)).sum = (hs.map (balOf st a)).sum +
      (match Abi.decodeHub p with
       | .ok (.receiveFromHub _ (.transfer t)) => if st.registry t.tokenId = some (a, .native) then t.amount else 0
       | _ => 0) := by
  obtain ⟨st', evs⟩ := r
  obtain ⟨gw', gwEvs, origin, inner, hdec, hm⟩ := execute_inv5 H S k h
  rw [hdec] at hcov ⊢
  dsimp only
  cases inner with
  | deploy d =>
    dsimp only at hm ⊢
    obtain ⟨mo, st1, addr, ev, hd, rfl⟩ := hm
    obtain ⟨-, h1⟩ := deployTok_sum S k hd a hs
    dsimp only at h1
    show (hs.map (balOf st1 a)).sum = _
    rw [h1, Int.add_zero]
    exact sumBal_tokens rfl a hs
  | transfer t =>
    dsimp only at hm hcov ⊢
    obtain ⟨recipient, addr, mgr, hdest, hreg, hg, -⟩ := hm
    rw [hdest] at hcov
    dsimp only at hcov
    have hr : recipient ∈ hs := hcov _ (by simp)
    have hself : st.self ∈ hs := hcov _ (by simp)
    have h0 : (hs.map (balOf { st with gw := gw' } a)).sum = (hs.map (balOf st a)).sum := sumBal_tokens rfl a hs
    rw [hreg]
    cases mgr with
    | native =>
      dsimp only at hg
      rw [tokMint_sum hg a hnd hr, h0]
      by_cases he : a = addr
      · subst he; simp
      · have he' : ¬ addr = a := fun e => he e.symm
        simp [he, he']
    | lockUnlock =>
      dsimp only at hg
      rw [tokTransfer_sum hg a hnd hself hr, h0]
      simp

/-- the operations that touch no token ledger at all -/
def OwnerOp : Op → Prop
  | .setTrusted _ _ => True
  | .removeTrusted _ _ => True
  | .transferOwnership _ _ => True
  | .registerCanonical _ => True
  | .upgradeMigrate _ => True
  | _ => False

theorem step_tokens_other (st : State) (op : Op) (h : OwnerOp op) : (step H S k st op).1.tokens = st.tokens := by
  cases op with
  | setTrusted au ch =>
    simp only [step, wrapEv, setTrustedChain]
    split
    · rename_i hx
      split at hx
      · cases hx
      · split at hx
        · cases hx
        · cases hx; rfl
    · rfl
  | removeTrusted au ch =>
    simp only [step, wrapEv, removeTrustedChain]
    split
    · rename_i hx
      split at hx
      · cases hx
      · split at hx
        · cases hx
        · cases hx; rfl
    · rfl
  | transferOwnership au n =>
    simp only [step, wrapEv, Its.transferOwnership]
    split
    · rename_i hx
      split at hx
      · cases hx
      · cases hx; rfl
    · rfl
  | registerCanonical t =>
    simp only [step, wrapId, registerCanonicalToken]
    split
    · rename_i hx
      split at hx
      · cases hx
      · cases hx; rfl
    · rfl
  | upgradeMigrate au => rw [step_upgradeMigrate_fst]
  | _ => exact absurd h id

end Cgp.Proofs.C05
