/-
  Helper lemmas for property C03.
-/
import Cgp.GatewaySpec
namespace Cgp.Proofs.C03
open Cgp Cgp.Xdr Cgp.Gateway

theorem loop_ok_iff (l : List WSigner) (prev : Bytes) (total t : Nat) (ht : total < two128) :
    validateSignersLoop l prev total = .ok t ↔
      (List.Pairwise (fun a b => bytesLt a.key b.key = true) l ∧
       (∀ s ∈ l, bytesLt prev s.key = true) ∧
       (∀ s ∈ l, s.weight ≠ 0) ∧
       total + totalWeight l < two128 ∧ t = total + totalWeight l) := by
  induction l generalizing prev total with
  | nil =>
    simp only [validateSignersLoop, totalWeight, List.Pairwise.nil, List.not_mem_nil, false_imp_iff,
      implies_true, true_and, Nat.add_zero, Except.ok.injEq]
    constructor
    · intro h; exact ⟨ht, h.symm⟩
    · intro h; exact h.2.symm
  | cons s rest ih =>
    simp only [validateSignersLoop, totalWeight]
    by_cases h1 : bytesLt prev s.key = true
    · by_cases h2 : s.weight = 0
      · simp [h1, h2]
      · by_cases h3 : total + s.weight ≥ two128
        · simp only [h1, h2, h3, Bool.not_true, Bool.false_eq_true, if_false, if_true]
          constructor
          · intro h; cases h
          · rintro ⟨_, _, _, h, _⟩; omega
        · simp only [h1, h2, h3, Bool.not_true, Bool.false_eq_true, if_false]
          rw [ih s.key (total + s.weight) (by omega)]
          constructor
          · rintro ⟨hp, ha, hw, htot, rfl⟩
            refine ⟨List.pairwise_cons.mpr ⟨ha, hp⟩, ?_, ?_, by omega, by omega⟩
            · intro x hx
              rcases List.mem_cons.mp hx with rfl | hx
              · exact h1
              · exact bytesLt_trans h1 (ha x hx)
            · intro x hx
              rcases List.mem_cons.mp hx with rfl | hx
              · exact h2
              · exact hw x hx
          · rintro ⟨hp, ha, hw, htot, rfl⟩
            have hp' := List.pairwise_cons.mp hp
            refine ⟨hp'.2, hp'.1, ?_, by omega, by omega⟩
            intro x hx
            exact hw x (List.mem_cons_of_mem _ hx)
    · simp only [h1, Bool.not_false, if_true]
      constructor
      · intro h; cases h
      · rintro ⟨_, h, _⟩
        exact absurd (h s (List.mem_cons_self)) h1

theorem validateSigners_iff (ws : WSigners) :
    validateSigners ws = .ok () ↔ WellFormed ws := by
  unfold validateSigners WellFormed
  have h0 : (0 : Nat) < two128 := by decide
  by_cases he : ws.signers = []
  · simp [he]
  · have he' : ws.signers.isEmpty = false := by
      cases h : ws.signers with
      | nil => exact absurd h he
      | cons _ _ => rfl
    simp only [he', Bool.false_eq_true, if_false]
    cases hl : validateSignersLoop ws.signers zeroKey 0 with
    | error e =>
      simp only []
      constructor
      · intro h; cases h
      · rintro ⟨_, hp, ha, hw, htot, _, _⟩
        have := (loop_ok_iff ws.signers zeroKey 0 (totalWeight ws.signers) h0).mpr
          ⟨hp, ha, hw, by omega, by omega⟩
        rw [hl] at this; cases this
    | ok total =>
      simp only []
      obtain ⟨hp, ha, hw, htot, rfl⟩ := (loop_ok_iff ws.signers zeroKey 0 total h0).mp hl
      simp only [Nat.zero_add] at htot ⊢
      by_cases hth : ws.threshold = 0 ∨ totalWeight ws.signers < ws.threshold
      · simp only [hth, if_true]
        constructor
        · intro h; cases h
        · rintro ⟨_, _, _, _, _, h1, h2⟩; omega
      · simp only [hth, if_false, true_iff]
        exact ⟨he, hp, ha, hw, htot, by omega, by omega⟩


variable (H : Bytes → Bytes) {σ : Type} (V : Bytes → Bytes → σ → Bool)

/-- the state installed by a successful rotation -/
def rotated (st : State) (ws : WSigners) (now : Nat) : State :=
  { st with
    lastRot := some now
    epoch := st.epoch + 1
    hashByEpoch := fun e => if e = st.epoch + 1 then some (signersHash H ws) else st.hashByEpoch e
    epochByHash := fun x => if x = signersHash H ws then some (st.epoch + 1) else st.epochByHash x
    setAt := fun e => if e = st.epoch + 1 then some ws else st.setAt e }

theorem inner_ok_iff (st : State) (ws : WSigners) (enforce : Bool) (now : Nat) (r : State × Event) :
    rotateSignersInner H st ws enforce now = .ok r ↔
      (WellFormed ws ∧
       (enforce = true → st.lastRot.getD 0 ≤ now ∧ st.minDelay ≤ now - st.lastRot.getD 0) ∧
       st.epochByHash (signersHash H ws) = none ∧
       r = (rotated H st ws now, evRotated (st.epoch + 1) (signersHash H ws))) := by
  unfold rotateSignersInner
  cases hv : validateSigners ws with
  | error e =>
    have : ¬ WellFormed ws := by
      intro h; rw [(validateSigners_iff ws).mpr h] at hv; cases hv
    simp only [this, false_and, iff_false]
    intro h; cases h
  | ok u =>
    have hwf : WellFormed ws := (validateSigners_iff ws).mp hv
    simp only [hwf, true_and]
    by_cases h1 : enforce = true ∧ now < st.lastRot.getD 0
    · rw [if_pos h1]
      constructor
      · intro h; cases h
      · rintro ⟨h, _⟩; have := h h1.1; omega
    · rw [if_neg h1]
      by_cases h2 : enforce = true ∧ now - st.lastRot.getD 0 < st.minDelay
      · rw [if_pos h2]
        constructor
        · intro h; cases h
        · rintro ⟨h, _⟩; have := h h2.1; omega
      · rw [if_neg h2]
        have hen : (enforce = true → st.lastRot.getD 0 ≤ now ∧ st.minDelay ≤ now - st.lastRot.getD 0) := by
          intro he
          have a : ¬ now < st.lastRot.getD 0 := fun h => h1 ⟨he, h⟩
          have b : ¬ now - st.lastRot.getD 0 < st.minDelay := fun h => h2 ⟨he, h⟩
          omega
        cases hh : st.epochByHash (signersHash H ws) with
        | some e =>
          simp only [Option.isSome_some, if_true]
          constructor
          · intro h; cases h
          · rintro ⟨_, h, _⟩; cases h
        | none =>
          simp only [Option.isSome_none, Bool.false_eq_true, if_false, true_and, Except.ok.injEq, rotated]
          constructor
          · intro h; exact ⟨hen, h.symm⟩
          · intro h; exact h.2.symm


theorem rotate_ok_iff' (st : State) (auths : List Addr) (ws : WSigners) (proof : Proof σ) (bypass : Bool)
    (now : Nat) (r : State × List Event) :
    rotateSigners H V st auths ws proof bypass now = .ok r ↔
      ((bypass = true → st.operator ∈ auths) ∧
       (∃ b, validateProof H V st (rotateDataHash H ws) proof = .ok b ∧ (bypass = false → b = true)) ∧
       WellFormed ws ∧
       (bypass = false → st.lastRot.getD 0 ≤ now ∧ st.minDelay ≤ now - st.lastRot.getD 0) ∧
       st.epochByHash (signersHash H ws) = none ∧
       r = (rotated H st ws now, [evRotated (st.epoch + 1) (signersHash H ws)])) := by
  unfold rotateSigners
  by_cases h1 : bypass = true ∧ st.operator ∉ auths
  · rw [if_pos h1]
    constructor
    · intro h; cases h
    · rintro ⟨h, _⟩; exact absurd (h h1.1) h1.2
  · rw [if_neg h1]
    have hop : bypass = true → st.operator ∈ auths := by
      intro hb
      by_cases hm : st.operator ∈ auths
      · exact hm
      · exact absurd ⟨hb, hm⟩ h1
    cases hv : validateProof H V st (rotateDataHash H ws) proof with
    | error e =>
      constructor
      · intro h; cases h
      · rintro ⟨_, ⟨b, hb, _⟩, _⟩; cases hb
    | ok isLatest =>
      dsimp only
      by_cases h2 : (!(bypass || isLatest)) = true
      · rw [if_pos h2]
        constructor
        · intro h; cases h
        · rintro ⟨_, ⟨b, hb, hb'⟩, _⟩
          cases hb
          cases bypass
          · simp [hb'] at h2
          · simp at h2
      · rw [if_neg h2]
        have hlat : bypass = false → isLatest = true := by
          intro hb; subst hb; simpa using h2
        cases hi : rotateSignersInner H st ws (!bypass) now with
        | error e =>
          constructor
          · intro h; cases h
          · rintro ⟨_, _, hwf, hd, hn, _⟩
            have := (inner_ok_iff H st ws (!bypass) now _).mpr ⟨hwf, (by
              intro hb; apply hd; simpa using hb), hn, rfl⟩
            rw [hi] at this; cases this
        | ok p =>
          obtain ⟨hwf, hd, hn, rfl⟩ := (inner_ok_iff H st ws (!bypass) now p).mp hi
          dsimp only
          constructor
          · intro h
            refine ⟨hop, ⟨isLatest, rfl, hlat⟩, hwf, ?_, hn, ?_⟩
            · intro hb; apply hd; simp [hb]
            · cases h; rfl
          · rintro ⟨_, _, _, _, _, rfl⟩; rfl


theorem GInv_rotated (st : State) (ws : WSigners) (now : Nat) (hg : GInv H st) (hwf : WellFormed ws)
    (hn : st.epochByHash (signersHash H ws) = none) : GInv H (rotated H st ws now) := by
  have hnew : st.hashByEpoch (st.epoch + 1) = none := by
    cases h : st.hashByEpoch (st.epoch + 1) with
    | none => rfl
    | some x =>
      have := (hg.range (st.epoch + 1)).mp (by rw [h]; rfl)
      omega
  constructor
  · intro e h he
    simp only [rotated] at he ⊢
    by_cases hE : e = st.epoch + 1
    · rw [if_pos hE] at he
      cases he
      rw [if_pos rfl, hE]
    · rw [if_neg hE] at he
      have := hg.fwd e h he
      have hne : h ≠ signersHash H ws := by
        intro hc; rw [hc, hn] at this; cases this
      rw [if_neg hne]; exact this
  · intro e h he
    simp only [rotated] at he ⊢
    by_cases hh : h = signersHash H ws
    · rw [if_pos hh] at he
      cases he
      rw [if_pos rfl, hh]
    · rw [if_neg hh] at he
      have := hg.bwd e h he
      have hne : e ≠ st.epoch + 1 := by
        intro hc; rw [hc, hnew] at this; cases this
      rw [if_neg hne]; exact this
  · intro e
    simp only [rotated]
    by_cases hE : e = st.epoch + 1
    · rw [if_pos hE]
      simp only [Option.isSome_some, true_iff]
      omega
    · rw [if_neg hE, hg.range e]
      omega
  · intro e h he
    simp only [rotated] at he ⊢
    by_cases hE : e = st.epoch + 1
    · rw [if_pos hE] at he ⊢
      cases he
      exact ⟨ws, rfl, rfl, hwf⟩
    · rw [if_neg hE] at he ⊢
      exact hg.ghost e h he

theorem GInv_congr (st st' : State) (hg : GInv H st) (h1 : st'.hashByEpoch = st.hashByEpoch)
    (h2 : st'.epochByHash = st.epochByHash) (h3 : st'.epoch = st.epoch) (h4 : st'.setAt = st.setAt) :
    GInv H st' := by
  constructor
  · intro e h; rw [h1, h2]; exact hg.fwd e h
  · intro e h; rw [h1, h2]; exact hg.bwd e h
  · intro e; rw [h1, h3]; exact hg.range e
  · intro e h; rw [h1, h4]; exact hg.ghost e h

theorem approveLoop_auth (ms : List Message) (st : State) :
    (approveLoop H ms st).1.hashByEpoch = st.hashByEpoch ∧
    (approveLoop H ms st).1.epochByHash = st.epochByHash ∧
    (approveLoop H ms st).1.epoch = st.epoch ∧
    (approveLoop H ms st).1.setAt = st.setAt := by
  induction ms generalizing st with
  | nil => simp [approveLoop]
  | cons m rest ih =>
    unfold approveLoop
    by_cases h : st.approvals m.sourceChain m.messageId ≠ .notApproved
    · rw [if_pos h]; exact ih st
    · rw [if_neg h]
      exact ih _


def SameAuth (a b : State) : Prop :=
  a.hashByEpoch = b.hashByEpoch ∧ a.epochByHash = b.epochByHash ∧ a.epoch = b.epoch ∧ a.setAt = b.setAt

theorem SameAuth.rfl' (a : State) : SameAuth a a := ⟨rfl, rfl, rfl, rfl⟩

theorem step_auth (w : World) (op : Op σ) :
    SameAuth (step H V w op).1.st w.st ∨
    (∃ auths ws proof bypass evs, op = .rotate auths ws proof bypass ∧ (step H V w op).2 = .ok evs ∧
      (step H V w op).1.st = rotated H w.st ws w.now ∧ WellFormed ws ∧
      w.st.epochByHash (signersHash H ws) = none) := by
  cases op with
  | approve ms proof =>
    left
    simp only [step]
    cases h : approveMessages H V w.st ms proof with
    | error e => exact SameAuth.rfl' _
    | ok r =>
      obtain ⟨st', evs⟩ := r
      dsimp only
      unfold approveMessages at h
      cases hv : validateProof H V w.st (approveDataHash H ms) proof with
      | error e => rw [hv] at h; cases h
      | ok b =>
        rw [hv] at h
        dsimp only at h
        by_cases he : ms.isEmpty = true
        · rw [if_pos he] at h; cases h
        · rw [if_neg he] at h
          injection h with h
          have hst : st' = (approveLoop H ms w.st).1 := by rw [h]
          rw [hst]
          exact approveLoop_auth H ms w.st
  | rotate auths ws proof bypass =>
    simp only [step]
    cases h : rotateSigners H V w.st auths ws proof bypass w.now with
    | error e => left; exact SameAuth.rfl' _
    | ok r =>
      obtain ⟨st', evs⟩ := r
      right
      obtain ⟨_, _, hwf, _, hn, hr⟩ := (rotate_ok_iff' H V _ _ _ _ _ _ _).mp h
      cases hr
      exact ⟨auths, ws, proof, bypass, _, rfl, rfl, rfl, hwf, hn⟩
  | validateMessage auths caller chain id src ph =>
    left
    simp only [step]
    unfold validateMessage
    by_cases h1 : caller ∉ auths
    · rw [if_pos h1]; exact SameAuth.rfl' _
    · rw [if_neg h1]
      dsimp only
      by_cases h2 : w.st.approvals chain id = .approved (messageHash H
          { sourceChain := chain, messageId := id, sourceAddress := src, contract := caller, payloadHash := ph })
      · rw [if_pos h2]; exact ⟨rfl, rfl, rfl, rfl⟩
      · rw [if_neg h2]; exact SameAuth.rfl' _
  | callContract auths caller chain dest payload =>
    left
    simp only [step]
    unfold callContract
    by_cases h1 : caller ∉ auths
    · rw [if_pos h1]; exact SameAuth.rfl' _
    · rw [if_neg h1]; exact SameAuth.rfl' _
  | transferOwnership auths new =>
    left
    simp only [step]
    unfold transferOwnership
    by_cases h1 : w.st.owner ∉ auths
    · rw [if_pos h1]; exact SameAuth.rfl' _
    · rw [if_neg h1]; exact ⟨rfl, rfl, rfl, rfl⟩
  | transferOperatorship auths new =>
    left
    simp only [step]
    unfold transferOperatorship
    by_cases h1 : w.st.operator ∉ auths
    · rw [if_pos h1]; exact SameAuth.rfl' _
    · rw [if_neg h1]; exact ⟨rfl, rfl, rfl, rfl⟩
  | setTime now =>
    left
    exact SameAuth.rfl' _
  | upgrade auths =>
    left
    obtain ⟨b, hb⟩ := step_upgrade_fst H V w auths
    rw [hb]; exact ⟨rfl, rfl, rfl, rfl⟩
  | migrate auths =>
    left
    obtain ⟨b, hb⟩ := step_migrate_fst H V w auths
    rw [hb]; exact ⟨rfl, rfl, rfl, rfl⟩


theorem initSets_cons_ok (now : Nat) (ws : WSigners) (rest : List WSigners) (st st'' : State) (evs : List Event)
    (h : initSets H now (ws :: rest) st = .ok (st'', evs)) :
    WellFormed ws ∧ st.epochByHash (signersHash H ws) = none ∧
    ∃ evs', initSets H now rest (rotated H st ws now) = .ok (st'', evs') := by
  unfold initSets at h
  cases hi : rotateSignersInner H st ws false now with
  | error e => rw [hi] at h; cases h
  | ok p =>
    rw [hi] at h
    obtain ⟨hwf, _, hn, rfl⟩ := (inner_ok_iff H st ws false now p).mp hi
    dsimp only at h
    cases hr : initSets H now rest (rotated H st ws now) with
    | error e => rw [hr] at h; cases h
    | ok q =>
      rw [hr] at h
      obtain ⟨a, b⟩ := q
      dsimp only at h
      injection h with h
      injection h with h1 h2
      subst h1
      exact ⟨hwf, hn, b, rfl⟩

theorem initSets_GInv (now : Nat) (sets : List WSigners) (st st' : State) (evs : List Event)
    (h : initSets H now sets st = .ok (st', evs)) (hg : GInv H st) :
    GInv H st' ∧ st'.epoch = st.epoch + sets.length := by
  induction sets generalizing st evs with
  | nil =>
    unfold initSets at h
    injection h with h
    injection h with h1 h2
    subst h1
    exact ⟨hg, rfl⟩
  | cons ws rest ih =>
    obtain ⟨hwf, hn, evs', hr⟩ := initSets_cons_ok H now ws rest st st' evs h
    obtain ⟨h1, h2⟩ := ih _ evs' hr (GInv_rotated H st ws now hg hwf hn)
    refine ⟨h1, ?_⟩
    rw [h2]
    simp only [rotated, List.length_cons]
    omega

theorem initSets_distinct (now : Nat) (sets : List WSigners) (st st' : State) (evs : List Event)
    (h : initSets H now sets st = .ok (st', evs)) :
    (∀ ws ∈ sets, WellFormed ws) ∧
    List.Pairwise (fun a b => signersHash H a ≠ signersHash H b) sets ∧
    (∀ ws ∈ sets, st.epochByHash (signersHash H ws) = none) := by
  induction sets generalizing st evs with
  | nil => simp
  | cons ws rest ih =>
    obtain ⟨hwf, hn, evs', hr⟩ := initSets_cons_ok H now ws rest st st' evs h
    obtain ⟨h1, h2, h3⟩ := ih _ evs' hr
    have key : ∀ x ∈ rest, signersHash H ws ≠ signersHash H x ∧ st.epochByHash (signersHash H x) = none := by
      intro x hx
      have := h3 x hx
      simp only [rotated] at this
      by_cases hc : signersHash H x = signersHash H ws
      · rw [if_pos hc] at this; cases this
      · rw [if_neg hc] at this
        exact ⟨fun h => hc h.symm, this⟩
    refine ⟨?_, List.pairwise_cons.mpr ⟨fun x hx => (key x hx).1, h2⟩, ?_⟩
    · intro x hx
      rcases List.mem_cons.mp hx with rfl | hx
      · exact hwf
      · exact h1 x hx
    · intro x hx
      rcases List.mem_cons.mp hx with rfl | hx
      · exact hn
      · exact (key x hx).2

theorem GInv_initState (owner operator : Addr) (domain : Bytes) (minDelay retention : Nat) :
    GInv H (initState owner operator domain minDelay retention) := by
  constructor
  · intro e h he; cases he
  · intro e h he; cases he
  · intro e
    simp only [initState, Option.isSome_none, Bool.false_eq_true, false_iff]
    omega
  · intro e h he; cases he

end Cgp.Proofs.C03
