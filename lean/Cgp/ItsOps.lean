/-
  Cgp.ItsOps — the interchain token service as a transition system, for "every history" statements.
  Besides the service's own entry points a history may contain the environment's moves: anything happening at the
  gateway (modelled as an arbitrary change of the gateway state), user-to-user token transfers that do not involve
  the service, and a designated minter's own mints.
-/
import Cgp.Its
namespace Cgp.Its
open Cgp Cgp.Xdr

inductive Op where
  | setTrusted (auths : List Addr) (chain : Bytes)
  | removeTrusted (auths : List Addr) (chain : Bytes)
  | transferOwnership (auths : List Addr) (new : Addr)
  | deploy (auths : List Addr) (caller : Addr) (salt name symbol : Bytes) (decimals : Nat) (supply : Int) (minter : Option Addr)
  | registerCanonical (token : Addr)
  | deployRemote (auths : List Addr) (caller : Addr) (salt dest : Bytes) (gasToken : Addr) (gasAmount : Int)
  | deployRemoteCanonical (auths : List Addr) (token : Addr) (dest : Bytes) (spender gasToken : Addr) (gasAmount : Int)
  | transfer (auths : List Addr) (caller : Addr) (tid dest destAddr : Bytes) (amount : Int) (data : Option Bytes) (gasToken : Addr) (gasAmount : Int)
  | execute (chain msgId srcAddr payload : Bytes)
  /-- anything that happens at the gateway (approvals, rotations, other applications consuming their messages) -/
  | gateway (f : Gateway.State → Gateway.State)
  /-- a transfer between two parties, neither of which is the service -/
  | userTransfer (token src dst : Addr) (amount : Int) (authorised : Bool)
  /-- a minter other than the service mints on a service-deployed token -/
  | minterMint (token minter dst : Addr) (amount : Int) (authorised : Bool)
  /-- the owner upgrades the service to its own code and runs the (empty) migration -/
  | upgradeMigrate (auths : List Addr)

inductive Obs where
  | ok (evs : List Event)
  | okId (tid : Bytes) (evs : List Event)
  | err (e : Err)

section
variable (H : Bytes → Bytes) (S : Bytes → Bytes) (k : Consts)

def wrapEv (st : State) (r : Except Err (State × List Event)) : State × Obs :=
  match r with
  | .ok (st', evs) => (st', .ok evs)
  | .error e => (st, .err e)

def wrapId (st : State) (r : Except Err (State × Bytes × List Event)) : State × Obs :=
  match r with
  | .ok (st', tid, evs) => (st', .okId tid evs)
  | .error e => (st, .err e)

/-- one invocation, with the host's rollback of failed invocations -/
def step (st : State) : Op → State × Obs
  | .setTrusted au c => wrapEv st (setTrustedChain st au c)
  | .removeTrusted au c => wrapEv st (removeTrustedChain st au c)
  | .transferOwnership au n => wrapEv st (transferOwnership st au n)
  | .deploy au ca sa n sy d su m => wrapId st (deployInterchainToken H S k st au ca sa n sy d su m)
  | .registerCanonical t => wrapId st (registerCanonicalToken H k st t)
  | .deployRemote au ca sa de gt ga => wrapId st (deployRemoteInterchainToken H k st au ca sa de gt ga)
  | .deployRemoteCanonical au t de sp gt ga => wrapId st (deployRemoteCanonicalToken H k st au t de sp gt ga)
  | .transfer au ca ti de da am dt gt ga => wrapEv st (interchainTransfer H k st au ca ti de da am dt gt ga)
  | .execute c i sa p => wrapEv st (execute H S k st c i sa p)
  | .gateway f => ({ st with gw := f st.gw }, .ok [])
  | .userTransfer t s d a au =>
    if s = st.self ∨ d = st.self then (st, .err .unauthorized)
    else match tokTransfer st t s d a au with
      | .ok st' => (st', .ok [])
      | .error e => (st, .err e)
  | .minterMint t m d a au =>
    match st.tokens t with
    | some tk =>
      if tk.kind ≠ .interchain ∨ m = st.self ∨ !au ∨ !tk.minter m ∨ a < 0 ∨ tk.bal d + a > i128Max then (st, .err .tokenCallFailed)
      else (setTok st t { tk with bal := fun x => if x = d then tk.bal d + a else tk.bal x }, .ok [])
    | none => (st, .err .tokenCallFailed)
  | .upgradeMigrate au => if st.owner ∈ au then (st, .ok []) else (st, .err .unauthorized)

/-- upgrade to the same code + the empty migration changes nothing -/
theorem step_upgradeMigrate_fst (st : State) (au : List Addr) : (step H S k st (.upgradeMigrate au)).1 = st := by
  simp only [step]; split <;> rfl

/-- … and it reports either success without events or `unauthorized` -/
theorem step_upgradeMigrate_snd (st : State) (au : List Addr) :
    (step H S k st (.upgradeMigrate au)).2 = .ok [] ∨ (step H S k st (.upgradeMigrate au)).2 = .err .unauthorized := by
  simp only [step]; split
  · exact Or.inl rfl
  · exact Or.inr rfl

def run (st : State) : List Op → State × List Obs
  | [] => (st, [])
  | op :: ops =>
    let (st', o) := step H S k st op
    let (st'', os) := run st' ops
    (st'', o :: os)

end

/-- balance of `holder` in `token` (0 if there is no such token) -/
def balOf (st : State) (token holder : Addr) : Int :=
  match st.tokens token with
  | some t => t.bal holder
  | none => 0

def Collision (F : Bytes → Bytes) : Prop := ∃ x y, x ≠ y ∧ F x = F y

end Cgp.Its
