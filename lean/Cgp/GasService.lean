/-
  Cgp.GasService — operational model **M** of contracts/axelar-gas-service/src/contract.rs over the
  SAC environment model.
-/
import Cgp.Sac
namespace Cgp.GasService
open Cgp Cgp.Xdr Cgp.Sac

inductive Err where
  | unauthorized | invalidAmount | insufficientBalance | tokenCallFailed
deriving DecidableEq, Repr, Inhabited

structure Event where
  topics : List ScVal
  data : ScVal

structure State where
  self : Addr            -- the service's own address
  owner : Addr
  collector : Addr
  bank : Bank

def sym (s : String) : ScVal := .sym s.toUTF8.toList
def i128v (i : Int) : ScVal := .i128 (if i < 0 then (i + 2 ^ 128).toNat else i.toNat)

/-- `Token { address, amount }` as a contracttype struct -/
def tokenSc (token : Addr) (amount : Int) : ScVal :=
  .map (.cons (sym "address") (.addr token) (.cons (sym "amount") (i128v amount) .nil))

section
variable (H : Bytes → Bytes)

def evGasPaid (sender : Addr) (chain dest payload : Bytes) (spender token : Addr) (amount : Int) (metadata : Bytes) : Event :=
  ⟨[sym "gas_paid", .addr sender, .str chain, .str dest, .bytes (H payload), .addr spender, tokenSc token amount],
   .vec (.cons (.bytes metadata) .nil)⟩
def evGasAdded (sender : Addr) (msgId : Bytes) (spender token : Addr) (amount : Int) : Event :=
  ⟨[sym "gas_added", .addr sender, .str msgId, .addr spender, tokenSc token amount], .void⟩
def evRefunded (msgId : Bytes) (receiver token : Addr) (amount : Int) : Event :=
  ⟨[sym "gas_refunded", .str msgId, .addr receiver, tokenSc token amount], .void⟩
/-- NOTE: the code passes the COLLECTOR where the event layout says "receiver" (C14 constrains token and amount only) -/
def evCollected (collector token : Addr) (amount : Int) : Event :=
  ⟨[sym "gas_collected", .addr collector, tokenSc token amount], .void⟩

def payGas (st : State) (auths : List Addr) (sender : Addr) (chain dest payload : Bytes) (spender token : Addr)
    (amount : Int) (metadata : Bytes) : Except Err (State × List Event) :=
  if spender ∉ auths then .error .unauthorized
  else if amount ≤ 0 then .error .invalidAmount
  else match st.bank.transfer token spender st.self amount true with
    | none => .error .tokenCallFailed
    | some b => .ok ({ st with bank := b }, [evGasPaid H sender chain dest payload spender token amount metadata])

def addGas (st : State) (auths : List Addr) (sender : Addr) (msgId : Bytes) (spender token : Addr) (amount : Int) :
    Except Err (State × List Event) :=
  if spender ∉ auths then .error .unauthorized
  else if amount ≤ 0 then .error .invalidAmount
  else match st.bank.transfer token spender st.self amount true with
    | none => .error .tokenCallFailed
    | some b => .ok ({ st with bank := b }, [evGasAdded sender msgId spender token amount])

def collectFees (st : State) (auths : List Addr) (receiver token : Addr) (amount : Int) : Except Err (State × List Event) :=
  if st.collector ∉ auths then .error .unauthorized
  else if amount ≤ 0 then .error .invalidAmount
  else if !st.bank.isToken token then .error .tokenCallFailed
  else if st.bank.bal token st.self < amount then .error .insufficientBalance
  else match st.bank.transfer token st.self receiver amount true with
    | none => .error .tokenCallFailed
    | some b => .ok ({ st with bank := b }, [evCollected st.collector token amount])

def refund (st : State) (auths : List Addr) (msgId : Bytes) (receiver token : Addr) (amount : Int) :
    Except Err (State × List Event) :=
  if st.collector ∉ auths then .error .unauthorized
  else match st.bank.transfer token st.self receiver amount true with
    | none => .error .tokenCallFailed
    | some b => .ok ({ st with bank := b }, [evRefunded msgId receiver token amount])

end

def transferOwnership (st : State) (auths : List Addr) (new : Addr) : Except Err (State × List Event) :=
  if st.owner ∉ auths then .error .unauthorized
  else .ok ({ st with owner := new }, [⟨[sym "ownership_transferred", .addr st.owner, .addr new], .vec .nil⟩])

/-! ### transition system: API operations plus the environment moves that do not involve the service -/

inductive Op where
  | payGas (auths : List Addr) (sender : Addr) (chain dest payload : Bytes) (spender token : Addr) (amount : Int) (metadata : Bytes)
  | addGas (auths : List Addr) (sender : Addr) (msgId : Bytes) (spender token : Addr) (amount : Int)
  | collectFees (auths : List Addr) (receiver token : Addr) (amount : Int)
  | refund (auths : List Addr) (msgId : Bytes) (receiver token : Addr) (amount : Int)
  | transferOwnership (auths : List Addr) (new : Addr)
  /-- a transfer between users (neither side is the service) -/
  | userTransfer (token src dst : Addr) (amount : Int) (authorised : Bool)
  | adminMint (token dst : Addr) (amount : Int)
  /-- the owner upgrades the contract to its own code and runs the (empty) migration -/
  | upgradeMigrate (auths : List Addr)

def apply (H : Bytes → Bytes) (st : State) : Op → Except Err (State × List Event)
  | .payGas au s c d p sp t a m => payGas H st au s c d p sp t a m
  | .addGas au s i sp t a => addGas st au s i sp t a
  | .collectFees au r t a => collectFees st au r t a
  | .refund au i r t a => refund st au i r t a
  | .transferOwnership au n => transferOwnership st au n
  | .userTransfer t s d a au =>
    if s = st.self ∨ d = st.self then .error .unauthorized   -- excluded by definition of the op
    else match st.bank.transfer t s d a au with
      | none => .error .tokenCallFailed
      | some b => .ok ({ st with bank := b }, [])
  | .adminMint t d a =>
    if d = st.self then .error .unauthorized
    else match st.bank.mint t d a with
      | none => .error .tokenCallFailed
      | some b => .ok ({ st with bank := b }, [])
  | .upgradeMigrate au => if st.owner ∈ au then .ok (st, []) else .error .unauthorized

def step (H : Bytes → Bytes) (st : State) (op : Op) : State × Except Err (List Event) :=
  match apply H st op with
  | .ok (st', evs) => (st', .ok evs)
  | .error e => (st, .error e)

/-- upgrade to the same code + the empty migration: whatever `apply` answers, the state is the one it started from -/
theorem apply_upgradeMigrate_ok (H : Bytes → Bytes) (st : State) (au : List Addr) (r : State × List Event)
    (h : apply H st (.upgradeMigrate au) = .ok r) : r = (st, []) ∧ st.owner ∈ au := by
  simp only [apply] at h
  split at h
  · rename_i hc; cases h; exact ⟨rfl, hc⟩
  · cases h

theorem step_upgradeMigrate_fst (H : Bytes → Bytes) (st : State) (au : List Addr) :
    (step H st (.upgradeMigrate au)).1 = st := by
  simp only [step, apply]
  by_cases h : st.owner ∈ au <;> simp [h]

def run (H : Bytes → Bytes) (st : State) : List Op → State
  | [] => st
  | op :: rest => run H (step H st op).1 rest

end Cgp.GasService
