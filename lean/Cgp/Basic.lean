/-
  Cgp.Basic — bytes, big-endian integers, hex.  Core Lean only (no Mathlib):
  everything in the model layer must link into the `cgp-driver` executable.
-/
namespace Cgp

abbrev Bytes := List UInt8

/-- k-byte big-endian representation of `n` (truncating). -/
def beN : Nat → Nat → Bytes
  | 0, _ => []
  | k+1, n => beN k (n / 256) ++ [UInt8.ofNat (n % 256)]

/-- big-endian value of a byte string -/
def ofBE (b : Bytes) : Nat := b.foldl (fun acc x => acc * 256 + x.toNat) 0

theorem beN_length (k n : Nat) : (beN k n).length = k := by
  induction k generalizing n with
  | zero => rfl
  | succ k ih => simp [beN, ih]

theorem ofBE_append_single (b : Bytes) (x : UInt8) : ofBE (b ++ [x]) = ofBE b * 256 + x.toNat := by
  simp [ofBE, List.foldl_append]

theorem ofBE_beN (k n : Nat) (h : n < 256 ^ k) : ofBE (beN k n) = n := by
  induction k generalizing n with
  | zero => simp at h; subst h; rfl
  | succ k ih =>
    rw [beN, ofBE_append_single, ih (n / 256) (by rw [Nat.pow_succ] at h; omega)]
    simp only [UInt8.toNat_ofNat']
    omega

/-- reverse induction on lists (core Lean has no `reverseRecOn`) -/
theorem list_rev_induction {α : Type} {P : List α → Prop} (hnil : P [])
    (hsnoc : ∀ l a, P l → P (l ++ [a])) : ∀ l, P l := by
  intro l
  generalize hn : l.length = n
  induction n generalizing l with
  | zero =>
    have : l = [] := List.length_eq_zero_iff.mp hn
    subst this; exact hnil
  | succ n ih =>
    rcases List.eq_nil_or_concat l with h | ⟨l', b, h⟩
    · subst h; simp at hn
    · subst h
      rw [List.concat_eq_append] at hn ⊢
      simp at hn
      exact hsnoc l' b (ih l' hn)

theorem ofBE_lt (b : Bytes) : ofBE b < 256 ^ b.length := by
  induction b using list_rev_induction with
  | hnil => simp [ofBE]
  | hsnoc b x ih =>
    rw [ofBE_append_single, List.length_append, List.length_singleton, Nat.pow_succ]
    have := x.toNat_lt
    omega

theorem beN_ofBE (b : Bytes) : beN b.length (ofBE b) = b := by
  induction b using list_rev_induction with
  | hnil => rfl
  | hsnoc b x ih =>
    rw [ofBE_append_single, List.length_append, List.length_singleton, beN]
    have hx := x.toNat_lt
    have h1 : (ofBE b * 256 + x.toNat) / 256 = ofBE b := by omega
    have h2 : (ofBE b * 256 + x.toNat) % 256 = x.toNat := by omega
    rw [h1, h2, ih]
    simp

/-- two big-endian strings of the same width with the same value are equal -/
theorem beN_injective (k a b : Nat) (ha : a < 256 ^ k) (hb : b < 256 ^ k) (h : beN k a = beN k b) : a = b := by
  have := congrArg ofBE h
  rwa [ofBE_beN k a ha, ofBE_beN k b hb] at this

def be32 (n : Nat) : Bytes := beN 4 n
def be64 (n : Nat) : Bytes := beN 8 n

theorem be32_length (n : Nat) : (be32 n).length = 4 := beN_length 4 n
theorem be64_length (n : Nat) : (be64 n).length = 8 := beN_length 8 n

/-! ### hex -/

def hexDigit (n : Nat) : Char :=
  if n < 10 then Char.ofNat (48 + n) else Char.ofNat (87 + n)

def toHex (b : Bytes) : String :=
  String.ofList (b.foldr (fun x acc => hexDigit (x.toNat / 16) :: hexDigit (x.toNat % 16) :: acc) [])

def hexVal (c : Char) : Option Nat :=
  let n := c.toNat
  if 48 ≤ n ∧ n ≤ 57 then some (n - 48)
  else if 97 ≤ n ∧ n ≤ 102 then some (n - 87)
  else if 65 ≤ n ∧ n ≤ 70 then some (n - 55)
  else none

def ofHexChars : List Char → Option Bytes
  | [] => some []
  | a :: b :: r =>
    match hexVal a, hexVal b, ofHexChars r with
    | some x, some y, some rest => some (UInt8.ofNat (x * 16 + y) :: rest)
    | _, _, _ => none
  | [_] => none

/-- `-` denotes the empty string so that every token on a protocol line is non-empty -/
def ofHex (s : String) : Option Bytes :=
  if s = "-" then some [] else ofHexChars s.toList

def toHexTok (b : Bytes) : String := if b.isEmpty then "-" else toHex b

/-! ### lexicographic order on byte strings (what `BytesN < BytesN` is in the host) -/

def bytesLt : Bytes → Bytes → Bool
  | [], [] => false
  | [], _ :: _ => true
  | _ :: _, [] => false
  | a :: as, b :: bs => if a < b then true else if b < a then false else bytesLt as bs

theorem bytesLt_irrefl (a : Bytes) : bytesLt a a = false := by
  induction a with
  | nil => rfl
  | cons x xs ih => simp [bytesLt, ih]

theorem bytesLt_trans {a b c : Bytes} (h1 : bytesLt a b = true) (h2 : bytesLt b c = true) :
    bytesLt a c = true := by
  induction a generalizing b c with
  | nil =>
    cases b with
    | nil => simp [bytesLt] at h1
    | cons y ys =>
      cases c with
      | nil => simp [bytesLt] at h2
      | cons z zs => simp [bytesLt]
  | cons x xs ih =>
    cases b with
    | nil => simp [bytesLt] at h1
    | cons y ys =>
      cases c with
      | nil => simp [bytesLt] at h2
      | cons z zs =>
        simp only [bytesLt] at h1 h2 ⊢
        have hxy : x < y ∨ (x = y ∧ bytesLt xs ys = true) := by
          by_cases h : x < y
          · exact Or.inl h
          · simp only [h, if_false] at h1
            by_cases h' : y < x
            · simp [h'] at h1
            · simp only [h', if_false] at h1
              exact Or.inr ⟨UInt8.le_antisymm (UInt8.not_lt.mp h') (UInt8.not_lt.mp h), h1⟩
        have hyz : y < z ∨ (y = z ∧ bytesLt ys zs = true) := by
          by_cases h : y < z
          · exact Or.inl h
          · simp only [h, if_false] at h2
            by_cases h' : z < y
            · simp [h'] at h2
            · simp only [h', if_false] at h2
              exact Or.inr ⟨UInt8.le_antisymm (UInt8.not_lt.mp h') (UInt8.not_lt.mp h), h2⟩
        rcases hxy with hxy | ⟨rfl, hxs⟩
        · rcases hyz with hyz | ⟨rfl, _⟩
          · simp [UInt8.lt_trans hxy hyz]
          · simp [hxy]
        · rcases hyz with hyz | ⟨rfl, hys⟩
          · simp [hyz]
          · have : ¬ x < x := UInt8.lt_irrefl x
            simp [this, ih hxs hys]

end Cgp
