/-
  Cgp.Operators — operational model **M** of contracts/axelar-operators/src/contract.rs.
  The target of a forwarded call is a PARAMETER: a deterministic state machine `tgt` over some target state `τ`
  (`none` = the target call fails/traps).
-/
import Cgp.Xdr
namespace Cgp.Operators
open Cgp Cgp.Xdr

inductive Err where
  | unauthorized | operatorAlreadyAdded | notAnOperator | targetFailed
deriving DecidableEq, Repr, Inhabited

structure Event where
  topics : List ScVal
  data : ScVal

structure State where
  owner : Addr
  isOp : Addr → Bool

def sym (s : String) : ScVal := .sym s.toUTF8.toList

/-- a call as the target sees it: which contract, which function, which arguments, and who is calling -/
structure Call where
  contract : Addr
  func : Bytes
  args : List ScVal
  invoker : Addr

abbrev Target (τ : Type) := τ → Call → Option (τ × ScVal)

def addOperator (st : State) (auths : List Addr) (a : Addr) : Except Err (State × List Event) :=
  if st.owner ∉ auths then .error .unauthorized
  else if st.isOp a then .error .operatorAlreadyAdded
  else .ok ({ st with isOp := fun x => if x = a then true else st.isOp x }, [⟨[sym "operator_added", .addr a], .void⟩])

def removeOperator (st : State) (auths : List Addr) (a : Addr) : Except Err (State × List Event) :=
  if st.owner ∉ auths then .error .unauthorized
  else if !st.isOp a then .error .notAnOperator
  else .ok ({ st with isOp := fun x => if x = a then false else st.isOp x }, [⟨[sym "operator_removed", .addr a], .void⟩])

def transferOwnership (st : State) (auths : List Addr) (new : Addr) : Except Err (State × List Event) :=
  if st.owner ∉ auths then .error .unauthorized
  else .ok ({ st with owner := new }, [⟨[sym "ownership_transferred", .addr st.owner, .addr new], .vec .nil⟩])

/-- `execute(operator, contract, func, args)`: operator auth, membership, forward exactly once, hand the value back -/
def execute {τ : Type} (tgt : Target τ) (self : Addr) (st : State) (ts : τ) (auths : List Addr)
    (operator contract : Addr) (func : Bytes) (args : List ScVal) : Except Err (τ × ScVal) :=
  if operator ∉ auths then .error .unauthorized
  else if !st.isOp operator then .error .notAnOperator
  else match tgt ts ⟨contract, func, args, self⟩ with
    | none => .error .targetFailed
    | some (ts', v) => .ok (ts', v)

/-! ### transition system -/

inductive Op where
  | add (auths : List Addr) (a : Addr)
  | remove (auths : List Addr) (a : Addr)
  | transferOwnership (auths : List Addr) (new : Addr)
  | execute (auths : List Addr) (operator contract : Addr) (func : Bytes) (args : List ScVal)
  /-- the owner upgrades the contract to its own code and runs the (empty) migration -/
  | upgradeMigrate (auths : List Addr)

inductive Obs where
  | ok (evs : List Event)
  | value (v : ScVal)
  | err (e : Err)

structure World (τ : Type) where
  self : Addr
  st : State
  ts : τ

def step {τ : Type} (tgt : Target τ) (w : World τ) : Op → World τ × Obs
  | .add au a => match addOperator w.st au a with
    | .ok (st', evs) => ({ w with st := st' }, .ok evs)
    | .error e => (w, .err e)
  | .remove au a => match removeOperator w.st au a with
    | .ok (st', evs) => ({ w with st := st' }, .ok evs)
    | .error e => (w, .err e)
  | .transferOwnership au n => match transferOwnership w.st au n with
    | .ok (st', evs) => ({ w with st := st' }, .ok evs)
    | .error e => (w, .err e)
  | .execute au o c f args => match execute tgt w.self w.st w.ts au o c f args with
    | .ok (ts', v) => ({ w with ts := ts' }, .value v)
    | .error e => (w, .err e)
  | .upgradeMigrate au => if w.st.owner ∈ au then (w, .ok []) else (w, .err .unauthorized)

/-- upgrade to the same code + the empty migration changes nothing -/
theorem step_upgradeMigrate_fst {τ : Type} (tgt : Target τ) (w : World τ) (au : List Addr) :
    (step tgt w (.upgradeMigrate au)).1 = w := by
  simp only [step]; split <;> rfl

def run {τ : Type} (tgt : Target τ) (w : World τ) : List Op → World τ × List Obs
  | [] => (w, [])
  | op :: ops =>
    let (w', o) := step tgt w op
    let (w'', os) := run tgt w' ops
    (w'', o :: os)

end Cgp.Operators
