/-
  Cgp.Its — operational model **M** of contracts/interchain-token-service (contract.rs, token_handler.rs) over:
  the gateway model (message approvals), the ABI codec model, and a uniform token ledger covering Stellar Asset
  Contracts (environment), tokens deployed by the service (the checked-in interchain-token wasm) and arbitrary
  third-party token contracts registered as canonical.
-/
import Cgp.Gateway
import Cgp.Abi
namespace Cgp.Its
open Cgp Cgp.Xdr

inductive Err where
  | unauthorized | trustedChainAlreadySet | trustedChainNotSet | invalidMessageType | untrustedChain
  | insufficientMessageLength | abiDecodeFailed | invalidAmount | invalidUtf8 | invalidMinter
  | invalidDestinationAddress | invalidHubChain | tokenAlreadyRegistered | invalidTokenMetaData
  | invalidTokenId | tokenAlreadyDeployed | notApproved
  | tokenCallFailed          -- a call into a token contract failed (balance, auth, minter, overflow, no such contract)
  | deployFailed             -- the deployer could not create the contract (address taken / constructor failed)
  | gasPaymentFailed
  | executableCallFailed     -- the recipient's execute_with_interchain_token failed or does not exist
  | panicNegativeAmount
deriving DecidableEq, Repr, Inhabited

inductive TokKind where
  | sac | interchain | custom
deriving DecidableEq, Repr, Inhabited

inductive Manager where
  | native       -- NativeInterchainToken = 0 : mint / burn
  | lockUnlock   -- LockUnlock = 2 : custody
deriving DecidableEq, Repr, Inhabited

structure Tok where
  kind : TokKind
  name : Bytes
  symbol : Bytes
  decimals : Nat
  bal : Addr → Int
  owner : Addr
  minter : Addr → Bool
  tokenId : Bytes

structure Event where
  emitter : Addr
  topics : List ScVal
  data : ScVal

structure Consts where
  hubChain : Bytes             -- ITS_HUB_CHAIN_NAME
  prefixTokenId : Bytes        -- PREFIX_INTERCHAIN_TOKEN_ID
  prefixTokenSalt : Bytes      -- PREFIX_INTERCHAIN_TOKEN_SALT
  prefixCanonicalSalt : Bytes  -- PREFIX_CANONICAL_TOKEN_SALT
  networkId : Bytes            -- the ledger's network id (deployer address derivation)

structure State where
  self : Addr
  owner : Addr
  gatewayAddr : Addr
  gasService : Addr
  hubAddress : Bytes
  chainName : Bytes
  trusted : Bytes → Bool
  registry : Bytes → Option (Addr × Manager)
  gw : Gateway.State
  tokens : Addr → Option Tok
  /-- addresses that are contracts implementing `execute_with_interchain_token` (the harness's recipient app) -/
  executable : Addr → Bool

def i128Max : Int := 2 ^ 127 - 1
def sym (s : String) : ScVal := .sym s.toUTF8.toList
def i128v (i : Int) : ScVal := .i128 (if i < 0 then (i + 2 ^ 128).toNat else i.toNat)
def optAddr (o : Option Addr) : ScVal := match o with | some a => .addr a | none => .void
def optBytesSc (o : Option Bytes) : ScVal := match o with | some b => .bytes b | none => .void

/-- Stellar's all-zero account address (`Address::zero`) -/
def zeroAddr : Addr := ⟨false, List.replicate 32 0⟩

section
variable (H : Bytes → Bytes) (S : Bytes → Bytes) (k : Consts)     -- H = keccak256, S = sha256

/-! ### token ids and deployed addresses -/

def chainNameHash (chainName : Bytes) : Bytes := H (enc (.str chainName))

def deploySalt (chainName : Bytes) (deployer : Addr) (salt : Bytes) : Bytes :=
  H (enc (.vec (.cons (.str k.prefixTokenSalt) (.cons (.bytes (chainNameHash H chainName))
      (.cons (.addr deployer) (.cons (.bytes salt) .nil))))))

def tokenIdOf (sender : Addr) (salt : Bytes) : Bytes :=
  H (enc (.vec (.cons (.str k.prefixTokenId) (.cons (.addr sender) (.cons (.bytes salt) .nil)))))

def canonicalSalt (chainName : Bytes) (token : Addr) : Bytes :=
  H (enc (.vec (.cons (.str k.prefixCanonicalSalt) (.cons (.bytes (chainNameHash H chainName)) (.cons (.addr token) .nil)))))

def interchainTokenId (chainName : Bytes) (deployer : Addr) (salt : Bytes) : Bytes :=
  tokenIdOf H k zeroAddr (deploySalt H k chainName deployer salt)

def canonicalTokenId (chainName : Bytes) (token : Addr) : Bytes :=
  tokenIdOf H k zeroAddr (canonicalSalt H k chainName token)

/-- address of a contract deployed by `deployer` with `salt`:
    sha256(xdr(HashIdPreimage::ContractId{network_id, FromAddress{deployer, salt}})) -/
def deployedAddress (deployer : Addr) (salt : Bytes) : Addr :=
  ⟨true, S (be32 8 ++ k.networkId ++ be32 0 ++ encAddr deployer ++ salt)⟩

/-! ### token ledger -/

def setTok (st : State) (a : Addr) (t : Tok) : State :=
  { st with tokens := fun x => if x = a then some t else st.tokens x }

/-- `transfer(from, to, amount)` on any token; `authorised` = `from` authorised it or is the invoker -/
def tokTransfer (st : State) (token src dst : Addr) (amount : Int) (authorised : Bool) : Except Err State :=
  match st.tokens token with
  | none => .error .tokenCallFailed
  | some t =>
    if !authorised ∨ amount < 0 ∨ t.bal src < amount then .error .tokenCallFailed
    else
      let b1 : Addr → Int := fun a => if a = src then t.bal src - amount else t.bal a
      if b1 dst + amount > i128Max then .error .tokenCallFailed
      else .ok (setTok st token { t with bal := fun a => if a = dst then b1 dst + amount else b1 a })

/-- `burn(from, amount)` -/
def tokBurn (st : State) (token src : Addr) (amount : Int) (authorised : Bool) : Except Err State :=
  match st.tokens token with
  | none => .error .tokenCallFailed
  | some t =>
    if t.kind = .custom then .error .tokenCallFailed       -- the harness's custom token has no burn
    else if !authorised ∨ amount < 0 ∨ t.bal src < amount then .error .tokenCallFailed
    else .ok (setTok st token { t with bal := fun a => if a = src then t.bal src - amount else t.bal a })

/-- `StellarAssetClient::mint(to, amount)` called BY THE SERVICE on a token it deployed:
    `mint_from(owner, ..)` — the owner must be the caller and must (still) be a minter -/
def tokMintByService (st : State) (token dst : Addr) (amount : Int) : Except Err State :=
  match st.tokens token with
  | none => .error .tokenCallFailed
  | some t =>
    if t.kind ≠ .interchain then .error .tokenCallFailed
    else if t.owner ≠ st.self ∨ !t.minter t.owner ∨ amount < 0 ∨ t.bal dst + amount > i128Max then .error .tokenCallFailed
    else .ok (setTok st token { t with bal := fun a => if a = dst then t.bal dst + amount else t.bal a })

/-- `validate_token_metadata` -/
def validMetadata (name symbol : Bytes) (decimals : Nat) : Bool := decimals ≤ 255 && !name.isEmpty && !symbol.isEmpty

/-! ### events -/

def evTrustedSet (st : State) (c : Bytes) : Event := ⟨st.self, [sym "trusted_chain_set", .str c], .vec .nil⟩
def evTrustedRemoved (st : State) (c : Bytes) : Event := ⟨st.self, [sym "trusted_chain_removed", .str c], .vec .nil⟩
def evDeployed (st : State) (tid : Bytes) (addr : Addr) (name symbol : Bytes) (dec : Nat) (minter : Option Addr) : Event :=
  ⟨st.self, [sym "interchain_token_deployed", .bytes tid, .addr addr, .str name, .str symbol, .u32 dec, optAddr minter], .vec .nil⟩
def evDeploymentStarted (st : State) (tid : Bytes) (addr : Addr) (dest name symbol : Bytes) (dec : Nat) : Event :=
  ⟨st.self, [sym "token_deployment_started", .bytes tid, .addr addr, .str dest, .str name, .str symbol, .u32 dec, .void], .vec .nil⟩
def evIdClaimed (st : State) (tid : Bytes) (deployer : Addr) (salt : Bytes) : Event :=
  ⟨st.self, [sym "interchain_token_id_claimed", .bytes tid, .addr deployer, .bytes salt], .vec .nil⟩
def evTransferSent (st : State) (tid : Bytes) (src : Addr) (destChain destAddr : Bytes) (amount : Int) (data : Option Bytes) : Event :=
  ⟨st.self, [sym "interchain_transfer_sent", .bytes tid, .addr src, .str destChain, .bytes destAddr, i128v amount],
   .vec (.cons (optBytesSc data) .nil)⟩
def evTransferReceived (st : State) (srcChain tid srcAddr : Bytes) (dst : Addr) (amount : Int) (data : Option Bytes) : Event :=
  ⟨st.self, [sym "interchain_transfer_received", .str srcChain, .bytes tid, .bytes srcAddr, .addr dst, i128v amount],
   .vec (.cons (optBytesSc data) .nil)⟩
/-- what the recipient application of a transfer-with-data is handed (published by the harness's application as an event) -/
def evAppExecuted (app : Addr) (srcChain msgId srcAddr data tid : Bytes) (token : Addr) (amount : Int) : Event :=
  ⟨app, [sym "recv_exec"],
   .vec (.cons (.str srcChain) (.cons (.str msgId) (.cons (.bytes srcAddr) (.cons (.bytes data) (.cons (.bytes tid)
     (.cons (.addr token) (.cons (i128v amount) .nil)))))))⟩
def tokenSc (token : Addr) (amount : Int) : ScVal :=
  .map (.cons (sym "address") (.addr token) (.cons (sym "amount") (i128v amount) .nil))
def evGasPaid (st : State) (payload : Bytes) (spender gasToken : Addr) (gasAmount : Int) : Event :=
  ⟨st.gasService, [sym "gas_paid", .addr st.self, .str k.hubChain, .str st.hubAddress, .bytes (H payload), .addr spender,
     tokenSc gasToken gasAmount], .vec (.cons (.bytes []) .nil)⟩
def evContractCalled (st : State) (payload : Bytes) : Event :=
  ⟨st.gatewayAddr, [.sym Gateway.symContractCalled, .addr st.self, .str k.hubChain, .str st.hubAddress, .bytes (H payload)],
   .bytes payload⟩

/-! ### owner operations -/

def setTrustedChain (st : State) (auths : List Addr) (c : Bytes) : Except Err (State × List Event) :=
  if st.owner ∉ auths then .error .unauthorized
  else if st.trusted c then .error .trustedChainAlreadySet
  else .ok ({ st with trusted := fun x => if x = c then true else st.trusted x }, [evTrustedSet st c])

def removeTrustedChain (st : State) (auths : List Addr) (c : Bytes) : Except Err (State × List Event) :=
  if st.owner ∉ auths then .error .unauthorized
  else if !st.trusted c then .error .trustedChainNotSet
  else .ok ({ st with trusted := fun x => if x = c then false else st.trusted x }, [evTrustedRemoved st c])

def transferOwnership (st : State) (auths : List Addr) (new : Addr) : Except Err (State × List Event) :=
  if st.owner ∉ auths then .error .unauthorized
  else .ok ({ st with owner := new }, [⟨st.self, [sym "ownership_transferred", .addr st.owner, .addr new], .vec .nil⟩])

/-! ### deployment -/

/-- `deploy_interchain_token_contract`: create the token at the address derived from (service, token id) and run its
    constructor (owner = service; the owner and the optional minter become minters) -/
def deployTokenContract (st : State) (minter : Option Addr) (tid name symbol : Bytes) (decimals : Nat) :
    Except Err (State × Addr × Event) :=
  let addr := deployedAddress S k st.self tid
  if (st.tokens addr).isSome ∨ st.executable addr then .error .deployFailed      -- address already holds a contract
  else if !validMetadata name symbol decimals then .error .deployFailed          -- the token constructor panics
  else
    let t : Tok := { kind := .interchain, name, symbol, decimals, bal := fun _ => 0, owner := st.self,
                     minter := fun a => a = st.self || minter = some a, tokenId := tid }
    .ok (setTok st addr t, addr, evDeployed st tid addr name symbol decimals minter)

/-- `deploy_interchain_token` -/
def deployInterchainToken (st : State) (auths : List Addr) (caller : Addr) (salt name symbol : Bytes) (decimals : Nat)
    (supply : Int) (minter : Option Addr) : Except Err (State × Bytes × List Event) :=
  if caller ∉ auths then .error .unauthorized
  else
    let initialMinter : Except Err (Option Addr) :=
      if supply > 0 then .ok (some st.self)
      else match minter with
        | some m => if m = st.self then .error .invalidMinter else .ok (some m)
        | none => .ok none
    match initialMinter with
    | .error e => .error e
    | .ok im =>
      let tid := interchainTokenId H k st.chainName caller salt
      match deployTokenContract S k st im tid name symbol decimals with
      | .error e => .error e
      | .ok (st1, addr, ev) =>
        let afterMint : Except Err State :=
          if supply > 0 then
            match tokMintByService st1 addr caller supply with
            | .error e => .error e
            | .ok st2 =>
              match minter with
              | some m =>
                -- remove_minter(service); add_minter(m)  — the service gives up its own minting right
                match st2.tokens addr with
                | some t => .ok (setTok st2 addr { t with minter := fun a => if a = m then true else if a = st2.self then false else t.minter a })
                | none => .error .tokenCallFailed
              | none => .ok st2
          else .ok st1
        match afterMint with
        | .error e => .error e
        | .ok st3 =>
          .ok ({ st3 with registry := fun x => if x = tid then some (addr, .native) else st3.registry x }, tid, [ev])

/-- `register_canonical_token` (anyone may call it) -/
def registerCanonicalToken (st : State) (token : Addr) : Except Err (State × Bytes × List Event) :=
  let salt := canonicalSalt H k st.chainName token
  let tid := tokenIdOf H k zeroAddr salt
  if (st.registry tid).isSome then .error .tokenAlreadyRegistered
  else .ok ({ st with registry := fun x => if x = tid then some (token, .lockUnlock) else st.registry x }, tid,
             [evIdClaimed st tid zeroAddr salt])

/-! ### outbound -/

/-- `pay_gas_and_call_contract`: trusted destination, wrap for the hub, pay gas from `spender`, announce through the gateway.
    `spenderAuth` = the spender authorised the gas payment (pay_gas and the token transfer below it). -/
def payGasAndCall (st : State) (spender : Addr) (spenderAuth : Bool) (destChain : Bytes) (message : Abi.Msg)
    (gasToken : Addr) (gasAmount : Int) : Except Err (State × List Event) :=
  if !st.trusted destChain then .error .untrustedChain
  else match Abi.encodeHub (.sendToHub destChain message) with
    | .error .invalidUtf8 => .error .invalidUtf8
    | .error _ => .error .panicNegativeAmount
    | .ok payload =>
      if !spenderAuth then .error .gasPaymentFailed
      else if gasAmount ≤ 0 then .error .gasPaymentFailed
      else match tokTransfer st gasToken spender st.gasService gasAmount true with
        | .error _ => .error .gasPaymentFailed
        | .ok st1 => .ok (st1, [evGasPaid H k st payload spender gasToken gasAmount, evContractCalled H k st payload])

/-- `deploy_remote_token` -/
def deployRemoteToken (st : State) (spender : Addr) (spenderAuth : Bool) (deploySalt' : Bytes) (destChain : Bytes)
    (gasToken : Addr) (gasAmount : Int) : Except Err (State × Bytes × List Event) :=
  let tid := tokenIdOf H k zeroAddr deploySalt'
  match st.registry tid with
  | none => .error .invalidTokenId
  | some (addr, _) =>
    match st.tokens addr with
    | none => .error .tokenCallFailed
    | some t =>
      if !validMetadata t.name t.symbol t.decimals then .error .invalidTokenMetaData
      else
        let msg : Abi.Msg := .deploy ⟨tid, t.name, t.symbol, t.decimals % 256, none⟩
        match payGasAndCall H k st spender spenderAuth destChain msg gasToken gasAmount with
        | .error e => .error e
        | .ok (st1, evs) => .ok (st1, tid, evDeploymentStarted st tid addr destChain t.name t.symbol t.decimals :: evs)

/-- `deploy_remote_interchain_token`: the salt is bound to the caller -/
def deployRemoteInterchainToken (st : State) (auths : List Addr) (caller : Addr) (salt destChain : Bytes)
    (gasToken : Addr) (gasAmount : Int) : Except Err (State × Bytes × List Event) :=
  if caller ∉ auths then .error .unauthorized
  else deployRemoteToken H k st caller true (deploySalt H k st.chainName caller salt) destChain gasToken gasAmount

/-- `deploy_remote_canonical_token`: the salt is bound to the token address; the spender authorises through the gas payment -/
def deployRemoteCanonicalToken (st : State) (auths : List Addr) (token : Addr) (destChain : Bytes) (spender : Addr)
    (gasToken : Addr) (gasAmount : Int) : Except Err (State × Bytes × List Event) :=
  deployRemoteToken H k st spender (spender ∈ auths) (canonicalSalt H k st.chainName token) destChain gasToken gasAmount

/-- `interchain_transfer` -/
def interchainTransfer (st : State) (auths : List Addr) (caller : Addr) (tid destChain destAddr : Bytes) (amount : Int)
    (data : Option Bytes) (gasToken : Addr) (gasAmount : Int) : Except Err (State × List Event) :=
  if amount ≤ 0 then .error .invalidAmount
  else if caller ∉ auths then .error .unauthorized
  else match st.registry tid with
    | none => .error .invalidTokenId
    | some (addr, mgr) =>
      let taken := match mgr with
        | .native => tokBurn st addr caller amount true
        | .lockUnlock => tokTransfer st addr caller st.self amount true
      match taken with
      | .error e => .error e
      | .ok st1 =>
        let msg : Abi.Msg := .transfer ⟨tid, enc (.addr caller), destAddr, amount, data⟩
        match payGasAndCall H k st1 caller true destChain msg gasToken gasAmount with
        | .error e => .error e
        | .ok (st2, evs) => .ok (st2, evTransferSent st tid caller destChain destAddr amount data :: evs)

/-! ### inbound -/

/-- `Address::from_xdr`: the bytes must be exactly the XDR of an address ScVal -/
def addrFromXdr (b : Bytes) : Option Addr :=
  match dec 4 b with
  | some (.addr a, []) => if enc (.addr a) = b then some a else none
  | _ => none

/-- `execute`: gateway validation (the service as caller), then `execute_message`; any failure aborts both -/
def execute (st : State) (srcChain msgId srcAddr payload : Bytes) : Except Err (State × List Event) :=
  match Gateway.validateMessage H st.gw [st.self] st.self srcChain msgId srcAddr (H payload) with
  | .error _ => .error .notApproved
  | .ok (_, false, _) => .error .notApproved
  | .ok (gw', true, gwEvs) =>
    let st0 := { st with gw := gw' }
    let gwEvents := gwEvs.map (fun e => (⟨st.gatewayAddr, e.topics, e.data⟩ : Event))
    -- get_execute_params
    match Abi.messageType payload with
    | .error .insufficientMessageLength => .error .insufficientMessageLength
    | .error _ => .error .invalidMessageType
    | .ok ty =>
      if ty ≠ 4 then .error .invalidMessageType
      else if srcChain ≠ k.hubChain then .error .invalidHubChain
      else match Abi.decodeHub payload with
        | .error _ => .error .abiDecodeFailed
        | .ok (.sendToHub _ _) => .error .invalidMessageType
        | .ok (.receiveFromHub origin inner) =>
          if !st0.trusted origin then .error .untrustedChain
          else match inner with
            | .transfer t =>
              match addrFromXdr t.dest with
              | none => .error .invalidDestinationAddress
              | some recipient =>
                match st0.registry t.tokenId with
                | none => .error .invalidTokenId
                | some (addr, mgr) =>
                  let given := match mgr with
                    | .native => tokMintByService st0 addr recipient t.amount
                    | .lockUnlock => tokTransfer st0 addr st0.self recipient t.amount true
                  match given with
                  | .error e => .error e
                  | .ok st1 =>
                    let ev := evTransferReceived st origin t.tokenId t.source recipient t.amount t.data
                    match t.data with
                    | none => .ok (st1, gwEvents ++ [ev])
                    | some d =>
                      -- `execute_with_interchain_token(origin chain, message id, source address, data, token id, token address, amount)`
                      -- on the recipient; the harness's recipient application publishes exactly what it was handed
                      if st1.executable recipient then
                        .ok (st1, gwEvents ++ [ev, evAppExecuted recipient origin msgId t.source d t.tokenId addr t.amount])
                      else .error .executableCallFailed
            | .deploy d =>
              if (st0.registry d.tokenId).isSome then .error .tokenAlreadyDeployed
              else if !validMetadata d.name d.symbol d.decimals then .error .invalidTokenMetaData
              else
                let minter : Except Err (Option Addr) := match d.minter with
                  | none => .ok none
                  | some m => match addrFromXdr m with
                    | some a => .ok (some a)
                    | none => .error .invalidMinter
                match minter with
                | .error e => .error e
                | .ok mo =>
                  match deployTokenContract S k st0 mo d.tokenId d.name d.symbol d.decimals with
                  | .error e => .error e
                  | .ok (st1, addr, ev) =>
                    .ok ({ st1 with registry := fun x => if x = d.tokenId then some (addr, .native) else st1.registry x },
                         gwEvents ++ [ev])

end
end Cgp.Its
