/-
  Cgp.GatewayOps — the gateway as a transition system over operations, so that properties
  "for every history" are statements about `run` over arbitrary operation lists.
-/
import Cgp.Gateway
namespace Cgp.Gateway
open Cgp Cgp.Xdr

/-- the contract state together with the ledger clock -/
structure World where
  st : State
  now : Nat

inductive Op (σ : Type) where
  | approve (ms : List Message) (proof : Proof σ)
  | rotate (auths : List Addr) (ws : WSigners) (proof : Proof σ) (bypass : Bool)
  | validateMessage (auths : List Addr) (caller : Addr) (chain id src ph : Bytes)
  | callContract (auths : List Addr) (caller : Addr) (chain dest payload : Bytes)
  | transferOwnership (auths : List Addr) (new : Addr)
  | transferOperatorship (auths : List Addr) (new : Addr)
  | setTime (now : Nat)
  | upgrade (auths : List Addr)
  | migrate (auths : List Addr)

/-- what the caller / an observer sees of one operation -/
inductive Obs where
  | ok (evs : List Event)
  | okBool (b : Bool) (evs : List Event)
  | err (e : Err)

section
variable (H : Bytes → Bytes) {σ : Type} (V : Bytes → Bytes → σ → Bool)

/-- one top-level invocation, including the host's rollback of failed invocations -/
def step (w : World) : Op σ → World × Obs
  | .approve ms proof =>
    match approveMessages H V w.st ms proof with
    | .ok (st', evs) => ({ w with st := st' }, .ok evs)
    | .error e => (w, .err e)
  | .rotate auths ws proof bypass =>
    match rotateSigners H V w.st auths ws proof bypass w.now with
    | .ok (st', evs) => ({ w with st := st' }, .ok evs)
    | .error e => (w, .err e)
  | .validateMessage auths caller chain id src ph =>
    match validateMessage H w.st auths caller chain id src ph with
    | .ok (st', b, evs) => ({ w with st := st' }, .okBool b evs)
    | .error e => (w, .err e)
  | .callContract auths caller chain dest payload =>
    match callContract H w.st auths caller chain dest payload with
    | .ok (st', evs) => ({ w with st := st' }, .ok evs)
    | .error e => (w, .err e)
  | .transferOwnership auths new =>
    match transferOwnership w.st auths new with
    | .ok (st', evs) => ({ w with st := st' }, .ok evs)
    | .error e => (w, .err e)
  | .transferOperatorship auths new =>
    match transferOperatorship w.st auths new with
    | .ok (st', evs) => ({ w with st := st' }, .ok evs)
    | .error e => (w, .err e)
  | .setTime now => ({ w with now := now }, .ok [])
  | .upgrade auths =>
    if w.st.owner ∈ auths then ({ w with st := { w.st with migrating := true } }, .ok [])
    else (w, .err .unauthorized)
  | .migrate auths =>
    if w.st.owner ∉ auths then (w, .err .unauthorized)
    else if w.st.migrating then ({ w with st := { w.st with migrating := false } }, .ok [])
    else (w, .err .migrationNotAllowed)

/-- `upgrade` (to the same code) touches nothing but the migration window -/
theorem step_upgrade_fst (w : World) (auths : List Addr) :
    ∃ b, (step H V w (.upgrade auths)).1 = { w with st := { w.st with migrating := b } } := by
  simp only [step]
  split
  · exact ⟨true, rfl⟩
  · exact ⟨w.st.migrating, rfl⟩

/-- `migrate` touches nothing but the migration window -/
theorem step_migrate_fst (w : World) (auths : List Addr) :
    ∃ b, (step H V w (.migrate auths)).1 = { w with st := { w.st with migrating := b } } := by
  simp only [step]
  split
  · exact ⟨w.st.migrating, rfl⟩
  · split
    · exact ⟨false, rfl⟩
    · exact ⟨w.st.migrating, rfl⟩

/-- a history: the final world and the observations, in order -/
def run (w : World) : List (Op σ) → World × List Obs
  | [] => (w, [])
  | op :: ops =>
    let (w', o) := step H V w op
    let (w'', os) := run w' ops
    (w'', o :: os)

/-- a history recorded as (world before the call, the call, what was observed) -/
def trace (w : World) : List (Op σ) → List (World × Op σ × Obs)
  | [] => []
  | op :: ops => (w, op, (step H V w op).2) :: trace (step H V w op).1 ops

/-- the world right after a successful construction at time `now` -/
def constructed (owner operator : Addr) (domain : Bytes) (minDelay retention : Nat) (sets : List WSigners) (now : Nat) :
    Option World :=
  match construct H owner operator domain minDelay retention sets now with
  | .ok (st, _) => some { st, now }
  | .error _ => none

/-- reachable worlds: constructed, then any history -/
def Reachable (w : World) : Prop :=
  ∃ (owner operator : Addr) (domain : Bytes) (minDelay retention : Nat) (sets : List WSigners) (now : Nat)
    (w0 : World) (ops : List (Op σ)),
    constructed H owner operator domain minDelay retention sets now = some w0 ∧ (run H V w0 ops).1 = w

end

/-- `Collision H`: two different inputs with the same hash, exhibited explicitly -/
def Collision (H : Bytes → Bytes) : Prop := ∃ x y, x ≠ y ∧ H x = H y

end Cgp.Gateway
