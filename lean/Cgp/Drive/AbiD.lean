/-
  Cgp.Drive.AbiD — replays ABI codec protocol lines on `Cgp.Abi`.
-/
import Cgp.Abi
import Cgp.Tok
namespace Cgp.Drive.AbiD
open Cgp Cgp.Tok Cgp.Abi

structure StepOut where
  obs : String
  kind : String

def optTok (o : Option Bytes) : String := match o with | none => "~" | some b => toHexTok b
def parseOpt (s : String) : Option (Option Bytes) := if s = "~" then some none else (ofHex s).map some

def msgTok : Msg → String
  | .transfer t => s!"T:{toHex t.tokenId}:{toHexTok t.source}:{toHexTok t.dest}:{t.amount}:{optTok t.data}"
  | .deploy d => s!"D:{toHex d.tokenId}:{toHexTok d.name}:{toHexTok d.symbol}:{d.decimals}:{optTok d.minter}"

def hubTok : HubMsg → String
  | .sendToHub c m => s!"S/{toHexTok c}/{msgTok m}"
  | .receiveFromHub c m => s!"R/{toHexTok c}/{msgTok m}"

def parseMsg (s : String) : Option Msg :=
  match s.splitOn ":" with
  | ["T", tid, src, dst, amt, data] =>
    match ofHex tid, ofHex src, ofHex dst, amt.toInt?, parseOpt data with
    | some tid, some src, some dst, some a, some d => some (.transfer ⟨tid, src, dst, a, d⟩)
    | _, _, _, _, _ => none
  | ["D", tid, name, sym, dec, minter] =>
    match ofHex tid, ofHex name, ofHex sym, dec.toNat?, parseOpt minter with
    | some tid, some n, some sy, some d, some m => some (.deploy ⟨tid, n, sy, d, m⟩)
    | _, _, _, _, _ => none
  | _ => none

def parseHub (s : String) : Option HubMsg :=
  match s.splitOn "/" with
  | ["S", c, m] => match ofHex c, parseMsg m with
    | some c, some m => some (.sendToHub c m)
    | _, _ => none
  | ["R", c, m] => match ofHex c, parseMsg m with
    | some c, some m => some (.receiveFromHub c m)
    | _, _ => none
  | _ => none

def errName : Err → String
  | .insufficientMessageLength => "InsufficientMessageLength" | .invalidMessageType => "InvalidMessageType"
  | .abiDecodeFailed => "AbiDecodeFailed" | .invalidAmount => "InvalidAmount" | .invalidUtf8 => "InvalidUtf8"
  | .panicNegativeAmount => "PanicNegativeAmount"

/-- would alloy 0.8.14's sequential decoder reach a dynamic length word that overflows 64-bit arithmetic?
    (diagnostic only: recognises the known finding; never changes the model's verdict) -/
def probeOverflow (kinds : List Bool) (b : Bytes) : Bool :=
  let rec go (ks : List Bool) (heads : Bytes) : Bool :=
    match ks with
    | [] => false
    | false :: r => if heads.length < 32 then false else go r (heads.drop 32)
    | true :: r =>
      if heads.length < 32 then false else
      let ow := heads.take 32
      if ofBE (ow.take 24) ≠ 0 then false else
      let off := ofBE ow
      if off > b.length then false else
      let at1 := b.drop off
      if at1.length < 32 then false else
      let lw := at1.take 32
      if ofBE (lw.take 24) ≠ 0 then false else
      let len := ofBE lw
      if lenOverflows64 len then true
      else
        let padded := len + padTo32 len
        if 32 + padded > at1.length then false
        else if (at1.drop (32 + len)).take (padTo32 len) ≠ List.replicate (padTo32 len) 0 then false
        else go r (heads.drop 32)
  go kinds b

def probeMsg (b : Bytes) : Bool :=
  match messageType b with
  | .ok 0 => probeOverflow transferKinds b
  | .ok 1 => probeOverflow deployKinds b
  | _ => false

def probeHub (b : Bytes) : Bool :=
  match messageType b with
  | .ok ty =>
    if ty = 3 ∨ ty = 4 then
      probeOverflow hubKinds b ||
      (match decodeSeq hubKinds b with
       | some [.w _, .d chain, .d inner] => validUtf8 chain && probeMsg inner
       | _ => false)
    else false
  | _ => false

def step (t : List String) : StepOut :=
  match t with
  | ["abi.enc", m] =>
    match parseMsg m with
    | none => ⟨"parse-error:abi.enc", "parse-error"⟩
    | some m => match encodeMsg m with
      | .ok b => ⟨"ok x" ++ toHexTok b, "ok"⟩
      | .error .panicNegativeAmount => ⟨"panic", "PanicNegativeAmount"⟩
      | .error e => ⟨"err", errName e⟩
  | ["abi.enc_hub", m] =>
    match parseHub m with
    | none => ⟨"parse-error:abi.enc_hub", "parse-error"⟩
    | some m => match encodeHub m with
      | .ok b => ⟨"ok x" ++ toHexTok b, "ok"⟩
      | .error .panicNegativeAmount => ⟨"panic", "PanicNegativeAmount"⟩
      | .error e => ⟨"err", errName e⟩
  | ["abi.dec", h] =>
    match ofHex h with
    | none => ⟨"parse-error:abi.dec", "parse-error"⟩
    | some b => match decodeMsg b with
      | .ok m => ⟨"ok " ++ msgTok m, "ok"⟩
      | .error e => ⟨"err", if probeMsg b then "LengthOverflow64" else errName e⟩
  | ["abi.dec_hub", h] =>
    match ofHex h with
    | none => ⟨"parse-error:abi.dec_hub", "parse-error"⟩
    | some b => match decodeHub b with
      | .ok m => ⟨"ok " ++ hubTok m, "ok"⟩
      | .error e => ⟨"err", if probeHub b then "LengthOverflow64" else errName e⟩
  | _ => ⟨"parse-error:unknown", "parse-error"⟩

end Cgp.Drive.AbiD
