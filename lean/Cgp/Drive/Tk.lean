/-
  Cgp.Drive.Tk — replays token protocol lines on the model `Cgp.Token`.
-/
import Cgp.Token
import Cgp.Tok
namespace Cgp.Drive.Tk
open Cgp Cgp.Xdr Cgp.Tok Cgp.Token

structure TkS where
  st : Option State := none
  now : Nat := 0
  seq : Nat := 0
  maxLive : Nat := 0
  /-- metadata kept only to answer queries -/
  decimals : Nat := 0
  /-- the token id given at construction (hex, as written in the trace) -/
  tid : String := ""

structure StepOut where
  obs : String
  kind : String

def errName : Err → String
  | .unauthorized => "Unauthorized" | .notMinter => "NotMinter" | .invalidAmount => "InvalidAmount"
  | .invalidExpirationLedger => "InvalidExpirationLedger" | .insufficientAllowance => "InsufficientAllowance"
  | .insufficientBalance => "InsufficientBalance" | .trapOverflow => "TrapOverflow" | .hostTtlLimit => "HostTtlLimit"
  | .migrationNotAllowed => "MigrationNotAllowed"

def evsTok (evs : List Event) : String := String.join (evs.map (fun e => " " ++ eventTok e.topics e.data))

def known : List String :=
  ["mint", "transfer", "burn", "approve", "set_admin", "ownership_transferred", "minter_added", "minter_removed"]

def bad (s : TkS) (why : String) : TkS × StepOut := (s, ⟨"parse-error:" ++ why, "parse-error"⟩)

def finish (s : TkS) (r : Except Err (State × List Event)) : TkS × StepOut :=
  match r with
  | .ok (st', evs) => ({ s with st := some st' }, ⟨"ok" ++ evsTok evs, "ok"⟩)
  | .error e => (s, ⟨"err", errName e⟩)

def ctx (s : TkS) (au : Auth) (who : List Addr) : Ctx := { auths := au.toList who, seq := s.seq, maxLive := s.maxLive }

def parseInt (x : String) : Option Int := x.toInt?

/-- upgrade to the same code + the migration in the ledger context `c`, run through `Cgp.Token.step` -/
def upgradeMigrate (s : TkS) (st : State) (c : Ctx) : TkS × StepOut :=
  match Token.step st c .upgradeMigrate with
  | (_, .error .unauthorized) => (s, ⟨"err", "unauthorized"⟩)
  | (_, .error e) => (s, ⟨"err", errName e⟩)
  | (st', .ok _) => ({ s with st := some st' }, ⟨"ok", "ok"⟩)

def step (s : TkS) (t : List String) : TkS × StepOut :=
  match t with
  | ["time", now, seq] =>
    match now.toNat?, seq.toNat? with
    | some n, some q => ({ s with now := n, seq := q }, ⟨"ok", "ok"⟩)
    | _, _ => bad s "time"
  | ["tk.new", _addr, owner, minter, tid, name, symbol, decimals, maxlive] =>
    match parseAddr owner, ofHex name, ofHex symbol, decimals.toNat?, maxlive.toNat? with
    | some ow, some nm, some sy, some d, some ml =>
      let s := { s with maxLive := ml }
      let m : Option (Option Addr) := if minter = "-" then some none else (parseAddr minter).map some
      match m with
      | none => bad s "tk.new minter"
      | some m =>
        -- validate_token_metadata: decimals <= 255, non-empty name and symbol
        if d > 255 ∨ nm.isEmpty ∨ sy.isEmpty then ({ s with st := none }, ⟨"err", "InvalidMetadata"⟩)
        else ({ s with st := some (construct ow m), decimals := d, tid := tid }, ⟨"ok", "ok"⟩)
    | _, _, _, _, _ => bad s "tk.new"
  | ["tk.maxlive"] => (s, ⟨"ok u" ++ toString s.maxLive, "ok"⟩)
  | op :: args =>
    match s.st with
    | none => (s, ⟨"err", "no-token"⟩)
    | some st =>
      match op, args with
      | "tk.mint_from", [m, to, a, au] =>
        match parseAddr m, parseAddr to, parseInt a, parseAuth au with
        | some m, some to, some a, some au => finish s (mintFrom st (ctx s au [m]) m to a)
        | _, _, _, _ => bad s op
      | "tk.mint", [to, a, au] =>
        match parseAddr to, parseInt a, parseAuth au with
        | some to, some a, some au => finish s (mint st (ctx s au [st.owner]) to a)
        | _, _, _ => bad s op
      | "tk.add_minter", [m, au] =>
        match parseAddr m, parseAuth au with
        | some m, some au => finish s (addMinter st (ctx s au [st.owner]) m)
        | _, _ => bad s op
      | "tk.remove_minter", [m, au] =>
        match parseAddr m, parseAuth au with
        | some m, some au => finish s (removeMinter st (ctx s au [st.owner]) m)
        | _, _ => bad s op
      | "tk.approve", [f, sp, a, e, au] =>
        match parseAddr f, parseAddr sp, parseInt a, e.toNat?, parseAuth au with
        | some f, some sp, some a, some e, some au => finish s (approve st (ctx s au [f]) f sp a e)
        | _, _, _, _, _ => bad s op
      | "tk.transfer", [f, to, a, au] =>
        match parseAddr f, parseAddr to, parseInt a, parseAuth au with
        | some f, some to, some a, some au => finish s (transfer st (ctx s au [f]) f to a)
        | _, _, _, _ => bad s op
      | "tk.transfer_from", [sp, f, to, a, au] =>
        match parseAddr sp, parseAddr f, parseAddr to, parseInt a, parseAuth au with
        | some sp, some f, some to, some a, some au => finish s (transferFrom st (ctx s au [sp]) sp f to a)
        | _, _, _, _, _ => bad s op
      | "tk.burn", [f, a, au] =>
        match parseAddr f, parseInt a, parseAuth au with
        | some f, some a, some au => finish s (burn st (ctx s au [f]) f a)
        | _, _, _ => bad s op
      | "tk.burn_from", [sp, f, a, au] =>
        match parseAddr sp, parseAddr f, parseInt a, parseAuth au with
        | some sp, some f, some a, some au => finish s (burnFrom st (ctx s au [sp]) sp f a)
        | _, _, _, _ => bad s op
      | "tk.transfer_ownership", [n, au] =>
        match parseAddr n, parseAuth au with
        | some n, some au => finish s (transferOwnership st (ctx s au [st.owner]) n)
        | _, _ => bad s op
      | "tk.upgrade_migrate", [auth] =>
        -- upgrade to the same code + migration of the current tree: the model's `.upgradeMigrate`
        if auth = "@" then upgradeMigrate s st (ctx s .all [st.owner]) else
        match parseAuth auth with
        | some au => upgradeMigrate s st (ctx s au [st.owner])
        | none => bad s op
      | "tk.set_admin", [n, au] =>
        match parseAddr n, parseAuth au with
        | some n, some au => finish s (transferOwnership st (ctx s au [st.owner]) n)
        | _, _ => bad s op
      | "tk.balance", [a] =>
        match parseAddr a with
        | some a => (s, ⟨"ok X" ++ toString (st.bal a), "ok"⟩)
        | none => bad s op
      | "tk.allowance", [f, sp] =>
        match parseAddr f, parseAddr sp with
        | some f, some sp => (s, ⟨"ok X" ++ toString (readAllowance st s.seq f sp).amount, "ok"⟩)
        | _, _ => bad s op
      | "tk.token_id", [] => (s, ⟨"ok x" ++ s.tid, "ok"⟩)        -- `token_id()` reports the id given at construction, always
      | "tk.owner", [] => (s, ⟨"ok " ++ addrTok st.owner, "ok"⟩)
      | "tk.admin", [] => (s, ⟨"ok " ++ addrTok st.owner, "ok"⟩)
      | "tk.is_minter", [a] =>
        match parseAddr a with
        | some a => (s, ⟨"ok " ++ (if st.minter a then "b1" else "b0"), "ok"⟩)
        | none => bad s op
      | _, _ => bad s ("unknown op " ++ op)
  | [] => bad s "empty"

end Cgp.Drive.Tk
