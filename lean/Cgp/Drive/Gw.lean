/-
  Cgp.Drive.Gw — replays gateway protocol lines on the model `Cgp.Gateway` with
  H := Lean Keccak-256 and V := symbolic signature provenance.
-/
import Cgp.Gateway
import Cgp.GatewayOps
import Cgp.Keccak
import Cgp.Tok
namespace Cgp.Drive.Gw
open Cgp Cgp.Xdr Cgp.Tok Cgp.Gateway

/-- provenance of a signature made by the harness: which key signed which bytes, and whether it was left intact -/
structure SigP where
  pk : Bytes
  msg : Bytes
  intact : Bool

def V (pk digest : Bytes) (s : SigP) : Bool := s.intact && s.pk == pk && s.msg == digest
def H : Bytes → Bytes := Cgp.Keccak.keccak256

def parseWSigner (s : String) : Option WSigner :=
  match s.splitOn ":" with
  | [k, w] => match ofHex k, w.toNat? with
    | some kb, some wn => some ⟨kb, wn⟩
    | _, _ => none
  | _ => none

def parseList {α} (f : String → Option α) (sep : String) (s : String) : Option (List α) :=
  if s = "-" then some []
  else (s.splitOn sep).foldr (fun t acc => match acc, f t with
    | some xs, some x => some (x :: xs)
    | _, _ => none) (some [])

def parseSet (s : String) : Option WSigners :=
  match s.splitOn "/" with
  | [thr, nonce, signers] =>
    match thr.toNat?, ofHex nonce, parseList parseWSigner "," signers with
    | some t, some n, some ss => some ⟨ss, t, n⟩
    | _, _, _ => none
  | _ => none

def parseSig (s : String) : Option (Option SigP) :=
  if s = "U" then some none
  else match (s.drop 1).toString.splitOn "." with
    | [pk, msg, i] => match ofHex pk, ofHex msg with
      | some p, some m => some (some ⟨p, m, i = "1"⟩)
      | _, _ => none
    | _ => none

def parsePSigner (s : String) : Option (PSigner SigP) :=
  match s.splitOn ":" with
  | [k, w, sg] => match ofHex k, w.toNat?, parseSig sg with
    | some kb, some wn, some sig => some ⟨⟨kb, wn⟩, sig⟩
    | _, _, _ => none
  | _ => none

def parseProof (s : String) : Option (Proof SigP) :=
  match s.splitOn "/" with
  | [thr, nonce, signers] =>
    match thr.toNat?, ofHex nonce, parseList parsePSigner "," signers with
    | some t, some n, some ss => some ⟨ss, t, n⟩
    | _, _, _ => none
  | _ => none

def parseMsg (s : String) : Option Message :=
  match s.splitOn "." with
  | [c, i, sa, ca, ph] => match ofHex c, ofHex i, ofHex sa, parseAddr ca, ofHex ph with
    | some c, some i, some sa, some ca, some ph => some ⟨c, i, sa, ca, ph⟩
    | _, _, _, _, _ => none
  | _ => none

structure GwS where
  st : Option State := none
  now : Nat := 0
  seq : Nat := 0

structure StepOut where
  obs : String
  kind : String

def errName : Err → String
  | .emptySigners => "EmptySigners" | .invalidSigners => "InvalidSigners" | .invalidWeight => "InvalidWeight"
  | .weightOverflow => "WeightOverflow" | .invalidThreshold => "InvalidThreshold"
  | .insufficientRotationDelay => "InsufficientRotationDelay" | .duplicateSigners => "DuplicateSigners"
  | .invalidSignersHash => "InvalidSignersHash" | .outdatedSigners => "OutdatedSigners"
  | .invalidSignatures => "InvalidSignatures" | .notLatestSigners => "NotLatestSigners"
  | .emptyMessages => "EmptyMessages" | .unauthorized => "Unauthorized" | .trapBadSignature => "TrapBadSignature"
  | .trapOverflow => "TrapOverflow" | .migrationNotAllowed => "MigrationNotAllowed"

def evsTok (evs : List Event) : String :=
  String.join (evs.map (fun e => " " ++ eventTok e.topics e.data))

def known : List String :=
  ["signers_rotated", "message_approved", "message_executed", "contract_called",
   "ownership_transferred", "operatorship_transferred"]

def bad (s : GwS) (why : String) : GwS × StepOut := (s, ⟨"parse-error:" ++ why, "parse-error"⟩)

/-- result of a state-changing entry point -/
def finish (s : GwS) (r : Except Err (State × List Event)) : GwS × StepOut :=
  match r with
  | .ok (st', evs) => ({ s with st := some st' }, ⟨"ok" ++ evsTok evs, "ok"⟩)
  | .error e => (s, ⟨"err", errName e⟩)

def boolTok (b : Bool) : String := if b then "b1" else "b0"

/-- outcome class of a refused administrative call -/
def adminErrKind : Err → String
  | .unauthorized => "unauthorized"
  | e => errName e

/-- one administrative operation of the model (`.upgrade` / `.migrate`) through `Cgp.Gateway.step` -/
def adminStep (s : GwS) (st : State) (op : Gateway.Op SigP) : GwS × StepOut :=
  match Gateway.step H V ⟨st, s.now⟩ op with
  | (w1, .err e) => ({ s with st := some w1.st }, ⟨"err", adminErrKind e⟩)
  | (w1, _) => ({ s with st := some w1.st }, ⟨"ok", "ok"⟩)

/-- `upgrade` to the same code and then (only if it succeeded) `migrate`, both with the authorisers `auths`, run through the
    transition system `Cgp.Gateway.step`. The state after the last step taken is kept: a refused step leaves the world as it
    was, so a failed migration after a successful upgrade keeps the window open. -/
def upgradeMigrate (s : GwS) (st : State) (auths : List Addr) : GwS × StepOut :=
  match Gateway.step H V ⟨st, s.now⟩ (Gateway.Op.upgrade auths) with
  | (w1, .err e) => ({ s with st := some w1.st }, ⟨"err", adminErrKind e⟩)
  | (w1, _) =>
    match Gateway.step H V w1 (Gateway.Op.migrate auths) with
    | (w2, .err e) => ({ s with st := some w2.st }, ⟨"err", adminErrKind e⟩)
    | (w2, _) => ({ s with st := some w2.st }, ⟨"ok", "ok"⟩)

def step (s : GwS) (t : List String) : GwS × StepOut :=
  match t with
  | ["time", now, seq] =>
    match now.toNat?, seq.toNat? with
    | some n, some q => ({ s with now := n, seq := q }, ⟨"ok", "ok"⟩)
    | _, _ => bad s "time"
  | ["gw.new", _addr, owner, operator, domain, minDelay, retention, sets] =>
    match parseAddr owner, parseAddr operator, ofHex domain, minDelay.toNat?, retention.toNat?, parseList parseSet ";" sets with
    | some ow, some op, some d, some md, some r, some ss =>
      match construct H ow op d md r ss s.now with
      | .ok (st, evs) => ({ s with st := some st }, ⟨"ok" ++ evsTok evs, "ok"⟩)
      | .error e => ({ s with st := none }, ⟨"err", errName e⟩)
    | _, _, _, _, _, _ => bad s "gw.new"
  | op :: args =>
    match s.st with
    | none => (s, ⟨"err", "no-gateway"⟩)
    | some st =>
      match op, args with
      | "gw.approve", [ms, pf] =>
        match parseList parseMsg "," ms, parseProof pf with
        | some ms, some pf => finish s (approveMessages H V st ms pf)
        | _, _ => bad s op
      | "gw.rotate", [ws, pf, bypass, auth] =>
        match parseSet ws, parseProof pf, parseAuth auth with
        | some ws, some pf, some au =>
          finish s (rotateSigners H V st (au.toList [st.operator]) ws pf (bypass = "1") s.now)
        | _, _, _ => bad s op
      | "gw.validate_proof", [dh, pf] =>
        match ofHex dh, parseProof pf with
        | some dh, some pf =>
          match validateProof H V st dh pf with
          | .ok b => (s, ⟨"ok " ++ boolTok b, "ok"⟩)
          | .error e => (s, ⟨"err", errName e⟩)
        | _, _ => bad s op
      | "gw.validate_message", [caller, chain, id, src, ph, auth] =>
        match parseAddr caller, ofHex chain, ofHex id, ofHex src, ofHex ph, parseAuth auth with
        | some ca, some c, some i, some sa, some ph, some au =>
          match validateMessage H st (au.toList [ca]) ca c i sa ph with
          | .ok (st', b, evs) => ({ s with st := some st' }, ⟨"ok " ++ boolTok b ++ evsTok evs, if b then "ok-true" else "ok-false"⟩)
          | .error e => (s, ⟨"err", errName e⟩)
        | _, _, _, _, _, _ => bad s op
      | "gw.call_contract", [caller, chain, dest, payload, auth] =>
        match parseAddr caller, ofHex chain, ofHex dest, ofHex payload, parseAuth auth with
        | some ca, some c, some d, some p, some au => finish s (callContract H st (au.toList [ca]) ca c d p)
        | _, _, _, _, _ => bad s op
      | "gw.transfer_ownership", [new, auth] =>
        match parseAddr new, parseAuth auth with
        | some n, some au => finish s (transferOwnership st (au.toList [st.owner]) n)
        | _, _ => bad s op
      | "gw.transfer_operatorship", [new, auth] =>
        match parseAddr new, parseAuth auth with
        | some n, some au => finish s (transferOperatorship st (au.toList [st.operator]) n)
        | _, _ => bad s op
      | "gw.upgrade", [auth] =>
        -- the two administrative steps on their own: the window between them is observable (a second `migrate` is refused)
        if auth = "@" then adminStep s st (Gateway.Op.upgrade [st.owner]) else
        match parseAuth auth with
        | some au => adminStep s st (Gateway.Op.upgrade (au.toList [st.owner]))
        | none => bad s op
      | "gw.migrate", [auth] =>
        if auth = "@" then adminStep s st (Gateway.Op.migrate [st.owner]) else
        match parseAuth auth with
        | some au => adminStep s st (Gateway.Op.migrate (au.toList [st.owner]))
        | none => bad s op
      | "gw.upgrade_migrate", [auth] =>
        -- upgrade to the same code + migration of the current tree: the model's `.upgrade` then `.migrate`
        if auth = "@" then upgradeMigrate s st [st.owner] else
        match parseAuth auth with
        | some au => upgradeMigrate s st (au.toList [st.owner])
        | none => bad s op
      | "gw.epoch", [] => (s, ⟨"ok U" ++ toString st.epoch, "ok"⟩)
      | "gw.owner", [] => (s, ⟨"ok " ++ addrTok st.owner, "ok"⟩)
      | "gw.operator", [] => (s, ⟨"ok " ++ addrTok st.operator, "ok"⟩)
      | "gw.hash_by_epoch", [e] =>
        match e.toNat? with
        | some e => match st.hashByEpoch e with
          | some h => (s, ⟨"ok x" ++ toHex h, "ok"⟩)
          | none => (s, ⟨"err", "InvalidEpoch"⟩)
        | none => bad s op
      | "gw.epoch_by_hash", [h] =>
        match ofHex h with
        | some h => match st.epochByHash h with
          | some e => (s, ⟨"ok U" ++ toString e, "ok"⟩)
          | none => (s, ⟨"err", "InvalidSignersHash"⟩)
        | none => bad s op
      | "gw.is_approved", [m] =>
        match parseMsg m with
        | some m => (s, ⟨"ok " ++ boolTok (isMessageApproved H st m), "ok"⟩)
        | none => bad s op
      | "gw.is_executed", [c, i] =>
        match ofHex c, ofHex i with
        | some c, some i => (s, ⟨"ok " ++ boolTok (isMessageExecuted st c i), "ok"⟩)
        | _, _ => bad s op
      | _, _ => bad s ("unknown op " ++ op)
  | [] => bad s "empty"

end Cgp.Drive.Gw
