/-
  Cgp.Drive.Gs — replays gas-service protocol lines on `Cgp.GasService` (+ the SAC environment model).
  `sac.new` is an ENVIRONMENT op: the address of a freshly created asset contract is chosen by the host, so the
  driver adopts it from the implementation's observation.
-/
import Cgp.GasService
import Cgp.Keccak
import Cgp.Tok
namespace Cgp.Drive.Gs
open Cgp Cgp.Xdr Cgp.Tok Cgp.Sac Cgp.GasService

def H : Bytes → Bytes := Cgp.Keccak.keccak256

structure GsS where
  st : Option State := none
  bank : Bank := Bank.empty       -- tokens may exist before the service does

structure StepOut where
  obs : String
  kind : String

def errName : Err → String
  | .unauthorized => "Unauthorized" | .invalidAmount => "InvalidAmount"
  | .insufficientBalance => "InsufficientBalance" | .tokenCallFailed => "TokenCallFailed"

def evsTok (evs : List Event) : String := String.join (evs.map (fun e => " " ++ eventTok e.topics e.data))
def known : List String := ["gas_paid", "gas_added", "gas_refunded", "gas_collected", "ownership_transferred"]
def bad (s : GsS) (why : String) : GsS × StepOut := (s, ⟨"parse-error:" ++ why, "parse-error"⟩)

def withBank (s : GsS) (b : Bank) : GsS :=
  { s with bank := b, st := s.st.map (fun st => { st with bank := b }) }

def finish (s : GsS) (r : Except Err (State × List Event)) : GsS × StepOut :=
  match r with
  | .ok (st', evs) => ({ s with st := some st', bank := st'.bank }, ⟨"ok" ++ evsTok evs, "ok"⟩)
  | .error e => (s, ⟨"err", errName e⟩)

def curBank (s : GsS) : Bank := match s.st with | some st => st.bank | none => s.bank

/-- SAC environment ops (shared shape with other drivers) -/
def sacStep (bank : Bank) (t : List String) (implObs : String) : Option (Bank × StepOut) :=
  match t with
  | ["sac.new", _admin] =>
    match implObs.splitOn " " with
    | ["ok", a] => match parseAddr a with
      | some a => some (bank.addToken a, ⟨implObs, "env"⟩)
      | none => some (bank, ⟨"parse-error:sac.new", "parse-error"⟩)
    | _ => some (bank, ⟨"parse-error:sac.new", "parse-error"⟩)
  | ["itok.new", _addr, _owner] =>
    -- the repository's OWN token contract (built from the current source) used as a gas token: for the gas service it is a
    -- token like any other (the Bank model); `sac.mint` on it is the owner's `mint`
    match implObs.splitOn " " with
    | ["ok", a] => match parseAddr a with
      | some a => some (bank.addToken a, ⟨implObs, "env"⟩)
      | none => some (bank, ⟨"parse-error:itok.new", "parse-error"⟩)
    | _ => some (bank, ⟨"parse-error:itok.new", "parse-error"⟩)
  | ["sac.mint", tok, to, amt] =>
    match parseAddr tok, parseAddr to, amt.toInt? with
    | some tok, some to, some a =>
      match bank.mint tok to a with
      | some b => some (b, ⟨"ok", "ok"⟩)
      | none => some (bank, ⟨"err", "rejected"⟩)
    | _, _, _ => some (bank, ⟨"parse-error:sac.mint", "parse-error"⟩)
  | ["sac.transfer", tok, f, to, amt, au] =>
    match parseAddr tok, parseAddr f, parseAddr to, amt.toInt?, parseAuth au with
    | some tok, some f, some to, some a, some au =>
      match bank.transfer tok f to a ((au.toList [f]).contains f) with
      | some b => some (b, ⟨"ok", "ok"⟩)
      | none => some (bank, ⟨"err", "rejected"⟩)
    | _, _, _, _, _ => some (bank, ⟨"parse-error:sac.transfer", "parse-error"⟩)
  | ["sac.balance", tok, who] =>
    match parseAddr tok, parseAddr who with
    | some tok, some who =>
      if bank.isToken tok then some (bank, ⟨"ok X" ++ toString (bank.bal tok who), "ok"⟩)
      else some (bank, ⟨"err", "not-a-token"⟩)
    | _, _ => some (bank, ⟨"parse-error:sac.balance", "parse-error"⟩)
  | _ => none

/-- plain-entry authorisers of a tree-auth token ("!" = other args, "~" = root only: neither counts) -/
def parseTreeAuth (s : String) : Option Auth :=
  if s = "-" then some (.list []) else if s = "*" then some .all
  else
    (s.splitOn ",").foldr (fun t acc => match acc with
      | none => none
      | some (.list xs) =>
        if t.endsWith "!" || t.endsWith "~" then some (.list xs)
        else match parseAddr t with | some a => some (.list (a :: xs)) | none => none
      | some .all => some .all) (some (.list []))

/-- upgrade to the same code + the migration, with the authorisers `auths`, run through `Cgp.GasService.step` -/
def upgradeMigrate (s : GsS) (st : State) (auths : List Addr) : GsS × StepOut :=
  match GasService.step H st (.upgradeMigrate auths) with
  | (_, .error .unauthorized) => (s, ⟨"err", "unauthorized"⟩)
  | (_, .error e) => (s, ⟨"err", errName e⟩)
  | (st', .ok _) => ({ s with st := some st', bank := st'.bank }, ⟨"ok", "ok"⟩)

def step (s : GsS) (t : List String) (implObs : String) : GsS × StepOut :=
  match sacStep (curBank s) t implObs with
  | some (b, o) => (withBank s b, o)
  | none =>
  match t with
  | ["time", _, _] => (s, ⟨"ok", "ok"⟩)
  -- calls (without any authorisation) to exported functions the model does not know: none exists on the unchanged tree;
  -- whatever one added later does, the modelled state must stay what it is
  | ["gs.probe_extra", _, _] => (s, ⟨"ok", "ok"⟩)
  | ["gs.new", addr, owner, collector] =>
    match parseAddr addr, parseAddr owner, parseAddr collector with
    | some a, some o, some c => ({ s with st := some { self := a, owner := o, collector := c, bank := s.bank } }, ⟨"ok", "ok"⟩)
    | _, _, _ => bad s "gs.new"
  | op :: args =>
    match s.st with
    | none => (s, ⟨"err", "no-gas-service"⟩)
    | some st =>
      match op, args with
      | "gs.pay_gas", [sender, chain, dest, payload, spender, tok, amt, md, au] =>
        match parseAddr sender, ofHex chain, ofHex dest, ofHex payload, parseAddr spender, parseAddr tok, amt.toInt?, ofHex md, parseTreeAuth au with
        | some se, some c, some d, some p, some sp, some tk, some a, some m, some au =>
          finish s (payGas H st (au.toList [sp]) se c d p sp tk a m)
        | _, _, _, _, _, _, _, _, _ => bad s op
      | "gs.add_gas", [sender, mid, spender, tok, amt, au] =>
        match parseAddr sender, ofHex mid, parseAddr spender, parseAddr tok, amt.toInt?, parseTreeAuth au with
        | some se, some i, some sp, some tk, some a, some au => finish s (addGas st (au.toList [sp]) se i sp tk a)
        | _, _, _, _, _, _ => bad s op
      | "gs.collect_fees", [receiver, tok, amt, au] =>
        match parseAddr receiver, parseAddr tok, amt.toInt?, parseTreeAuth au with
        | some r, some tk, some a, some au => finish s (collectFees st (au.toList [st.collector]) r tk a)
        | _, _, _, _ => bad s op
      | "gs.refund", [mid, receiver, tok, amt, au] =>
        match ofHex mid, parseAddr receiver, parseAddr tok, amt.toInt?, parseTreeAuth au with
        | some i, some r, some tk, some a, some au => finish s (refund st (au.toList [st.collector]) i r tk a)
        | _, _, _, _, _ => bad s op
      | "gs.transfer_ownership", [new, au] =>
        match parseAddr new, parseTreeAuth au with
        | some n, some au => finish s (transferOwnership st (au.toList [st.owner]) n)
        | _, _ => bad s op
      | "gs.upgrade_migrate", [auth] =>
        -- upgrade to the same code + migration of the current tree: the model's `.upgradeMigrate`
        if auth = "@" then upgradeMigrate s st [st.owner] else
        match parseTreeAuth auth with
        | some au => upgradeMigrate s st (au.toList [st.owner])
        | none => bad s op
      | "gs.owner", [] => (s, ⟨"ok " ++ addrTok st.owner, "ok"⟩)
      | "gs.collector", [] => (s, ⟨"ok " ++ addrTok st.collector, "ok"⟩)
      | _, _ => bad s ("unknown op " ++ op)
  | [] => bad s "empty"

end Cgp.Drive.Gs
