/-
  Cgp.Drive.ItsD — replays ITS protocol lines on `Cgp.Its` (gateway lines are delegated to the gateway driver and
  operate on the gateway state embedded in the ITS world).
-/
import Cgp.Its
import Cgp.ItsOps
import Cgp.Keccak
import Cgp.Drive.Gw
namespace Cgp.Drive.ItsD
open Cgp Cgp.Xdr Cgp.Tok Cgp.Its

def H : Bytes → Bytes := Cgp.Keccak.keccak256
def S : Bytes → Bytes := Cgp.Keccak.sha256

structure ItsS where
  g : Cgp.Drive.Gw.GwS := {}
  gwAddr : Addr := ⟨true, []⟩
  st : Option State := none
  k : Consts := ⟨[], [], [], [], []⟩
  /-- tokens and executables created before the service exists -/
  preTokens : List (Addr × Tok) := []

structure StepOut where
  obs : String
  kind : String
  pviol : Option String := none

def errName : Err → String
  | .unauthorized => "Unauthorized" | .trustedChainAlreadySet => "TrustedChainAlreadySet"
  | .trustedChainNotSet => "TrustedChainNotSet" | .invalidMessageType => "InvalidMessageType"
  | .untrustedChain => "UntrustedChain" | .insufficientMessageLength => "InsufficientMessageLength"
  | .abiDecodeFailed => "AbiDecodeFailed" | .invalidAmount => "InvalidAmount" | .invalidUtf8 => "InvalidUtf8"
  | .invalidMinter => "InvalidMinter" | .invalidDestinationAddress => "InvalidDestinationAddress"
  | .invalidHubChain => "InvalidHubChain" | .tokenAlreadyRegistered => "TokenAlreadyRegistered"
  | .invalidTokenMetaData => "InvalidTokenMetaData" | .invalidTokenId => "InvalidTokenId"
  | .tokenAlreadyDeployed => "TokenAlreadyDeployed" | .notApproved => "NotApproved"
  | .tokenCallFailed => "TokenCallFailed" | .deployFailed => "DeployFailed" | .gasPaymentFailed => "GasPaymentFailed"
  | .executableCallFailed => "ExecutableCallFailed" | .panicNegativeAmount => "PanicNegativeAmount"

def known : List String :=
  Cgp.Drive.Gw.known ++ ["trusted_chain_set", "trusted_chain_removed", "interchain_token_deployed",
    "token_deployment_started", "interchain_token_id_claimed", "interchain_transfer_sent",
    "interchain_transfer_received", "gas_paid", "recv_exec"]

def evsTok (evs : List Event) : String :=
  String.join (evs.map (fun e => " E@" ++ addrTok e.emitter ++ ":" ++ String.intercalate ":" (e.topics.map scvTok) ++ ":" ++ scvTok e.data))

def bad (s : ItsS) (why : String) : ItsS × StepOut := (s, ⟨"parse-error:" ++ why, "parse-error", none⟩)

def parseTreeAuth (s : String) : Option Auth :=
  if s = "-" then some (.list []) else if s = "*" then some .all
  else
    (s.splitOn ",").foldr (fun t acc => match acc with
      | none => none
      | some (.list xs) =>
        if t.endsWith "!" || t.endsWith "~" then some (.list xs)
        else match parseAddr t with | some a => some (.list (a :: xs)) | none => none
      | some .all => some .all) (some (.list []))

def finEv (s : ItsS) (r : Except Err (State × List Event)) : ItsS × StepOut :=
  match r with
  | .ok (st', evs) => ({ s with st := some st' }, ⟨"ok" ++ evsTok evs, "ok", none⟩)
  | .error e => (s, ⟨"err", errName e, none⟩)

def finId (s : ItsS) (r : Except Err (State × Bytes × List Event)) : ItsS × StepOut :=
  match r with
  | .ok (st', tid, evs) => ({ s with st := some st' }, ⟨"ok x" ++ toHex tid ++ evsTok evs, "ok", none⟩)
  | .error e => (s, ⟨"err", errName e, none⟩)

def sacTok (name symbol : Bytes) : Tok :=
  { kind := .sac, name, symbol, decimals := 7, bal := fun _ => 0, owner := ⟨true, []⟩, minter := fun _ => false, tokenId := [] }

/-- token table lookups / updates that work before and after the service exists -/
def getTok (s : ItsS) (a : Addr) : Option Tok :=
  match s.st with
  | some st => st.tokens a
  | none => (s.preTokens.find? (·.1 = a)).map (·.2)

def putTok (s : ItsS) (a : Addr) (t : Tok) : ItsS :=
  match s.st with
  | some st => { s with st := some (setTok st a t) }
  | none => { s with preTokens := (a, t) :: s.preTokens.filter (·.1 ≠ a) }

def optHexOrTilde (x : String) : Option (Option Bytes) := if x = "~" then some none else (ofHex x).map some

/-- upgrade to the same code + the migration, with the authorisers `auths`, run through the transition system `Cgp.Its.step` -/
def upgradeMigrate (s : ItsS) (st : State) (auths : List Addr) : ItsS × StepOut :=
  match Its.step H S s.k st (.upgradeMigrate auths) with
  | (_, .err .unauthorized) => (s, ⟨"err", "unauthorized", none⟩)
  | (_, .err e) => (s, ⟨"err", errName e, none⟩)
  | (st', _) => ({ s with st := some st' }, ⟨"ok", "ok", none⟩)

def step (s : ItsS) (t : List String) (implObs : String) : ItsS × StepOut :=
  match t with
  | "time" :: _ => let (g', o) := Cgp.Drive.Gw.step s.g t; ({ s with g := g' }, ⟨o.obs, o.kind, none⟩)
  | "gw.new" :: addr :: _ =>
    let (g', o) := Cgp.Drive.Gw.step s.g t
    ({ s with g := g', gwAddr := (parseAddr addr).getD ⟨true, []⟩ }, ⟨o.obs, o.kind, none⟩)
  | ["its.new", its, owner, gs, hubAddr, chain] =>
    match parseAddr its, parseAddr owner, parseAddr gs, ofHex hubAddr, ofHex chain, s.g.st with
    | some its, some ow, some gs, some ha, some ch, some gw =>
      -- environment constants adopted from the implementation: hub chain name (reported by the contract), the three
      -- id prefixes (extracted from the source text by the harness), the ledger's network id
      let kv := (implObs.splitOn " ").filterMap (fun x => match x.splitOn "=" with
        | [a, b] => (ofHex b).map (fun v => (a, v))
        | _ => none)
      let get := fun (n : String) => ((kv.find? (·.1 = n)).map (·.2)).getD []
      let k : Consts := ⟨get "hub", get "pid", get "psalt", get "pcanon", get "net"⟩
      let toks := s.preTokens
      let st : State :=
        { self := its, owner := ow, gatewayAddr := s.gwAddr, gasService := gs, hubAddress := ha, chainName := ch,
          trusted := fun _ => false, registry := fun _ => none, gw := gw,
          tokens := fun a => (toks.find? (·.1 = a)).map (·.2), executable := fun _ => false }
      -- the three prefixes must be pairwise distinct for the id theorems to apply
      if k.prefixTokenId = k.prefixTokenSalt ∨ k.prefixTokenId = k.prefixCanonicalSalt ∨ k.prefixTokenSalt = k.prefixCanonicalSalt
      then bad s "id prefixes are not pairwise distinct"
      else ({ s with st := some st, k := k }, ⟨implObs, "env", none⟩)
    | _, _, _, _, _, _ => bad s "its.new"
  | ["sac.new", _admin] =>
    match implObs.splitOn " " with
    | ["ok", a] => match parseAddr a with
      | some a => (putTok s a (sacTok [] []), ⟨implObs, "env", none⟩)
      | none => bad s "sac.new"
    | _ => bad s "sac.new"
  | ["ctok.new", a, name, sym, dec] =>
    match parseAddr a, ofHex name, ofHex sym, dec.toNat? with
    | some a, some n, some sy, some d =>
      (putTok s a { sacTok n sy with kind := .custom, decimals := d }, ⟨"ok", "ok", none⟩)
    | _, _, _, _ => bad s "ctok.new"
  | ["ctok.break", a, _mode] =>
    -- the token's `decimals()` cannot be read any more (it traps, or answers with something that is no u32): for the model that
    -- is a token whose decimals are not representable — every operation that needs them is refused
    match parseAddr a with
    | some a => match getTok s a with
      | some t => (putTok s a { t with decimals := 2 ^ 40 }, ⟨"ok", "ok", none⟩)
      | none => bad s "ctok.break"
    | none => bad s "ctok.break"
  | ["ctok.shifty", _, _, _, _] =>
    -- the token starts giving OTHER answers on re-reading; the token the model knows is what a first read returns
    (s, ⟨"ok", "ok", none⟩)
  | ["recv.new", a] =>
    match parseAddr a, s.st with
    | some a, some st => ({ s with st := some { st with executable := fun x => x = a || st.executable x } }, ⟨"ok", "ok", none⟩)
    | _, _ => bad s "recv.new"
  | ["recv.count", _] => (s, ⟨implObs, "env", none⟩)      -- the recipient app's own counter is not modelled
  | [op, tk, to, amt] =>
    -- sac.mint / ctok.mint <token> <to> <amount> : environment funding
    if op = "sac.mint" ∨ op = "ctok.mint" then
      match parseAddr tk, parseAddr to, amt.toInt? with
      | some tk, some to, some a =>
        match getTok s tk with
        | some tkn =>
          if a < 0 ∨ tkn.bal to + a > i128Max then (s, ⟨"err", "rejected", none⟩)
          else (putTok s tk { tkn with bal := fun x => if x = to then tkn.bal to + a else tkn.bal x }, ⟨"ok", "ok", none⟩)
        | none => (s, ⟨"err", "not-a-token", none⟩)
      | _, _, _ => bad s op
    else bad s ("unknown op " ++ op)
  | op :: args =>
    if op.startsWith "gw." then
      -- gateway lines act on the gateway state inside the ITS world (once it exists)
      match s.st with
      | some st =>
        let (g', o) := Cgp.Drive.Gw.step { s.g with st := some st.gw } t
        match g'.st with
        | some gw' => ({ s with g := g', st := some { st with gw := gw' } }, ⟨o.obs, o.kind, none⟩)
        | none => ({ s with g := g' }, ⟨o.obs, o.kind, none⟩)
      | none => let (g', o) := Cgp.Drive.Gw.step s.g t; ({ s with g := g' }, ⟨o.obs, o.kind, none⟩)
    else
    match op, args with
    | "tok.balance", [tk, who] =>
      match parseAddr tk, parseAddr who with
      | some tk, some who => match getTok s tk with
        | some tkn => (s, ⟨"ok X" ++ toString (tkn.bal who), "ok", none⟩)
        | none => (s, ⟨"err", "not-a-token", none⟩)
      | _, _ => bad s op
    | "sac.balance", [tk, who] =>
      match parseAddr tk, parseAddr who with
      | some tk, some who => match getTok s tk with
        | some tkn => (s, ⟨"ok X" ++ toString (tkn.bal who), "ok", none⟩)
        | none => (s, ⟨"err", "not-a-token", none⟩)
      | _, _ => bad s op
    | "tok.meta", [tk] =>
      match parseAddr tk with
      | some tk => match getTok s tk with
        | some tkn =>
          if tkn.kind = .sac ∧ tkn.name.isEmpty then
            -- metadata of an asset contract is chosen by the host (code:issuer): adopt it once
            match implObs.splitOn " " with
            | ["ok", n, sy, d] =>
              match ofHex (n.drop 1).toString, ofHex (sy.drop 1).toString, (d.drop 1).toString.toNat? with
              | some n, some sy, some d => (putTok s tk { tkn with name := n, symbol := sy, decimals := d }, ⟨implObs, "env", none⟩)
              | _, _, _ => bad s "tok.meta adopt"
            | _ => bad s "tok.meta adopt"
          else (s, ⟨"ok s" ++ toHexTok tkn.name ++ " s" ++ toHexTok tkn.symbol ++ " u" ++ toString tkn.decimals, "ok", none⟩)
        | none => (s, ⟨"err", "not-a-token", none⟩)
      | none => bad s op
    | "tok.owner", [tk] =>
      match parseAddr tk with
      | some tk => match getTok s tk with
        | some tkn => if tkn.kind = .interchain then (s, ⟨"ok " ++ addrTok tkn.owner, "ok", none⟩) else (s, ⟨"err", "no-such-function", none⟩)
        | none => (s, ⟨"err", "not-a-token", none⟩)
      | none => bad s op
    | "tok.token_id", [tk] =>
      match parseAddr tk with
      | some tk => match getTok s tk with
        | some tkn => if tkn.kind = .interchain then (s, ⟨"ok x" ++ toHex tkn.tokenId, "ok", none⟩) else (s, ⟨"err", "no-such-function", none⟩)
        | none => (s, ⟨"err", "not-a-token", none⟩)
      | none => bad s op
    | "tok.is_minter", [tk, a] =>
      match parseAddr tk, parseAddr a with
      | some tk, some a => match getTok s tk with
        | some tkn => if tkn.kind = .interchain then (s, ⟨"ok " ++ (if tkn.minter a then "b1" else "b0"), "ok", none⟩) else (s, ⟨"err", "no-such-function", none⟩)
        | none => (s, ⟨"err", "not-a-token", none⟩)
      | _, _ => bad s op
    | "tok.transfer", [tk, f, to, amt, au] =>
      match parseAddr tk, parseAddr f, parseAddr to, amt.toInt?, parseTreeAuth au, s.st with
      | some tk, some f, some to, some a, some au, some st =>
        match tokTransfer st tk f to a ((au.toList [f]).contains f) with
        | .ok st' => ({ s with st := some st' }, ⟨"ok", "ok", none⟩)
        | .error _ => (s, ⟨"err", "rejected", none⟩)
      | _, _, _, _, _, _ => bad s op
    | "sac.transfer", [tk, f, to, amt, au] =>
      match parseAddr tk, parseAddr f, parseAddr to, amt.toInt?, parseAuth au, s.st with
      | some tk, some f, some to, some a, some au, some st =>
        match tokTransfer st tk f to a ((au.toList [f]).contains f) with
        | .ok st' => ({ s with st := some st' }, ⟨"ok", "ok", none⟩)
        | .error _ => (s, ⟨"err", "rejected", none⟩)
      | _, _, _, _, _, _ => bad s op
    | "tok.mint_from", [tk, m, to, amt, au] =>
      match parseAddr tk, parseAddr m, parseAddr to, amt.toInt?, parseTreeAuth au with
      | some tk, some m, some to, some a, some au =>
        match getTok s tk with
        | some tkn =>
          if tkn.kind ≠ .interchain ∨ !(au.toList [m]).contains m ∨ !tkn.minter m ∨ a < 0 ∨ tkn.bal to + a > i128Max
          then (s, ⟨"err", "rejected", none⟩)
          else (putTok s tk { tkn with bal := fun x => if x = to then tkn.bal to + a else tkn.bal x }, ⟨"ok", "ok", none⟩)
        | none => (s, ⟨"err", "not-a-token", none⟩)
      | _, _, _, _, _ => bad s op
    | _, _ =>
    match s.st with
    | none => (s, ⟨"err", "no-its", none⟩)
    | some st =>
      let k := s.k
      match op, args with
      | "its.set_trusted", [c, au] =>
        match ofHex c, parseTreeAuth au with
        | some c, some au => finEv s (setTrustedChain st (au.toList [st.owner]) c)
        | _, _ => bad s op
      | "its.remove_trusted", [c, au] =>
        match ofHex c, parseTreeAuth au with
        | some c, some au => finEv s (removeTrustedChain st (au.toList [st.owner]) c)
        | _, _ => bad s op
      | "its.transfer_ownership", [n, au] =>
        match parseAddr n, parseTreeAuth au with
        | some n, some au => finEv s (transferOwnership st (au.toList [st.owner]) n)
        | _, _ => bad s op
      | "its.upgrade_migrate", [auth] =>
        -- upgrade to the same code + migration of the current tree: the model's `.upgradeMigrate`
        if auth = "@" then upgradeMigrate s st [st.owner] else
        match parseTreeAuth auth with
        | some au => upgradeMigrate s st (au.toList [st.owner])
        | none => bad s op
      | "its.owner", [] => (s, ⟨"ok " ++ addrTok st.owner, "ok", none⟩)
      | "its.is_trusted", [c] =>
        match ofHex c with
        | some c => (s, ⟨"ok " ++ (if st.trusted c then "b1" else "b0"), "ok", none⟩)
        | none => bad s op
      | "its.deploy", [caller, salt, name, sym, dec, supply, minter, au] =>
        match parseAddr caller, ofHex salt, ofHex name, ofHex sym, dec.toNat?, supply.toInt?, parseTreeAuth au with
        | some ca, some sa, some n, some sy, some d, some su, some au =>
          let mo : Option (Option Addr) := if minter = "-" then some none else (parseAddr minter).map some
          match mo with
          | none => bad s op
          | some mo =>
            let r := deployInterchainToken H S k st (au.toList [ca]) ca sa n sy d su mo
            let (s', o) := finId s r
            -- full-strength P clause (C11): the service keeps its minting right on every token it deploys
            let pv : Option String := match r with
              | .ok (st', tid, _) => match st'.registry tid with
                | some (addr, _) => match st'.tokens addr with
                  | some tkn => if tkn.minter st'.self then none else some "C11:service_keeps_minting_right"
                  | none => none
                | none => none
              | .error _ => none
            (s', { o with pviol := pv })
        | _, _, _, _, _, _, _ => bad s op
      | "its.register_canonical", [tk] =>
        match parseAddr tk with
        | some tk => finId s (registerCanonicalToken H k st tk)
        | none => bad s op
      | "its.deploy_remote", [caller, salt, dest, gtk, gamt, au] =>
        match parseAddr caller, ofHex salt, ofHex dest, parseAddr gtk, gamt.toInt?, parseTreeAuth au with
        | some ca, some sa, some de, some gt, some ga, some au =>
          finId s (deployRemoteInterchainToken H k st (au.toList [ca]) ca sa de gt ga)
        | _, _, _, _, _, _ => bad s op
      | "its.deploy_remote_canonical", [tk, dest, spender, gtk, gamt, au] =>
        match parseAddr tk, ofHex dest, parseAddr spender, parseAddr gtk, gamt.toInt?, parseTreeAuth au with
        | some tk, some de, some sp, some gt, some ga, some au =>
          finId s (deployRemoteCanonicalToken H k st (au.toList [sp]) tk de sp gt ga)
        | _, _, _, _, _, _ => bad s op
      | "its.transfer", [caller, tid, dest, daddr, amt, data, gtk, gamt, au] =>
        match parseAddr caller, ofHex tid, ofHex dest, ofHex daddr, amt.toInt?, optHexOrTilde data, parseAddr gtk, gamt.toInt?, parseTreeAuth au with
        | some ca, some ti, some de, some da, some am, some dt, some gt, some ga, some au =>
          finEv s (interchainTransfer H k st (au.toList [ca]) ca ti de da am dt gt ga)
        | _, _, _, _, _, _, _, _, _ => bad s op
      | "its.execute", [chain, id, src, payload] =>
        match ofHex chain, ofHex id, ofHex src, ofHex payload with
        | some c, some i, some sa, some p =>
          let r := execute H S k st c i sa p
          let (s', o) := finEv s r
          -- full-strength P clause (C04): the message must come from the configured hub ADDRESS
          let pv : Option String := match r with
            | .ok _ => if sa = st.hubAddress then none else some "C04:source_address_is_hub"
            | .error _ => none
          (s', { o with pviol := pv })
        | _, _, _, _ => bad s op
      | "its.token_address", [tid] =>
        match ofHex tid with
        | some tid => match st.registry tid with
          | some (a, _) => (s, ⟨"ok " ++ addrTok a, "ok", none⟩)
          | none => (s, ⟨"err", "no-such-id", none⟩)
        | none => bad s op
      | "its.manager", [tid] =>
        match ofHex tid with
        | some tid => match st.registry tid with
          | some (_, .native) => (s, ⟨"ok u0", "ok", none⟩)
          | some (_, .lockUnlock) => (s, ⟨"ok u2", "ok", none⟩)
          | none => (s, ⟨"err", "no-such-id", none⟩)
        | none => bad s op
      | "its.q_deploy_salt", [d, sa] =>
        match parseAddr d, ofHex sa with
        | some d, some sa => (s, ⟨"ok x" ++ toHex (deploySalt H k st.chainName d sa), "ok", none⟩)
        | _, _ => bad s op
      | "its.q_token_id", [d, sa] =>
        match parseAddr d, ofHex sa with
        | some d, some sa => (s, ⟨"ok x" ++ toHex (tokenIdOf H k d sa), "ok", none⟩)
        | _, _ => bad s op
      | "its.q_canonical_salt", [tk] =>
        match parseAddr tk with
        | some tk => (s, ⟨"ok x" ++ toHex (canonicalSalt H k st.chainName tk), "ok", none⟩)
        | none => bad s op
      | _, _ => bad s ("unknown op " ++ op)
  | [] => bad s "empty"

end Cgp.Drive.ItsD
