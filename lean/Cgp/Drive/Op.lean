/-
  Cgp.Drive.Op — replays operators-contract protocol lines on `Cgp.Operators`, with the harness's probe
  target contract modelled as the `Target` parameter.
-/
import Cgp.Operators
import Cgp.Tok
namespace Cgp.Drive.Op
open Cgp Cgp.Xdr Cgp.Tok Cgp.Operators

/-- the probe's log: one entry per call that completed -/
abbrev ProbeS := List (List ScVal)

def name (s : String) : Bytes := s.toUTF8.toList

def probeTgt (probe : Addr) : Target ProbeS := fun log call =>
  if call.contract ≠ probe then none
  else if call.func = name "noop" then
    match call.args with
    | [] => some (log ++ [[sym "noop"]], .void)
    | _ => none
  else if call.func = name "echo" then
    match call.args with
    | [v] => some (log ++ [[sym "echo", v]], v)
    | _ => none
  else if call.func = name "sum" then
    match call.args with
    | [.u32 a, .u32 b] => if a + b < 2 ^ 32 then some (log ++ [[sym "sum", .u32 a, .u32 b]], .u32 (a + b)) else none
    | _ => none
  else if call.func = name "need_auth" then
    match call.args with
    | [.addr a] => if a = call.invoker then some (log ++ [[sym "need_auth", .addr a]], .bool true) else none
    | _ => none
  else none     -- `boom` always fails; unknown functions fail

structure OpS where
  w : Option (World ProbeS) := none
  probe : Addr := ⟨true, []⟩

structure StepOut where
  obs : String
  kind : String

def errName : Err → String
  | .unauthorized => "Unauthorized" | .operatorAlreadyAdded => "OperatorAlreadyAdded"
  | .notAnOperator => "NotAnOperator" | .targetFailed => "TargetFailed"

def evsTok (evs : List Event) : String := String.join (evs.map (fun e => " " ++ eventTok e.topics e.data))
def known : List String := ["operator_added", "operator_removed", "ownership_transferred"]
def bad (s : OpS) (why : String) : OpS × StepOut := (s, ⟨"parse-error:" ++ why, "parse-error"⟩)

def parseTreeAuth (s : String) : Option Auth :=
  if s = "-" then some (.list []) else if s = "*" then some .all
  else
    (s.splitOn ",").foldr (fun t acc => match acc with
      | none => none
      | some (.list xs) =>
        if t.endsWith "!" || t.endsWith "~" then some (.list xs)
        else match parseAddr t with | some a => some (.list (a :: xs)) | none => none
      | some .all => some .all) (some (.list []))

def fin (s : OpS) (r : World ProbeS × Obs) : OpS × StepOut :=
  match r with
  | (w', .ok evs) => ({ s with w := some w' }, ⟨"ok" ++ evsTok evs, "ok"⟩)
  | (w', .value v) => ({ s with w := some w' }, ⟨"ok " ++ scvTok v, "ok"⟩)
  | (_, .err e) => (s, ⟨"err", errName e⟩)

/-- upgrade to the same code + the migration, with the authorisers `auths`, run through `Cgp.Operators.step` -/
def upgradeMigrate (s : OpS) (w : World ProbeS) (auths : List Addr) : OpS × StepOut :=
  match Operators.step (probeTgt s.probe) w (.upgradeMigrate auths) with
  | (_, .err .unauthorized) => (s, ⟨"err", "unauthorized"⟩)
  | (_, .err e) => (s, ⟨"err", errName e⟩)
  | (w', _) => ({ s with w := some w' }, ⟨"ok", "ok"⟩)

def step (s : OpS) (t : List String) : OpS × StepOut :=
  match t with
  | ["time", _, _] => (s, ⟨"ok", "ok"⟩)
  | ["op.new", addr, owner, probe] =>
    match parseAddr addr, parseAddr owner, parseAddr probe with
    | some a, some o, some p =>
      ({ w := some { self := a, st := { owner := o, isOp := fun _ => false }, ts := [] }, probe := p }, ⟨"ok", "ok"⟩)
    | _, _, _ => bad s "op.new"
  | op :: args =>
    match s.w with
    | none => (s, ⟨"err", "no-contract"⟩)
    | some w =>
      let tgt := probeTgt s.probe
      match op, args with
      | "op.add", [a, au] =>
        match parseAddr a, parseTreeAuth au with
        | some a, some au => fin s (Operators.step tgt w (.add (au.toList [w.st.owner]) a))
        | _, _ => bad s op
      | "op.remove", [a, au] =>
        match parseAddr a, parseTreeAuth au with
        | some a, some au => fin s (Operators.step tgt w (.remove (au.toList [w.st.owner]) a))
        | _, _ => bad s op
      | "op.transfer_ownership", [a, au] =>
        match parseAddr a, parseTreeAuth au with
        | some a, some au => fin s (Operators.step tgt w (.transferOwnership (au.toList [w.st.owner]) a))
        | _, _ => bad s op
      | "op.upgrade_migrate", [auth] =>
        -- upgrade to the same code + migration of the current tree: the model's `.upgradeMigrate`
        if auth = "@" then upgradeMigrate s w [w.st.owner] else
        match parseTreeAuth auth with
        | some au => upgradeMigrate s w (au.toList [w.st.owner])
        | none => bad s op
      | "op.execute", [o, c, f, ar, au] =>
        match parseAddr o, parseAddr c, parseArgs ar, parseTreeAuth au with
        | some o, some c, some ar, some au => fin s (Operators.step tgt w (.execute (au.toList [o]) o c (name f) ar))
        | _, _, _, _ => bad s op
      | "op.is_operator", [a] =>
        match parseAddr a with
        | some a => (s, ⟨"ok " ++ (if w.st.isOp a then "b1" else "b0"), "ok"⟩)
        | none => bad s op
      | "op.owner", [] => (s, ⟨"ok " ++ addrTok w.st.owner, "ok"⟩)
      | "probe.count", [] => (s, ⟨"ok u" ++ toString w.ts.length, "ok"⟩)
      | "probe.last", [] => (s, ⟨"ok " ++ scvTok (.vec (ScVals.ofList (w.ts.getLast?.getD []))), "ok"⟩)
      | _, _ => bad s ("unknown op " ++ op)
  | [] => bad s "empty"

end Cgp.Drive.Op
