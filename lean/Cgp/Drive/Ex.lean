/-
  Cgp.Drive.Ex — replays executable-application protocol lines: gateway lines are delegated to the gateway
  driver; `app.execute` runs `Cgp.Executable.appExecute` for the Example app and the minimal app.
-/
import Cgp.Executable
import Cgp.Drive.Gw
import Cgp.Drive.Gs
namespace Cgp.Drive.Ex
open Cgp Cgp.Xdr Cgp.Tok Cgp.Gateway Cgp.Executable

structure ExS where
  g : Cgp.Drive.Gw.GwS := {}
  gwAddr : Option Addr := none
  exampleApp : Option Addr := none
  mini : Option Addr := none
  miniEff : Effects := []
  exEff : Effects := []

abbrev StepOut := Cgp.Drive.Gw.StepOut

def known : List String := Cgp.Drive.Gw.known ++ ["executed"]
def H := Cgp.Drive.Gw.H

def evTokAt (a : Addr) (topics : List ScVal) (data : ScVal) : String :=
  " E@" ++ addrTok a ++ ":" ++ String.intercalate ":" (topics.map scvTok) ++ ":" ++ scvTok data

def step (s : ExS) (t : List String) (_implObs : String) : ExS × StepOut :=
  match t with
  | "gw.new" :: addr :: _ =>
    let (g', o) := Cgp.Drive.Gw.step s.g t
    ({ s with g := g', gwAddr := parseAddr addr }, o)
  | ["ex.new", e, m, _gs] =>
    match parseAddr e, parseAddr m with
    | some e, some m => ({ s with exampleApp := some e, mini := some m }, ⟨"ok", "ok"⟩)
    | _, _ => (s, ⟨"parse-error:ex.new", "parse-error"⟩)
  | ["app.execute", app, chain, id, src, payload] =>
    match parseAddr app, ofHex chain, ofHex id, ofHex src, ofHex payload, s.g.st, s.gwAddr with
    | some app, some c, some i, some sa, some p, some gw, some gwa =>
      let isEx := s.exampleApp = some app
      match appExecute H gw app (if isEx then s.exEff else s.miniEff) c i sa p with
      | .error (.notApproved) => (s, ⟨"err", "NotApproved"⟩)
      | .error (.gateway e) => (s, ⟨"err", Cgp.Drive.Gw.errName e⟩)
      | .ok (gw', eff', evs) =>
        let gwEv := String.join (evs.map (fun e => evTokAt gwa e.topics e.data))
        -- the Example app announces what it executed; the minimal app only counts
        let appEv := if isEx then
            evTokAt app [.sym "executed".toUTF8.toList, .str c, .str i, .str sa] (.vec (.cons (.bytes p) .nil))
          else ""
        let s' := { s with g := { s.g with st := some gw' } }
        (if isEx then { s' with exEff := eff' } else { s' with miniEff := eff' }, ⟨"ok" ++ gwEv ++ appEv, "ok"⟩)
    | _, _, _, _, _, _, _ => (s, ⟨"parse-error:app.execute", "parse-error"⟩)
  | ["app.count"] =>
    let last := match s.miniEff.getLast? with | some (_, _, _, p) => p | none => []
    (s, ⟨"ok u" ++ toString s.miniEff.length ++ " x" ++ toHexTok last, "ok"⟩)
  | _ =>
    let (g', o) := Cgp.Drive.Gw.step s.g t
    ({ s with g := g' }, o)

end Cgp.Drive.Ex
