/-
  Cgp.Drive.Ex — replays executable-application protocol lines: gateway lines are delegated to the gateway
  driver; `app.execute` runs `Cgp.Executable.appExecute` for the Example app and the minimal app.
-/
import Cgp.Executable
import Cgp.Drive.Gw
import Cgp.Drive.Gs
namespace Cgp.Drive.Ex
open Cgp Cgp.Xdr Cgp.Tok Cgp.Gateway Cgp.Executable

structure ExS where
  g : Cgp.Drive.Gw.GwS := {}
  gwAddr : Option Addr := none
  exampleApp : Option Addr := none
  mini : Option Addr := none
  miniEff : Effects := []
  exEff : Effects := []
  gsAddr : Option Addr := none
  bank : Cgp.Sac.Bank := Cgp.Sac.Bank.empty

abbrev StepOut := Cgp.Drive.Gw.StepOut

def known : List String := Cgp.Drive.Gw.known ++ ["executed", "gas_paid"]
def H := Cgp.Drive.Gw.H

def evTokAt (a : Addr) (topics : List ScVal) (data : ScVal) : String :=
  " E@" ++ addrTok a ++ ":" ++ String.intercalate ":" (topics.map scvTok) ++ ":" ++ scvTok data

def step (s : ExS) (t : List String) (_implObs : String) : ExS × StepOut :=
  match t with
  | "gw.new" :: addr :: _ =>
    let (g', o) := Cgp.Drive.Gw.step s.g t
    ({ s with g := g', gwAddr := parseAddr addr }, o)
  | ["ex.new", e, m, _gs] =>
    match parseAddr e, parseAddr m with
    | some e, some m => ({ s with exampleApp := some e, mini := some m, gsAddr := parseAddr _gs }, ⟨"ok", "ok"⟩)
    | _, _ => (s, ⟨"parse-error:ex.new", "parse-error"⟩)
  | ["app.execute", app, chain, id, src, payload] =>
    match parseAddr app, ofHex chain, ofHex id, ofHex src, ofHex payload, s.g.st, s.gwAddr with
    | some app, some c, some i, some sa, some p, some gw, some gwa =>
      let isEx := s.exampleApp = some app
      match appExecute H gw app (if isEx then s.exEff else s.miniEff) c i sa p with
      | .error (.notApproved) => (s, ⟨"err", "NotApproved"⟩)
      | .error (.gateway e) => (s, ⟨"err", Cgp.Drive.Gw.errName e⟩)
      | .ok (gw', eff', evs) =>
        let gwEv := String.join (evs.map (fun e => evTokAt gwa e.topics e.data))
        -- the Example app announces what it executed; the minimal app only counts
        let appEv := if isEx then
            evTokAt app [.sym "executed".toUTF8.toList, .str c, .str i, .str sa] (.vec (.cons (.bytes p) .nil))
          else ""
        let s' := { s with g := { s.g with st := some gw' } }
        (if isEx then { s' with exEff := eff' } else { s' with miniEff := eff' }, ⟨"ok" ++ gwEv ++ appEv, "ok"⟩)
    | _, _, _, _, _, _, _ => (s, ⟨"parse-error:app.execute", "parse-error"⟩)
  | ["app.count"] =>
    let last := match s.miniEff.getLast? with | some (_, _, _, p) => p | none => []
    (s, ⟨"ok u" ++ toString s.miniEff.length ++ " x" ++ toHexTok last, "ok"⟩)
  | ["ex.send", caller, chain, dest, msg, tok, amt, au] =>
    -- Example::send: the caller's authorisation, gas payment by the caller (full tree), then the outbound call as the app
    match parseAddr caller, ofHex chain, ofHex dest, ofHex msg, parseAddr tok, amt.toInt?, Cgp.Drive.Gs.parseTreeAuth au,
          s.exampleApp, s.gsAddr, s.gwAddr with
    | some ca, some c, some d, some m, some tk, some a, some au, some ex, some gs, some gwa =>
      let gsSt : Cgp.GasService.State := { self := gs, owner := gs, collector := gs, bank := s.bank }
      match exampleSend H gsSt (au.toList [ca]) ex ca c d m tk a with
      | .error e => (s, ⟨"err", Cgp.Drive.Gs.errName e⟩)
      | .ok (gs', evs) =>
        let paid := String.join (evs.map (fun e => evTokAt gs e.topics e.data))
        let called : String := evTokAt gwa [.sym symContractCalled, .addr ex, .str c, .str d, .bytes (H m)] (.bytes m)
        ({ s with bank := gs'.bank }, ⟨"ok" ++ paid ++ called, "ok"⟩)
    | _, _, _, _, _, _, _, _, _, _ => (s, ⟨"parse-error:ex.send", "parse-error"⟩)
  | _ =>
    match Cgp.Drive.Gs.sacStep s.bank t _implObs with
    | some (b, o) => ({ s with bank := b }, ⟨o.obs, o.kind⟩)
    | none =>
    let (g', o) := Cgp.Drive.Gw.step s.g t
    ({ s with g := g' }, o)

end Cgp.Drive.Ex
