/-
  Cgp.Xdr — the subset of Stellar XDR `ScVal` that the contracts serialise with `to_xdr`
  (for digests, token ids and the `source_address` of ITS messages), its encoder, a fuelled
  decoder, and the theorem that the encoder is injective (prefix-free), for all values.
-/
import Cgp.Basic
namespace Cgp.Xdr
open Cgp

/-! ### fixed-width readers -/

def rdN (k : Nat) (bs : Bytes) : Option (Nat × Bytes) :=
  if bs.length < k then none else some (ofBE (bs.take k), bs.drop k)

theorem rdN_beN (k n : Nat) (h : n < 256 ^ k) (r : Bytes) : rdN k (beN k n ++ r) = some (n, r) := by
  unfold rdN
  have hl := beN_length k n
  have h1 : ¬ ((beN k n ++ r).length < k) := by rw [List.length_append, hl]; omega
  rw [if_neg h1]
  have ht : (beN k n ++ r).take k = beN k n := List.take_left' hl
  have hd : (beN k n ++ r).drop k = r := List.drop_left' hl
  rw [ht, hd, ofBE_beN k n h]

def rdRaw (k : Nat) (bs : Bytes) : Option (Bytes × Bytes) :=
  if bs.length < k then none else some (bs.take k, bs.drop k)

theorem rdRaw_append (b r : Bytes) : rdRaw b.length (b ++ r) = some (b, r) := by
  unfold rdRaw; simp

def padLen (n : Nat) : Nat := (4 - n % 4) % 4

/-- XDR variable-length opaque / string: length, data, zero padding to a multiple of 4 -/
def opq (b : Bytes) : Bytes := be32 b.length ++ b ++ List.replicate (padLen b.length) 0

def rdOpaque (bs : Bytes) : Option (Bytes × Bytes) :=
  match rdN 4 bs with
  | none => none
  | some (n, r) =>
    if r.length < n + padLen n then none
    else if (r.drop n).take (padLen n) = List.replicate (padLen n) 0 then some (r.take n, r.drop (n + padLen n)) else none

theorem rdOpaque_opq (b r : Bytes) (h : b.length < 256 ^ 4) : rdOpaque (opq b ++ r) = some (b, r) := by
  unfold rdOpaque opq be32
  rw [List.append_assoc, List.append_assoc, rdN_beN 4 _ h]
  simp only
  have h1 : ¬ ((b ++ (List.replicate (padLen b.length) 0 ++ r)).length < b.length + padLen b.length) := by
    simp
  rw [if_neg h1]
  simp [List.drop_append]

/-! ### addresses -/

structure Addr where
  isContract : Bool
  id : Bytes
deriving DecidableEq, Repr, Inhabited

def Addr.WF (a : Addr) : Prop := a.id.length = 32

/-- `ScAddress`: account = 0 ‖ key type 0 ‖ 32 bytes, contract = 1 ‖ 32 bytes -/
def encAddr (a : Addr) : Bytes :=
  if a.isContract then be32 1 ++ a.id else be32 0 ++ be32 0 ++ a.id

def rdAddr (bs : Bytes) : Option (Addr × Bytes) :=
  match rdN 4 bs with
  | some (1, r) => (match rdRaw 32 r with | some (i, r') => some (⟨true, i⟩, r') | none => none)
  | some (0, r) =>
    (match rdN 4 r with
     | some (0, r1) => (match rdRaw 32 r1 with | some (i, r') => some (⟨false, i⟩, r') | none => none)
     | _ => none)
  | _ => none

theorem rdAddr_encAddr (a : Addr) (h : a.WF) (r : Bytes) : rdAddr (encAddr a ++ r) = some (a, r) := by
  obtain ⟨c, i⟩ := a
  simp only [Addr.WF] at h
  have hr := rdRaw_append i r
  rw [h] at hr
  cases c
  · simp only [encAddr, rdAddr, be32, List.append_assoc, Bool.false_eq_true, if_false,
      rdN_beN 4 0 (by omega), hr]
  · simp only [encAddr, rdAddr, be32, List.append_assoc, if_true, rdN_beN 4 1 (by omega), hr]

/-! ### values -/

mutual
inductive ScVal where
  | bool (b : Bool)
  | void
  | u32 (n : Nat)
  | u64 (n : Nat)
  | u128 (n : Nat)
  | i128 (n : Nat)          -- two's-complement image in [0, 2^128)
  | bytes (b : Bytes)
  | str (b : Bytes)
  | sym (b : Bytes)
  | vec (vs : ScVals)
  | map (ps : ScPairs)
  | addr (a : Addr)
inductive ScVals where
  | nil
  | cons (v : ScVal) (vs : ScVals)
inductive ScPairs where
  | nil
  | cons (k v : ScVal) (ps : ScPairs)
end

def ScVals.len : ScVals → Nat
  | .nil => 0
  | .cons _ vs => vs.len + 1
def ScPairs.len : ScPairs → Nat
  | .nil => 0
  | .cons _ _ ps => ps.len + 1

def ScVals.ofList : List ScVal → ScVals
  | [] => .nil
  | v :: vs => .cons v (ScVals.ofList vs)
def ScPairs.ofList : List (ScVal × ScVal) → ScPairs
  | [] => .nil
  | (k, v) :: ps => .cons k v (ScPairs.ofList ps)

def ScVals.toList : ScVals → List ScVal
  | .nil => []
  | .cons v vs => v :: vs.toList

theorem ScVals.toList_ofList (l : List ScVal) : (ScVals.ofList l).toList = l := by
  induction l with
  | nil => rfl
  | cons v vs ih => simp [ScVals.ofList, ScVals.toList, ih]

theorem ScVals.ofList_injective {a b : List ScVal} (h : ScVals.ofList a = ScVals.ofList b) : a = b := by
  have := congrArg ScVals.toList h
  rwa [ScVals.toList_ofList, ScVals.toList_ofList] at this

theorem ScVals.len_ofList (l : List ScVal) : (ScVals.ofList l).len = l.length := by
  induction l with
  | nil => rfl
  | cons v vs ih => simp [ScVals.ofList, ScVals.len, ih]

mutual
def enc : ScVal → Bytes
  | .bool b => be32 0 ++ be32 (if b then 1 else 0)
  | .void => be32 1
  | .u32 n => be32 3 ++ be32 n
  | .u64 n => be32 5 ++ be64 n
  | .u128 n => be32 9 ++ beN 16 n
  | .i128 n => be32 10 ++ beN 16 n
  | .bytes b => be32 13 ++ opq b
  | .str b => be32 14 ++ opq b
  | .sym b => be32 15 ++ opq b
  | .vec vs => be32 16 ++ be32 1 ++ be32 vs.len ++ encs vs
  | .map ps => be32 17 ++ be32 1 ++ be32 ps.len ++ encp ps
  | .addr a => be32 18 ++ encAddr a
def encs : ScVals → Bytes
  | .nil => []
  | .cons v vs => enc v ++ encs vs
def encp : ScPairs → Bytes
  | .nil => []
  | .cons k v ps => enc k ++ enc v ++ encp ps
end

mutual
def dec : Nat → Bytes → Option (ScVal × Bytes)
  | 0, _ => none
  | f+1, bs =>
    match rdN 4 bs with
    | none => none
    | some (t, r) =>
      if t = 0 then (match rdN 4 r with
        | some (0, r') => some (.bool false, r')
        | some (1, r') => some (.bool true, r')
        | _ => none)
      else if t = 1 then some (.void, r)
      else if t = 3 then (match rdN 4 r with | some (n, r') => some (.u32 n, r') | none => none)
      else if t = 5 then (match rdN 8 r with | some (n, r') => some (.u64 n, r') | none => none)
      else if t = 9 then (match rdN 16 r with | some (n, r') => some (.u128 n, r') | none => none)
      else if t = 10 then (match rdN 16 r with | some (n, r') => some (.i128 n, r') | none => none)
      else if t = 13 then (match rdOpaque r with | some (b, r') => some (.bytes b, r') | none => none)
      else if t = 14 then (match rdOpaque r with | some (b, r') => some (.str b, r') | none => none)
      else if t = 15 then (match rdOpaque r with | some (b, r') => some (.sym b, r') | none => none)
      else if t = 16 then
        (match rdN 4 r with
         | some (1, r1) => (match rdN 4 r1 with
            | some (n, r2) => (match decs f n r2 with | some (vs, r3) => some (.vec vs, r3) | none => none)
            | none => none)
         | _ => none)
      else if t = 17 then
        (match rdN 4 r with
         | some (1, r1) => (match rdN 4 r1 with
            | some (n, r2) => (match decp f n r2 with | some (ps, r3) => some (.map ps, r3) | none => none)
            | none => none)
         | _ => none)
      else if t = 18 then (match rdAddr r with | some (a, r') => some (.addr a, r') | none => none)
      else none
def decs : Nat → Nat → Bytes → Option (ScVals × Bytes)
  | _, 0, bs => some (.nil, bs)
  | 0, _+1, _ => none
  | f+1, n+1, bs =>
    match dec f bs with
    | none => none
    | some (v, r) => match decs f n r with
      | none => none
      | some (vs, r') => some (.cons v vs, r')
def decp : Nat → Nat → Bytes → Option (ScPairs × Bytes)
  | _, 0, bs => some (.nil, bs)
  | 0, _+1, _ => none
  | f+1, n+1, bs =>
    match dec f bs with
    | none => none
    | some (k, r) => match dec f r with
      | none => none
      | some (v, r1) => match decp f n r1 with
        | none => none
        | some (ps, r') => some (.cons k v ps, r')
end

mutual
def ScVal.size : ScVal → Nat
  | .vec vs => vs.size + 1
  | .map ps => ps.size + 1
  | _ => 1
def ScVals.size : ScVals → Nat
  | .nil => 0
  | .cons v vs => v.size + vs.size + 1
def ScPairs.size : ScPairs → Nat
  | .nil => 0
  | .cons k v ps => k.size + v.size + ps.size + 1
end

-- well-typedness: every integer fits its width, every length fits 32 bits (true of every host value)
mutual
def ScVal.WF : ScVal → Prop
  | .bool _ => True
  | .void => True
  | .u32 n => n < 256 ^ 4
  | .u64 n => n < 256 ^ 8
  | .u128 n => n < 256 ^ 16
  | .i128 n => n < 256 ^ 16
  | .bytes b => b.length < 256 ^ 4
  | .str b => b.length < 256 ^ 4
  | .sym b => b.length < 256 ^ 4
  | .vec vs => vs.len < 256 ^ 4 ∧ vs.WF
  | .map ps => ps.len < 256 ^ 4 ∧ ps.WF
  | .addr a => a.WF
def ScVals.WF : ScVals → Prop
  | .nil => True
  | .cons v vs => v.WF ∧ vs.WF
def ScPairs.WF : ScPairs → Prop
  | .nil => True
  | .cons k v ps => k.WF ∧ v.WF ∧ ps.WF
end

theorem ScVals.WF_ofList (l : List ScVal) : (ScVals.ofList l).WF ↔ ∀ v ∈ l, v.WF := by
  induction l with
  | nil => simp [ScVals.ofList, ScVals.WF]
  | cons v vs ih => simp [ScVals.ofList, ScVals.WF, ih]

mutual
theorem dec_enc : ∀ (v : ScVal) (f : Nat) (r : Bytes), v.WF → v.size ≤ f → dec f (enc v ++ r) = some (v, r)
  | .bool b, f, r, _, hf => by
    cases f with
    | zero => simp [ScVal.size] at hf
    | succ f =>
      cases b <;>
      simp [enc, dec, be32, List.append_assoc, rdN_beN 4 0 (by omega), rdN_beN 4 1 (by omega)]
  | .void, f, r, _, hf => by
    cases f with
    | zero => simp [ScVal.size] at hf
    | succ f => simp [enc, dec, be32, rdN_beN 4 1 (by omega)]
  | .u32 n, f, r, h, hf => by
    cases f with
    | zero => simp [ScVal.size] at hf
    | succ f =>
      simp only [ScVal.WF] at h
      simp [enc, dec, be32, List.append_assoc, rdN_beN 4 3 (by omega), rdN_beN 4 n h]
  | .u64 n, f, r, h, hf => by
    cases f with
    | zero => simp [ScVal.size] at hf
    | succ f =>
      simp only [ScVal.WF] at h
      simp [enc, dec, be32, be64, List.append_assoc, rdN_beN 4 5 (by omega), rdN_beN 8 n h]
  | .u128 n, f, r, h, hf => by
    cases f with
    | zero => simp [ScVal.size] at hf
    | succ f =>
      simp only [ScVal.WF] at h
      simp [enc, dec, be32, List.append_assoc, rdN_beN 4 9 (by omega), rdN_beN 16 n h]
  | .i128 n, f, r, h, hf => by
    cases f with
    | zero => simp [ScVal.size] at hf
    | succ f =>
      simp only [ScVal.WF] at h
      simp [enc, dec, be32, List.append_assoc, rdN_beN 4 10 (by omega), rdN_beN 16 n h]
  | .bytes b, f, r, h, hf => by
    cases f with
    | zero => simp [ScVal.size] at hf
    | succ f =>
      simp only [ScVal.WF] at h
      simp [enc, dec, be32, List.append_assoc, rdN_beN 4 13 (by omega), rdOpaque_opq b r h]
  | .str b, f, r, h, hf => by
    cases f with
    | zero => simp [ScVal.size] at hf
    | succ f =>
      simp only [ScVal.WF] at h
      simp [enc, dec, be32, List.append_assoc, rdN_beN 4 14 (by omega), rdOpaque_opq b r h]
  | .sym b, f, r, h, hf => by
    cases f with
    | zero => simp [ScVal.size] at hf
    | succ f =>
      simp only [ScVal.WF] at h
      simp [enc, dec, be32, List.append_assoc, rdN_beN 4 15 (by omega), rdOpaque_opq b r h]
  | .vec vs, f, r, h, hf => by
    cases f with
    | zero => simp [ScVal.size] at hf
    | succ f =>
      simp only [ScVal.WF] at h
      simp only [ScVal.size] at hf
      simp [enc, dec, be32, List.append_assoc, rdN_beN 4 16 (by omega), rdN_beN 4 1 (by omega), rdN_beN 4 _ h.1,
        decs_encs vs f r h.2 (by omega)]
  | .map ps, f, r, h, hf => by
    cases f with
    | zero => simp [ScVal.size] at hf
    | succ f =>
      simp only [ScVal.WF] at h
      simp only [ScVal.size] at hf
      simp [enc, dec, be32, List.append_assoc, rdN_beN 4 17 (by omega), rdN_beN 4 1 (by omega), rdN_beN 4 _ h.1,
        decp_encp ps f r h.2 (by omega)]
  | .addr a, f, r, h, hf => by
    cases f with
    | zero => simp [ScVal.size] at hf
    | succ f =>
      simp only [ScVal.WF] at h
      have := rdAddr_encAddr a h r
      simp [enc, dec, be32, List.append_assoc, rdN_beN 4 18 (by omega), this]
theorem decs_encs : ∀ (vs : ScVals) (f : Nat) (r : Bytes), vs.WF → vs.size ≤ f → decs f vs.len (encs vs ++ r) = some (vs, r)
  | .nil, f, r, _, _ => by cases f <;> simp [decs, encs, ScVals.len]
  | .cons v vs, f, r, h, hf => by
    cases f with
    | zero => simp [ScVals.size] at hf
    | succ f =>
      simp only [ScVals.WF] at h
      simp only [ScVals.size] at hf
      simp only [encs, decs, ScVals.len, List.append_assoc, dec_enc v f _ h.1 (by omega), decs_encs vs f r h.2 (by omega)]
theorem decp_encp : ∀ (ps : ScPairs) (f : Nat) (r : Bytes), ps.WF → ps.size ≤ f → decp f ps.len (encp ps ++ r) = some (ps, r)
  | .nil, f, r, _, _ => by cases f <;> simp [decp, encp, ScPairs.len]
  | .cons k v ps, f, r, h, hf => by
    cases f with
    | zero => simp [ScPairs.size] at hf
    | succ f =>
      simp only [ScPairs.WF] at h
      simp only [ScPairs.size] at hf
      simp only [encp, decp, ScPairs.len, List.append_assoc, dec_enc k f _ h.1 (by omega), dec_enc v f _ h.2.1 (by omega),
        decp_encp ps f r h.2.2 (by omega)]
end

/-- The XDR encoder is injective and prefix-free on well-typed values. -/
theorem enc_injective' (a b : ScVal) (r r' : Bytes) (ha : a.WF) (hb : b.WF) (h : enc a ++ r = enc b ++ r') : a = b ∧ r = r' := by
  have h1 := dec_enc a (a.size + b.size) r ha (by omega)
  have h2 := dec_enc b (a.size + b.size) r' hb (by omega)
  rw [h] at h1
  rw [h1] at h2
  simpa using h2

theorem enc_injective (a b : ScVal) (ha : a.WF) (hb : b.WF) (h : enc a = enc b) : a = b := by
  have := enc_injective' a b [] [] ha hb (by simpa using h)
  exact this.1

end Cgp.Xdr
