/-
  Cgp.GatewaySpec — the declarative side **P** of the gateway properties: the conditions under which
  the property text says a submission may be accepted, and the invariants it claims, stated without
  reference to how the code computes them.
-/
import Cgp.GatewayOps
namespace Cgp.Gateway
open Cgp Cgp.Xdr

/-! ### typing: the values really are u128 / 32-byte / u32-length host values -/

def WSigner.Typed (s : WSigner) : Prop := s.key.length = 32 ∧ s.weight < two128
def WSigners.Typed (ws : WSigners) : Prop :=
  (∀ s ∈ ws.signers, s.Typed) ∧ ws.signers.length < 256 ^ 4 ∧ ws.threshold < two128 ∧ ws.nonce.length = 32
def Message.Typed (m : Message) : Prop :=
  m.sourceChain.length < 256 ^ 4 ∧ m.messageId.length < 256 ^ 4 ∧ m.sourceAddress.length < 256 ^ 4 ∧
  m.contract.WF ∧ m.payloadHash.length = 32

/-- the signer sets a submission names really are host values (32-byte keys and nonces, u128 weights) -/
def Op.Typed {σ : Type} : Op σ → Prop
  | .approve _ proof => proof.weightedSigners.Typed
  | .rotate _ ws proof _ => ws.Typed ∧ proof.weightedSigners.Typed
  -- `upgrade` / `migrate` carry only authorisers, on which (as for every other operation) nothing is assumed
  | .upgrade _ => True
  | .migrate _ => True
  | _ => True

/-! ### C03: well-formed signer sets -/

def totalWeight : List WSigner → Nat
  | [] => 0
  | s :: r => s.weight + totalWeight r

/-- non-empty, keys strictly increasing and above the all-zero key, weights non-zero,
    total weight overflow-free, threshold in `1..total` -/
def WellFormed (ws : WSigners) : Prop :=
  ws.signers ≠ [] ∧
  List.Pairwise (fun a b => bytesLt a.key b.key = true) ws.signers ∧
  (∀ s ∈ ws.signers, bytesLt zeroKey s.key = true) ∧
  (∀ s ∈ ws.signers, s.weight ≠ 0) ∧
  totalWeight ws.signers < two128 ∧
  0 < ws.threshold ∧ ws.threshold ≤ totalWeight ws.signers

/-! ### C01: valid proofs -/

section
variable (H : Bytes → Bytes) {σ : Type} (V : Bytes → Bytes → σ → Bool)

/-- combined weight of the entries of a proof that carry a signature -/
def signedWeight : List (PSigner σ) → Nat
  | [] => 0
  | p :: r => (if p.sig.isSome then p.signer.weight else 0) + signedWeight r

/-- every attached signature verifies under the entry's own key over `digest` -/
def AllSigsValid (digest : Bytes) (ps : List (PSigner σ)) : Prop :=
  ∀ p ∈ ps, ∀ s, p.sig = some s → V p.signer.key digest s = true

/-- some prefix of the proof's signer list carries only valid signatures and its signed weight reaches
    the threshold (within u128) -/
def SigsOk (digest : Bytes) (threshold : Nat) (ps : List (PSigner σ)) : Prop :=
  ∃ k, k ≤ ps.length ∧ AllSigsValid V digest (ps.take k) ∧
    threshold ≤ signedWeight (ps.take k) ∧ signedWeight (ps.take k) < two128

/-- **P (C01)**: the set the proof declares is installed at an epoch within the retention window, and
    signatures over the digest binding (domain, that set, the data hash) reach the declared threshold. -/
def ProofValid (st : State) (dataHash : Bytes) (proof : Proof σ) : Prop :=
  ∃ e, st.epochByHash (signersHash H proof.weightedSigners) = some e ∧ e ≤ st.epoch ∧
    st.epoch - e ≤ st.retention ∧
    SigsOk V (messageHashToSign H st.domain (signersHash H proof.weightedSigners) dataHash)
      proof.threshold proof.signers

/-! ### C03 / C08: the auth invariant of every reachable state -/

structure GInv (st : State) : Prop where
  /-- the two lookups are mutually inverse -/
  fwd : ∀ e h, st.hashByEpoch e = some h → st.epochByHash h = some e
  bwd : ∀ e h, st.epochByHash h = some e → st.hashByEpoch e = some h
  /-- exactly the epochs 1..epoch are installed -/
  range : ∀ e, (st.hashByEpoch e).isSome = true ↔ (1 ≤ e ∧ e ≤ st.epoch)
  /-- (ghost) each installed hash is the hash of a well-formed set -/
  ghost : ∀ e h, st.hashByEpoch e = some h → ∃ ws, st.setAt e = some ws ∧ signersHash H ws = h ∧ WellFormed ws

end

/-! ### C02: message status order -/

def Approval.rank : Approval → Nat
  | .notApproved => 0
  | .approved _ => 1
  | .executed => 2

end Cgp.Gateway
