/-
  Cgp.Keccak — executable Keccak-256 (the Ethereum variant, padding 0x01) and SHA-256.
  Used ONLY by the driver, as an implementation independent of the Soroban host's.
  No theorem ever unfolds these: in theorems the hash is a parameter `H`.
-/
import Cgp.Basic
namespace Cgp.Keccak

def rc : Array UInt64 := #[
  0x0000000000000001, 0x0000000000008082, 0x800000000000808A, 0x8000000080008000,
  0x000000000000808B, 0x0000000080000001, 0x8000000080008081, 0x8000000000008009,
  0x000000000000008A, 0x0000000000000088, 0x0000000080008009, 0x000000008000000A,
  0x000000008000808B, 0x800000000000008B, 0x8000000000008089, 0x8000000000008003,
  0x8000000000008002, 0x8000000000000080, 0x000000000000800A, 0x800000008000000A,
  0x8000000080008081, 0x8000000000008080, 0x0000000080000001, 0x8000000080008008]

def rotc : Array Nat := #[1, 3, 6, 10, 15, 21, 28, 36, 45, 55, 2, 14, 27, 41, 56, 8, 25, 43, 62, 18, 39, 61, 20, 44]
def piln : Array Nat := #[10, 7, 11, 17, 18, 3, 5, 16, 8, 21, 24, 4, 15, 23, 19, 13, 12, 2, 20, 14, 22, 9, 6, 1]

@[inline] def rotl (x : UInt64) (n : Nat) : UInt64 :=
  if n % 64 = 0 then x else (x <<< (UInt64.ofNat (n % 64))) ||| (x >>> (UInt64.ofNat (64 - n % 64)))

def round (st : Array UInt64) (r : Nat) : Array UInt64 := Id.run do
  let mut st := st
  -- theta
  let mut bc : Array UInt64 := Array.replicate 5 0
  for i in [0:5] do
    bc := bc.set! i (st[i]! ^^^ st[i+5]! ^^^ st[i+10]! ^^^ st[i+15]! ^^^ st[i+20]!)
  for i in [0:5] do
    let t := bc[(i + 4) % 5]! ^^^ rotl bc[(i + 1) % 5]! 1
    for j in [0:5] do
      st := st.set! (j * 5 + i) (st[j * 5 + i]! ^^^ t)
  -- rho pi
  let mut t := st[1]!
  for i in [0:24] do
    let j := piln[i]!
    let b := st[j]!
    st := st.set! j (rotl t rotc[i]!)
    t := b
  -- chi
  for j in [0:5] do
    let a0 := st[j*5]!; let a1 := st[j*5+1]!; let a2 := st[j*5+2]!; let a3 := st[j*5+3]!; let a4 := st[j*5+4]!
    st := st.set! (j*5)   (a0 ^^^ ((~~~ a1) &&& a2))
    st := st.set! (j*5+1) (a1 ^^^ ((~~~ a2) &&& a3))
    st := st.set! (j*5+2) (a2 ^^^ ((~~~ a3) &&& a4))
    st := st.set! (j*5+3) (a3 ^^^ ((~~~ a4) &&& a0))
    st := st.set! (j*5+4) (a4 ^^^ ((~~~ a0) &&& a1))
  -- iota
  st := st.set! 0 (st[0]! ^^^ rc[r]!)
  return st

def keccakF (st : Array UInt64) : Array UInt64 := Id.run do
  let mut st := st
  for r in [0:24] do
    st := round st r
  return st

def lane (b : Array UInt8) (off : Nat) : UInt64 := Id.run do
  let mut x : UInt64 := 0
  for i in [0:8] do
    x := x ||| ((b[off + i]!).toUInt64 <<< (UInt64.ofNat (8 * i)))
  return x

def absorbBlock (st : Array UInt64) (blk : Array UInt8) (off : Nat) : Array UInt64 := Id.run do
  let mut st := st
  for i in [0:17] do
    st := st.set! i (st[i]! ^^^ lane blk (off + 8 * i))
  return keccakF st

/-- Keccak-256 with rate 136 and domain padding 0x01 … 0x80 -/
def keccak256 (input : Bytes) : Bytes := Id.run do
  let rate := 136
  let mut msg : Array UInt8 := input.toArray
  let padLen := rate - (msg.size % rate)
  if padLen = 1 then
    msg := msg.push 0x81
  else
    msg := msg.push 0x01
    for _ in [0:padLen - 2] do
      msg := msg.push 0
    msg := msg.push 0x80
  let mut st : Array UInt64 := Array.replicate 25 0
  for k in [0:msg.size / rate] do
    st := absorbBlock st msg (k * rate)
  let mut out : Array UInt8 := #[]
  for i in [0:4] do
    let l := st[i]!
    for j in [0:8] do
      out := out.push ((l >>> (UInt64.ofNat (8 * j))).toUInt8)
  return out.toList

/-! ### SHA-256 -/

def shaK : Array UInt32 := #[
  0x428a2f98, 0x71374491, 0xb5c0fbcf, 0xe9b5dba5, 0x3956c25b, 0x59f111f1, 0x923f82a4, 0xab1c5ed5,
  0xd807aa98, 0x12835b01, 0x243185be, 0x550c7dc3, 0x72be5d74, 0x80deb1fe, 0x9bdc06a7, 0xc19bf174,
  0xe49b69c1, 0xefbe4786, 0x0fc19dc6, 0x240ca1cc, 0x2de92c6f, 0x4a7484aa, 0x5cb0a9dc, 0x76f988da,
  0x983e5152, 0xa831c66d, 0xb00327c8, 0xbf597fc7, 0xc6e00bf3, 0xd5a79147, 0x06ca6351, 0x14292967,
  0x27b70a85, 0x2e1b2138, 0x4d2c6dfc, 0x53380d13, 0x650a7354, 0x766a0abb, 0x81c2c92e, 0x92722c85,
  0xa2bfe8a1, 0xa81a664b, 0xc24b8b70, 0xc76c51a3, 0xd192e819, 0xd6990624, 0xf40e3585, 0x106aa070,
  0x19a4c116, 0x1e376c08, 0x2748774c, 0x34b0bcb5, 0x391c0cb3, 0x4ed8aa4a, 0x5b9cca4f, 0x682e6ff3,
  0x748f82ee, 0x78a5636f, 0x84c87814, 0x8cc70208, 0x90befffa, 0xa4506ceb, 0xbef9a3f7, 0xc67178f2]

@[inline] def rotr32 (x : UInt32) (n : Nat) : UInt32 :=
  (x >>> (UInt32.ofNat n)) ||| (x <<< (UInt32.ofNat (32 - n)))

def sha256 (input : Bytes) : Bytes := Id.run do
  let mut msg : Array UInt8 := input.toArray
  let bitLen := input.length * 8
  msg := msg.push 0x80
  while msg.size % 64 ≠ 56 do
    msg := msg.push 0
  for b in beN 8 bitLen do
    msg := msg.push b
  let mut h : Array UInt32 := #[0x6a09e667, 0xbb67ae85, 0x3c6ef372, 0xa54ff53a, 0x510e527f, 0x9b05688c, 0x1f83d9ab, 0x5be0cd19]
  for k in [0:msg.size / 64] do
    let mut w : Array UInt32 := Array.replicate 64 0
    for i in [0:16] do
      let o := k * 64 + i * 4
      w := w.set! i (((msg[o]!).toUInt32 <<< 24) ||| ((msg[o+1]!).toUInt32 <<< 16) ||| ((msg[o+2]!).toUInt32 <<< 8) ||| (msg[o+3]!).toUInt32)
    for i in [16:64] do
      let s0 := rotr32 w[i-15]! 7 ^^^ rotr32 w[i-15]! 18 ^^^ (w[i-15]! >>> 3)
      let s1 := rotr32 w[i-2]! 17 ^^^ rotr32 w[i-2]! 19 ^^^ (w[i-2]! >>> 10)
      w := w.set! i (w[i-16]! + s0 + w[i-7]! + s1)
    let mut a := h[0]!; let mut b := h[1]!; let mut c := h[2]!; let mut d := h[3]!
    let mut e := h[4]!; let mut f := h[5]!; let mut g := h[6]!; let mut hh := h[7]!
    for i in [0:64] do
      let s1 := rotr32 e 6 ^^^ rotr32 e 11 ^^^ rotr32 e 25
      let ch := (e &&& f) ^^^ ((~~~ e) &&& g)
      let t1 := hh + s1 + ch + shaK[i]! + w[i]!
      let s0 := rotr32 a 2 ^^^ rotr32 a 13 ^^^ rotr32 a 22
      let mj := (a &&& b) ^^^ (a &&& c) ^^^ (b &&& c)
      let t2 := s0 + mj
      hh := g; g := f; f := e; e := d + t1; d := c; c := b; b := a; a := t1 + t2
    h := #[h[0]! + a, h[1]! + b, h[2]! + c, h[3]! + d, h[4]! + e, h[5]! + f, h[6]! + g, h[7]! + hh]
  let mut out : Array UInt8 := #[]
  for x in h do
    out := out.push (x >>> 24).toUInt8
    out := out.push (x >>> 16).toUInt8
    out := out.push (x >>> 8).toUInt8
    out := out.push x.toUInt8
  return out.toList

end Cgp.Keccak
