/-
  Cgp.Tok — the line protocol's token codec (shared by all cluster drivers) and the generic
  ScVal printer that mirrors `scv_tok` of the Rust harness.
-/
import Cgp.Xdr
namespace Cgp.Tok
open Cgp Cgp.Xdr

def splitOn (s : String) (sep : String) : List String := s.splitOn sep

def parseAddr (s : String) : Option Addr :=
  match s.toList with
  | 'C' :: r => (ofHexChars r).map (fun b => ⟨true, b⟩)
  | 'A' :: r => (ofHexChars r).map (fun b => ⟨false, b⟩)
  | _ => none

def addrTok (a : Addr) : String := (if a.isContract then "C" else "A") ++ toHex a.id

/-- auth token: "-" nobody, "*" everybody, else comma list; entries ending in "!" authorised OTHER arguments and do not count -/
inductive Auth where
  | all
  | list (l : List Addr)

def parseAuth (s : String) : Option Auth :=
  if s = "-" then some (.list [])
  else if s = "*" then some .all
  else
    let parts := s.splitOn ","
    let go : List String → Option (List Addr)
      | l => l.foldr (fun t acc =>
          match acc with
          | none => none
          | some xs =>
            if t.endsWith "!" then some xs
            else match parseAddr t with
              | some a => some (a :: xs)
              | none => none) (some [])
    (go parts).map .list

/-- the list of addresses that authorised exactly this call, given the addresses the call could ask about -/
def Auth.toList (a : Auth) (everyone : List Addr) : List Addr :=
  match a with
  | .all => everyone
  | .list l => l

def asciiString (b : Bytes) : String := String.ofList (b.map (fun x => Char.ofNat x.toNat))

def intOfI128 (n : Nat) : Int := if n ≥ 2 ^ 127 then (n : Int) - 2 ^ 128 else n
def i128OfInt (i : Int) : Nat := if i < 0 then (i + 2 ^ 128).toNat else i.toNat

mutual
def scvTok : ScVal → String
  | .bool b => if b then "b1" else "b0"
  | .void => "v"
  | .u32 n => "u" ++ toString n
  | .u64 n => "U" ++ toString n
  | .u128 n => "W" ++ toString n
  | .i128 n => "X" ++ toString (intOfI128 n)
  | .bytes b => "x" ++ toHexTok b
  | .str b => "s" ++ toHexTok b
  | .sym b => "y" ++ asciiString b
  | .vec vs => "[" ++ scvsTok vs ++ "]"
  | .map ps => "{" ++ scpTok ps ++ "}"
  | .addr a => addrTok a
def scvsTok : ScVals → String
  | .nil => ""
  | .cons v .nil => scvTok v
  | .cons v vs => scvTok v ++ ";" ++ scvsTok vs
def scpTok : ScPairs → String
  | .nil => ""
  | .cons k v .nil => scvTok k ++ "=" ++ scvTok v
  | .cons k v ps => scvTok k ++ "=" ++ scvTok v ++ ";" ++ scpTok ps
end

/-- event token ` E:<topic>:…:<data>` -/
def eventTok (topics : List ScVal) (data : ScVal) : String :=
  "E:" ++ String.intercalate ":" (topics.map scvTok) ++ ":" ++ scvTok data

/-- name of an event token (`E:y<name>:…` or `E@<addr>:y<name>:…`) -/
def eventName (tok : String) : String :=
  match tok.splitOn ":" with
  | _ :: t :: _ => if t.startsWith "y" then (t.drop 1).toString else t
  | _ => ""

def isEventTok (t : String) : Bool := t.startsWith "E:" || t.startsWith "E@"

/-- canonicalise an implementation observation: keep result, values, and only events with known names -/
def filterObs (known : List String) (obs : String) : String :=
  let toks := obs.splitOn " "
  String.intercalate " " (toks.filter (fun t => !isEventTok t || known.contains (eventName t)))

end Cgp.Tok

namespace Cgp.Tok
open Cgp Cgp.Xdr

/-- split at top-level `;` (brackets nest) -/
def splitTop (cs : List Char) : List (List Char) :=
  let rec go (cs : List Char) (depth : Nat) (cur : List Char) (acc : List (List Char)) : List (List Char) :=
    match cs with
    | [] => (cur.reverse :: acc).reverse
    | c :: r =>
      if c = '[' then go r (depth + 1) (c :: cur) acc
      else if c = ']' then go r (depth - 1) (c :: cur) acc
      else if c = ';' ∧ depth = 0 then go r depth [] (cur.reverse :: acc)
      else go r depth (c :: cur) acc
  go cs 0 [] []

/-- inverse of `scvTok` for the shapes used as call arguments (fuel bounds the nesting depth) -/
def parseScv : Nat → List Char → Option ScVal
  | 0, _ => none
  | fuel + 1, cs =>
    match cs with
    | 'u' :: r => (String.ofList r).toNat?.map .u32
    | 'U' :: r => (String.ofList r).toNat?.map .u64
    | 'W' :: r => (String.ofList r).toNat?.map .u128
    | 'X' :: r => (String.ofList r).toInt?.map (fun i => .i128 (i128OfInt i))
    | ['b', '1'] => some (.bool true)
    | ['b', '0'] => some (.bool false)
    | ['v'] => some .void
    | 'x' :: r => (ofHex (String.ofList r)).map .bytes
    | 's' :: r => (ofHex (String.ofList r)).map .str
    | 'y' :: r => some (.sym (r.map (fun c => UInt8.ofNat c.toNat)))
    | 'C' :: _ => (parseAddr (String.ofList cs)).map .addr
    | 'A' :: _ => (parseAddr (String.ofList cs)).map .addr
    | '[' :: r =>
      let inner := r.dropLast
      if inner.isEmpty then some (.vec .nil)
      else
        let parts := splitTop inner
        (parts.foldr (fun p acc => match acc, parseScv fuel p with
          | some xs, some x => some (x :: xs)
          | _, _ => none) (some [])).map (fun l => .vec (ScVals.ofList l))
    | _ => none

/-- argument-list token `[a;b;c]` -/
def parseArgs (s : String) : Option (List ScVal) :=
  match parseScv 8 s.toList with
  | some (.vec vs) => some vs.toList
  | _ => none

end Cgp.Tok
