/-
  Cgp.Gateway — operational model **M** of contracts/axelar-gateway (auth.rs, contract.rs, types.rs).
  Mirrors the Rust function by function: same loops, early exits, order of writes, error points.
  `H` is the 32-byte hash (Keccak-256 in the driver), `V pk msg sig` is signature verification
  (Ed25519 in the contract; symbolic provenance in the driver).  Core Lean only.
-/
import Cgp.Xdr
namespace Cgp.Gateway
open Cgp Cgp.Xdr

/-! ### data -/

structure WSigner where
  key : Bytes
  weight : Nat
deriving DecidableEq, Repr, Inhabited

structure WSigners where
  signers : List WSigner
  threshold : Nat
  nonce : Bytes
deriving DecidableEq, Repr, Inhabited

structure PSigner (σ : Type) where
  signer : WSigner
  sig : Option σ            -- `none` = ProofSignature::Unsigned

structure Proof (σ : Type) where
  signers : List (PSigner σ)
  threshold : Nat
  nonce : Bytes

structure Message where
  sourceChain : Bytes
  messageId : Bytes
  sourceAddress : Bytes
  contract : Addr
  payloadHash : Bytes
deriving DecidableEq, Repr, Inhabited

/-- `Proof::weighted_signers` -/
def Proof.weightedSigners {σ} (p : Proof σ) : WSigners :=
  { signers := p.signers.map (·.signer), threshold := p.threshold, nonce := p.nonce }

/-! ### symbols (explicit bytes so that the kernel can compare them) -/
def symSigner : Bytes := [115, 105, 103, 110, 101, 114]                         -- "signer"
def symWeight : Bytes := [119, 101, 105, 103, 104, 116]                         -- "weight"
def symNonce : Bytes := [110, 111, 110, 99, 101]                                -- "nonce"
def symSigners : Bytes := [115, 105, 103, 110, 101, 114, 115]                   -- "signers"
def symThreshold : Bytes := [116, 104, 114, 101, 115, 104, 111, 108, 100]       -- "threshold"
def symContractAddress : Bytes := [99, 111, 110, 116, 114, 97, 99, 116, 95, 97, 100, 100, 114, 101, 115, 115]
def symMessageId : Bytes := [109, 101, 115, 115, 97, 103, 101, 95, 105, 100]
def symPayloadHash : Bytes := [112, 97, 121, 108, 111, 97, 100, 95, 104, 97, 115, 104]
def symSourceAddress : Bytes := [115, 111, 117, 114, 99, 101, 95, 97, 100, 100, 114, 101, 115, 115]
def symSourceChain : Bytes := [115, 111, 117, 114, 99, 101, 95, 99, 104, 97, 105, 110]
def symApproveMessages : Bytes := [65, 112, 112, 114, 111, 118, 101, 77, 101, 115, 115, 97, 103, 101, 115]
def symRotateSigners : Bytes := [82, 111, 116, 97, 116, 101, 83, 105, 103, 110, 101, 114, 115]

/-! ### XDR forms (`#[contracttype]` struct = map with symbol keys in sorted order; unit variant = vec[symbol]; tuple = vec) -/

def WSigner.toSc (s : WSigner) : ScVal :=
  .map (.cons (.sym symSigner) (.bytes s.key) (.cons (.sym symWeight) (.u128 s.weight) .nil))

def WSigners.toSc (ws : WSigners) : ScVal :=
  .map (.cons (.sym symNonce) (.bytes ws.nonce)
       (.cons (.sym symSigners) (.vec (ScVals.ofList (ws.signers.map WSigner.toSc)))
       (.cons (.sym symThreshold) (.u128 ws.threshold) .nil)))

def Message.toSc (m : Message) : ScVal :=
  .map (.cons (.sym symContractAddress) (.addr m.contract)
       (.cons (.sym symMessageId) (.str m.messageId)
       (.cons (.sym symPayloadHash) (.bytes m.payloadHash)
       (.cons (.sym symSourceAddress) (.str m.sourceAddress)
       (.cons (.sym symSourceChain) (.str m.sourceChain) .nil)))))

def approveData (ms : List Message) : ScVal :=
  .vec (.cons (.vec (.cons (.sym symApproveMessages) .nil))
       (.cons (.vec (ScVals.ofList (ms.map Message.toSc))) .nil))

def rotateData (ws : WSigners) : ScVal :=
  .vec (.cons (.vec (.cons (.sym symRotateSigners) .nil)) (.cons ws.toSc .nil))

/-! ### state -/

inductive Approval where
  | notApproved
  | approved (h : Bytes)
  | executed
deriving DecidableEq, Repr, Inhabited

inductive Err where
  | emptySigners | invalidSigners | invalidWeight | weightOverflow | invalidThreshold
  | insufficientRotationDelay | duplicateSigners | invalidSignersHash | outdatedSigners
  | invalidSignatures | notLatestSigners | emptyMessages
  | unauthorized            -- host: require_auth failed
  | trapBadSignature        -- host: ed25519_verify failed (traps)
  | trapOverflow            -- arithmetic overflow / underflow (overflow-checks = true)
  | migrationNotAllowed
deriving DecidableEq, Repr, Inhabited

/-- events, as the (topics, data) pair of `ScVal`s that the host publishes -/
structure Event where
  topics : List ScVal
  data : ScVal

structure State where
  owner : Addr
  operator : Addr
  domain : Bytes
  minDelay : Nat
  retention : Nat
  epoch : Nat
  lastRot : Option Nat
  hashByEpoch : Nat → Option Bytes
  epochByHash : Bytes → Option Nat
  approvals : Bytes → Bytes → Approval
  migrating : Bool
  /-- ghost: the set installed at each epoch (never read by the operational code) -/
  setAt : Nat → Option WSigners

def two128 : Nat := 2 ^ 128
def zeroKey : Bytes := List.replicate 32 0

section
variable (H : Bytes → Bytes) {σ : Type} (V : Bytes → Bytes → σ → Bool)

def signersHash (ws : WSigners) : Bytes := H (enc ws.toSc)
def messageHash (m : Message) : Bytes := H (enc m.toSc)
def approveDataHash (ms : List Message) : Bytes := H (enc (approveData ms))
def rotateDataHash (ws : WSigners) : Bytes := H (enc (rotateData ws))

/-- `message_hash_to_sign` -/
def messageHashToSign (domain signersHash dataHash : Bytes) : Bytes :=
  H (domain ++ signersHash ++ dataHash)

/-! ### auth.rs -/

/-- loop of `validate_signers`: previous key, running total -/
def validateSignersLoop : List WSigner → Bytes → Nat → Except Err Nat
  | [], _, total => .ok total
  | s :: rest, prev, total =>
    if !bytesLt prev s.key then .error .invalidSigners
    else if s.weight = 0 then .error .invalidWeight
    else if total + s.weight ≥ two128 then .error .weightOverflow
    else validateSignersLoop rest s.key (total + s.weight)

def validateSigners (ws : WSigners) : Except Err Unit :=
  if ws.signers.isEmpty then .error .emptySigners
  else match validateSignersLoop ws.signers zeroKey 0 with
    | .error e => .error e
    | .ok total =>
      if ws.threshold = 0 ∨ total < ws.threshold then .error .invalidThreshold else .ok ()

/-- loop of `validate_signatures`: `ed25519_verify` traps on a bad signature, `checked_add(..).unwrap()` traps on overflow,
    returns `true` as soon as the threshold is reached -/
def validateSignaturesLoop (digest : Bytes) (threshold : Nat) : List (PSigner σ) → Nat → Except Err Bool
  | [], _ => .ok false
  | p :: rest, total =>
    match p.sig with
    | none => validateSignaturesLoop digest threshold rest total
    | some s =>
      if !V p.signer.key digest s then .error .trapBadSignature
      else if total + p.signer.weight ≥ two128 then .error .trapOverflow
      else if total + p.signer.weight ≥ threshold then .ok true
      else validateSignaturesLoop digest threshold rest (total + p.signer.weight)

/-- `validate_proof`: returns whether the proof is from the latest signer set -/
def validateProof (st : State) (dataHash : Bytes) (proof : Proof σ) : Except Err Bool :=
  let sh := signersHash H proof.weightedSigners
  match st.epochByHash sh with
  | none => .error .invalidSignersHash
  | some e =>
    if st.epoch < e then .error .trapOverflow          -- u64 subtraction underflow
    else if st.epoch - e > st.retention then .error .outdatedSigners
    else
      match validateSignaturesLoop V (messageHashToSign H st.domain sh dataHash) proof.threshold proof.signers 0 with
      | .error e => .error e
      | .ok false => .error .invalidSignatures
      | .ok true => .ok (e == st.epoch)

def evRotated (epoch : Nat) (h : Bytes) : Event :=
  { topics := [.sym [115, 105, 103, 110, 101, 114, 115, 95, 114, 111, 116, 97, 116, 101, 100], .u64 epoch, .bytes h], data := .void }

/-- `auth::rotate_signers`.  Writes happen in the code's order; on `error` the caller's transaction
    wrapper (`tx`) is what discards them. -/
def rotateSignersInner (st : State) (ws : WSigners) (enforce : Bool) (now : Nat) : Except Err (State × Event) :=
  match validateSigners ws with
  | .error e => .error e
  | .ok () =>
    -- update_rotation_timestamp
    let last := st.lastRot.getD 0
    if enforce ∧ now < last then .error .trapOverflow
    else if enforce ∧ now - last < st.minDelay then .error .insufficientRotationDelay
    else
      let st1 := { st with lastRot := some now }
      let h := signersHash H ws
      let newEpoch := st1.epoch + 1
      let st2 := { st1 with epoch := newEpoch,
                            hashByEpoch := fun e => if e = newEpoch then some h else st1.hashByEpoch e }
      if (st2.epochByHash h).isSome then .error .duplicateSigners
      else
        let st3 := { st2 with epochByHash := fun x => if x = h then some newEpoch else st2.epochByHash x,
                              setAt := fun e => if e = newEpoch then some ws else st2.setAt e }
        .ok (st3, evRotated newEpoch h)

/-- fold of `initialize_auth` -/
def initSets (now : Nat) : List WSigners → State → Except Err (State × List Event)
  | [], st => .ok (st, [])
  | ws :: rest, st =>
    match rotateSignersInner H st ws false now with
    | .error e => .error e
    | .ok (st', ev) =>
      match initSets now rest st' with
      | .error e => .error e
      | .ok (st'', evs) => .ok (st'', ev :: evs)

def initState (owner operator : Addr) (domain : Bytes) (minDelay retention : Nat) : State :=
  { owner, operator, domain, minDelay, retention, epoch := 0, lastRot := none,
    hashByEpoch := fun _ => none, epochByHash := fun _ => none,
    approvals := fun _ _ => .notApproved, migrating := false, setAt := fun _ => none }

/-- `__constructor` + `initialize_auth`; a failure means the contract does not exist -/
def construct (owner operator : Addr) (domain : Bytes) (minDelay retention : Nat) (sets : List WSigners) (now : Nat) :
    Except Err (State × List Event) :=
  if sets.isEmpty then .error .emptySigners
  else initSets H now sets (initState owner operator domain minDelay retention)

/-! ### contract.rs -/

def symMessageApproved : Bytes := [109, 101, 115, 115, 97, 103, 101, 95, 97, 112, 112, 114, 111, 118, 101, 100]
def symMessageExecuted : Bytes := [109, 101, 115, 115, 97, 103, 101, 95, 101, 120, 101, 99, 117, 116, 101, 100]
def symContractCalled : Bytes := [99, 111, 110, 116, 114, 97, 99, 116, 95, 99, 97, 108, 108, 101, 100]

def evApproved (m : Message) : Event := { topics := [.sym symMessageApproved, m.toSc], data := .void }
def evExecuted (m : Message) : Event := { topics := [.sym symMessageExecuted, m.toSc], data := .void }

/-- the loop of `approve_messages` -/
def approveLoop : List Message → State → State × List Event
  | [], st => (st, [])
  | m :: rest, st =>
    if st.approvals m.sourceChain m.messageId ≠ .notApproved then approveLoop rest st
    else
      let h := messageHash H m
      let st' := { st with approvals := fun c i =>
        if c = m.sourceChain ∧ i = m.messageId then .approved h else st.approvals c i }
      let (st'', evs) := approveLoop rest st'
      (st'', evApproved m :: evs)

def approveMessages (st : State) (ms : List Message) (proof : Proof σ) : Except Err (State × List Event) :=
  match validateProof H V st (approveDataHash H ms) proof with
  | .error e => .error e
  | .ok _ =>
    if ms.isEmpty then .error .emptyMessages
    else .ok (approveLoop H ms st)

def rotateSigners (st : State) (auths : List Addr) (ws : WSigners) (proof : Proof σ) (bypass : Bool) (now : Nat) :
    Except Err (State × List Event) :=
  if bypass ∧ st.operator ∉ auths then .error .unauthorized
  else
    match validateProof H V st (rotateDataHash H ws) proof with
    | .error e => .error e
    | .ok isLatest =>
      if !(bypass || isLatest) then .error .notLatestSigners
      else match rotateSignersInner H st ws (!bypass) now with
        | .error e => .error e
        | .ok (st', ev) => .ok (st', [ev])

def validateMessage (st : State) (auths : List Addr) (caller : Addr) (chain id srcAddr payloadHash : Bytes) :
    Except Err (State × Bool × List Event) :=
  if caller ∉ auths then .error .unauthorized
  else
    let m : Message := { sourceChain := chain, messageId := id, sourceAddress := srcAddr, contract := caller, payloadHash }
    if st.approvals chain id = .approved (messageHash H m) then
      .ok ({ st with approvals := fun c i => if c = chain ∧ i = id then .executed else st.approvals c i }, true, [evExecuted m])
    else .ok (st, false, [])

def isMessageApproved (st : State) (m : Message) : Bool :=
  st.approvals m.sourceChain m.messageId = .approved (messageHash H m)

def isMessageExecuted (st : State) (chain id : Bytes) : Bool :=
  st.approvals chain id = .executed

def callContract (st : State) (auths : List Addr) (caller : Addr) (chain dest payload : Bytes) :
    Except Err (State × List Event) :=
  if caller ∉ auths then .error .unauthorized
  else .ok (st, [{ topics := [.sym symContractCalled, .addr caller, .str chain, .str dest, .bytes (H payload)],
                   data := .bytes payload }])

end

/-! ### Ownable / Operatable (derive macros) -/

def symOwnershipTransferred : Bytes := [111, 119, 110, 101, 114, 115, 104, 105, 112, 95, 116, 114, 97, 110, 115, 102, 101, 114, 114, 101, 100]
def symOperatorshipTransferred : Bytes := [111, 112, 101, 114, 97, 116, 111, 114, 115, 104, 105, 112, 95, 116, 114, 97, 110, 115, 102, 101, 114, 114, 101, 100]

def transferOwnership (st : State) (auths : List Addr) (new : Addr) : Except Err (State × List Event) :=
  if st.owner ∉ auths then .error .unauthorized
  else .ok ({ st with owner := new },
    [{ topics := [.sym symOwnershipTransferred, .addr st.owner, .addr new], data := .vec .nil }])

def transferOperatorship (st : State) (auths : List Addr) (new : Addr) : Except Err (State × List Event) :=
  if st.operator ∉ auths then .error .unauthorized
  else .ok ({ st with operator := new },
    [{ topics := [.sym symOperatorshipTransferred, .addr st.operator, .addr new], data := .vec .nil }])

/-- The host's transaction wrapper: a failed invocation leaves the state untouched. -/
def tx {α : Type} (st : State) (r : Except Err (State × α)) : State × Except Err α :=
  match r with
  | .ok (st', out) => (st', .ok out)
  | .error e => (st, .error e)

end Cgp.Gateway
