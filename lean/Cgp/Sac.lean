/-
  Cgp.Sac — environment model of Stellar Asset Contract tokens (gas tokens, canonical tokens):
  balances per (token, holder); `transfer` needs the holder's authorisation (or the holder is the calling
  contract), a non-negative amount and sufficient funds; the admin mints.
  This is MODELLED, not verified: it is Stellar's built-in token, not code of this repository.
-/
import Cgp.Xdr
namespace Cgp.Sac
open Cgp Cgp.Xdr

structure Bank where
  isToken : Addr → Bool
  bal : Addr → Addr → Int          -- token → holder → balance

def Bank.empty : Bank := { isToken := fun _ => false, bal := fun _ _ => 0 }

def i128Max : Int := 2 ^ 127 - 1

def Bank.addToken (b : Bank) (t : Addr) : Bank := { b with isToken := fun a => a = t || b.isToken a }

/-- `transfer(from, to, amount)`; `authorised` = `from` authorised this transfer (or is the invoker) -/
def Bank.transfer (b : Bank) (token src dst : Addr) (amount : Int) (authorised : Bool) : Option Bank :=
  if !b.isToken token then none
  else if !authorised then none
  else if amount < 0 then none
  else if b.bal token src < amount then none
  else
    let b1 : Bank := { b with bal := fun t h => if t = token ∧ h = src then b.bal token src - amount else b.bal t h }
    if b1.bal token dst + amount > i128Max then none
    else some { b1 with bal := fun t h => if t = token ∧ h = dst then b1.bal token dst + amount else b1.bal t h }

def Bank.mint (b : Bank) (token dst : Addr) (amount : Int) : Option Bank :=
  if !b.isToken token then none
  else if amount < 0 then none
  else if b.bal token dst + amount > i128Max then none
  else some { b with bal := fun t h => if t = token ∧ h = dst then b.bal token dst + amount else b.bal t h }

end Cgp.Sac
