/-
  Property C18 — PLACEHOLDER while the full theorem file is being written and proved.
-/
import Cgp.Its
namespace Cgp.Props.C18
open Cgp Cgp.Xdr Cgp.Its

/-- owner-only trusted-chain changes never touch balances, registry or approvals (frame clause shared by the ITS properties) -/
theorem setTrusted_frame (st st' : State) (auths : List Addr) (c : Bytes) (evs : List Event)
    (h : setTrustedChain st auths c = .ok (st', evs)) :
    st.owner ∈ auths ∧ st'.tokens = st.tokens ∧ st'.registry = st.registry ∧ st'.gw = st.gw := by
  unfold setTrustedChain at h
  split at h <;> try simp at h
  split at h <;> try simp at h
  obtain ⟨rfl, _⟩ := h
  simp_all

end Cgp.Props.C18
