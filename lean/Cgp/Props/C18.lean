/-
  Property C18 — remote token deployments announce the registered token's true id and metadata.
  Statements are FIXED: prove them exactly as stated (helper lemmas go above them or in Cgp/Proofs/C18.lean).
-/
import Cgp.ItsOps
namespace Cgp.Props.C18
open Cgp Cgp.Xdr Cgp.Its

variable (H : Bytes → Bytes) (S : Bytes → Bytes) (k : Consts)

/-- the deploy message announced for token `t` registered under `tid` -/
def announcedMsg (tid : Bytes) (t : Tok) : Abi.Msg := .deploy ⟨tid, t.name, t.symbol, t.decimals % 256, none⟩


theorem payGasAndCall_inv (st st' : State) (spender : Addr) (spenderAuth : Bool) (dest : Bytes) (msg : Abi.Msg)
    (gasToken : Addr) (gasAmount : Int) (evs : List Event)
    (h : payGasAndCall H k st spender spenderAuth dest msg gasToken gasAmount = .ok (st', evs)) :
    st.trusted dest = true ∧ spenderAuth = true ∧ 0 < gasAmount ∧
    ∃ payload, Abi.encodeHub (.sendToHub dest msg) = .ok payload ∧
      evs = [evGasPaid H k st payload spender gasToken gasAmount, evContractCalled H k st payload] ∧
      tokTransfer st gasToken spender st.gasService gasAmount true = .ok st' := by
  unfold payGasAndCall at h
  split at h
  · cases h
  · rename_i htr
    split at h
    · cases h
    · cases h
    · rename_i payload hpay
      split at h
      · cases h
      · rename_i hau
        split at h
        · cases h
        · rename_i hga
          split at h
          · cases h
          · rename_i st1 htt
            simp only [Except.ok.injEq, Prod.mk.injEq] at h
            obtain ⟨rfl, rfl⟩ := h
            refine ⟨by simpa using htr, by simpa using hau, by omega, payload, hpay, rfl, htt⟩

theorem tokTransfer_inv (st st' : State) (token src dst : Addr) (amount : Int)
    (h : tokTransfer st token src dst amount true = .ok st') :
    ∃ t, st.tokens token = some t ∧
      st' = setTok st token { t with bal := fun a => if a = dst then (if dst = src then t.bal src - amount else t.bal dst) + amount
                                                      else if a = src then t.bal src - amount else t.bal a } := by
  unfold tokTransfer at h
  split at h
  · cases h
  · rename_i t ht
    split at h
    · cases h
    · simp only at h
      by_cases hc : (if dst = src then t.bal src - amount else t.bal dst) + amount > i128Max
      · rw [if_pos hc] at h; cases h
      · rw [if_neg hc] at h
        simp only [Except.ok.injEq] at h
        exact ⟨t, ht, h.symm⟩

theorem wrapEv_err (st : State) (r : Except Err (State × List Event)) (e : Err) (h : (wrapEv st r).2 = .err e) :
    (wrapEv st r).1 = st := by
  unfold wrapEv at h ⊢
  split
  · simp only [] at h; cases h
  · rfl

theorem wrapId_err (st : State) (r : Except Err (State × Bytes × List Event)) (e : Err) (h : (wrapId st r).2 = .err e) :
    (wrapId st r).1 = st := by
  unfold wrapId at h ⊢
  split
  · simp only [] at h; cases h
  · rfl

/-- what a remote deployment of the token registered under the id derived from `salt'` needs, and what it does -/
theorem deployRemoteToken_exact (st st' : State) (spender : Addr) (spenderAuth : Bool) (salt' dest : Bytes)
    (gasToken : Addr) (gasAmount : Int) (tid : Bytes) (evs : List Event)
    (h : deployRemoteToken H k st spender spenderAuth salt' dest gasToken gasAmount = .ok (st', tid, evs)) :
    tid = tokenIdOf H k zeroAddr salt' ∧
    ∃ addr mgr t payload,
      st.registry tid = some (addr, mgr) ∧ st.tokens addr = some t ∧
      validMetadata t.name t.symbol t.decimals = true ∧
      st.trusted dest = true ∧ spenderAuth = true ∧ 0 < gasAmount ∧
      Abi.encodeHub (.sendToHub dest (announcedMsg tid t)) = .ok payload ∧
      evs = [evDeploymentStarted st tid addr dest t.name t.symbol t.decimals,
             evGasPaid H k st payload spender gasToken gasAmount, evContractCalled H k st payload] ∧
      tokTransfer st gasToken spender st.gasService gasAmount true = .ok st' := by
  unfold deployRemoteToken at h
  simp only at h
  split at h
  · cases h
  · rename_i addr mgr hreg
    split at h
    · cases h
    · rename_i t htok
      split at h
      · cases h
      · rename_i hvm
        split at h
        · cases h
        · rename_i st1 evs1 hp
          simp only [Except.ok.injEq, Prod.mk.injEq] at h
          obtain ⟨rfl, rfl, rfl⟩ := h
          obtain ⟨h1, h2, h3, payload, h4, rfl, h6⟩ := payGasAndCall_inv H k _ _ _ _ _ _ _ _ _ hp
          exact ⟨rfl, addr, mgr, t, payload, hreg, htok, by simpa using hvm, h1, h2, h3, h4, rfl, h6⟩

/-- interchain form: only with the caller's authorisation, only for the id derived from the CALLER'S OWN (deployer, salt) pair -/
theorem remote_interchain_needs (st st' : State) (auths : List Addr) (caller : Addr) (salt dest : Bytes) (gasToken : Addr)
    (gasAmount : Int) (tid : Bytes) (evs : List Event)
    (h : deployRemoteInterchainToken H k st auths caller salt dest gasToken gasAmount = .ok (st', tid, evs)) :
    caller ∈ auths ∧ tid = interchainTokenId H k st.chainName caller salt ∧ (st.registry tid).isSome = true ∧
    st.trusted dest = true ∧ 0 < gasAmount := by
  unfold deployRemoteInterchainToken at h
  split at h
  · cases h
  · rename_i hc
    obtain ⟨rfl, addr, mgr, t, payload, hreg, -, -, htr, -, hg, -⟩ := deployRemoteToken_exact H k _ _ _ _ _ _ _ _ _ _ h
    refine ⟨by simpa using hc, rfl, ?_, htr, hg⟩
    rw [hreg]; rfl

/-- canonical form: the id is derived from the token address; the payer authorises through the gas payment -/
theorem remote_canonical_needs (st st' : State) (auths : List Addr) (token : Addr) (dest : Bytes) (spender gasToken : Addr)
    (gasAmount : Int) (tid : Bytes) (evs : List Event)
    (h : deployRemoteCanonicalToken H k st auths token dest spender gasToken gasAmount = .ok (st', tid, evs)) :
    spender ∈ auths ∧ tid = canonicalTokenId H k st.chainName token ∧ (st.registry tid).isSome = true ∧
    st.trusted dest = true ∧ 0 < gasAmount := by
  unfold deployRemoteCanonicalToken at h
  obtain ⟨rfl, addr, mgr, t, payload, hreg, -, -, htr, hau, hg, -⟩ := deployRemoteToken_exact H k _ _ _ _ _ _ _ _ _ _ h
  refine ⟨by simpa using hau, rfl, ?_, htr, hg⟩
  rw [hreg]; rfl

/-- it moves no funds other than the gas payment and changes nothing else -/
theorem remote_deploy_moves_only_gas (st st' : State) (spender : Addr) (spenderAuth : Bool) (salt' dest : Bytes)
    (gasToken : Addr) (gasAmount : Int) (tid : Bytes) (evs : List Event)
    (h : deployRemoteToken H k st spender spenderAuth salt' dest gasToken gasAmount = .ok (st', tid, evs)) :
    st'.registry = st.registry ∧ st'.trusted = st.trusted ∧ st'.gw = st.gw ∧ st'.owner = st.owner ∧
    (∀ tk, tk ≠ gasToken → st'.tokens tk = st.tokens tk) ∧
    (∀ h', h' ≠ spender → h' ≠ st.gasService → balOf st' gasToken h' = balOf st gasToken h') ∧
    (spender ≠ st.gasService → balOf st' gasToken spender = balOf st gasToken spender - gasAmount ∧
                               balOf st' gasToken st.gasService = balOf st gasToken st.gasService + gasAmount) := by
  obtain ⟨-, addr, mgr, t, payload, -, -, -, -, -, -, -, -, htt⟩ := deployRemoteToken_exact H k _ _ _ _ _ _ _ _ _ _ h
  obtain ⟨tk, htk, rfl⟩ := tokTransfer_inv _ _ _ _ _ _ htt
  refine ⟨rfl, rfl, rfl, rfl, ?_, ?_, ?_⟩
  · intro x hx
    simp [setTok, hx]
  · intro h' h1 h2
    simp [balOf, setTok, htk, h1, h2]
  · intro hne
    have hne' : ¬ st.gasService = spender := fun e => hne e.symm
    constructor
    · simp [balOf, setTok, htk, hne]
    · simp [balOf, setTok, htk, hne']

/-- tokens whose metadata cannot be represented are refused: empty name, empty symbol, more than 255 decimals -/
theorem unrepresentable_metadata_refused (st : State) (spender : Addr) (spenderAuth : Bool) (salt' dest : Bytes)
    (gasToken : Addr) (gasAmount : Int) (addr : Addr) (mgr : Manager) (t : Tok)
    (hreg : st.registry (tokenIdOf H k zeroAddr salt') = some (addr, mgr)) (htok : st.tokens addr = some t)
    (hbad : t.name = [] ∨ t.symbol = [] ∨ 255 < t.decimals) :
    ∃ e, deployRemoteToken H k st spender spenderAuth salt' dest gasToken gasAmount = .error e := by
  have hvm : validMetadata t.name t.symbol t.decimals = false := by
    unfold validMetadata
    rcases hbad with hb | hb | hb
    · simp [hb]
    · simp [hb]
    · simp; intro h; omega
  unfold deployRemoteToken
  simp only [hreg, htok, hvm]
  exact ⟨_, rfl⟩

/-- unregistered id, untrusted destination, non-positive gas: refused -/
theorem remote_deploy_refusals (st : State) (spender : Addr) (spenderAuth : Bool) (salt' dest : Bytes)
    (gasToken : Addr) (gasAmount : Int) :
    (st.registry (tokenIdOf H k zeroAddr salt') = none → ∃ e, deployRemoteToken H k st spender spenderAuth salt' dest gasToken gasAmount = .error e) ∧
    (st.trusted dest = false → ∃ e, deployRemoteToken H k st spender spenderAuth salt' dest gasToken gasAmount = .error e) ∧
    (gasAmount ≤ 0 → ∃ e, deployRemoteToken H k st spender spenderAuth salt' dest gasToken gasAmount = .error e) ∧
    (spenderAuth = false → ∃ e, deployRemoteToken H k st spender spenderAuth salt' dest gasToken gasAmount = .error e) := by
  refine ⟨?_, ?_, ?_, ?_⟩ <;> intro hh <;>
    cases hr : deployRemoteToken H k st spender spenderAuth salt' dest gasToken gasAmount with
    | error e => exact ⟨e, rfl⟩
    | ok r =>
      obtain ⟨st', tid, evs⟩ := r
      obtain ⟨rfl, addr, mgr, t, payload, hreg, -, -, htr, hau, hg, -⟩ := deployRemoteToken_exact H k _ _ _ _ _ _ _ _ _ _ hr
      first
        | (rw [hh] at hreg; cases hreg)
        | (rw [hh] at htr; cases htr)
        | (rw [hh] at hau; cases hau)
        | omega

/-- a refused request changes nothing -/
theorem remote_deploy_rejected_unchanged (st : State) (op : Op) (e : Err) (h : (step H S k st op).2 = .err e) :
    (step H S k st op).1 = st := by
  cases op <;> simp only [step] at h ⊢
  case gateway f => cases h
  case userTransfer t s d a au =>
    split at h
    · rename_i hc; simp only [hc, if_true]
    · rename_i hc
      simp only [hc, if_false]
      split at h
      · cases h
      · rfl
  case minterMint t m d a au =>
    split at h
    · rename_i tk htk
      split at h
      · rename_i hc; rw [if_pos hc]
      · cases h
    · rfl
  case upgradeMigrate au => split <;> rfl
  all_goals
    first
      | exact wrapEv_err _ _ _ h
      | exact wrapId_err _ _ _ h

end Cgp.Props.C18
