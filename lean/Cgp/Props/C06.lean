/-
  Property C06 — PLACEHOLDER while the full theorem file (lean/stmts/C06.lean.txt) is being proved.
-/
import Cgp.Token
namespace Cgp.Props.C06
open Cgp Cgp.Xdr

theorem token_refused_unchanged (st : Token.State) (c : Token.Ctx) (op : Token.Op) (e : Token.Err)
    (h : (Token.step st c op).2 = .error e) : (Token.step st c op).1 = st := by
  simp only [Token.step] at h ⊢
  split <;> simp_all

end Cgp.Props.C06
