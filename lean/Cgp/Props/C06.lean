/-
  Property C06 — administrative operations need the current role holder's authorisation.
  Statements are FIXED: prove them exactly as stated (helper lemmas go above them or in Cgp/Proofs/C06.lean).
  In every model `auths` is the set of addresses that authorised exactly this call: success REQUIRES the current holder.
-/
import Cgp.Token
import Cgp.GasService
import Cgp.GatewayOps
import Cgp.ItsOps
import Cgp.Operators
import Cgp.Upgradable
import Cgp.Proofs.C06
namespace Cgp.Props.C06
open Cgp Cgp.Xdr

/-! ### gateway: owner, operator, bypass rotation -/

section
variable (H : Bytes → Bytes) {σ : Type} (V : Bytes → Bytes → σ → Bool)

theorem gateway_admin_needs_holder (st : Gateway.State) (auths : List Addr) (new : Addr) (ws : Gateway.WSigners)
    (proof : Gateway.Proof σ) (now : Nat) :
    ((∃ r, Gateway.transferOwnership st auths new = .ok r) → st.owner ∈ auths) ∧
    ((∃ r, Gateway.transferOperatorship st auths new = .ok r) → st.operator ∈ auths) ∧
    ((∃ r, Gateway.rotateSigners H V st auths ws proof true now = .ok r) → st.operator ∈ auths) := by
  refine ⟨?_, ?_, ?_⟩
  · rintro ⟨r, h⟩
    exact (Cgp.Proofs.C06.Gw.transferOwnership_inv _ _ _ _ h).1
  · rintro ⟨r, h⟩
    exact (Cgp.Proofs.C06.Gw.transferOperatorship_inv _ _ _ _ h).1
  · rintro ⟨r, h⟩
    exact (Cgp.Proofs.C06.Gw.rotate_inv H V _ _ _ _ _ _ _ h).1 rfl

/-- the owner changes only through a transfer authorised by the CURRENT owner, and then is exactly the named successor -/
theorem gateway_owner_step (w : Gateway.World) (op : Gateway.Op σ) :
    (Gateway.step H V w op).1.st.owner = w.st.owner ∨
    (∃ auths new, op = .transferOwnership auths new ∧ w.st.owner ∈ auths ∧ (Gateway.step H V w op).1.st.owner = new) := by
  cases op with
  | approve ms proof =>
    left; simp only [Gateway.step]
    cases hr : Gateway.approveMessages H V w.st ms proof with
    | error e => rfl
    | ok r => exact Cgp.Proofs.C06.Gw.approveMessages_owner H V _ _ _ _ hr
  | rotate auths ws proof bypass =>
    left; simp only [Gateway.step]
    cases hr : Gateway.rotateSigners H V w.st auths ws proof bypass w.now with
    | error e => rfl
    | ok r => exact (Cgp.Proofs.C06.Gw.rotate_inv H V _ _ _ _ _ _ _ hr).2
  | validateMessage auths caller chain id src ph =>
    left; simp only [Gateway.step]
    cases hr : Gateway.validateMessage H w.st auths caller chain id src ph with
    | error e => rfl
    | ok r => exact Cgp.Proofs.C06.Gw.validateMessage_owner H _ _ _ _ _ _ _ _ hr
  | callContract auths caller chain dest payload =>
    left; simp only [Gateway.step]
    cases hr : Gateway.callContract H w.st auths caller chain dest payload with
    | error e => rfl
    | ok r => exact Cgp.Proofs.C06.Gw.callContract_owner H _ _ _ _ _ _ _ hr
  | transferOwnership auths new =>
    simp only [Gateway.step]
    cases hr : Gateway.transferOwnership w.st auths new with
    | error e => left; rfl
    | ok r =>
      have := Cgp.Proofs.C06.Gw.transferOwnership_inv _ _ _ _ hr
      exact Or.inr ⟨auths, new, rfl, this.1, this.2⟩
  | transferOperatorship auths new =>
    left; simp only [Gateway.step]
    cases hr : Gateway.transferOperatorship w.st auths new with
    | error e => rfl
    | ok r => exact (Cgp.Proofs.C06.Gw.transferOperatorship_inv _ _ _ _ hr).2
  | setTime t => left; rfl
  | upgrade auths =>
    left
    obtain ⟨b, hb⟩ := Gateway.step_upgrade_fst H V w auths
    rw [hb]
  | migrate auths =>
    left
    obtain ⟨b, hb⟩ := Gateway.step_migrate_fst H V w auths
    rw [hb]

/-- holder implied by a history: the successor named by the last successful transfer, else the initial holder -/
def gwOwnerAfter (init : Addr) : List (Gateway.Op σ) → List Gateway.Obs → Addr
  | (.transferOwnership _ new) :: ops, (.ok _) :: os => gwOwnerAfter new ops os
  | _ :: ops, _ :: os => gwOwnerAfter init ops os
  | _, _ => init

/-- one step of the history function agrees with one step of the model -/
theorem gwOwnerAfter_step (w : Gateway.World) (op : Gateway.Op σ) (ops : List (Gateway.Op σ)) (os : List Gateway.Obs) :
    gwOwnerAfter w.st.owner (op :: ops) ((Gateway.step H V w op).2 :: os) =
      gwOwnerAfter (Gateway.step H V w op).1.st.owner ops os := by
  cases op with
  | approve ms proof =>
    simp only [Gateway.step]
    cases hr : Gateway.approveMessages H V w.st ms proof with
    | error e => simp [gwOwnerAfter]
    | ok r => simp [gwOwnerAfter, Cgp.Proofs.C06.Gw.approveMessages_owner H V _ _ _ _ hr]
  | rotate auths ws proof bypass =>
    simp only [Gateway.step]
    cases hr : Gateway.rotateSigners H V w.st auths ws proof bypass w.now with
    | error e => simp [gwOwnerAfter]
    | ok r => simp [gwOwnerAfter, (Cgp.Proofs.C06.Gw.rotate_inv H V _ _ _ _ _ _ _ hr).2]
  | validateMessage auths caller chain id src ph =>
    simp only [Gateway.step]
    cases hr : Gateway.validateMessage H w.st auths caller chain id src ph with
    | error e => simp [gwOwnerAfter]
    | ok r => simp [gwOwnerAfter, Cgp.Proofs.C06.Gw.validateMessage_owner H _ _ _ _ _ _ _ _ hr]
  | callContract auths caller chain dest payload =>
    simp only [Gateway.step]
    cases hr : Gateway.callContract H w.st auths caller chain dest payload with
    | error e => simp [gwOwnerAfter]
    | ok r => simp [gwOwnerAfter, Cgp.Proofs.C06.Gw.callContract_owner H _ _ _ _ _ _ _ hr]
  | transferOwnership auths new =>
    simp only [Gateway.step]
    cases hr : Gateway.transferOwnership w.st auths new with
    | error e => simp [gwOwnerAfter]
    | ok r => simp [gwOwnerAfter, (Cgp.Proofs.C06.Gw.transferOwnership_inv _ _ _ _ hr).2]
  | transferOperatorship auths new =>
    simp only [Gateway.step]
    cases hr : Gateway.transferOperatorship w.st auths new with
    | error e => simp [gwOwnerAfter]
    | ok r => simp [gwOwnerAfter, (Cgp.Proofs.C06.Gw.transferOperatorship_inv _ _ _ _ hr).2]
  | setTime t => simp [Gateway.step, gwOwnerAfter]
  | upgrade auths =>
    obtain ⟨b, hb⟩ := Gateway.step_upgrade_fst H V w auths
    rw [hb]; simp [gwOwnerAfter]
  | migrate auths =>
    obtain ⟨b, hb⟩ := Gateway.step_migrate_fst H V w auths
    rw [hb]; simp [gwOwnerAfter]

theorem gateway_owner_after_history (w : Gateway.World) (ops : List (Gateway.Op σ)) :
    (Gateway.run H V w ops).1.st.owner = gwOwnerAfter w.st.owner ops (Gateway.run H V w ops).2 := by
  induction ops generalizing w with
  | nil => simp [Gateway.run, gwOwnerAfter]
  | cons op ops ih =>
    rw [Cgp.Proofs.C06.Gw.run_cons]
    simp only
    rw [ih (Gateway.step H V w op).1]
    exact (gwOwnerAfter_step H V w op ops _).symm

theorem gateway_refused_unchanged (w : Gateway.World) (op : Gateway.Op σ) (e : Gateway.Err)
    (h : (Gateway.step H V w op).2 = .err e) : (Gateway.step H V w op).1 = w := by
  cases op
  case upgrade auths =>
    simp only [Gateway.step] at h ⊢
    by_cases hc : w.st.owner ∈ auths
    · rw [if_pos hc] at h; cases h
    · rw [if_neg hc]
  case migrate auths =>
    simp only [Gateway.step] at h ⊢
    by_cases hc : w.st.owner ∉ auths
    · rw [if_pos hc]
    · rw [if_neg hc] at h ⊢
      by_cases hm : w.st.migrating = true
      · rw [if_pos hm] at h; cases h
      · rw [if_neg hm]
  all_goals
    simp only [Gateway.step] at h ⊢ <;> first | cases h | (split at h <;> first | rfl | cases h)
end

/-! ### gas service: owner; the gas collector -/

theorem gas_admin_needs_holder (st : GasService.State) (auths : List Addr) (new receiver token : Addr) (amount : Int) (msgId : Bytes) :
    ((∃ r, GasService.transferOwnership st auths new = .ok r) → st.owner ∈ auths) ∧
    ((∃ r, GasService.collectFees st auths receiver token amount = .ok r) → st.collector ∈ auths) ∧
    ((∃ r, GasService.refund st auths msgId receiver token amount = .ok r) → st.collector ∈ auths) := by
  refine ⟨?_, ?_, ?_⟩
  · rintro ⟨r, h⟩
    unfold GasService.transferOwnership at h
    split at h
    · cases h
    · rename_i hc; simpa using hc
  · rintro ⟨⟨st', evs⟩, h⟩
    exact (Cgp.Props.C14.collectFees_inv h).1
  · rintro ⟨⟨st', evs⟩, h⟩
    exact (Cgp.Props.C14.refund_inv h).1

theorem gas_roles_step (H : Bytes → Bytes) (st : GasService.State) (op : GasService.Op) :
    (GasService.step H st op).1.collector = st.collector ∧
    ((GasService.step H st op).1.owner = st.owner ∨
     (∃ auths new, op = .transferOwnership auths new ∧ st.owner ∈ auths ∧ (GasService.step H st op).1.owner = new)) := by
  unfold GasService.step
  cases hr : GasService.apply H st op with
  | error e => exact ⟨rfl, Or.inl rfl⟩
  | ok r =>
    obtain ⟨st', evs⟩ := r
    simp only
    cases op with
    | payGas au s c d p sp t a m =>
      simp only [GasService.apply] at hr
      obtain ⟨-, -, -, b, -, rfl⟩ := Cgp.Props.C14.payGas_inv hr
      exact ⟨rfl, Or.inl rfl⟩
    | addGas au s i sp t a =>
      simp only [GasService.apply] at hr
      obtain ⟨-, -, -, b, -, rfl⟩ := Cgp.Props.C14.addGas_inv hr
      exact ⟨rfl, Or.inl rfl⟩
    | collectFees au r t a =>
      simp only [GasService.apply] at hr
      obtain ⟨-, -, -, b, -, rfl⟩ := Cgp.Props.C14.collectFees_inv hr
      exact ⟨rfl, Or.inl rfl⟩
    | refund au i r t a =>
      simp only [GasService.apply] at hr
      obtain ⟨-, -, b, -, rfl⟩ := Cgp.Props.C14.refund_inv hr
      exact ⟨rfl, Or.inl rfl⟩
    | transferOwnership au n =>
      simp only [GasService.apply] at hr
      have hown : st.owner ∈ au := by
        unfold GasService.transferOwnership at hr
        split at hr
        · cases hr
        · rename_i hc; simpa using hc
      have := Cgp.Props.C14.transferOwnership_inv hr
      subst this
      exact ⟨rfl, Or.inr ⟨au, n, rfl, hown, rfl⟩⟩
    | userTransfer t s d a au =>
      obtain ⟨-, -, b, -, rfl⟩ := Cgp.Props.C14.userTransfer_inv hr
      exact ⟨rfl, Or.inl rfl⟩
    | adminMint t d a =>
      obtain ⟨-, b, -, rfl⟩ := Cgp.Props.C14.adminMint_inv hr
      exact ⟨rfl, Or.inl rfl⟩
    | upgradeMigrate au =>
      cases (GasService.apply_upgradeMigrate_ok H st au _ hr).1
      exact ⟨rfl, Or.inl rfl⟩

/-! ### operators contract -/

theorem operators_admin_needs_owner (st : Operators.State) (auths : List Addr) (a : Addr) :
    ((∃ r, Operators.addOperator st auths a = .ok r) → st.owner ∈ auths) ∧
    ((∃ r, Operators.removeOperator st auths a = .ok r) → st.owner ∈ auths) ∧
    ((∃ r, Operators.transferOwnership st auths a = .ok r) → st.owner ∈ auths) := by
  refine ⟨?_, ?_, ?_⟩
  · rintro ⟨r, h⟩
    unfold Operators.addOperator at h
    split at h
    · cases h
    · rename_i hc; simpa using hc
  · rintro ⟨r, h⟩
    unfold Operators.removeOperator at h
    split at h
    · cases h
    · rename_i hc; simpa using hc
  · rintro ⟨r, h⟩
    unfold Operators.transferOwnership at h
    split at h
    · cases h
    · rename_i hc; simpa using hc

theorem operators_owner_step {τ : Type} (tgt : Operators.Target τ) (w : Operators.World τ) (op : Operators.Op) :
    (Operators.step tgt w op).1.st.owner = w.st.owner ∨
    (∃ auths new, op = .transferOwnership auths new ∧ w.st.owner ∈ auths ∧ (Operators.step tgt w op).1.st.owner = new) := by
  cases op with
  | add au a =>
    left; simp only [Operators.step]
    cases hr : Operators.addOperator w.st au a with
    | error e => rfl
    | ok r =>
      unfold Operators.addOperator at hr
      split at hr
      · cases hr
      · split at hr
        · cases hr
        · cases hr; rfl
  | remove au a =>
    left; simp only [Operators.step]
    cases hr : Operators.removeOperator w.st au a with
    | error e => rfl
    | ok r =>
      unfold Operators.removeOperator at hr
      split at hr
      · cases hr
      · split at hr
        · cases hr
        · cases hr; rfl
  | transferOwnership au n =>
    simp only [Operators.step]
    cases hr : Operators.transferOwnership w.st au n with
    | error e => left; rfl
    | ok r =>
      unfold Operators.transferOwnership at hr
      split at hr
      · cases hr
      · rename_i hc
        cases hr
        exact Or.inr ⟨au, n, rfl, by simpa using hc, rfl⟩
  | execute au o c f args =>
    left; simp only [Operators.step]
    cases hr : Operators.execute tgt w.self w.st w.ts au o c f args with
    | error e => rfl
    | ok r => rfl
  | upgradeMigrate au =>
    left; rw [Operators.step_upgradeMigrate_fst]

/-! ### interchain token service -/

theorem its_admin_needs_owner (st : Its.State) (auths : List Addr) (c : Bytes) (new : Addr) :
    ((∃ r, Its.setTrustedChain st auths c = .ok r) → st.owner ∈ auths) ∧
    ((∃ r, Its.removeTrustedChain st auths c = .ok r) → st.owner ∈ auths) ∧
    ((∃ r, Its.transferOwnership st auths new = .ok r) → st.owner ∈ auths) := by
  refine ⟨?_, ?_, ?_⟩
  · rintro ⟨r, h⟩
    unfold Its.setTrustedChain at h
    split at h
    · cases h
    · rename_i hc; simpa using hc
  · rintro ⟨r, h⟩
    unfold Its.removeTrustedChain at h
    split at h
    · cases h
    · rename_i hc; simpa using hc
  · rintro ⟨r, h⟩
    unfold Its.transferOwnership at h
    split at h
    · cases h
    · rename_i hc; simpa using hc

/-- trusted chains and the owner change only through the owner's authorised calls -/
theorem its_roles_step (H S : Bytes → Bytes) (k : Its.Consts) (st : Its.State) (op : Its.Op) :
    ((Its.step H S k st op).1.trusted = st.trusted ∧ (Its.step H S k st op).1.owner = st.owner) ∨
    (∃ auths, st.owner ∈ auths ∧
      ((∃ c, op = .setTrusted auths c) ∨ (∃ c, op = .removeTrusted auths c) ∨ (∃ new, op = .transferOwnership auths new))) := by
  have hadm := its_admin_needs_owner st
  cases op with
  | setTrusted au c =>
    simp only [Its.step]
    cases hr : Its.setTrustedChain st au c with
    | error e => left; exact ⟨rfl, rfl⟩
    | ok r => exact Or.inr ⟨au, (hadm au c st.owner).1 ⟨r, hr⟩, Or.inl ⟨c, rfl⟩⟩
  | removeTrusted au c =>
    simp only [Its.step]
    cases hr : Its.removeTrustedChain st au c with
    | error e => left; exact ⟨rfl, rfl⟩
    | ok r => exact Or.inr ⟨au, (hadm au c st.owner).2.1 ⟨r, hr⟩, Or.inr (Or.inl ⟨c, rfl⟩)⟩
  | transferOwnership au n =>
    simp only [Its.step]
    cases hr : Its.transferOwnership st au n with
    | error e => left; exact ⟨rfl, rfl⟩
    | ok r => exact Or.inr ⟨au, (hadm au [] n).2.2 ⟨r, hr⟩, Or.inr (Or.inr ⟨n, rfl⟩)⟩
  | deploy au ca sa n sy d su m =>
    left; simp only [Its.step]
    exact Cgp.Proofs.C06.ItsL.wrapId_same _ _
      (fun x hx => Cgp.Proofs.C06.ItsL.deployInterchainToken_same H S k _ _ _ _ _ _ _ _ _ _ hx)
  | registerCanonical t =>
    left; simp only [Its.step]
    exact Cgp.Proofs.C06.ItsL.wrapId_same _ _
      (fun x hx => Cgp.Proofs.C06.ItsL.registerCanonical_same H k _ _ _ hx)
  | deployRemote au ca sa de gt ga =>
    left; simp only [Its.step]
    refine Cgp.Proofs.C06.ItsL.wrapId_same _ _ (fun x hx => ?_)
    unfold Its.deployRemoteInterchainToken at hx
    split at hx
    · cases hx
    · exact Cgp.Proofs.C06.ItsL.deployRemoteToken_same H k _ _ _ _ _ _ _ _ hx
  | deployRemoteCanonical au t de sp gt ga =>
    left; simp only [Its.step]
    refine Cgp.Proofs.C06.ItsL.wrapId_same _ _ (fun x hx => ?_)
    unfold Its.deployRemoteCanonicalToken at hx
    exact Cgp.Proofs.C06.ItsL.deployRemoteToken_same H k _ _ _ _ _ _ _ _ hx
  | transfer au ca ti de da am dt gt ga =>
    left; simp only [Its.step]
    exact Cgp.Proofs.C06.ItsL.wrapEv_same _ _
      (fun x hx => Cgp.Proofs.C06.ItsL.interchainTransfer_same H k _ _ _ _ _ _ _ _ _ _ _ hx)
  | execute c i sa p =>
    left; simp only [Its.step]
    exact Cgp.Proofs.C06.ItsL.wrapEv_same _ _
      (fun x hx => Cgp.Proofs.C06.ItsL.execute_same H S k _ _ _ _ _ _ hx)
  | gateway f => left; exact ⟨rfl, rfl⟩
  | userTransfer t s d a au =>
    left; simp only [Its.step]
    split
    · exact ⟨rfl, rfl⟩
    · split
      · rename_i st' htt
        exact Cgp.Proofs.C06.ItsL.tokTransfer_same _ _ _ _ _ _ _ htt
      · exact ⟨rfl, rfl⟩
  | minterMint t m d a au =>
    left; simp only [Its.step]
    split
    · split
      · exact ⟨rfl, rfl⟩
      · exact ⟨rfl, rfl⟩
    · exact ⟨rfl, rfl⟩
  | upgradeMigrate au =>
    left; rw [Its.step_upgradeMigrate_fst]; exact ⟨rfl, rfl⟩

/-! ### token: owner, minters, owner minting -/

theorem token_admin_needs_owner (st : Token.State) (c : Token.Ctx) (m to new : Addr) (amount : Int) :
    ((∃ r, Token.addMinter st c m = .ok r) → st.owner ∈ c.auths) ∧
    ((∃ r, Token.removeMinter st c m = .ok r) → st.owner ∈ c.auths) ∧
    ((∃ r, Token.mint st c to amount = .ok r) → st.owner ∈ c.auths ∧ st.minter st.owner = true) ∧
    ((∃ r, Token.transferOwnership st c new = .ok r) → st.owner ∈ c.auths) := by
  refine ⟨?_, ?_, ?_, ?_⟩
  · rintro ⟨r, h⟩
    unfold Token.addMinter at h
    split at h
    · cases h
    · rename_i hc; simpa using hc
  · rintro ⟨r, h⟩
    unfold Token.removeMinter at h
    split at h
    · cases h
    · rename_i hc; simpa using hc
  · rintro ⟨r, h⟩
    unfold Token.mint Token.mintFrom at h
    split at h
    · cases h
    · rename_i hc
      split at h
      · cases h
      · rename_i hm
        exact ⟨by simpa using hc, by simpa using hm⟩
  · rintro ⟨r, h⟩
    unfold Token.transferOwnership at h
    split at h
    · cases h
    · rename_i hc; simpa using hc

theorem token_owner_step (st : Token.State) (c : Token.Ctx) (op : Token.Op) :
    (Token.step st c op).1.owner = st.owner ∨
    (∃ new, op = .transferOwnership new ∧ st.owner ∈ c.auths ∧ (Token.step st c op).1.owner = new) := by
  unfold Token.step
  cases hr : Token.apply st c op with
  | error e => left; rfl
  | ok r =>
    obtain ⟨st', evs⟩ := r
    exact Cgp.Proofs.C06.Tk.apply_owner _ _ _ _ _ hr

/-! ### upgrades and migrations -/

theorem upgrade_admin_needs_owner (codes : Upgradable.Codes) (c : Upgradable.Contract) (auths am : List Addr) (h nv : Bytes)
    (d : List ScVal) (new : Addr) :
    ((∃ r, Upgradable.upgrade codes c auths h = .ok r) → c.owner ∈ auths) ∧
    ((∃ r, Upgradable.migrate c auths d = .ok r) → c.owner ∈ auths) ∧
    ((∃ r, Upgradable.upgraderUpgrade codes c auths am nv h d = .ok r) → c.owner ∈ auths ∧ c.owner ∈ am) ∧
    ((∃ r, Upgradable.transferOwnership c auths new = .ok r) → c.owner ∈ auths) := by
  refine ⟨?_, ?_, ?_, ?_⟩
  · rintro ⟨r, hh⟩
    exact (Cgp.Props.C15.upgrade_ok hh).1
  · rintro ⟨⟨c', evs⟩, hh⟩
    exact (Cgp.Props.C15.migrate_ok hh).2.1
  · rintro ⟨⟨c', evs⟩, hh⟩
    obtain ⟨-, c1, hu, hm, -⟩ := Cgp.Props.C15.upgrader_ok hh
    obtain ⟨ho, code, -, rfl⟩ := Cgp.Props.C15.upgrade_ok hu
    exact ⟨ho, (Cgp.Props.C15.migrate_ok hm).2.1⟩
  · rintro ⟨r, hh⟩
    exact (Cgp.Props.C15.transfer_ok hh).1

theorem upgradable_owner_step (codes : Upgradable.Codes) (c : Upgradable.Contract) (op : Upgradable.Op) :
    (Upgradable.step codes c op).1.owner = c.owner ∨
    (∃ auths new, op = .transferOwnership auths new ∧ c.owner ∈ auths ∧ (Upgradable.step codes c op).1.owner = new) := by
  cases op with
  | upgrade au h =>
    left; simp only [Upgradable.step]
    cases hr : Upgradable.upgrade codes c au h with
    | error e => rfl
    | ok r =>
      obtain ⟨-, code, -, rfl⟩ := Cgp.Props.C15.upgrade_ok hr
      rfl
  | migrate au d =>
    left; simp only [Upgradable.step]
    cases hr : Upgradable.migrate c au d with
    | error e => rfl
    | ok r =>
      obtain ⟨c', evs⟩ := r
      exact Cgp.Proofs.C06.Up.migrate_owner hr
  | viaUpgrader au am v h d =>
    left; simp only [Upgradable.step]
    cases hr : Upgradable.upgraderUpgrade codes c au am v h d with
    | error e => rfl
    | ok r =>
      obtain ⟨c', evs⟩ := r
      obtain ⟨-, c1, hu, hm, -⟩ := Cgp.Props.C15.upgrader_ok hr
      obtain ⟨-, code, -, rfl⟩ := Cgp.Props.C15.upgrade_ok hu
      exact (Cgp.Proofs.C06.Up.migrate_owner hm).trans rfl
  | transferOwnership au n =>
    simp only [Upgradable.step]
    cases hr : Upgradable.transferOwnership c au n with
    | error e => left; rfl
    | ok r =>
      obtain ⟨ho, rfl⟩ := Cgp.Props.C15.transfer_ok hr
      exact Or.inr ⟨au, n, rfl, ho, rfl⟩

/-- a former holder has no power: after a successful transfer to somebody else, the previous owner's authorisation alone
    no longer suffices for any owner-only operation of the token (the same argument applies to every contract, since each
    check reads the CURRENT holder) -/
theorem former_owner_refused (st st' : Token.State) (c c' : Token.Ctx) (new m : Addr) (evs : List Token.Event)
    (h : Token.transferOwnership st c new = .ok (st', evs)) (hne : new ≠ st.owner) (hc : c'.auths = [st.owner]) :
    (∃ e, Token.addMinter st' c' m = .error e) ∧ (∃ e, Token.removeMinter st' c' m = .error e) ∧
    (∃ e, Token.transferOwnership st' c' m = .error e) := by
  unfold Token.transferOwnership at h
  split at h
  · cases h
  · cases h
    have hno : new ∉ c'.auths := by
      rw [hc]; simpa using hne
    refine ⟨?_, ?_, ?_⟩
    · exact ⟨_, by unfold Token.addMinter; rw [if_pos hno]⟩
    · exact ⟨_, by unfold Token.removeMinter; rw [if_pos hno]⟩
    · exact ⟨_, by unfold Token.transferOwnership; rw [if_pos hno]⟩

end Cgp.Props.C06
