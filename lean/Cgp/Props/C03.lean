/-
  Property C03 — rotation installs only well-formed sets, authorised by the latest signers; epoch and lookups.
  Statements are FIXED: prove them exactly as stated (helper lemmas go above them or in Cgp/Proofs/C03.lean).
-/
import Cgp.GatewaySpec
import Cgp.Proofs.C03
import Cgp.Proofs.C03H
import Cgp.Toy
namespace Cgp.Props.C03
open Cgp Cgp.Xdr Cgp.Gateway

variable (H : Bytes → Bytes) {σ : Type} (V : Bytes → Bytes → σ → Bool)

/-- the validation loop accepts exactly the well-formed sets -/
theorem validateSigners_iff_wellFormed (ws : WSigners) :
    validateSigners ws = .ok () ↔ WellFormed ws := by
  exact Cgp.Proofs.C03.validateSigners_iff ws

/-- acceptance condition of a rotation, all conjuncts -/
theorem rotate_ok_iff (st : State) (auths : List Addr) (ws : WSigners) (proof : Proof σ) (bypass : Bool) (now : Nat) :
    (∃ r, rotateSigners H V st auths ws proof bypass now = .ok r) ↔
      ((bypass = true → st.operator ∈ auths) ∧
       (∃ b, validateProof H V st (rotateDataHash H ws) proof = .ok b ∧ (bypass = false → b = true)) ∧
       WellFormed ws ∧
       (bypass = false → st.lastRot.getD 0 ≤ now ∧ st.minDelay ≤ now - st.lastRot.getD 0) ∧
       st.epochByHash (signersHash H ws) = none) := by
  constructor
  · rintro ⟨r, hr⟩
    obtain ⟨h1, h2, h3, h4, h5, _⟩ := (Cgp.Proofs.C03.rotate_ok_iff' H V st auths ws proof bypass now r).mp hr
    exact ⟨h1, h2, h3, h4, h5⟩
  · rintro ⟨h1, h2, h3, h4, h5⟩
    exact ⟨_, (Cgp.Proofs.C03.rotate_ok_iff' H V st auths ws proof bypass now _).mpr ⟨h1, h2, h3, h4, h5, rfl⟩⟩

/-- exact effect of a successful rotation -/
theorem rotate_effect (st st' : State) (auths : List Addr) (ws : WSigners) (proof : Proof σ) (bypass : Bool)
    (now : Nat) (evs : List Event)
    (h : rotateSigners H V st auths ws proof bypass now = .ok (st', evs)) :
    st'.epoch = st.epoch + 1 ∧
    st'.hashByEpoch = (fun e => if e = st.epoch + 1 then some (signersHash H ws) else st.hashByEpoch e) ∧
    st'.epochByHash = (fun x => if x = signersHash H ws then some (st.epoch + 1) else st.epochByHash x) ∧
    st'.lastRot = some now ∧
    st'.approvals = st.approvals ∧ st'.owner = st.owner ∧ st'.operator = st.operator ∧
    st'.domain = st.domain ∧ st'.minDelay = st.minDelay ∧ st'.retention = st.retention ∧
    evs.length = 1 := by
  obtain ⟨_, _, _, _, _, hr⟩ := (Cgp.Proofs.C03.rotate_ok_iff' H V st auths ws proof bypass now _).mp h
  injection hr with h1 h2
  subst h1 h2
  exact ⟨rfl, rfl, rfl, rfl, rfl, rfl, rfl, rfl, rfl, rfl, rfl⟩

/-- every failed rotation (any reason, including failures after the epoch counter was already bumped)
    leaves epoch, lookups and rotation clock exactly as they were -/
theorem failed_rotation_unchanged (w : World) (auths : List Addr) (ws : WSigners) (proof : Proof σ) (bypass : Bool)
    (e : Err) (h : (step H V w (.rotate auths ws proof bypass)).2 = .err e) :
    (step H V w (.rotate auths ws proof bypass)).1 = w := by
  simp only [step] at h ⊢
  cases hr : rotateSigners H V w.st auths ws proof bypass w.now with
  | error e' => rfl
  | ok r =>
    rw [hr] at h
    cases h

/-- the invariant holds right after any successful construction (any list of initial sets) -/
theorem GInv_construct (owner operator : Addr) (domain : Bytes) (minDelay retention : Nat) (sets : List WSigners)
    (now : Nat) (st : State) (evs : List Event)
    (h : construct H owner operator domain minDelay retention sets now = .ok (st, evs)) :
    GInv H st ∧ st.epoch = sets.length ∧ 1 ≤ st.epoch := by
  unfold construct at h
  by_cases he : sets.isEmpty = true
  · rw [if_pos he] at h; cases h
  · rw [if_neg he] at h
    obtain ⟨h1, h2⟩ := Cgp.Proofs.C03.initSets_GInv H now sets _ st evs h
      (Cgp.Proofs.C03.GInv_initState H owner operator domain minDelay retention)
    have h3 : st.epoch = sets.length := by
      rw [h2]; simp [initState]
    refine ⟨h1, h3, ?_⟩
    rw [h3]
    cases sets with
    | nil => simp at he
    | cons a l => simp

/-- construction fails as a whole if ANY initial set is malformed or repeats an earlier one's hash; the empty list fails -/
theorem construct_ok_only_if (owner operator : Addr) (domain : Bytes) (minDelay retention : Nat) (sets : List WSigners)
    (now : Nat) (r : State × List Event)
    (h : construct H owner operator domain minDelay retention sets now = .ok r) :
    sets ≠ [] ∧ (∀ ws ∈ sets, WellFormed ws) ∧ List.Pairwise (fun a b => signersHash H a ≠ signersHash H b) sets := by
  unfold construct at h
  by_cases he : sets.isEmpty = true
  · rw [if_pos he] at h; cases h
  · rw [if_neg he] at h
    obtain ⟨st, evs⟩ := r
    obtain ⟨h1, h2, _⟩ := Cgp.Proofs.C03.initSets_distinct H now sets _ st evs h
    refine ⟨?_, h1, h2⟩
    intro hc; subst hc; simp at he

/-- every operation preserves the invariant -/
theorem GInv_step (w : World) (op : Op σ) (h : GInv H w.st) : GInv H (step H V w op).1.st := by
  rcases Cgp.Proofs.C03.step_auth H V w op with ⟨h1, h2, h3, h4⟩ | ⟨auths, ws, proof, bypass, evs, _, _, hst, hwf, hn⟩
  · exact Cgp.Proofs.C03.GInv_congr H w.st _ h h1 h2 h3 h4
  · rw [hst]; exact Cgp.Proofs.C03.GInv_rotated H w.st ws w.now h hwf hn

/-- … hence it holds after every history -/
theorem GInv_run (w : World) (ops : List (Op σ)) (h : GInv H w.st) : GInv H (run H V w ops).1.st := by
  induction ops generalizing w with
  | nil => exact h
  | cons op ops ih =>
    simp only [run]
    exact ih (step H V w op).1 (GInv_step H V w op h)

/-- **every reachable state**: lookups mutually inverse, exactly epochs 1..epoch installed -/
theorem GInv_reachable (w : World) (h : Reachable H V w) : GInv H w.st := by
  obtain ⟨owner, operator, domain, minDelay, retention, sets, now, w0, ops, hc, hr⟩ := h
  unfold constructed at hc
  cases hcon : construct H owner operator domain minDelay retention sets now with
  | error e => rw [hcon] at hc; cases hc
  | ok r =>
    obtain ⟨st, evs⟩ := r
    rw [hcon] at hc
    dsimp only at hc
    injection hc with hc
    subst hc
    rw [← hr]
    exact GInv_run H V _ ops (GInv_construct H owner operator domain minDelay retention sets now st evs hcon).1

/-- the epoch advances by exactly one per successful rotation and never otherwise -/
theorem epoch_step (w : World) (op : Op σ) :
    (step H V w op).1.st.epoch = w.st.epoch ∨
    (∃ auths ws proof bypass evs, op = .rotate auths ws proof bypass ∧ (step H V w op).2 = .ok evs ∧
      (step H V w op).1.st.epoch = w.st.epoch + 1) := by
  rcases Cgp.Proofs.C03.step_auth H V w op with ⟨_, _, h3, _⟩ | ⟨auths, ws, proof, bypass, evs, hop, hok, hst, _, _⟩
  · exact Or.inl h3
  · right
    refine ⟨auths, ws, proof, bypass, evs, hop, hok, ?_⟩
    rw [hst]; rfl

/-- non-vacuity: a concrete well-formed set -/
example : WellFormed ⟨[⟨[1], 3⟩, ⟨[2], 4⟩], 7, []⟩ := by
  refine ⟨by simp, ?_, ?_, ?_, by decide, by decide, by decide⟩
  · simp [bytesLt]
  · intro s hs
    simp at hs
    rcases hs with rfl | rfl <;> decide
  · intro s hs
    simp at hs
    rcases hs with rfl | rfl <;> simp

/-! ### every installed set was authorised (history level) -/

/-- **every signer set installed after construction was authorised**: start from any successful construction with typed
    initial sets and run ANY history of typed submissions; if afterwards a set `ws` is on record at an epoch beyond the
    initial ones, then somewhere in that history a successful `rotate_signers` call installed exactly `ws` at exactly that
    epoch, `ws` is well-formed, the call's proof was valid in the state it was submitted to (signatures of a registered,
    still-retained set reaching its threshold over the digest binding domain, set, the ROTATION command and `ws`), and
    either the operator authorised a bypass, or the proof came from the then latest set and the minimum delay since the
    previous rotation had elapsed — or a hash collision is exhibited. -/
theorem installed_was_authorised (owner operator : Addr) (domain : Bytes) (minDelay retention : Nat) (sets : List WSigners)
    (now : Nat) (w0 : World) (hsets : ∀ ws ∈ sets, ws.Typed)
    (hc : constructed H owner operator domain minDelay retention sets now = some w0)
    (ops : List (Op σ)) (hty : ∀ op ∈ ops, op.Typed) (e : Nat) (ws : WSigners)
    (hfin : (run H V w0 ops).1.st.setAt e = some ws) (he : w0.st.epoch < e) :
    (∃ wa auths proof bypass evs,
        (wa, Op.rotate auths ws proof bypass, Obs.ok evs) ∈ trace H V w0 ops ∧ wa.st.epoch + 1 = e ∧
        WellFormed ws ∧ ProofValid H V wa.st (rotateDataHash H ws) proof ∧
        (bypass = true → wa.st.operator ∈ auths) ∧
        (bypass = false →
          wa.st.epochByHash (signersHash H proof.weightedSigners) = some wa.st.epoch ∧
          wa.st.lastRot.getD 0 ≤ wa.now ∧ wa.st.minDelay ≤ wa.now - wa.st.lastRot.getD 0))
    ∨ Collision H := by
  have hinv := Cgp.Proofs.C03H.AInv_constructed H owner operator domain minDelay retention sets now w0 hsets hc
  have h0 : w0.st.setAt e = none :=
    Cgp.Proofs.C03H.SInv_constructed H owner operator domain minDelay retention sets now w0 hc e he
  rcases Cgp.Proofs.C03H.run_installed H V ops w0 hinv hty e ws hfin with h1 | h1
  · rw [h0] at h1; cases h1
  · exact h1

/-! ### non-vacuity (the model RUN in the kernel on a concrete history, toy hash) -/
section NonVacuity
open Cgp.Toy

def wsA : WSigners := ws0
def opsR : List (Op Unit) :=
  [ .rotate [] wsC pfB false,            -- proof by the latest set: accepted, epoch 3
    .rotate [] wsA pfC false,            -- a set that was installed before: refused
    .rotate [] wsD pfB false,            -- proof by a retained but no longer latest set: refused
    .rotate [] wsBad pfC false,          -- malformed set: refused
    .rotate [] wsD pfB true ]            -- bypass without the operator's authorisation: refused

set_option maxRecDepth 8000 in
/-- the hypotheses of `GInv_construct`, `GInv_run`, `GInv_reachable`, `rotate_effect` and `failed_rotation_unchanged` are
    satisfiable: a gateway constructed with two sets (epoch 2) is rotated to a third by a proof of the latest set (epoch 3);
    a repeated set, a proof by an older set, a malformed set and an unauthorised bypass are refused, each for its own reason.
    The resulting world is `Reachable` (witnesses given), exactly the epochs 1..3 are installed and the lookups are mutually
    inverse at the new epoch. -/
theorem rotation_history_nonvacuous :
    ∃ w0, constructed H0 owner0 owner0 [1] 0 5 [wsA, wsB] 5 = some w0 ∧
      (∃ st evs, construct H0 owner0 owner0 [1] 0 5 [wsA, wsB] 5 = .ok (st, evs)) ∧
      GInv H0 w0.st ∧
      Reachable H0 V0 (run H0 V0 w0 opsR).1 ∧
      -- `rotate_effect`: a successful rotation; `failed_rotation_unchanged`: a failed one
      (∃ st' evs, rotateSigners H0 V0 w0.st [] wsC pfB false w0.now = .ok (st', evs)) ∧
      (step H0 V0 (run H0 V0 w0 (opsR.take 1)).1 (.rotate [] wsA pfC false)).2 = .err .duplicateSigners ∧
      WellFormed wsC ∧ ¬ WellFormed wsBad ∧
      -- the history
      w0.st.epoch = 2 ∧
      (run H0 V0 w0 opsR).2.map gwErr =
        [none, some .duplicateSigners, some .notLatestSigners, some .invalidThreshold, some .unauthorized] ∧
      (run H0 V0 w0 opsR).2.map gwEvents = [1, 0, 0, 0, 0] ∧
      (run H0 V0 w0 opsR).1.st.epoch = 3 ∧
      (List.range 6).map (fun e => ((run H0 V0 w0 opsR).1.st.hashByEpoch e).isSome) = [false, true, true, true, false, false] ∧
      (run H0 V0 w0 opsR).1.st.hashByEpoch 3 = some (signersHash H0 wsC) ∧
      (run H0 V0 w0 opsR).1.st.epochByHash (signersHash H0 wsC) = some 3 ∧
      [wsA, wsB, wsC].map (fun ws => (run H0 V0 w0 opsR).1.st.epochByHash (signersHash H0 ws)) = [some 1, some 2, some 3] ∧
      (run H0 V0 w0 opsR).1.st.lastRot = some 5 := by
  refine ⟨_, rfl, ⟨_, _, rfl⟩, ?_, ?_, ?_, ?_, ?_, ?_, ?_⟩
  · exact (GInv_construct H0 owner0 owner0 [1] 0 5 [wsA, wsB] 5 _ _ rfl).1
  · exact ⟨owner0, owner0, [1], 0, 5, [wsA, wsB], 5, _, opsR, rfl, rfl⟩
  · exact exists_ok_pair_of_isOk _ (by decide +kernel)
  · exact err_of_gwErr _ _ (by decide +kernel)
  · exact (validateSigners_iff_wellFormed wsC).1 ((eq_ok_unit_iff_isOk _).2 (by decide +kernel))
  · intro h
    have := (eq_ok_unit_iff_isOk _).1 ((validateSigners_iff_wellFormed wsBad).2 h)
    revert this
    decide +kernel
  · decide +kernel

end NonVacuity

end Cgp.Props.C03
