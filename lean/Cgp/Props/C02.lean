/-
  Property C02 — each message is approved once and executed once, only by its destination.
  Statements are FIXED: prove them exactly as stated (helper lemmas go above them or in Cgp/Proofs/C02.lean).
-/
import Cgp.GatewaySpec
import Cgp.Proofs.C02
import Cgp.Toy
namespace Cgp.Props.C02
open Cgp Cgp.Xdr Cgp.Gateway
open Cgp.Proofs.C02

variable (H : Bytes → Bytes) {σ : Type} (V : Bytes → Bytes → σ → Bool)

/-- one operation never moves a message's status backwards … -/
theorem status_monotone_step (w : World) (op : Op σ) (c i : Bytes) :
    (w.st.approvals c i).rank ≤ ((step H V w op).1.st.approvals c i).rank := by
  exact (step_adv H V w op c i).rank

/-- … so over every history the status only moves not-approved → approved → executed -/
theorem status_monotone (w : World) (ops : List (Op σ)) (c i : Bytes) :
    (w.st.approvals c i).rank ≤ ((run H V w ops).1.st.approvals c i).rank := by
  induction ops generalizing w with
  | nil => exact Nat.le_refl _
  | cons op ops ih =>
    rw [run_cons]
    exact Nat.le_trans (step_adv H V w op c i).rank (ih (step H V w op).1)

/-- the content hash recorded by the first approval never changes: it stays, or the message becomes executed -/
theorem approved_content_stable (w : World) (ops : List (Op σ)) (c i h : Bytes)
    (h0 : w.st.approvals c i = .approved h) :
    (run H V w ops).1.st.approvals c i = .approved h ∨ (run H V w ops).1.st.approvals c i = .executed := by
  induction ops generalizing w with
  | nil => exact Or.inl h0
  | cons op ops ih =>
    rw [run_cons]
    rcases step_adv H V w op c i with h1 | ⟨h1, _⟩ | ⟨_, h1⟩
    · exact ih (step H V w op).1 (by rw [← h1]; exact h0)
    · rw [h0] at h1; cases h1
    · exact Or.inr (run_executed H V _ ops c i h1)

/-- executed is final -/
theorem executed_final (w : World) (ops : List (Op σ)) (c i : Bytes) (h0 : w.st.approvals c i = .executed) :
    (run H V w ops).1.st.approvals c i = .executed := by
  exact run_executed H V w ops c i h0

/-- re-submitting an approval for a known id changes nothing about it and emits no event for it -/
theorem reapproval_inert (st : State) (ms : List Message) (c i : Bytes)
    (hk : st.approvals c i ≠ .notApproved) :
    ((approveLoop H ms st).1.approvals c i = st.approvals c i) ∧
    (∀ ev ∈ (approveLoop H ms st).2, ∀ m : Message, ev.topics = (evApproved m).topics →
        ¬ (m.sourceChain = c ∧ m.messageId = i)) := by
  refine ⟨approveLoop_known_key H ms st c i hk, ?_⟩
  intro ev hev m htop hm
  obtain ⟨m', hm', hst, rfl⟩ := approveLoop_events H ms st ev hev
  have : m.toSc = m'.toSc := by
    simp only [evApproved] at htop
    injection htop with _ h2
    injection h2 with h3 _
    exact h3.symm
  have hmm : m = m' := toSc_injective this
  subst hmm
  obtain ⟨rfl, rfl⟩ := hm
  exact hk hst

/-- the approval loop emits exactly one event per message whose key was fresh at its turn, and records its hash -/
theorem approval_of_fresh (st : State) (m : Message) (rest : List Message)
    (hk : st.approvals m.sourceChain m.messageId = .notApproved) :
    (approveLoop H (m :: rest) st).2.length = (approveLoop H rest
        { st with approvals := fun c i => if c = m.sourceChain ∧ i = m.messageId then .approved (messageHash H m) else st.approvals c i }).2.length + 1 ∧
    (approveLoop H (m :: rest) st).1.approvals m.sourceChain m.messageId = .approved (messageHash H m) := by
  have h := approveLoop_fresh H st m rest hk
  refine ⟨?_, ?_⟩
  · rw [h]; simp [setApproved]
  · rw [h]
    show (approveLoop H rest (setApproved H st m)).1.approvals m.sourceChain m.messageId = _
    rw [approveLoop_known_key H rest (setApproved H st m) _ _ (by simp [setApproved])]
    simp [setApproved]

/-- consuming succeeds exactly when the caller authorised the call and the stored record is the hash of
    (chain, id, source address, THE CALLER as destination, payload hash) -/
theorem consume_iff (st : State) (auths : List Addr) (caller : Addr) (c i sa ph : Bytes) :
    (∃ st' evs, validateMessage H st auths caller c i sa ph = .ok (st', true, evs)) ↔
      (caller ∈ auths ∧ st.approvals c i =
        .approved (messageHash H { sourceChain := c, messageId := i, sourceAddress := sa, contract := caller, payloadHash := ph })) := by
  constructor
  · rintro ⟨st', evs, h⟩
    obtain ⟨ha, ⟨_, hr, _, _⟩ | ⟨hb, _⟩⟩ := validateMessage_ok H _ _ _ _ _ _ _ _ _ _ h
    · exact ⟨ha, hr⟩
    · cases hb
  · rintro ⟨ha, hr⟩
    have : validateMessage H st auths caller c i sa ph = .ok
        ({ st with approvals := fun c' i' => if c' = c ∧ i' = i then .executed else st.approvals c' i' }, true,
         [evExecuted { sourceChain := c, messageId := i, sourceAddress := sa, contract := caller, payloadHash := ph }]) := by
      unfold validateMessage
      rw [if_neg (fun hn => hn ha)]
      dsimp only
      rw [if_pos hr]
    exact ⟨_, _, this⟩

/-- a successful consumption marks the message executed, touches no other key, and emits exactly one event -/
theorem consume_effect (st st' : State) (auths : List Addr) (caller : Addr) (c i sa ph : Bytes) (evs : List Event)
    (h : validateMessage H st auths caller c i sa ph = .ok (st', true, evs)) :
    st'.approvals c i = .executed ∧ (∀ c' i', ¬ (c' = c ∧ i' = i) → st'.approvals c' i' = st.approvals c' i') ∧
    evs.length = 1 := by
  obtain ⟨_, ⟨_, _, hs, he⟩ | ⟨hb, _⟩⟩ := validateMessage_ok H _ _ _ _ _ _ _ _ _ _ h
  · subst hs; subst he
    refine ⟨by simp, ?_, rfl⟩
    intro c' i' hne
    simp [hne]
  · cases hb

/-- an unsuccessful consumption attempt (`false` or unauthorised) changes nothing and emits nothing -/
theorem consume_false_inert (st st' : State) (auths : List Addr) (caller : Addr) (c i sa ph : Bytes) (evs : List Event)
    (h : validateMessage H st auths caller c i sa ph = .ok (st', false, evs)) :
    st' = st ∧ evs = [] := by
  obtain ⟨_, ⟨hb, _⟩ | ⟨_, _, hs, he⟩⟩ := validateMessage_ok H _ _ _ _ _ _ _ _ _ _ h
  · cases hb
  · exact ⟨hs, he⟩

/-- successful consumptions of key (c,i) in a history -/
def consumptions (c i : Bytes) : List (Op σ) → List Obs → Nat
  | (.validateMessage _ _ c' i' _ _) :: ops, (.okBool true _) :: os =>
      consumptions c i ops os + (if c' = c ∧ i' = i then 1 else 0)
  | _ :: ops, _ :: os => consumptions c i ops os
  | _, _ => 0

/-- contribution of one (operation, observation) pair to `consumptions` -/
def hit (c i : Bytes) : Op σ → Obs → Nat
  | .validateMessage _ _ c' i' _ _, .okBool true _ => if c' = c ∧ i' = i then 1 else 0
  | _, _ => 0

theorem consumptions_cons (c i : Bytes) (op : Op σ) (ops : List (Op σ)) (o : Obs) (os : List Obs) :
    consumptions c i (op :: ops) (o :: os) = consumptions c i ops os + hit c i op o := by
  cases op <;> cases o <;> (try rename_i b _; cases b) <;> simp [consumptions, hit]

/-- a hit happens only from `approved`, and leaves `executed` -/
theorem hit_step (w : World) (op : Op σ) (c i : Bytes) (hh : hit c i op (step H V w op).2 ≠ 0) :
    (∃ h, w.st.approvals c i = .approved h) ∧ (step H V w op).1.st.approvals c i = .executed ∧
    hit c i op (step H V w op).2 = 1 := by
  cases op with
  | validateMessage auths caller chain id src ph =>
    simp only [step] at hh ⊢
    split at hh
    · rename_i st' b evs h
      simp only [] at hh ⊢
      obtain ⟨_, ⟨hb, hr, hs, _⟩ | ⟨hb, _⟩⟩ := validateMessage_ok H _ _ _ _ _ _ _ _ _ _ h
      · subst hb; subst hs
        simp only [hit] at hh ⊢
        by_cases hci : chain = c ∧ id = i
        · obtain ⟨rfl, rfl⟩ := hci
          exact ⟨⟨_, hr⟩, by simp, by simp⟩
        · simp [hci] at hh
      · subst hb; simp [hit] at hh
    · simp [hit] at hh
  | approve ms proof => simp only [step] at hh; split at hh <;> simp [hit] at hh
  | rotate auths ws proof bypass => simp only [step] at hh; split at hh <;> simp [hit] at hh
  | callContract auths caller chain dest payload => simp only [step] at hh; split at hh <;> simp [hit] at hh
  | transferOwnership auths new => simp only [step] at hh; split at hh <;> simp [hit] at hh
  | transferOperatorship auths new => simp only [step] at hh; split at hh <;> simp [hit] at hh
  | setTime now => simp [hit] at hh
  | upgrade auths => simp [hit] at hh
  | migrate auths => simp [hit] at hh

theorem consumptions_bound (w : World) (ops : List (Op σ)) (c i : Bytes) :
    consumptions c i ops (run H V w ops).2 ≤ 1 ∧
    (w.st.approvals c i = .executed → consumptions c i ops (run H V w ops).2 = 0) := by
  induction ops generalizing w with
  | nil => simp [consumptions]
  | cons op ops ih =>
    rw [run_cons]
    simp only [consumptions_cons]
    obtain ⟨ih1, ih2⟩ := ih (step H V w op).1
    by_cases hh : hit c i op (step H V w op).2 = 0
    · rw [hh]
      refine ⟨ih1, fun h0 => ?_⟩
      have := ih2 (step_executed H V w op c i h0)
      omega
    · obtain ⟨⟨h, ha⟩, he, h1⟩ := hit_step H V w op c i hh
      have := ih2 he
      rw [h1, this]
      refine ⟨Nat.le_refl _, fun h0 => ?_⟩
      rw [h0] at ha; cases ha


/-- **at most once**: in every history, every (chain, id) is consumed successfully at most once -/
theorem consume_at_most_once (w : World) (ops : List (Op σ)) (c i : Bytes) :
    consumptions c i ops (run H V w ops).2 ≤ 1 := by
  exact (consumptions_bound H V w ops c i).1

/-- and never again once executed -/
theorem no_consume_after_executed (w : World) (ops : List (Op σ)) (c i : Bytes)
    (h0 : w.st.approvals c i = .executed) :
    consumptions c i ops (run H V w ops).2 = 0 := by
  exact (consumptions_bound H V w ops c i).2 h0

/-- consumption binds every field of the approved message: if message `m` was recorded and a consumption with
    fields (sa, caller, ph) succeeds, those fields are `m`'s — or a hash collision is exhibited -/
theorem consume_binds_fields (st : State) (m : Message) (auths : List Addr) (caller : Addr) (sa ph : Bytes)
    (hm : m.Typed)
    (hc : ({ sourceChain := m.sourceChain, messageId := m.messageId, sourceAddress := sa, contract := caller, payloadHash := ph } : Message).Typed)
    (hrec : st.approvals m.sourceChain m.messageId = .approved (messageHash H m))
    (h : ∃ st' evs, validateMessage H st auths caller m.sourceChain m.messageId sa ph = .ok (st', true, evs)) :
    (sa = m.sourceAddress ∧ caller = m.contract ∧ ph = m.payloadHash) ∨ Collision H := by
  obtain ⟨st', evs, h⟩ := h
  obtain ⟨_, ⟨_, hr, _, _⟩ | ⟨hb, _⟩⟩ := validateMessage_ok H _ _ _ _ _ _ _ _ _ _ h
  · rw [hrec] at hr
    injection hr with hr
    unfold messageHash at hr
    by_cases hx : enc m.toSc = enc (Message.toSc
        { sourceChain := m.sourceChain, messageId := m.messageId, sourceAddress := sa, contract := caller, payloadHash := ph })
    · have := enc_injective _ _ (toSc_WF hm) (toSc_WF hc) hx
      have := toSc_injective this
      left
      cases m
      simp only [Message.mk.injEq] at this
      obtain ⟨_, _, h1, h2, h3⟩ := this
      exact ⟨h1.symm, h2.symm, h3.symm⟩
    · exact Or.inr ⟨_, _, hx, hr⟩
  · cases hb

/-- the queries agree with the stored history -/
theorem queries_agree (st : State) (m : Message) :
    (isMessageApproved H st m = true ↔ st.approvals m.sourceChain m.messageId = .approved (messageHash H m)) ∧
    (isMessageExecuted st m.sourceChain m.messageId = true ↔ st.approvals m.sourceChain m.messageId = .executed) := by
  simp [isMessageApproved, isMessageExecuted]

/-- the storage key the implementation uses (XDR of the struct {message_id, source_chain}) separates
    ids that differ only in how the same characters are split between chain and id -/
def keySc (c i : Bytes) : ScVal :=
  .map (.cons (.sym symMessageId) (.str i) (.cons (.sym symSourceChain) (.str c) .nil))

theorem keys_distinct (c i c' i' : Bytes) (hc : c.length < 256 ^ 4) (hi : i.length < 256 ^ 4)
    (hc' : c'.length < 256 ^ 4) (hi' : i'.length < 256 ^ 4)
    (h : enc (keySc c i) = enc (keySc c' i')) : c = c' ∧ i = i' := by
  have hw : ∀ c i : Bytes, c.length < 256 ^ 4 → i.length < 256 ^ 4 → (keySc c i).WF := by
    intro c i hc hi
    simp only [keySc, ScVal.WF, ScPairs.WF, ScPairs.len, symMessageId, symSourceChain, List.length_cons,
      List.length_nil]
    refine ⟨by decide, ⟨by decide, hi, by decide, hc, trivial⟩⟩
  have := enc_injective _ _ (hw c i hc hi) (hw c' i' hc' hi') h
  simp only [keySc] at this
  injection this with this
  injection this with _ h1 h2
  injection h1 with h1
  injection h2 with _ h3 _
  injection h3 with h3
  exact ⟨h3, h1⟩

/-! ### every executed message was consumed by its destination (history level) -/

/-- `initialize_auth` never touches the approvals -/
theorem initSets_approvals (now : Nat) (sets : List WSigners) (st st' : State) (evs : List Event)
    (h : initSets H now sets st = .ok (st', evs)) : st'.approvals = st.approvals := by
  induction sets generalizing st evs with
  | nil =>
    unfold initSets at h
    injection h with h
    injection h with h1 h2
    subst h1
    rfl
  | cons ws rest ih =>
    unfold initSets at h
    cases hi : rotateSignersInner H st ws false now with
    | error e => rw [hi] at h; cases h
    | ok p =>
      obtain ⟨st1, ev⟩ := p
      rw [hi] at h
      dsimp only at h
      cases hr : initSets H now rest st1 with
      | error e => rw [hr] at h; cases h
      | ok q =>
        obtain ⟨a, b⟩ := q
        rw [hr] at h
        dsimp only at h
        injection h with h
        injection h with h1 h2
        subst h1
        rw [ih st1 b hr]
        exact rotateInner_approvals H _ _ _ _ _ _ hi

/-- a freshly constructed gateway holds no approvals at all -/
theorem constructed_no_approvals (owner operator : Addr) (domain : Bytes) (minDelay retention : Nat) (sets : List WSigners)
    (now : Nat) (w0 : World) (hc : constructed H owner operator domain minDelay retention sets now = some w0) (c i : Bytes) :
    w0.st.approvals c i = .notApproved := by
  unfold constructed at hc
  cases hcon : construct H owner operator domain minDelay retention sets now with
  | error e => rw [hcon] at hc; cases hc
  | ok r =>
    obtain ⟨st, evs⟩ := r
    rw [hcon] at hc
    dsimp only at hc
    injection hc with hc
    subst hc
    unfold construct at hcon
    by_cases he : sets.isEmpty = true
    · rw [if_pos he] at hcon; cases hcon
    · rw [if_neg he] at hcon
      show st.approvals c i = .notApproved
      rw [initSets_approvals H now sets _ _ evs hcon]
      rfl

/-- **one step**: a key that is `executed` after an operation was `executed` before, or the operation was a
    `validate_message` for that key that returned true, authorised by the caller, against the stored approval of exactly
    the presented message -/
theorem step_executed_new (w : World) (op : Op σ) (c i : Bytes)
    (h1 : (step H V w op).1.st.approvals c i = .executed) :
    w.st.approvals c i = .executed ∨
    (∃ auths caller sa ph evs, op = .validateMessage auths caller c i sa ph ∧
        (step H V w op).2 = .okBool true evs ∧ caller ∈ auths ∧
        w.st.approvals c i = .approved (messageHash H ⟨c, i, sa, caller, ph⟩)) := by
  cases op with
  | approve ms proof =>
    left
    simp only [step] at h1
    split at h1
    · rename_i st' evs h
      have := approveMessages_ok H V _ _ _ _ _ h
      have h2 := approveLoop_approvals H ms w.st c i
      rw [this] at h2
      simp only at h1 h2
      rcases h2 with h2 | ⟨_, h', h3⟩
      · rw [← h2]; exact h1
      · rw [h3] at h1; cases h1
    · exact h1
  | rotate auths ws proof bypass =>
    left
    simp only [step] at h1
    split at h1
    · rename_i st' evs h
      have := rotateSigners_approvals H V _ _ _ _ _ _ _ _ h
      simp only [this] at h1
      exact h1
    · exact h1
  | validateMessage auths caller chain id src ph =>
    cases hv : validateMessage H w.st auths caller chain id src ph with
    | error e =>
      left
      have : (step H V w (.validateMessage auths caller chain id src ph)).1 = w := by simp only [step, hv]
      rw [this] at h1
      exact h1
    | ok r =>
      obtain ⟨st', b, evs⟩ := r
      have hs1 : (step H V w (.validateMessage auths caller chain id src ph)).1.st = st' := by simp only [step, hv]
      have hs2 : (step H V w (.validateMessage auths caller chain id src ph)).2 = .okBool b evs := by
        simp only [step, hv]
      rw [hs1] at h1
      obtain ⟨hauth, ⟨hb, ha, hs, _⟩ | ⟨_, _, hs, _⟩⟩ := validateMessage_ok H _ _ _ _ _ _ _ _ _ _ hv
      · subst hs; subst hb
        by_cases hci : c = chain ∧ i = id
        · obtain ⟨rfl, rfl⟩ := hci
          exact Or.inr ⟨auths, caller, src, ph, evs, rfl, hs2, hauth, ha⟩
        · simp only [hci, if_false] at h1
          exact Or.inl h1
      · subst hs
        exact Or.inl h1
  | callContract auths caller chain dest payload =>
    left
    simp only [step, callContract] at h1
    split at h1
    · rename_i hr
      split at hr
      · cases hr
      · cases hr; exact h1
    · exact h1
  | transferOwnership auths new =>
    left
    simp only [step, transferOwnership] at h1
    split at h1
    · rename_i hr
      split at hr
      · cases hr
      · cases hr; exact h1
    · exact h1
  | transferOperatorship auths new =>
    left
    simp only [step, transferOperatorship] at h1
    split at h1
    · rename_i hr
      split at hr
      · cases hr
      · cases hr; exact h1
    · exact h1
  | setTime now => exact Or.inl h1
  | upgrade auths =>
    obtain ⟨b, hb⟩ := step_upgrade_fst H V w auths
    rw [hb] at h1; exact Or.inl h1
  | migrate auths =>
    obtain ⟨b, hb⟩ := step_migrate_fst H V w auths
    rw [hb] at h1; exact Or.inl h1

theorem trace_cons (w : World) (op : Op σ) (ops : List (Op σ)) :
    trace H V w (op :: ops) = (w, op, (step H V w op).2) :: trace H V (step H V w op).1 ops := rfl

/-- the history-level statement from any world -/
theorem run_executed_new (ops : List (Op σ)) : ∀ (w : World) (c i : Bytes),
    (run H V w ops).1.st.approvals c i = .executed →
    w.st.approvals c i = .executed ∨
    ∃ wa auths caller sa ph evs,
      (wa, Op.validateMessage auths caller c i sa ph, Obs.okBool true evs) ∈ trace H V w ops ∧ caller ∈ auths ∧
      wa.st.approvals c i = .approved (messageHash H ⟨c, i, sa, caller, ph⟩) := by
  induction ops with
  | nil => intro w c i hfin; exact Or.inl hfin
  | cons op ops ih =>
    intro w c i hfin
    rw [run_cons] at hfin
    rcases ih (step H V w op).1 c i hfin with h1 | ⟨wa, auths, caller, sa, ph, evs, hmem, hr⟩
    · rcases step_executed_new H V w op c i h1 with h2 | ⟨auths, caller, sa, ph, evs, rfl, hobs, hr⟩
      · exact Or.inl h2
      · refine Or.inr ⟨w, auths, caller, sa, ph, evs, ?_, hr⟩
        rw [trace_cons, hobs]
        exact List.mem_cons_self
    · refine Or.inr ⟨wa, auths, caller, sa, ph, evs, ?_, hr⟩
      rw [trace_cons]
      exact List.mem_cons_of_mem _ hmem

/-- **every message on record as executed was consumed by its own destination**: start from any successful construction and
    run ANY history; if afterwards (chain, id) is marked executed, then somewhere in that history a `validate_message` call
    returned true for it — made with the authorisation of the very contract it named as caller, at a moment when the gateway
    held an approval of exactly the message (chain, id, source address, that caller, payload hash) it presented. Nobody else's
    call, and no call presenting other content, can have marked it. -/
theorem executed_was_consumed (owner operator : Addr) (domain : Bytes) (minDelay retention : Nat) (sets : List WSigners)
    (now : Nat) (w0 : World)
    (hc : constructed H owner operator domain minDelay retention sets now = some w0)
    (ops : List (Op σ)) (c i : Bytes)
    (hfin : (run H V w0 ops).1.st.approvals c i = .executed) :
    ∃ wa auths caller sa ph evs,
      (wa, Op.validateMessage auths caller c i sa ph, Obs.okBool true evs) ∈ trace H V w0 ops ∧ caller ∈ auths ∧
      wa.st.approvals c i = .approved (messageHash H ⟨c, i, sa, caller, ph⟩) := by
  have h0 := constructed_no_approvals H owner operator domain minDelay retention sets now w0 hc c i
  rcases run_executed_new H V ops w0 c i hfin with h1 | h1
  · rw [h0] at h1; cases h1
  · exact h1

/-! ### non-vacuity (the model RUN in the kernel on a concrete history, toy hash) -/
/-- `upgrade` (to the same code) and `migrate` never touch an approval record, whoever calls them and whether they succeed or
    not (the history theorems above range over these two operations as well) -/
theorem admin_steps_keep_approvals (w : World) (auths : List Addr) :
    (step H V w (.upgrade auths)).1.st.approvals = w.st.approvals ∧ (step H V w (.migrate auths)).1.st.approvals = w.st.approvals := by
  obtain ⟨b, hb⟩ := step_upgrade_fst H V w auths
  obtain ⟨c, hc⟩ := step_migrate_fst H V w auths
  rw [hb, hc]
  exact ⟨rfl, rfl⟩

section NonVacuity
open Cgp.Toy

def dest0 : Addr := ⟨true, List.replicate 32 9⟩
def other0 : Addr := ⟨true, List.replicate 32 10⟩
/-- the message that gets approved … -/
def mA : Message := ⟨[97], [49], [98], dest0, List.replicate 32 3⟩
/-- … and one with the same (chain, id) but other content -/
def mB : Message := ⟨[97], [49], [99], dest0, List.replicate 32 4⟩
def opsC : List (Op Unit) :=
  [ .approve [mA] pf0,                                                         -- recorded, one event
    .validateMessage [] dest0 [97] [49] [98] (List.replicate 32 3),            -- no authorisation of the caller: error
    .validateMessage [other0] other0 [97] [49] [98] (List.replicate 32 3),     -- not the destination: false
    .validateMessage [dest0] dest0 [97] [49] [98] (List.replicate 32 4),       -- other payload hash: false
    .approve [mB] pf0,                                                         -- re-approval with other content: inert, no event
    .validateMessage [dest0] dest0 [97] [49] [98] (List.replicate 32 3),       -- the destination, its authorisation: true
    .validateMessage [dest0] dest0 [97] [49] [98] (List.replicate 32 3),       -- again: false
    .approve [mB] pf0,                                                         -- inert
    .validateMessage [dest0] dest0 [97] [49] [99] (List.replicate 32 4) ]      -- the other content was never recorded: false

/-- `consume_at_most_once`, `approved_content_stable` and `consume_binds_fields` speak about histories that exist: on a freshly
    constructed gateway a message is approved, consumption attempts without authorisation / by another contract / with another
    payload hash fail, a re-approval with other content is inert, the destination consumes it (true), a second attempt
    returns false.  The bound `≤ 1` is attained (the count is 1, and 0 before the consumption); the hypothesis of
    `approved_content_stable` holds after the first call and both of its outcomes occur (the record stays through five further
    calls, then becomes executed); all four hypotheses of `consume_binds_fields` hold at the successful consumption. -/
theorem consume_history_nonvacuous :
    ∃ w0, constructed H0 owner0 owner0 [1] 0 0 [ws0] 5 = some w0 ∧
      -- `consume_binds_fields`: both messages are typed, the consumption succeeds (the record is in the last group)
      mA.Typed ∧
      ({ sourceChain := mA.sourceChain, messageId := mA.messageId, sourceAddress := [98], contract := dest0,
         payloadHash := List.replicate 32 3 } : Message).Typed ∧
      (∃ st' evs, validateMessage H0 (run H0 V0 w0 (opsC.take 5)).1.st [dest0] dest0 mA.sourceChain mA.messageId [98]
          (List.replicate 32 3) = .ok (st', true, evs)) ∧
      -- the history: which calls succeeded, what the consumption attempts returned, how many events each call emitted
      (run H0 V0 w0 opsC).2.map gwOk = [true, false, true, true, true, true, true, true, true] ∧
      (run H0 V0 w0 opsC).2.map gwRet = [none, none, some false, some false, none, some true, some false, none, some false] ∧
      (run H0 V0 w0 opsC).2.map gwEvents = [1, 0, 0, 0, 0, 1, 0, 0, 0] ∧
      -- `consume_at_most_once`: the bound is attained
      consumptions [97] [49] opsC (run H0 V0 w0 opsC).2 = 1 ∧
      consumptions [97] [49] (opsC.take 5) (run H0 V0 w0 (opsC.take 5)).2 = 0 ∧
      -- `approved_content_stable`: its hypothesis after the first call, and both outcomes
      w0.st.approvals [97] [49] = .notApproved ∧
      (run H0 V0 w0 (opsC.take 1)).1.st.approvals [97] [49] = .approved (messageHash H0 mA) ∧
      (run H0 V0 (run H0 V0 w0 (opsC.take 1)).1 ((opsC.drop 1).take 4)).1.st.approvals [97] [49] = .approved (messageHash H0 mA) ∧
      (run H0 V0 (run H0 V0 w0 (opsC.take 1)).1 (opsC.drop 1)).1.st.approvals [97] [49] = .executed ∧
      messageHash H0 mB ≠ messageHash H0 mA ∧
      (run H0 V0 w0 (opsC.take 5)).1.st.approvals mA.sourceChain mA.messageId = .approved (messageHash H0 mA) := by
  refine ⟨_, rfl, ?_, ?_, ?_, ?_⟩
  · simp only [Message.Typed, Addr.WF]; decide +kernel
  · simp only [Message.Typed, Addr.WF]; decide +kernel
  · refine (consume_iff H0 _ _ _ _ _ _ _).2 ⟨?_, ?_⟩ <;> decide +kernel
  · decide +kernel

end NonVacuity

end Cgp.Props.C02
