/-
  Property C02 — PLACEHOLDER while the full theorem file (see /verif/lean/stmts) is being proved:
  only the rollback clause is here.  Replaced by the complete file as soon as it checks.
-/
import Cgp.GatewaySpec
namespace Cgp.Props.C02
open Cgp Cgp.Xdr Cgp.Gateway

variable (H : Bytes → Bytes) {σ : Type} (V : Bytes → Bytes → σ → Bool)

theorem consume_rejected_unchanged (w : World) (auths : List Addr) (caller : Addr) (c i sa ph : Bytes) (e : Err)
    (h : (step H V w (.validateMessage auths caller c i sa ph)).2 = .err e) :
    (step H V w (.validateMessage auths caller c i sa ph)).1 = w := by
  simp only [step] at h ⊢
  split <;> simp_all

end Cgp.Props.C02
