/-
  Property C05 — interchain transfers conserve value and announce exactly what was taken.
  Statements are FIXED: prove them exactly as stated (helper lemmas go above them or in Cgp/Proofs/C05.lean).
  If you are convinced a statement is false as written, leave it `sorry`, give the concrete counterexample in your report
  and propose the minimal corrected statement.
-/
import Cgp.ItsOps
import Cgp.Token
import Cgp.Toy
import Cgp.Proofs.C05
namespace Cgp.Props.C05
open Cgp Cgp.Xdr Cgp.Its

variable (H : Bytes → Bytes) (S : Bytes → Bytes) (k : Consts)

/-! ### the three token movements the service uses, exactly -/

theorem tokTransfer_exact (st st' : State) (token src dst : Addr) (amount : Int) (au : Bool)
    (h : tokTransfer st token src dst amount au = .ok st') :
    au = true ∧ 0 ≤ amount ∧ amount ≤ balOf st token src ∧
    (src ≠ dst → balOf st' token src = balOf st token src - amount ∧ balOf st' token dst = balOf st token dst + amount) ∧
    (src = dst → balOf st' token src = balOf st token src) ∧
    (∀ x, x ≠ src → x ≠ dst → balOf st' token x = balOf st token x) ∧
    (∀ tk, tk ≠ token → st'.tokens tk = st.tokens tk) ∧
    st'.registry = st.registry ∧ st'.gw = st.gw ∧ st'.trusted = st.trusted ∧ st'.self = st.self ∧
    st'.gasService = st.gasService ∧ st'.owner = st.owner := by
  exact Proofs.C05.tokTransfer_exact st st' token src dst amount au h

theorem tokBurn_exact (st st' : State) (token src : Addr) (amount : Int) (au : Bool)
    (h : tokBurn st token src amount au = .ok st') :
    au = true ∧ 0 ≤ amount ∧ amount ≤ balOf st token src ∧
    balOf st' token src = balOf st token src - amount ∧
    (∀ x, x ≠ src → balOf st' token x = balOf st token x) ∧
    (∀ tk, tk ≠ token → st'.tokens tk = st.tokens tk) ∧
    st'.registry = st.registry ∧ st'.gw = st.gw ∧ st'.trusted = st.trusted ∧ st'.self = st.self := by
  exact Proofs.C05.tokBurn_exact st st' token src amount au h

theorem tokMint_exact (st st' : State) (token dst : Addr) (amount : Int)
    (h : tokMintByService st token dst amount = .ok st') :
    0 ≤ amount ∧ (∃ t, st.tokens token = some t ∧ t.kind = .interchain ∧ t.owner = st.self ∧ t.minter st.self = true) ∧
    balOf st' token dst = balOf st token dst + amount ∧
    (∀ x, x ≠ dst → balOf st' token x = balOf st token x) ∧
    (∀ tk, tk ≠ token → st'.tokens tk = st.tokens tk) ∧
    st'.registry = st.registry ∧ st'.gw = st.gw ∧ st'.trusted = st.trusted ∧ st'.self = st.self := by
  exact Proofs.C05.tokMint_exact st st' token dst amount h

/-! ### outbound -/

/-- A successful outbound transfer: positive amount, the sender's authorisation, a trusted destination; the stated amount is
    taken (burned for service-deployed tokens, moved into custody for canonical ones), exactly the stated gas is paid by the
    sender to the gas service, and the hub is told exactly (token, amount, xdr(sender), destination, data) under
    SendToHub(destination), with `gas_paid` over the very same payload. -/
theorem outbound_exact (st st' : State) (auths : List Addr) (caller : Addr) (tid dest destAddr : Bytes) (amount : Int)
    (data : Option Bytes) (gasToken : Addr) (gasAmount : Int) (evs : List Event)
    (h : interchainTransfer H k st auths caller tid dest destAddr amount data gasToken gasAmount = .ok (st', evs)) :
    0 < amount ∧ caller ∈ auths ∧ st.trusted dest = true ∧ 0 < gasAmount ∧
    ∃ addr mgr st1 payload,
      st.registry tid = some (addr, mgr) ∧
      (match mgr with
       | .native => tokBurn st addr caller amount true = .ok st1
       | .lockUnlock => tokTransfer st addr caller st.self amount true = .ok st1) ∧
      Abi.encodeHub (.sendToHub dest (.transfer ⟨tid, enc (.addr caller), destAddr, amount, data⟩)) = .ok payload ∧
      tokTransfer st1 gasToken caller st1.gasService gasAmount true = .ok st' ∧
      evs = [evTransferSent st tid caller dest destAddr amount data,
             evGasPaid H k st1 payload caller gasToken gasAmount, evContractCalled H k st1 payload] := by
  exact Proofs.C05.interchainTransfer_inv H k h

/-- zero / negative amounts, untrusted destinations and unknown tokens are refused -/
theorem outbound_refusals (st : State) (auths : List Addr) (caller : Addr) (tid dest destAddr : Bytes) (amount : Int)
    (data : Option Bytes) (gasToken : Addr) (gasAmount : Int) :
    (amount ≤ 0 → ∃ e, interchainTransfer H k st auths caller tid dest destAddr amount data gasToken gasAmount = .error e) ∧
    (st.trusted dest = false → ∃ e, interchainTransfer H k st auths caller tid dest destAddr amount data gasToken gasAmount = .error e) ∧
    (st.registry tid = none → ∃ e, interchainTransfer H k st auths caller tid dest destAddr amount data gasToken gasAmount = .error e) ∧
    (caller ∉ auths → ∃ e, interchainTransfer H k st auths caller tid dest destAddr amount data gasToken gasAmount = .error e) ∧
    (gasAmount ≤ 0 → ∃ e, interchainTransfer H k st auths caller tid dest destAddr amount data gasToken gasAmount = .error e) := by
  refine ⟨?_, ?_, ?_, ?_, ?_⟩ <;> intro hh <;>
    cases hr : interchainTransfer H k st auths caller tid dest destAddr amount data gasToken gasAmount with
    | error e => exact ⟨e, rfl⟩
    | ok r =>
      obtain ⟨st', evs⟩ := r
      obtain ⟨h1, h2, h3, h4, addr, mgr, st1, payload, hreg, -⟩ := Proofs.C05.interchainTransfer_inv H k hr
      first
        | omega
        | (rw [hh] at h3; cases h3)
        | (rw [hh] at hreg; cases hreg)
        | exact absurd h2 hh

/-! ### inbound -/

/-- A successful inbound transfer credits exactly the announced amount to the decoded recipient: minted for service-deployed
    tokens, released from the service's custody for canonical ones; it announces exactly that, and when the message carries data
    the recipient application is handed exactly (origin chain, message id, source address, data, token id, token address, amount). -/
theorem inbound_exact (st st' : State) (c i sa payload origin : Bytes) (t : Abi.Transfer) (evs : List Event)
    (h : execute H S k st c i sa payload = .ok (st', evs))
    (hd : Abi.decodeHub payload = .ok (.receiveFromHub origin (.transfer t))) :
    ∃ addr mgr recipient st0,
      st0 = { st with gw := st'.gw } ∧
      st.registry t.tokenId = some (addr, mgr) ∧ addrFromXdr t.dest = some recipient ∧
      (match mgr with
       | .native => tokMintByService st0 addr recipient t.amount = .ok st'
       | .lockUnlock => tokTransfer st0 addr st0.self recipient t.amount true = .ok st') ∧
      (∃ gwEvs, evs = gwEvs ++ (evTransferReceived st origin t.tokenId t.source recipient t.amount t.data ::
          (match t.data with
           | none => []
           | some d => [evAppExecuted recipient origin i t.source d t.tokenId addr t.amount]))) := by
  exact Proofs.C05.inbound_exact H S k st st' c i sa payload origin t evs h hd

/-! ### conservation over histories -/

/-- no balance of any token is negative -/
def TokNonNeg (st : State) : Prop := ∀ a t h', st.tokens a = some t → 0 ≤ t.bal h'

theorem nonneg_step (st : State) (op : Op) (h : TokNonNeg st) : TokNonNeg (step H S k st op).1 := by
  exact (Proofs.C05.step_FK H S k st op st.self).nn h

/-- the service's custody (like every other balance) is never negative, in any history -/
theorem nonneg_run (st : State) (ops : List Op) (h : TokNonNeg st) : TokNonNeg (run H S k st ops).1 := by
  induction ops generalizing st with
  | nil => exact h
  | cons op ops ih =>
    have e : (run H S k st (op :: ops)).1 = (run H S k (step H S k st op).1 ops).1 := rfl
    rw [e]
    exact ih _ (nonneg_step H S k st op h)

/-- failed calls move nothing (and change nothing else) -/
theorem failed_moves_nothing (st : State) (op : Op) (e : Err) (h : (step H S k st op).2 = .err e) :
    (step H S k st op).1 = st := by
  exact Props.C18.remote_deploy_rejected_unchanged H S k st op e h

/-- operations in which the service itself is not the paying / receiving party (no donations to the service, the service
    does not call its own entry points) -/
def Clean (self : Addr) : Op → Prop
  | .deploy _ caller _ _ _ _ _ _ => caller ≠ self
  | .deployRemote _ caller _ _ _ _ => caller ≠ self
  | .deployRemoteCanonical _ _ _ spender _ _ => spender ≠ self
  | .transfer _ caller _ _ _ _ _ _ _ => caller ≠ self
  | .minterMint _ _ dst _ _ => dst ≠ self
  | _ => True

/-- **custody = locked − released**: the service's balance of any token changes only by a successful outbound transfer of an
    id registered for that token with the lock/unlock manager (+amount), or a successful inbound transfer for such an id
    (−amount, when the recipient is somebody else) -/
theorem custody_step (st : State) (op : Op) (a : Addr) (hgs : st.gasService ≠ st.self) (hclean : Clean st.self op) :
    balOf (step H S k st op).1 a st.self = balOf st a st.self ∨
    (∃ auths caller tid dest destAddr amount data gt ga,
        op = .transfer auths caller tid dest destAddr amount data gt ga ∧ st.registry tid = some (a, .lockUnlock) ∧
        0 < amount ∧ balOf (step H S k st op).1 a st.self = balOf st a st.self + amount) ∨
    (∃ c i sa payload origin t,
        op = .execute c i sa payload ∧ Abi.decodeHub payload = .ok (.receiveFromHub origin (.transfer t)) ∧
        (∃ mgr, st.registry t.tokenId = some (a, mgr)) ∧
        (balOf (step H S k st op).1 a st.self = balOf st a st.self - t.amount ∨
         balOf (step H S k st op).1 a st.self = balOf st a st.self + t.amount)) := by
  cases op
  case transfer au ca ti de da am dt gt ga =>
    rcases Proofs.C05.custody_transfer H S k st a au ca ti de da am dt gt ga hgs hclean with h1 | ⟨h1, h2, h3⟩
    · exact Or.inl h1
    · exact Or.inr (Or.inl ⟨au, ca, ti, de, da, am, dt, gt, ga, rfl, h1, h2, h3⟩)
  case execute c i sa p =>
    rcases Proofs.C05.custody_execute H S k st a c i sa p with h1 | ⟨origin, t, h1, h2, h3⟩
    · exact Or.inl h1
    · exact Or.inr (Or.inr ⟨c, i, sa, p, origin, t, rfl, h1, h2, h3⟩)
  all_goals exact Or.inl ((Proofs.C05.step_FK H S k st _ a).keep ⟨hclean, hgs⟩)

/-- the identity of the service, its gas service and the registry entries already made never change -/
theorem frame_step (st : State) (op : Op) :
    (step H S k st op).1.self = st.self ∧ (step H S k st op).1.gasService = st.gasService ∧
    (step H S k st op).1.gatewayAddr = st.gatewayAddr := by
  have f := Proofs.C05.step_FK H S k st op st.self
  exact ⟨f.self, f.gs, f.ga⟩

/-! ### the custody equation over every history -/

/-- signed movement of token `a` into (+) or out of (−) the service's own balance caused by a SUCCESSFUL operation,
    read off the state BEFORE the operation: outbound transfers of ids registered for `a` with the lock/unlock manager lock
    their amount; inbound transfers for such ids release theirs (unless the recipient is the service itself); a service
    token minted to the service itself is the only other way the service's balance moves -/
def custodyFlow (st : State) (a : Addr) : Op → Int
  | .transfer _ _ tid _ _ amount _ _ _ => if st.registry tid = some (a, .lockUnlock) then amount else 0
  | .execute _ _ _ payload =>
    match Abi.decodeHub payload with
    | .ok (.receiveFromHub _ (.transfer t)) =>
      match st.registry t.tokenId, addrFromXdr t.dest with
      | some (addr, .lockUnlock), some r => if addr = a ∧ r ≠ st.self then - t.amount else 0
      | some (addr, .native), some r => if addr = a ∧ r = st.self then t.amount else 0
      | _, _ => 0
    | _ => 0
  | _ => 0

/-- total locked minus total released (successful operations only), accumulated along a history -/
def netCustody (st : State) (a : Addr) : List Op → Int
  | [] => 0
  | op :: rest =>
    (match (step H S k st op).2 with | .err _ => 0 | _ => custodyFlow st a op) + netCustody (step H S k st op).1 a rest

theorem custody_step_eq (st : State) (op : Op) (a : Addr) (hgs : st.gasService ≠ st.self) (hclean : Clean st.self op) :
    balOf (step H S k st op).1 a st.self =
      balOf st a st.self + (match (step H S k st op).2 with | .err _ => 0 | _ => custodyFlow st a op) := by
  cases op
  case transfer au ca ti de da am dt gt ga =>
    exact Proofs.C05.custody_transfer_eq H S k st a au ca ti de da am dt gt ga hgs hclean
  case execute c i sa p =>
    exact Proofs.C05.custody_execute_eq H S k st a c i sa p
  all_goals exact Proofs.C05.custody_other_eq H S k st _ a hclean hgs

/-- **custody = initial + locked − released, for every token, over every history** (no donations to the service, the service
    does not call its own entry points) -/
theorem custody_run (st : State) (ops : List Op) (a : Addr) (hgs : st.gasService ≠ st.self)
    (hclean : ∀ op ∈ ops, Clean st.self op) :
    balOf (run H S k st ops).1 a st.self = balOf st a st.self + netCustody H S k st a ops := by
  induction ops generalizing st with
  | nil => simp only [run, netCustody, Int.add_zero]
  | cons op ops ih =>
    have e : (run H S k st (op :: ops)).1 = (run H S k (step H S k st op).1 ops).1 := rfl
    obtain ⟨hself, hgsv, -⟩ := frame_step H S k st op
    have h1 := custody_step_eq H S k st op a hgs (hclean op (List.mem_cons_self ..))
    have h2 := ih (step H S k st op).1 (by rw [hgsv, hself]; exact hgs)
      (fun o ho => by rw [hself]; exact hclean o (List.mem_cons_of_mem _ ho))
    rw [hself] at h2
    rw [e, h2, h1]
    simp only [netCustody, Int.add_assoc]

/-! ### the supply equation over every history -/

/-- the holders whose balance (of any token) an operation can change: its parties, the service (custody) and the gas
    service (gas payments); `self` / `gs` are the service's and the gas service's addresses (constant, `frame_step`) -/
def touched (self gs : Addr) : Op → List Addr
  | .deploy _ caller _ _ _ _ _ _ => [caller]
  | .deployRemote _ caller _ _ _ _ => [caller, gs]
  | .deployRemoteCanonical _ _ _ spender _ _ => [spender, gs]
  | .transfer _ caller _ _ _ _ _ _ _ => [caller, self, gs]
  | .execute _ _ _ payload =>
    match Abi.decodeHub payload with
    | .ok (.receiveFromHub _ (.transfer t)) =>
      match addrFromXdr t.dest with
      | some r => [r, self]
      | none => []
    | _ => []
  | .userTransfer _ s d _ _ => [s, d]
  | .minterMint _ _ d _ _ => [d]
  | _ => []

/-- the total of token `a` held by the holders `hs` -/
def sumBal (st : State) (a : Addr) (hs : List Addr) : Int := (hs.map (balOf st a)).sum

/-- signed change of the SUPPLY of token `a` caused by a SUCCESSFUL operation, read off the state BEFORE it: the initial
    supply of a local deployment that creates `a`; minus the amount of an outbound transfer of an id registered for `a`
    with the mint/burn manager; plus the amount of an inbound transfer for such an id; plus a designated minter's own
    mint. Nothing else (lock/unlock transfers, gas payments, user transfers, remote deployments, registrations, owner
    operations, gateway activity) changes any supply. -/
def supplyFlow (st : State) (a : Addr) : Op → Int
  | .deploy _ caller salt _ _ _ supply _ =>
    if deployedAddress S k st.self (interchainTokenId H k st.chainName caller salt) = a ∧ supply > 0 then supply else 0
  | .transfer _ _ tid _ _ amount _ _ _ => if st.registry tid = some (a, .native) then - amount else 0
  | .execute _ _ _ payload =>
    match Abi.decodeHub payload with
    | .ok (.receiveFromHub _ (.transfer t)) => if st.registry t.tokenId = some (a, .native) then t.amount else 0
    | _ => 0
  | .minterMint t _ _ amount _ => if t = a then amount else 0
  | _ => 0

/-- initial supplies plus mints minus burns (successful operations only), accumulated along a history -/
def netSupply (st : State) (a : Addr) : List Op → Int
  | [] => 0
  | op :: rest =>
    (match (step H S k st op).2 with | .err _ => 0 | _ => supplyFlow H S k st a op) + netSupply (step H S k st op).1 a rest

theorem supply_step (st : State) (op : Op) (a : Addr) (hs : List Addr) (hnd : hs.Nodup)
    (hcov : ∀ x ∈ touched st.self st.gasService op, x ∈ hs) :
    sumBal (step H S k st op).1 a hs =
      sumBal st a hs + (match (step H S k st op).2 with | .err _ => 0 | _ => supplyFlow H S k st a op) := by
  cases op
  case deploy au ca sa n sy d su m =>
    have hca : ca ∈ hs := hcov ca (by simp [touched])
    cases hx : deployInterchainToken H S k st au ca sa n sy d su m with
    | error e => simp only [step, hx, wrapId, Int.add_zero]
    | ok r =>
      simp only [step, hx, wrapId, sumBal, supplyFlow]
      exact Proofs.C05.deployIT_sum H S k hx a hnd hca
  case deployRemote au ca sa de gt ga =>
    have hca : ca ∈ hs := hcov ca (by simp [touched])
    have hgs : st.gasService ∈ hs := hcov _ (by simp [touched])
    cases hx : deployRemoteInterchainToken H k st au ca sa de gt ga with
    | error e => simp only [step, hx, wrapId, Int.add_zero]
    | ok r =>
      simp only [step, hx, wrapId, sumBal, supplyFlow, Int.add_zero]
      unfold deployRemoteInterchainToken at hx
      split at hx
      · cases hx
      · exact Proofs.C05.deployRemote_sum H k hx a hnd hca hgs
  case deployRemoteCanonical au t de sp gt ga =>
    have hsp : sp ∈ hs := hcov sp (by simp [touched])
    have hgs : st.gasService ∈ hs := hcov _ (by simp [touched])
    cases hx : deployRemoteCanonicalToken H k st au t de sp gt ga with
    | error e => simp only [step, hx, wrapId, Int.add_zero]
    | ok r =>
      simp only [step, hx, wrapId, sumBal, supplyFlow, Int.add_zero]
      exact Proofs.C05.deployRemote_sum H k hx a hnd hsp hgs
  case transfer au ca ti de da am dt gt ga =>
    have hca : ca ∈ hs := hcov ca (by simp [touched])
    have hself : st.self ∈ hs := hcov _ (by simp [touched])
    have hgs : st.gasService ∈ hs := hcov _ (by simp [touched])
    cases hx : interchainTransfer H k st au ca ti de da am dt gt ga with
    | error e => simp only [step, hx, wrapEv, Int.add_zero]
    | ok r =>
      simp only [step, hx, wrapEv, sumBal, supplyFlow]
      exact Proofs.C05.interchainTransfer_sum H k hx a hnd hca hself hgs
  case execute c i sa p =>
    cases hx : execute H S k st c i sa p with
    | error e => simp only [step, hx, wrapEv, Int.add_zero]
    | ok r =>
      simp only [step, hx, wrapEv, sumBal, supplyFlow]
      exact Proofs.C05.execute_sum H S k hx a hnd hcov
  case userTransfer t s d am au =>
    have hs' : s ∈ hs := hcov s (by simp [touched])
    have hd' : d ∈ hs := hcov d (by simp [touched])
    simp only [step, supplyFlow]
    split
    · simp only [Int.add_zero]
    · split
      · rename_i st' hx
        simp only [sumBal, Int.add_zero]
        exact Proofs.C05.tokTransfer_sum hx a hnd hs' hd'
      · simp only [Int.add_zero]
  case minterMint t m d am au =>
    have hd' : d ∈ hs := hcov d (by simp [touched])
    simp only [step, supplyFlow]
    split
    · rename_i tk htk
      split
      · simp only [Int.add_zero]
      · simp only [sumBal]
        rw [Proofs.C05.bal_add_sum htk a hnd hd']
        by_cases he : a = t
        · subst he; simp
        · have he' : ¬ t = a := fun e => he e.symm
          simp [he, he']
    · simp only [Int.add_zero]
  case gateway f =>
    simp only [step, supplyFlow, sumBal, Int.add_zero]
    exact Proofs.C05.sumBal_tokens rfl a hs
  all_goals
    simp only [sumBal, supplyFlow]
    refine Eq.trans (Proofs.C05.sumBal_tokens (Proofs.C05.step_tokens_other H S k st _ (by exact True.intro)) a hs) ?_
    split <;> simp only [Int.add_zero]

/-- **supply = initial supply + mints − burns, for every token, over every history**: over any set of holders that
    contains every party of the history (and the service and the gas service when they take part), the total of token
    `a` changes exactly by the initial supply of the deployment that created it, the service's mints for inbound
    transfers, its burns for outbound transfers, and the designated minters' own mints -/
theorem supply_run (st : State) (ops : List Op) (a : Addr) (hs : List Addr) (hnd : hs.Nodup)
    (hcov : ∀ op ∈ ops, ∀ x ∈ touched st.self st.gasService op, x ∈ hs) :
    sumBal (run H S k st ops).1 a hs = sumBal st a hs + netSupply H S k st a ops := by
  induction ops generalizing st with
  | nil => simp only [run, netSupply, Int.add_zero]
  | cons op ops ih =>
    have e : (run H S k st (op :: ops)).1 = (run H S k (step H S k st op).1 ops).1 := rfl
    obtain ⟨hself, hgsv, -⟩ := frame_step H S k st op
    have h1 := supply_step H S k st op a hs hnd (hcov op (List.mem_cons_self ..))
    have h2 := ih (step H S k st op).1
      (fun o ho => by rw [hself, hgsv]; exact hcov o (List.mem_cons_of_mem _ ho))
    rw [e, h2, h1]
    simp only [netSupply, Int.add_assoc]

/-! ### refinement: on a service-deployed token the ledger primitives used above ARE the token contract's entry points
    (`Cgp.Token`, the model checked against contracts/interchain-token by property C12) -/

/-- a `Cgp.Token` state seen as an entry of the service's token ledger -/
def asTok (ts : Token.State) (tid name symbol : Bytes) (decimals : Nat) : Tok :=
  { kind := .interchain, name, symbol, decimals, bal := ts.bal, owner := ts.owner, minter := ts.minter, tokenId := tid }

/-- `burn`: the ledger primitive succeeds exactly when the token's `burn` does, with the same resulting balances -/
theorem burn_refines (st : State) (a : Addr) (ts : Token.State) (tid name symbol : Bytes) (decimals : Nat)
    (c : Token.Ctx) (src : Addr) (amount : Int) (h : st.tokens a = some (asTok ts tid name symbol decimals)) :
    (∃ st' ts' evs, tokBurn st a src amount (decide (src ∈ c.auths)) = .ok st' ∧ Token.burn ts c src amount = .ok (ts', evs) ∧
        st'.tokens a = some (asTok ts' tid name symbol decimals)) ∨
    ((∃ e, tokBurn st a src amount (decide (src ∈ c.auths)) = .error e) ∧ (∃ e, Token.burn ts c src amount = .error e)) := by
  unfold tokBurn Token.burn Token.spendBalance
  rw [h]
  by_cases ha : src ∈ c.auths
  · by_cases hn : amount < 0
    · right; simp [asTok, ha, hn]
    · by_cases hb : ts.bal src < amount
      · right; simp [asTok, ha, hn, hb]
      · left; simp [asTok, ha, hn, hb, setTok]
  · right; simp [asTok, ha]

/-- `transfer` -/
theorem transfer_refines (st : State) (a : Addr) (ts : Token.State) (tid name symbol : Bytes) (decimals : Nat)
    (c : Token.Ctx) (src dst : Addr) (amount : Int) (h : st.tokens a = some (asTok ts tid name symbol decimals)) :
    (∃ st' ts' evs, tokTransfer st a src dst amount (decide (src ∈ c.auths)) = .ok st' ∧ Token.transfer ts c src dst amount = .ok (ts', evs) ∧
        st'.tokens a = some (asTok ts' tid name symbol decimals)) ∨
    ((∃ e, tokTransfer st a src dst amount (decide (src ∈ c.auths)) = .error e) ∧ (∃ e, Token.transfer ts c src dst amount = .error e)) := by
  unfold tokTransfer Token.transfer Token.spendBalance Token.receiveBalance
  rw [h]
  by_cases ha : src ∈ c.auths
  · by_cases hn : amount < 0
    · right; simp [asTok, ha, hn]
    · by_cases hb : ts.bal src < amount
      · right; simp [asTok, ha, hn, hb]
      · have e : Token.i128Max = Its.i128Max := rfl
        by_cases ho : Its.i128Max < (if dst = src then ts.bal src - amount else ts.bal dst) + amount
        · right; simp [asTok, ha, hn, hb, ho, e]
        · left; simp [asTok, ha, hn, hb, ho, setTok, e]
  · right; simp [asTok, ha]

/-- `mint` by the service (the token's owner, calling as itself): succeeds exactly when the token's owner-`mint` does -/
theorem mint_refines (st : State) (a : Addr) (ts : Token.State) (tid name symbol : Bytes) (decimals : Nat)
    (c : Token.Ctx) (dst : Addr) (amount : Int) (h : st.tokens a = some (asTok ts tid name symbol decimals))
    (hown : ts.owner = st.self) (hauth : st.self ∈ c.auths) :
    (∃ st' ts' evs, tokMintByService st a dst amount = .ok st' ∧ Token.mint ts c dst amount = .ok (ts', evs) ∧
        st'.tokens a = some (asTok ts' tid name symbol decimals)) ∨
    ((∃ e, tokMintByService st a dst amount = .error e) ∧ (∃ e, Token.mint ts c dst amount = .error e)) := by
  unfold tokMintByService Token.mint Token.mintFrom Token.receiveBalance
  rw [h]
  have e : Token.i128Max = Its.i128Max := rfl
  by_cases hm : ts.minter st.self = true
  · by_cases hn : amount < 0
    · right; simp [asTok, hown, hauth, hm, hn]
    · by_cases ho : Its.i128Max < ts.bal dst + amount
      · right; simp [asTok, hown, hauth, hm, hn, ho, e]
      · left; simp [asTok, hown, hauth, hm, hn, ho, setTok, e]
  · right; simp [asTok, hown, hauth, hm]

/-! ### non-vacuity (the service model RUN in the kernel on a concrete history, toy hash) -/
/-- the owner's administrative step — upgrade of the service to the same code and migration — changes no balance, no custody, no
    registry entry and no trust setting, whether it is accepted or refused (the history theorems above range over it) -/
theorem admin_step_changes_nothing (st : State) (auths : List Addr) :
    (step H S k st (.upgradeMigrate auths)).1 = st ∧
    ((step H S k st (.upgradeMigrate auths)).2 = .ok [] ∨ (step H S k st (.upgradeMigrate auths)).2 = .err .unauthorized) :=
  ⟨step_upgradeMigrate_fst H S k st auths, step_upgradeMigrate_snd H S k st auths⟩

section NonVacuity
open Cgp.Toy

def k0 : Consts := ⟨[104], [1], [2], [3], [4]⟩
def svc : Addr := ⟨true, List.replicate 32 8⟩
def gsA : Addr := ⟨true, List.replicate 32 5⟩
def user : Addr := ⟨false, List.replicate 32 11⟩
def gasTok : Addr := ⟨true, List.replicate 32 21⟩
def canon : Addr := ⟨true, List.replicate 32 22⟩
def sac (b : Int) : Tok := { kind := .sac, name := [71], symbol := [71], decimals := 7, bal := fun a => if a = user then b else 0, owner := owner0, minter := fun _ => false, tokenId := [] }
def gw0 : Gateway.State := Gateway.initState owner0 owner0 [1] 0 0
def st0 : State :=
  { self := svc, owner := owner0, gatewayAddr := ⟨true, List.replicate 32 6⟩, gasService := gsA,
    hubAddress := [120], chainName := [115], trusted := fun c => c == [101], registry := fun _ => none, gw := gw0,
    tokens := fun a => if a = gasTok then some (sac 1000) else if a = canon then some (sac 500) else none, executable := fun _ => false }
def salt : Bytes := List.replicate 32 1
def tid1 : Bytes := interchainTokenId H0 k0 [115] user salt
def a1 : Addr := deployedAddress S0 k0 svc tid1
def tidc : Bytes := canonicalTokenId H0 k0 [115] canon
def inbound (tid : Bytes) (amt : Int) : Bytes :=
  match Abi.encodeHub (.receiveFromHub [101] (.transfer ⟨tid, [9], enc (.addr user), amt, none⟩)) with
  | .ok b => b
  | .error _ => []
def approveFor (id payload : Bytes) (g : Gateway.State) : Gateway.State :=
  { g with approvals := fun c i => if c = [104] ∧ i = id then .approved (Gateway.messageHash H0 ⟨[104], id, [120], svc, H0 payload⟩) else g.approvals c i }
def ops : List Op :=
  [ .deploy [user] user salt [84] [84] 6 100 none,
    .registerCanonical canon,
    .transfer [user] user tid1 [101] [1] 30 none gasTok 5,
    .transfer [user] user tidc [101] [1] 40 none gasTok 5,
    .gateway (approveFor [49] (inbound tid1 20)),
    .execute [104] [49] [120] (inbound tid1 20),
    .gateway (approveFor [50] (inbound tidc 15)),
    .execute [104] [50] [120] (inbound tidc 15),
    .transfer [user] user tid1 [101] [1] 1000 none gasTok 5 ]     -- more than the holder has: refused, counts for nothing
def okObs : Obs → Bool | .err _ => false | _ => true

instance (self : Addr) (op : Op) : Decidable (Clean self op) := by
  cases op <;> simp only [Clean] <;> infer_instance

/-- the hypotheses of `custody_run` and `supply_run` are satisfiable and the equations are not `0 = 0`: a history with a local
    deployment (supply 100), a canonical registration, an outbound burn (30) and lock (40), an inbound mint (20) and release
    (15) and a refused transfer; every hypothesis holds, net supply is 100 − 30 + 20 and net custody 40 − 15 -/
theorem equations_nonvacuous :
    (run H0 S0 k0 st0 ops).2.map okObs = [true, true, true, true, true, true, true, true, false] ∧
    st0.gasService ≠ st0.self ∧ (∀ op ∈ ops, Clean st0.self op) ∧
    [user, svc, gsA].Nodup ∧ (∀ op ∈ ops, ∀ x ∈ touched st0.self st0.gasService op, x ∈ [user, svc, gsA]) ∧
    netSupply H0 S0 k0 st0 a1 ops = 90 ∧ sumBal (run H0 S0 k0 st0 ops).1 a1 [user, svc, gsA] = 90 ∧
    netCustody H0 S0 k0 st0 canon ops = 25 ∧ balOf (run H0 S0 k0 st0 ops).1 canon svc = 25 := by
  decide +kernel

end NonVacuity

end Cgp.Props.C05
