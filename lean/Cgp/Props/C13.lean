/-
  Property C13 — outbound calls are announced exactly, and only under the sender's authority.
-/
import Cgp.GatewaySpec
import Cgp.Toy
namespace Cgp.Props.C13
open Cgp Cgp.Xdr Cgp.Gateway

variable (H : Bytes → Bytes) {σ : Type} (V : Bytes → Bytes → σ → Bool)

/-- the announcement: (sender, destination chain, destination address, hash of the payload) as topics, the payload as data -/
def announcement (caller : Addr) (chain dest payload : Bytes) : Event :=
  { topics := [.sym symContractCalled, .addr caller, .str chain, .str dest, .bytes (H payload)], data := .bytes payload }

/-- authorised ⇒ exactly one announcement carrying exactly these fields, and the state is untouched -/
theorem callContract_event (w : World) (auths : List Addr) (caller : Addr) (chain dest payload : Bytes)
    (hauth : caller ∈ auths) :
    step H V w (.callContract auths caller chain dest payload) = (w, .ok [announcement H caller chain dest payload]) := by
  simp [step, callContract, hauth, announcement]

/-- not authorised ⇒ rejected, nothing emitted, state untouched -/
theorem callContract_unauth (w : World) (auths : List Addr) (caller : Addr) (chain dest payload : Bytes)
    (hauth : caller ∉ auths) :
    step H V w (.callContract auths caller chain dest payload) = (w, .err .unauthorized) := by
  simp [step, callContract, hauth]

/-- success ⇔ the named sender authorised the call -/
theorem callContract_ok_iff (w : World) (auths : List Addr) (caller : Addr) (chain dest payload : Bytes) :
    (∃ evs, (step H V w (.callContract auths caller chain dest payload)).2 = .ok evs) ↔ caller ∈ auths := by
  by_cases h : caller ∈ auths
  · simp [callContract_event H V w auths caller chain dest payload h, h]
  · simp [callContract_unauth H V w auths caller chain dest payload h, h]

/-- over any history, outbound calls never change the contract state: a history consisting of outbound calls only
    (authorised or not) ends in the state it started from -/
theorem callContract_history_inert (w : World) (ops : List (Op σ))
    (hall : ∀ op ∈ ops, ∃ auths caller chain dest payload, op = .callContract auths caller chain dest payload) :
    (run H V w ops).1 = w := by
  induction ops generalizing w with
  | nil => rfl
  | cons op ops ih =>
    obtain ⟨auths, caller, chain, dest, payload, rfl⟩ := hall _ (List.mem_cons_self)
    have hrest : ∀ op ∈ ops, ∃ auths caller chain dest payload, op = Op.callContract auths caller chain dest payload :=
      fun op h => hall op (List.mem_cons_of_mem _ h)
    have hs : (step H V w (.callContract auths caller chain dest payload)).1 = w := by
      by_cases h : caller ∈ auths
      · rw [callContract_event H V w auths caller chain dest payload h]
      · rw [callContract_unauth H V w auths caller chain dest payload h]
    simp only [run]
    rw [show (step H V w (Op.callContract auths caller chain dest payload)) =
      ((step H V w (Op.callContract auths caller chain dest payload)).1, (step H V w (Op.callContract auths caller chain dest payload)).2) from rfl]
    simp only [hs]
    exact ih w hrest

/-- the announced hash is a function of the payload alone: two announcements with the same hash field have the same
    payload or exhibit a collision -/
theorem announcement_hash_binds (caller caller' : Addr) (chain dest payload chain' dest' payload' : Bytes)
    (h : (announcement H caller chain dest payload).topics = (announcement H caller' chain' dest' payload').topics) :
    payload = payload' ∨ Collision H := by
  simp only [announcement, List.cons.injEq, ScVal.bytes.injEq] at h
  by_cases hp : payload = payload'
  · exact Or.inl hp
  · exact Or.inr ⟨payload, payload', hp, h.2.2.2.2.1⟩

/-- non-vacuity: an authorised call in a concrete world -/
example : ∃ evs, (step (fun b => b) (fun _ _ (_ : Unit) => true)
    ⟨initState ⟨true, []⟩ ⟨true, []⟩ [] 0 0, 0⟩ (.callContract [⟨true, [1]⟩] ⟨true, [1]⟩ [] [] [7])).2 = .ok evs ∧ evs.length = 1 := by
  rw [callContract_event _ _ _ _ _ _ _ _ (by simp)]
  exact ⟨_, rfl, rfl⟩

/-! ### non-vacuity (the model RUN in the kernel on a concrete history, toy hash) -/
/-- the announcement does not look at the migration window: between the owner's `upgrade` and `migrate` a call is accepted,
    refused and announced exactly as at any other time (and it leaves the window as it is) -/
theorem announcement_ignores_migration_window (st : State) (b : Bool) (auths : List Addr) (caller : Addr)
    (chain dest payload : Bytes) :
    (match callContract H { st with migrating := b } auths caller chain dest payload with
      | .ok (st', evs) => some (evs, st'.migrating)
      | .error _ => none) =
    (match callContract H st auths caller chain dest payload with
      | .ok (_, evs) => some (evs, b)
      | .error _ => none) := by
  unfold callContract
  by_cases h : caller ∈ auths <;> simp [h]

section NonVacuity
open Cgp.Toy

def app0 : Addr := ⟨true, List.replicate 32 9⟩
def mA : Message := ⟨[97], [49], [98], app0, List.replicate 32 3⟩
def opsO : List (Op Unit) :=
  [ .callContract [app0] app0 [100] [101] [1, 2, 3],      -- the sender's authorisation: announced
    .callContract [] app0 [100] [101] [1, 2, 3],          -- none: rejected
    .callContract [owner0, app0] app0 [100] [102] [] ]    -- announced

/-- the hypothesis of `callContract_history_inert` is satisfiable on a world with content: on a constructed gateway (epoch 1)
    that has approved a message, a history of outbound calls — two authorised, one not — emits exactly one event per authorised
    call and leaves the approval record, the epoch, the signer lookup, the rotation clock and the ledger time as they were -/
theorem callContract_history_nonvacuous :
    ∃ w0, constructed H0 owner0 owner0 [1] 0 0 [ws0] 5 = some w0 ∧
      (∀ op ∈ opsO, ∃ auths caller chain dest payload, op = .callContract auths caller chain dest payload) ∧
      (run H0 V0 w0 [.approve [mA] pf0]).1.st.approvals [97] [49] = .approved (messageHash H0 mA) ∧
      (run H0 V0 w0 [.approve [mA] pf0]).1.st.epoch = 1 ∧
      (run H0 V0 (run H0 V0 w0 [.approve [mA] pf0]).1 opsO).2.map gwErr = [none, some .unauthorized, none] ∧
      (run H0 V0 (run H0 V0 w0 [.approve [mA] pf0]).1 opsO).2.map gwEvents = [1, 0, 1] ∧
      (run H0 V0 (run H0 V0 w0 [.approve [mA] pf0]).1 opsO).1.st.approvals [97] [49] = .approved (messageHash H0 mA) ∧
      (run H0 V0 (run H0 V0 w0 [.approve [mA] pf0]).1 opsO).1.st.epoch = 1 ∧
      (run H0 V0 (run H0 V0 w0 [.approve [mA] pf0]).1 opsO).1.st.epochByHash (signersHash H0 ws0) = some 1 ∧
      (run H0 V0 (run H0 V0 w0 [.approve [mA] pf0]).1 opsO).1.st.lastRot = some 5 ∧
      (run H0 V0 (run H0 V0 w0 [.approve [mA] pf0]).1 opsO).1.now = 5 := by
  refine ⟨_, rfl, ?_, ?_⟩
  · intro op h
    simp only [opsO, List.mem_cons, List.not_mem_nil, or_false] at h
    rcases h with rfl | rfl | rfl <;> exact ⟨_, _, _, _, _, rfl⟩
  · decide +kernel

/-- a history with calls INSIDE the migration window: the owner upgrades, an authorised call is announced (one event), an
    unauthorised one is refused, the owner migrates, a call is announced again; a migration with no open window is refused -/
theorem window_history_nonvacuous :
    ∃ w0, constructed H0 owner0 owner0 [1] 0 0 [ws0] 5 = some w0 ∧
      (run H0 V0 w0 [.migrate [owner0], .upgrade [owner0], .callContract [app0] app0 [100] [101] [1, 2, 3],
          .callContract [] app0 [100] [101] [1, 2, 3], .migrate [owner0], .callContract [app0] app0 [100] [101] [7]]).2.map gwErr =
        [some .migrationNotAllowed, none, none, some .unauthorized, none, none] ∧
      (run H0 V0 w0 [.migrate [owner0], .upgrade [owner0], .callContract [app0] app0 [100] [101] [1, 2, 3],
          .callContract [] app0 [100] [101] [1, 2, 3], .migrate [owner0], .callContract [app0] app0 [100] [101] [7]]).2.map gwEvents =
        [0, 0, 1, 0, 0, 1] := by
  refine ⟨_, rfl, ?_⟩
  decide +kernel

end NonVacuity

end Cgp.Props.C13
