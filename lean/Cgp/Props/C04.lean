/-
  Property C04 — the token service acts only on approved, well-formed hub messages from trusted chains.
  Statements are FIXED: prove them exactly as stated (helper lemmas go above them or in Cgp/Proofs/C04.lean).
  You may import and reuse the already proved files Cgp.Props.C10 / Cgp.Proofs.C10 (ABI round trip and canonicity),
  Cgp.Props.C02 / Cgp.Proofs.C02 (gateway message status).
-/
import Cgp.ItsOps
import Cgp.Props.C10
import Cgp.Proofs.C04
import Cgp.System
import Cgp.Props.C01
import Cgp.Props.C02
import Cgp.Props.C03
import Cgp.Toy
namespace Cgp.Props.C04
open Cgp Cgp.Xdr Cgp.Its

variable (H : Bytes → Bytes) (S : Bytes → Bytes) (k : Consts)

/-- the gateway message the service claims to be executing -/
def claimed (st : State) (c i sa payload : Bytes) : Gateway.Message :=
  { sourceChain := c, messageId := i, sourceAddress := sa, contract := st.self, payloadHash := H payload }

/-- acceptance needs an unexecuted gateway approval of EXACTLY this payload for the service … -/
theorem execute_needs_approval (st : State) (c i sa payload : Bytes) (r : State × List Event)
    (h : execute H S k st c i sa payload = .ok r) :
    st.gw.approvals c i = .approved (Gateway.messageHash H (claimed H st c i sa payload)) := by
  exact (Cgp.Proofs.C04.execute_inv H S k h).1

/-- … and consumes it … -/
theorem execute_consumes (st st' : State) (c i sa payload : Bytes) (evs : List Event)
    (h : execute H S k st c i sa payload = .ok (st', evs)) :
    st'.gw.approvals c i = .executed ∧
    (∀ c' i', ¬ (c' = c ∧ i' = i) → st'.gw.approvals c' i' = st.gw.approvals c' i') := by
  have h4 : st'.gw = _ := (Cgp.Proofs.C04.execute_inv H S k h).2.2.2.1
  rw [h4]
  constructor
  · simp [Cgp.Proofs.C04.consumed]
  · intro c' i' hne
    simp [Cgp.Proofs.C04.consumed, hne]

/-- … so each message takes effect at most once: after a successful delivery the same (chain, id) can never be
    delivered again, whatever source address or payload is presented -/
theorem execute_once (st st' : State) (c i sa payload : Bytes) (evs : List Event)
    (h : execute H S k st c i sa payload = .ok (st', evs)) (sa2 payload2 : Bytes) :
    ∃ e, execute H S k st' c i sa2 payload2 = .error e := by
  have hx : st'.gw.approvals c i = .executed := (execute_consumes H S k st st' c i sa payload evs h).1
  cases h2 : execute H S k st' c i sa2 payload2 with
  | error e => exact ⟨e, rfl⟩
  | ok r =>
    have := (Cgp.Proofs.C04.execute_inv H S k h2).1
    rw [hx] at this
    cases this

/-- what a delivered payload must be for the service to act: hub chain, a CANONICAL receive-from-hub wrapper (re-encoding
    reproduces the payload exactly, so truncated or padded payloads are out) around a supported message, naming a
    currently trusted origin chain; for transfers a registered token, a decodable recipient and an amount in range; for
    deployments a free id, representable metadata and a decodable minter -/
theorem execute_conditions (st : State) (c i sa payload : Bytes) (r : State × List Event)
    (h : execute H S k st c i sa payload = .ok r) :
    c = k.hubChain ∧
    ∃ origin inner, Abi.decodeHub payload = .ok (.receiveFromHub origin inner) ∧
      Abi.encodeHub (.receiveFromHub origin inner) = .ok payload ∧
      st.trusted origin = true ∧
      (match inner with
       | .transfer t => (st.registry t.tokenId).isSome = true ∧ (addrFromXdr t.dest).isSome = true ∧
                        0 ≤ t.amount ∧ t.amount < 2 ^ 127
       | .deploy d => st.registry d.tokenId = none ∧ validMetadata d.name d.symbol d.decimals = true ∧
                      (∀ m, d.minter = some m → (addrFromXdr m).isSome = true)) := by
  obtain ⟨_, _, hc, _, origin, inner, hdec, htr, hin⟩ := Cgp.Proofs.C04.execute_inv H S k h
  obtain ⟨henc, hwf, _⟩ := Cgp.Props.C10.decodeHub_canonical payload _ hdec
  refine ⟨hc, origin, inner, hdec, henc, htr, ?_⟩
  cases inner with
  | transfer t =>
    have hw : (Abi.Msg.transfer t).wf := hwf.2
    exact ⟨hin.1, hin.2, hw.2.1, hw.2.2⟩
  | deploy d => exact hin

/-- every rejected delivery leaves all balances, token registrations and the gateway's approval record untouched -/
theorem execute_rejected_unchanged (st : State) (c i sa payload : Bytes) (e : Err)
    (h : (step H S k st (.execute c i sa payload)).2 = .err e) :
    (step H S k st (.execute c i sa payload)).1 = st := by
  show (wrapEv st (execute H S k st c i sa payload)).1 = st
  have h' : (wrapEv st (execute H S k st c i sa payload)).2 = .err e := h
  cases hx : execute H S k st c i sa payload with
  | error e' => rfl
  | ok r => rw [hx] at h'; cases h'

/-- untrusted origin, wrong source chain, unknown token: rejected -/
theorem execute_rejects (st : State) (c i sa payload : Bytes) :
    (c ≠ k.hubChain → ∃ e, execute H S k st c i sa payload = .error e) ∧
    (∀ origin inner, Abi.decodeHub payload = .ok (.receiveFromHub origin inner) → st.trusted origin = false →
        ∃ e, execute H S k st c i sa payload = .error e) ∧
    (∀ origin t, Abi.decodeHub payload = .ok (.receiveFromHub origin (.transfer t)) → st.registry t.tokenId = none →
        ∃ e, execute H S k st c i sa payload = .error e) ∧
    (∀ chain inner, Abi.decodeHub payload = .ok (.sendToHub chain inner) → ∃ e, execute H S k st c i sa payload = .error e) := by
  refine ⟨?_, ?_, ?_, ?_⟩
  · intro hne
    cases hx : execute H S k st c i sa payload with
    | error e => exact ⟨e, rfl⟩
    | ok r => exact absurd (Cgp.Proofs.C04.execute_inv H S k hx).2.2.1 hne
  · intro origin inner hd hu
    cases hx : execute H S k st c i sa payload with
    | error e => exact ⟨e, rfl⟩
    | ok r =>
      obtain ⟨_, _, _, _, o', i', hdec, htr, _⟩ := Cgp.Proofs.C04.execute_inv H S k hx
      rw [hd] at hdec
      cases hdec
      rw [hu] at htr
      cases htr
  · intro origin t hd hu
    cases hx : execute H S k st c i sa payload with
    | error e => exact ⟨e, rfl⟩
    | ok r =>
      obtain ⟨_, _, _, _, o', i', hdec, _, hin⟩ := Cgp.Proofs.C04.execute_inv H S k hx
      rw [hd] at hdec
      cases hdec
      have := hin.1
      rw [hu] at this
      cases this
  · intro chain inner hd
    cases hx : execute H S k st c i sa payload with
    | error e => exact ⟨e, rfl⟩
    | ok r =>
      obtain ⟨_, _, _, _, o', i', hdec, _, _⟩ := Cgp.Proofs.C04.execute_inv H S k hx
      rw [hd] at hdec
      cases hdec

/-- successful deliveries in a history, per (chain, id) -/
def deliveries (c i : Bytes) : List Op → List Obs → Nat
  | (.execute c' i' _ _) :: ops, (.ok _) :: os => deliveries c i ops os + (if c' = c ∧ i' = i then 1 else 0)
  | _ :: ops, _ :: os => deliveries c i ops os
  | _, _ => 0

/-- gateway activity that respects the gateway's own discipline: an executed message stays executed -/
def Monotone (f : Gateway.State → Gateway.State) : Prop :=
  ∀ g c i, g.approvals c i = .executed → (f g).approvals c i = .executed

def GatewayOk : Op → Prop
  | .gateway f => Monotone f
  | _ => True

/-- contribution of one step to `deliveries` -/
def hit (c i : Bytes) : Op → Obs → Nat
  | .execute c' i' _ _, .ok _ => if c' = c ∧ i' = i then 1 else 0
  | _, _ => 0

theorem deliveries_cons (c i : Bytes) (op : Op) (ops : List Op) (o : Obs) (os : List Obs) :
    deliveries c i (op :: ops) (o :: os) = deliveries c i ops os + hit c i op o := by
  cases op <;> cases o <;> simp [deliveries, hit]

theorem run_cons_snd (st : State) (op : Op) (ops : List Op) :
    (run H S k st (op :: ops)).2 = (step H S k st op).2 :: (run H S k (step H S k st op).1 ops).2 := rfl

/-- an executed message stays executed under every step -/
theorem step_keeps_executed (st : State) (op : Op) (c i : Bytes) (hop : GatewayOk op)
    (hx : st.gw.approvals c i = .executed) : (step H S k st op).1.gw.approvals c i = .executed := by
  by_cases hg : ∃ f, op = .gateway f
  · obtain ⟨f, rfl⟩ := hg
    exact hop st.gw c i hx
  · by_cases he : ∃ c' i' sa p, op = .execute c' i' sa p
    · obtain ⟨c', i', sa, p, rfl⟩ := he
      rcases Cgp.Proofs.C04.step_execute H S k st c' i' sa p with ⟨_, h2⟩ | ⟨_, h2, _⟩
      · rw [h2]; exact hx
      · rw [h2]
        simp only [Cgp.Proofs.C04.consumed]
        split
        · rfl
        · exact hx
    · rw [Cgp.Proofs.C04.step_gw H S k st op (fun c' i' sa p h => he ⟨c', i', sa, p, h⟩) (fun f h => hg ⟨f, h⟩)]
      exact hx

/-- a successful delivery of `(c, i)` needs it not yet executed, and leaves it executed -/
theorem hit_step (st : State) (op : Op) (c i : Bytes) (hh : hit c i op (step H S k st op).2 ≠ 0) :
    st.gw.approvals c i ≠ .executed ∧ (step H S k st op).1.gw.approvals c i = .executed := by
  cases op with
  | execute c' i' sa p =>
    rcases Cgp.Proofs.C04.step_execute H S k st c' i' sa p with ⟨⟨e, h1⟩, _⟩ | ⟨⟨evs, h1⟩, h2, hh3, h3⟩
    · rw [h1] at hh; simp [hit] at hh
    · rw [h1] at hh
      simp only [hit] at hh
      split at hh
      · rename_i hci
        obtain ⟨rfl, rfl⟩ := hci
        refine ⟨(by rw [h3]; intro hc; cases hc), ?_⟩
        rw [h2]; simp [Cgp.Proofs.C04.consumed]
      · exact absurd rfl hh
  | _ => simp [hit] at hh

theorem effect_aux (c i : Bytes) (ops : List Op) : ∀ st : State, (∀ op ∈ ops, GatewayOk op) →
    deliveries c i ops (run H S k st ops).2 ≤ 1 ∧
    (st.gw.approvals c i = .executed → deliveries c i ops (run H S k st ops).2 = 0) := by
  induction ops with
  | nil => intro st _; simp [deliveries]
  | cons op ops ih =>
    intro st hg
    have hop : GatewayOk op := hg op (by simp)
    obtain ⟨ih1, ih2⟩ := ih (step H S k st op).1 (fun o ho => hg o (by simp [ho]))
    rw [run_cons_snd, deliveries_cons]
    by_cases hh : hit c i op (step H S k st op).2 = 0
    · rw [hh]
      refine ⟨by omega, fun hx => ?_⟩
      have := ih2 (step_keeps_executed H S k st op c i hop hx)
      omega
    · obtain ⟨h1, h2⟩ := hit_step H S k st op c i hh
      have h0 := ih2 h2
      have hle : hit c i op (step H S k st op).2 ≤ 1 := by
        cases op <;> cases (step H S k st _).2 <;> simp [hit] <;> split <;> omega
      refine ⟨by omega, fun hx => absurd hx h1⟩

/-- **exactly once over every history** (the gateway never un-executes a message — proved for the real gateway in C02) -/
theorem effect_at_most_once (st : State) (ops : List Op) (c i : Bytes) (hg : ∀ op ∈ ops, GatewayOk op) :
    deliveries c i ops (run H S k st ops).2 ≤ 1 := by
  exact (effect_aux H S k c i ops st hg).1

/-- THE HUB ADDRESS IS NEVER COMPARED (known finding): the acceptance of a delivery does not depend on the configured hub
    address at all — changing it changes nothing about whether a delivery is accepted -/
theorem hub_address_not_checked (st : State) (other : Bytes) (c i sa payload : Bytes) :
    (∃ r, execute H S k st c i sa payload = .ok r) ↔
    (∃ r, execute H S k { st with hubAddress := other } c i sa payload = .ok r) := by
  have key := Cgp.Proofs.C04.execute_hub H S k other st c i sa payload
  change execute H S k { st with hubAddress := other } c i sa payload = _ at key
  rw [key]
  cases execute H S k st c i sa payload with
  | error e => exact ⟨fun ⟨_, h⟩ => (by cases h), fun ⟨_, h⟩ => (by cases h)⟩
  | ok r => exact ⟨fun _ => ⟨_, rfl⟩, fun _ => ⟨_, rfl⟩⟩

/-! ### end to end: the service inside the whole system (gateway operations are the gateway model's own) -/

section SystemLevel
variable {σ : Type} (V : Bytes → Bytes → σ → Bool)

/-- the system starts with a freshly constructed gateway (typed initial signer sets) inside -/
def Started (w0 : System.World) : Prop :=
  ∃ (owner operator : Addr) (domain : Bytes) (minDelay retention : Nat) (sets : List Gateway.WSigners),
    (∀ ws ∈ sets, ws.Typed) ∧
    Gateway.constructed H owner operator domain minDelay retention sets w0.now = some ⟨w0.its.gw, w0.now⟩

/-! #### helpers: what one system step does to the gateway state held inside the service -/

theorem sys_step_its (w : System.World) (op : Op) (hng : ∀ f, op ≠ .gateway f) :
    System.step H S V k w (.its op) =
      ({ w with its := (step H S k w.its op).1 }, .its (step H S k w.its op).2) := by
  cases op <;> first | rfl | exact absurd rfl (hng _)

theorem sys_trace_cons (w : System.World) (op : System.Op σ) (ops : List (System.Op σ)) :
    System.trace H S V k w (op :: ops) =
      (w, op, (System.step H S V k w op).2) :: System.trace H S V k (System.step H S V k w op).1 ops := rfl

/-- a delivery to the service either fails and changes nothing, or succeeds, found the approval of exactly the
    claimed message, and consumed it -/
theorem sys_execute_cases (w : System.World) (c i sa p : Bytes) :
    ((∃ e, (System.step H S V k w (.its (.execute c i sa p))).2 = .its (.err e)) ∧
      (System.step H S V k w (.its (.execute c i sa p))).1 = w) ∨
    (∃ evs, (System.step H S V k w (.its (.execute c i sa p))).2 = .its (.ok evs) ∧
      (System.step H S V k w (.its (.execute c i sa p))).1.its.gw = Cgp.Proofs.C04.consumed w.its.gw c i ∧
      w.its.gw.approvals c i = .approved (Gateway.messageHash H (claimed H w.its c i sa p)) ∧
      (System.step H S V k w (.its (.execute c i sa p))).1.now = w.now) := by
  rw [sys_step_its H S k V w _ (by intro f hf; cases hf)]
  have hstep : step H S k w.its (.execute c i sa p) = wrapEv w.its (execute H S k w.its c i sa p) := rfl
  rw [hstep]
  cases hx : execute H S k w.its c i sa p with
  | error e => exact Or.inl ⟨⟨e, rfl⟩, rfl⟩
  | ok r =>
    have hi := Cgp.Proofs.C04.execute_inv H S k hx
    exact Or.inr ⟨r.2, rfl, hi.2.2.2.1, hi.1, rfl⟩

/-- every service operation leaves the gateway state alone or consumes one approval; the clock is untouched -/
theorem sys_its_gw (w : System.World) (op : Op) :
    (System.step H S V k w (.its op)).1.now = w.now ∧
    ((System.step H S V k w (.its op)).1.its.gw = w.its.gw ∨
     ∃ c i, (System.step H S V k w (.its op)).1.its.gw = Cgp.Proofs.C04.consumed w.its.gw c i) := by
  by_cases hg : ∃ f, op = .gateway f
  · obtain ⟨f, rfl⟩ := hg
    exact ⟨rfl, Or.inl rfl⟩
  · by_cases he : ∃ c' i' sa p, op = .execute c' i' sa p
    · obtain ⟨c', i', sa, p, rfl⟩ := he
      rcases sys_execute_cases H S k V w c' i' sa p with ⟨_, h2⟩ | ⟨evs, _, h2, _, h3⟩
      · rw [h2]; exact ⟨rfl, Or.inl rfl⟩
      · exact ⟨h3, Or.inr ⟨c', i', h2⟩⟩
    · rw [sys_step_its H S k V w op (fun f h => hg ⟨f, h⟩)]
      refine ⟨rfl, Or.inl ?_⟩
      exact Cgp.Proofs.C04.step_gw H S k w.its op (fun c' i' sa p h => he ⟨c', i', sa, p, h⟩) (fun f h => hg ⟨f, h⟩)

theorem service_keeps_gateway_auth_aux (w : System.World) (op : Its.Op) :
    (System.step H S V k w (.its op)).1.its.gw.epoch = w.its.gw.epoch ∧
    (System.step H S V k w (.its op)).1.its.gw.hashByEpoch = w.its.gw.hashByEpoch ∧
    (System.step H S V k w (.its op)).1.its.gw.epochByHash = w.its.gw.epochByHash ∧
    (System.step H S V k w (.its op)).1.its.gw.owner = w.its.gw.owner ∧
    (System.step H S V k w (.its op)).1.its.gw.operator = w.its.gw.operator ∧
    (System.step H S V k w (.its op)).1.its.gw.lastRot = w.its.gw.lastRot ∧
    (System.step H S V k w (.its op)).1.now = w.now := by
  obtain ⟨h1, h2 | ⟨c, i, h2⟩⟩ := sys_its_gw H S k V w op
  · rw [h2]; exact ⟨rfl, rfl, rfl, rfl, rfl, rfl, h1⟩
  · rw [h2]; exact ⟨rfl, rfl, rfl, rfl, rfl, rfl, h1⟩

/-- every typed system step preserves the gateway invariant of C01 -/
theorem sys_step_inv (w : System.World) (op : System.Op σ) (hty : System.TypedOp op)
    (hinv : Cgp.Props.C01.AInv H w.its.gw) :
    Cgp.Props.C01.AInv H (System.step H S V k w op).1.its.gw := by
  cases op with
  | gw g => exact Cgp.Props.C01.AInv_step H V ⟨w.its.gw, w.now⟩ g hty hinv
  | its io =>
    obtain ⟨_, h2 | ⟨c, i, h2⟩⟩ := sys_its_gw H S k V w io
    · rw [h2]; exact hinv
    · rw [h2]; exact Cgp.Props.C01.AInv_sameAuth H _ _ hinv ⟨rfl, rfl, rfl, rfl⟩

/-- one system step: an `approved h` record after the step was there before, or the step was a successful
    `approve_messages` with a valid proof whose batch contains a message with that key and hash -/
theorem sys_step_approved (w : System.World) (op : System.Op σ) (hty : System.TypedOp op)
    (hinv : Cgp.Props.C01.AInv H w.its.gw) (c i h : Bytes)
    (h1 : (System.step H S V k w op).1.its.gw.approvals c i = .approved h) :
    w.its.gw.approvals c i = .approved h ∨
    (∃ ms proof gevs m, op = .gw (.approve ms proof) ∧ (System.step H S V k w op).2 = .gw (.ok gevs) ∧ m ∈ ms ∧
        m.sourceChain = c ∧ m.messageId = i ∧ Gateway.messageHash H m = h ∧
        Gateway.ProofValid H V w.its.gw (Gateway.approveDataHash H ms) proof) ∨ Gateway.Collision H := by
  cases op with
  | gw g =>
    rcases Cgp.Props.C01.step_approved H V ⟨w.its.gw, w.now⟩ g hty hinv c i h h1 with
      h2 | ⟨ms, proof, evs, m, rfl, hobs, hr⟩ | hcol
    · exact Or.inl h2
    · refine Or.inr (Or.inl ⟨ms, proof, evs, m, rfl, ?_, hr⟩)
      show System.Obs.gw (Gateway.step H V ⟨w.its.gw, w.now⟩ (.approve ms proof)).2 = _
      rw [hobs]
    · exact Or.inr (Or.inr hcol)
  | its io =>
    left
    obtain ⟨_, h2 | ⟨c', i', h2⟩⟩ := sys_its_gw H S k V w io
    · rw [h2] at h1; exact h1
    · rw [h2] at h1
      simp only [Cgp.Proofs.C04.consumed] at h1
      split at h1
      · cases h1
      · exact h1

theorem sys_trace_signed (ops : List (System.Op σ)) : ∀ (w0 : System.World), Cgp.Props.C01.AInv H w0.its.gw →
    (∀ op ∈ ops, System.TypedOp op) →
    ∀ (pre post : List (System.World × System.Op σ × System.Obs)) (w : System.World)
      (c i sa payload : Bytes) (evs : List Event),
    System.trace H S V k w0 ops = pre ++ (w, .its (.execute c i sa payload), .its (.ok evs)) :: post →
    w0.its.gw.approvals c i = .approved (Gateway.messageHash H (claimed H w.its c i sa payload)) ∨
    (∃ wa ms proof gevs m,
        (wa, System.Op.gw (.approve ms proof), System.Obs.gw (.ok gevs)) ∈ pre ∧ m ∈ ms ∧
        m.sourceChain = c ∧ m.messageId = i ∧
        Gateway.messageHash H m = Gateway.messageHash H (claimed H w.its c i sa payload) ∧
        Gateway.ProofValid H V wa.its.gw (Gateway.approveDataHash H ms) proof)
    ∨ Gateway.Collision H := by
  induction ops with
  | nil =>
    intro w0 _ _ pre post w c i sa payload evs ht
    simp [System.trace] at ht
  | cons op ops ih =>
    intro w0 hinv hty pre post w c i sa payload evs ht
    rw [sys_trace_cons] at ht
    have hop : System.TypedOp op := hty op List.mem_cons_self
    cases pre with
    | nil =>
      simp only [List.nil_append, List.cons.injEq, Prod.mk.injEq] at ht
      obtain ⟨⟨rfl, rfl, hb⟩, _⟩ := ht
      rcases sys_execute_cases H S k V w0 c i sa payload with ⟨⟨e, he⟩, _⟩ | ⟨evs', _, _, h3, _⟩
      · rw [he] at hb; cases hb
      · exact Or.inl h3
    | cons e pre' =>
      simp only [List.cons_append, List.cons.injEq] at ht
      obtain ⟨rfl, ht⟩ := ht
      rcases ih (System.step H S V k w0 op).1 (sys_step_inv H S k V w0 op hop hinv)
          (fun o ho => hty o (List.mem_cons_of_mem _ ho)) pre' post w c i sa payload evs ht with
        h1 | ⟨wa, ms, proof, gevs, m, hmem, hr⟩ | hcol
      · rcases sys_step_approved H S k V w0 op hop hinv c i _ h1 with h2 | ⟨ms, proof, gevs, m, rfl, hobs, hr⟩ | hcol
        · exact Or.inl h2
        · refine Or.inr (Or.inl ⟨w0, ms, proof, gevs, m, ?_, hr⟩)
          rw [hobs]
          exact List.mem_cons_self
        · exact Or.inr (Or.inr hcol)
      · exact Or.inr (Or.inl ⟨wa, ms, proof, gevs, m, List.mem_cons_of_mem _ hmem, hr⟩)
      · exact Or.inr (Or.inr hcol)

/-- **every delivery the service acts on was signed**: in every history of the whole system that starts from a freshly
    constructed gateway, each successful `execute` is preceded by a successful `approve_messages` call whose batch
    contains a message with this (chain, id) and the same message hash as the delivery the service claims to be
    executing, and whose proof was valid at that moment — signatures of a registered, still-retained signer set with
    combined weight reaching its threshold over the digest binding domain, set and batch (`ProofValid`, C01) — or a
    hash collision is exhibited. -/
theorem delivery_was_signed (w0 : System.World) (hs : Started H w0) (ops : List (System.Op σ))
    (hty : ∀ op ∈ ops, System.TypedOp op)
    (pre post : List (System.World × System.Op σ × System.Obs)) (w : System.World)
    (c i sa payload : Bytes) (evs : List Event)
    (ht : System.trace H S V k w0 ops = pre ++ (w, .its (.execute c i sa payload), .its (.ok evs)) :: post) :
    (∃ wa ms proof gevs m,
        (wa, System.Op.gw (.approve ms proof), System.Obs.gw (.ok gevs)) ∈ pre ∧ m ∈ ms ∧
        m.sourceChain = c ∧ m.messageId = i ∧
        Gateway.messageHash H m = Gateway.messageHash H (claimed H w.its c i sa payload) ∧
        Gateway.ProofValid H V wa.its.gw (Gateway.approveDataHash H ms) proof)
    ∨ Gateway.Collision H := by
  obtain ⟨owner, operator, domain, minDelay, retention, sets, hsets, hc⟩ := hs
  have hinv := Cgp.Props.C01.AInv_constructed H owner operator domain minDelay retention sets w0.now
    ⟨w0.its.gw, w0.now⟩ hsets hc
  have h0 := Cgp.Props.C01.constructed_no_approvals H owner operator domain minDelay retention sets w0.now
    ⟨w0.its.gw, w0.now⟩ hc c i
  rcases sys_trace_signed H S k V ops w0 hinv hty pre post w c i sa payload evs ht with h1 | h1
  · rw [h0] at h1; cases h1
  · exact h1


/-- successful deliveries of (chain, id) in a system history -/
def sysDeliveries (c i : Bytes) : List (System.World × System.Op σ × System.Obs) → Nat
  | (_, .its (.execute c' i' _ _), .its (.ok _)) :: t => sysDeliveries c i t + (if c' = c ∧ i' = i then 1 else 0)
  | _ :: t => sysDeliveries c i t
  | [] => 0

/-- contribution of one history entry to `sysDeliveries` -/
def sysHit (c i : Bytes) : System.Op σ → System.Obs → Nat
  | .its (.execute c' i' _ _), .its (.ok _) => if c' = c ∧ i' = i then 1 else 0
  | _, _ => 0

theorem sysDeliveries_cons (c i : Bytes) (w : System.World) (op : System.Op σ) (o : System.Obs)
    (t : List (System.World × System.Op σ × System.Obs)) :
    sysDeliveries c i ((w, op, o) :: t) = sysDeliveries c i t + sysHit c i op o := by
  cases op with
  | gw g => simp [sysDeliveries, sysHit]
  | its io =>
    cases io <;> cases o <;> (try (rename_i oo; cases oo)) <;> simp [sysDeliveries, sysHit]

/-- an executed message stays executed under every system step -/
theorem sys_keeps_executed (w : System.World) (op : System.Op σ) (c i : Bytes)
    (hx : w.its.gw.approvals c i = .executed) :
    (System.step H S V k w op).1.its.gw.approvals c i = .executed := by
  cases op with
  | gw g => exact Cgp.Proofs.C02.step_executed H V ⟨w.its.gw, w.now⟩ g c i hx
  | its io =>
    obtain ⟨_, h2 | ⟨c', i', h2⟩⟩ := sys_its_gw H S k V w io
    · rw [h2]; exact hx
    · rw [h2]
      simp only [Cgp.Proofs.C04.consumed]
      split
      · rfl
      · exact hx

/-- a successful delivery of `(c, i)` needs it not yet executed, and leaves it executed -/
theorem sys_hit_step (w : System.World) (op : System.Op σ) (c i : Bytes)
    (hh : sysHit c i op (System.step H S V k w op).2 ≠ 0) :
    w.its.gw.approvals c i ≠ .executed ∧ (System.step H S V k w op).1.its.gw.approvals c i = .executed ∧
    sysHit c i op (System.step H S V k w op).2 = 1 := by
  cases op with
  | gw g => simp [sysHit] at hh
  | its io =>
    cases io with
    | execute c' i' sa p =>
      rcases sys_execute_cases H S k V w c' i' sa p with ⟨⟨e, h1⟩, _⟩ | ⟨evs, h1, h2, h3, _⟩
      · rw [h1] at hh; simp [sysHit] at hh
      · rw [h1] at hh ⊢
        simp only [sysHit] at hh ⊢
        split at hh
        · rename_i hci
          obtain ⟨rfl, rfl⟩ := hci
          refine ⟨(by rw [h3]; intro hc; cases hc), ?_, by simp⟩
          rw [h2]; simp [Cgp.Proofs.C04.consumed]
        · exact absurd rfl hh
    | _ => simp [sysHit] at hh

theorem sys_effect_aux (c i : Bytes) (ops : List (System.Op σ)) : ∀ w0 : System.World,
    sysDeliveries c i (System.trace H S V k w0 ops) ≤ 1 ∧
    (w0.its.gw.approvals c i = .executed → sysDeliveries c i (System.trace H S V k w0 ops) = 0) := by
  induction ops with
  | nil => intro w0; simp [System.trace, sysDeliveries]
  | cons op ops ih =>
    intro w0
    obtain ⟨ih1, ih2⟩ := ih (System.step H S V k w0 op).1
    rw [sys_trace_cons, sysDeliveries_cons]
    by_cases hh : sysHit c i op (System.step H S V k w0 op).2 = 0
    · rw [hh]
      refine ⟨by omega, fun hx => ?_⟩
      have := ih2 (sys_keeps_executed H S k V w0 op c i hx)
      omega
    · obtain ⟨h1, h2, h3⟩ := sys_hit_step H S k V w0 op c i hh
      have h0 := ih2 h2
      refine ⟨by omega, fun hx => absurd hx h1⟩

/-- **exactly once, with the real gateway**: in every history of the whole system (any starting state, any gateway
    operations — approvals, re-approvals, rotations, other applications consuming messages — in between) a (chain, id)
    is delivered to the service at most once. No assumption about the gateway is left: its discipline is C02's theorem. -/
theorem system_effect_at_most_once (w0 : System.World) (ops : List (System.Op σ)) (c i : Bytes) :
    sysDeliveries c i (System.trace H S V k w0 ops) ≤ 1 := by
  exact (sys_effect_aux H S k V c i ops w0).1

/-- what the service does never disturbs the gateway's signer bookkeeping: after any service operation the gateway's
    epoch, signer lookups, owner, operator and clock are what they were -/
theorem service_keeps_gateway_auth (w : System.World) (op : Its.Op) :
    let w' := (System.step H S V k w (.its op)).1
    w'.its.gw.epoch = w.its.gw.epoch ∧ w'.its.gw.hashByEpoch = w.its.gw.hashByEpoch ∧
    w'.its.gw.epochByHash = w.its.gw.epochByHash ∧ w'.its.gw.owner = w.its.gw.owner ∧
    w'.its.gw.operator = w.its.gw.operator ∧ w'.its.gw.lastRot = w.its.gw.lastRot ∧ w'.now = w.now := by
  exact service_keeps_gateway_auth_aux H S k V w op

end SystemLevel

/-! ### non-vacuity (the composite model RUN in the kernel on a concrete history, toy hash) -/
section NonVacuity
open Cgp.Toy

def k0 : Consts := ⟨[104], [1], [2], [3], [4]⟩
def svc : Addr := ⟨true, List.replicate 32 8⟩
def its0 (gw : Gateway.State) : State :=
  { self := svc, owner := owner0, gatewayAddr := ⟨true, List.replicate 32 6⟩, gasService := ⟨true, List.replicate 32 5⟩,
    hubAddress := [120], chainName := [115], trusted := fun c => c == [101], registry := fun _ => none, gw := gw,
    tokens := fun _ => none, executable := fun _ => false }
/-- a canonical remote-deployment message from the trusted chain "e" -/
def payload0 : Bytes :=
  match Abi.encodeHub (.receiveFromHub [101] (.deploy ⟨List.replicate 32 5, [84], [84], 6, none⟩)) with
  | .ok b => b
  | .error _ => []
def mI : Gateway.Message := ⟨[104], [49], [120], svc, H0 payload0⟩
def isOk : System.Obs → Bool
  | .gw (.ok _) => true
  | .its (.ok _) => true
  | _ => false

/-- the hypotheses of `delivery_was_signed` are satisfiable: on a freshly constructed gateway, a signed approval followed by
    the delivery of a remote-deployment message to the service — both succeed in the composite model, and a second
    delivery of the same message is refused -/
theorem delivery_was_signed_nonvacuous :
    ∃ g0, Gateway.constructed H0 owner0 owner0 [1] 0 0 [ws0] 5 = some g0 ∧
      ((System.trace H0 S0 V0 k0 ⟨its0 g0.st, 5⟩
          [.gw (.approve [mI] pf0), .its (.execute [104] [49] [120] payload0), .its (.execute [104] [49] [120] payload0)]).map
            (fun t => isOk t.2.2)) = [true, true, false] := by
  refine ⟨_, rfl, ?_⟩
  decide +kernel

end NonVacuity

end Cgp.Props.C04
