/-
  Property C04 — the token service acts only on approved, well-formed hub messages from trusted chains.
  Statements are FIXED: prove them exactly as stated (helper lemmas go above them or in Cgp/Proofs/C04.lean).
  You may import and reuse the already proved files Cgp.Props.C10 / Cgp.Proofs.C10 (ABI round trip and canonicity),
  Cgp.Props.C02 / Cgp.Proofs.C02 (gateway message status).
-/
import Cgp.ItsOps
import Cgp.Props.C10
import Cgp.Proofs.C04
namespace Cgp.Props.C04
open Cgp Cgp.Xdr Cgp.Its

variable (H : Bytes → Bytes) (S : Bytes → Bytes) (k : Consts)

/-- the gateway message the service claims to be executing -/
def claimed (st : State) (c i sa payload : Bytes) : Gateway.Message :=
  { sourceChain := c, messageId := i, sourceAddress := sa, contract := st.self, payloadHash := H payload }

/-- acceptance needs an unexecuted gateway approval of EXACTLY this payload for the service … -/
theorem execute_needs_approval (st : State) (c i sa payload : Bytes) (r : State × List Event)
    (h : execute H S k st c i sa payload = .ok r) :
    st.gw.approvals c i = .approved (Gateway.messageHash H (claimed H st c i sa payload)) := by
  exact (Cgp.Proofs.C04.execute_inv H S k h).1

/-- … and consumes it … -/
theorem execute_consumes (st st' : State) (c i sa payload : Bytes) (evs : List Event)
    (h : execute H S k st c i sa payload = .ok (st', evs)) :
    st'.gw.approvals c i = .executed ∧
    (∀ c' i', ¬ (c' = c ∧ i' = i) → st'.gw.approvals c' i' = st.gw.approvals c' i') := by
  have h4 : st'.gw = _ := (Cgp.Proofs.C04.execute_inv H S k h).2.2.2.1
  rw [h4]
  constructor
  · simp [Cgp.Proofs.C04.consumed]
  · intro c' i' hne
    simp [Cgp.Proofs.C04.consumed, hne]

/-- … so each message takes effect at most once: after a successful delivery the same (chain, id) can never be
    delivered again, whatever source address or payload is presented -/
theorem execute_once (st st' : State) (c i sa payload : Bytes) (evs : List Event)
    (h : execute H S k st c i sa payload = .ok (st', evs)) (sa2 payload2 : Bytes) :
    ∃ e, execute H S k st' c i sa2 payload2 = .error e := by
  have hx : st'.gw.approvals c i = .executed := (execute_consumes H S k st st' c i sa payload evs h).1
  cases h2 : execute H S k st' c i sa2 payload2 with
  | error e => exact ⟨e, rfl⟩
  | ok r =>
    have := (Cgp.Proofs.C04.execute_inv H S k h2).1
    rw [hx] at this
    cases this

/-- what a delivered payload must be for the service to act: hub chain, a CANONICAL receive-from-hub wrapper (re-encoding
    reproduces the payload exactly, so truncated or padded payloads are out) around a supported message, naming a
    currently trusted origin chain; for transfers a registered token, a decodable recipient and an amount in range; for
    deployments a free id, representable metadata and a decodable minter -/
theorem execute_conditions (st : State) (c i sa payload : Bytes) (r : State × List Event)
    (h : execute H S k st c i sa payload = .ok r) :
    c = k.hubChain ∧
    ∃ origin inner, Abi.decodeHub payload = .ok (.receiveFromHub origin inner) ∧
      Abi.encodeHub (.receiveFromHub origin inner) = .ok payload ∧
      st.trusted origin = true ∧
      (match inner with
       | .transfer t => (st.registry t.tokenId).isSome = true ∧ (addrFromXdr t.dest).isSome = true ∧
                        0 ≤ t.amount ∧ t.amount < 2 ^ 127
       | .deploy d => st.registry d.tokenId = none ∧ validMetadata d.name d.symbol d.decimals = true ∧
                      (∀ m, d.minter = some m → (addrFromXdr m).isSome = true)) := by
  obtain ⟨_, _, hc, _, origin, inner, hdec, htr, hin⟩ := Cgp.Proofs.C04.execute_inv H S k h
  obtain ⟨henc, hwf, _⟩ := Cgp.Props.C10.decodeHub_canonical payload _ hdec
  refine ⟨hc, origin, inner, hdec, henc, htr, ?_⟩
  cases inner with
  | transfer t =>
    have hw : (Abi.Msg.transfer t).wf := hwf.2
    exact ⟨hin.1, hin.2, hw.2.1, hw.2.2⟩
  | deploy d => exact hin

/-- every rejected delivery leaves all balances, token registrations and the gateway's approval record untouched -/
theorem execute_rejected_unchanged (st : State) (c i sa payload : Bytes) (e : Err)
    (h : (step H S k st (.execute c i sa payload)).2 = .err e) :
    (step H S k st (.execute c i sa payload)).1 = st := by
  show (wrapEv st (execute H S k st c i sa payload)).1 = st
  have h' : (wrapEv st (execute H S k st c i sa payload)).2 = .err e := h
  cases hx : execute H S k st c i sa payload with
  | error e' => rfl
  | ok r => rw [hx] at h'; cases h'

/-- untrusted origin, wrong source chain, unknown token: rejected -/
theorem execute_rejects (st : State) (c i sa payload : Bytes) :
    (c ≠ k.hubChain → ∃ e, execute H S k st c i sa payload = .error e) ∧
    (∀ origin inner, Abi.decodeHub payload = .ok (.receiveFromHub origin inner) → st.trusted origin = false →
        ∃ e, execute H S k st c i sa payload = .error e) ∧
    (∀ origin t, Abi.decodeHub payload = .ok (.receiveFromHub origin (.transfer t)) → st.registry t.tokenId = none →
        ∃ e, execute H S k st c i sa payload = .error e) ∧
    (∀ chain inner, Abi.decodeHub payload = .ok (.sendToHub chain inner) → ∃ e, execute H S k st c i sa payload = .error e) := by
  refine ⟨?_, ?_, ?_, ?_⟩
  · intro hne
    cases hx : execute H S k st c i sa payload with
    | error e => exact ⟨e, rfl⟩
    | ok r => exact absurd (Cgp.Proofs.C04.execute_inv H S k hx).2.2.1 hne
  · intro origin inner hd hu
    cases hx : execute H S k st c i sa payload with
    | error e => exact ⟨e, rfl⟩
    | ok r =>
      obtain ⟨_, _, _, _, o', i', hdec, htr, _⟩ := Cgp.Proofs.C04.execute_inv H S k hx
      rw [hd] at hdec
      cases hdec
      rw [hu] at htr
      cases htr
  · intro origin t hd hu
    cases hx : execute H S k st c i sa payload with
    | error e => exact ⟨e, rfl⟩
    | ok r =>
      obtain ⟨_, _, _, _, o', i', hdec, _, hin⟩ := Cgp.Proofs.C04.execute_inv H S k hx
      rw [hd] at hdec
      cases hdec
      have := hin.1
      rw [hu] at this
      cases this
  · intro chain inner hd
    cases hx : execute H S k st c i sa payload with
    | error e => exact ⟨e, rfl⟩
    | ok r =>
      obtain ⟨_, _, _, _, o', i', hdec, _, _⟩ := Cgp.Proofs.C04.execute_inv H S k hx
      rw [hd] at hdec
      cases hdec

/-- successful deliveries in a history, per (chain, id) -/
def deliveries (c i : Bytes) : List Op → List Obs → Nat
  | (.execute c' i' _ _) :: ops, (.ok _) :: os => deliveries c i ops os + (if c' = c ∧ i' = i then 1 else 0)
  | _ :: ops, _ :: os => deliveries c i ops os
  | _, _ => 0

/-- gateway activity that respects the gateway's own discipline: an executed message stays executed -/
def Monotone (f : Gateway.State → Gateway.State) : Prop :=
  ∀ g c i, g.approvals c i = .executed → (f g).approvals c i = .executed

def GatewayOk : Op → Prop
  | .gateway f => Monotone f
  | _ => True

/-- contribution of one step to `deliveries` -/
def hit (c i : Bytes) : Op → Obs → Nat
  | .execute c' i' _ _, .ok _ => if c' = c ∧ i' = i then 1 else 0
  | _, _ => 0

theorem deliveries_cons (c i : Bytes) (op : Op) (ops : List Op) (o : Obs) (os : List Obs) :
    deliveries c i (op :: ops) (o :: os) = deliveries c i ops os + hit c i op o := by
  cases op <;> cases o <;> simp [deliveries, hit]

theorem run_cons_snd (st : State) (op : Op) (ops : List Op) :
    (run H S k st (op :: ops)).2 = (step H S k st op).2 :: (run H S k (step H S k st op).1 ops).2 := rfl

/-- an executed message stays executed under every step -/
theorem step_keeps_executed (st : State) (op : Op) (c i : Bytes) (hop : GatewayOk op)
    (hx : st.gw.approvals c i = .executed) : (step H S k st op).1.gw.approvals c i = .executed := by
  by_cases hg : ∃ f, op = .gateway f
  · obtain ⟨f, rfl⟩ := hg
    exact hop st.gw c i hx
  · by_cases he : ∃ c' i' sa p, op = .execute c' i' sa p
    · obtain ⟨c', i', sa, p, rfl⟩ := he
      rcases Cgp.Proofs.C04.step_execute H S k st c' i' sa p with ⟨_, h2⟩ | ⟨_, h2, _⟩
      · rw [h2]; exact hx
      · rw [h2]
        simp only [Cgp.Proofs.C04.consumed]
        split
        · rfl
        · exact hx
    · rw [Cgp.Proofs.C04.step_gw H S k st op (fun c' i' sa p h => he ⟨c', i', sa, p, h⟩) (fun f h => hg ⟨f, h⟩)]
      exact hx

/-- a successful delivery of `(c, i)` needs it not yet executed, and leaves it executed -/
theorem hit_step (st : State) (op : Op) (c i : Bytes) (hh : hit c i op (step H S k st op).2 ≠ 0) :
    st.gw.approvals c i ≠ .executed ∧ (step H S k st op).1.gw.approvals c i = .executed := by
  cases op with
  | execute c' i' sa p =>
    rcases Cgp.Proofs.C04.step_execute H S k st c' i' sa p with ⟨⟨e, h1⟩, _⟩ | ⟨⟨evs, h1⟩, h2, hh3, h3⟩
    · rw [h1] at hh; simp [hit] at hh
    · rw [h1] at hh
      simp only [hit] at hh
      split at hh
      · rename_i hci
        obtain ⟨rfl, rfl⟩ := hci
        refine ⟨(by rw [h3]; intro hc; cases hc), ?_⟩
        rw [h2]; simp [Cgp.Proofs.C04.consumed]
      · exact absurd rfl hh
  | _ => simp [hit] at hh

theorem effect_aux (c i : Bytes) (ops : List Op) : ∀ st : State, (∀ op ∈ ops, GatewayOk op) →
    deliveries c i ops (run H S k st ops).2 ≤ 1 ∧
    (st.gw.approvals c i = .executed → deliveries c i ops (run H S k st ops).2 = 0) := by
  induction ops with
  | nil => intro st _; simp [deliveries]
  | cons op ops ih =>
    intro st hg
    have hop : GatewayOk op := hg op (by simp)
    obtain ⟨ih1, ih2⟩ := ih (step H S k st op).1 (fun o ho => hg o (by simp [ho]))
    rw [run_cons_snd, deliveries_cons]
    by_cases hh : hit c i op (step H S k st op).2 = 0
    · rw [hh]
      refine ⟨by omega, fun hx => ?_⟩
      have := ih2 (step_keeps_executed H S k st op c i hop hx)
      omega
    · obtain ⟨h1, h2⟩ := hit_step H S k st op c i hh
      have h0 := ih2 h2
      have hle : hit c i op (step H S k st op).2 ≤ 1 := by
        cases op <;> cases (step H S k st _).2 <;> simp [hit] <;> split <;> omega
      refine ⟨by omega, fun hx => absurd hx h1⟩

/-- **exactly once over every history** (the gateway never un-executes a message — proved for the real gateway in C02) -/
theorem effect_at_most_once (st : State) (ops : List Op) (c i : Bytes) (hg : ∀ op ∈ ops, GatewayOk op) :
    deliveries c i ops (run H S k st ops).2 ≤ 1 := by
  exact (effect_aux H S k c i ops st hg).1

/-- THE HUB ADDRESS IS NEVER COMPARED (known finding): the acceptance of a delivery does not depend on the configured hub
    address at all — changing it changes nothing about whether a delivery is accepted -/
theorem hub_address_not_checked (st : State) (other : Bytes) (c i sa payload : Bytes) :
    (∃ r, execute H S k st c i sa payload = .ok r) ↔
    (∃ r, execute H S k { st with hubAddress := other } c i sa payload = .ok r) := by
  have key := Cgp.Proofs.C04.execute_hub H S k other st c i sa payload
  change execute H S k { st with hubAddress := other } c i sa payload = _ at key
  rw [key]
  cases execute H S k st c i sa payload with
  | error e => exact ⟨fun ⟨_, h⟩ => (by cases h), fun ⟨_, h⟩ => (by cases h)⟩
  | ok r => exact ⟨fun _ => ⟨_, rfl⟩, fun _ => ⟨_, rfl⟩⟩

end Cgp.Props.C04
