/-
  Property C09 — rotations are rate-limited unless the operator bypasses the delay.
  Statements are FIXED: prove them exactly as stated (helper lemmas go above them or in Cgp/Proofs/C09.lean).
-/
import Cgp.GatewaySpec
import Cgp.Toy
namespace Cgp.Props.C09
open Cgp Cgp.Xdr Cgp.Gateway

variable (H : Bytes → Bytes) {σ : Type} (V : Bytes → Bytes → σ → Bool)


/-! ### helper lemmas -/

theorem inner_ok (st : State) (ws : WSigners) (enforce : Bool) (now : Nat) (r : State × Event)
    (h : rotateSignersInner H st ws enforce now = .ok r) :
    r.1.lastRot = some now ∧ r.1.minDelay = st.minDelay ∧ r.1.operator = st.operator ∧
    (enforce = true → st.lastRot.getD 0 ≤ now ∧ st.minDelay ≤ now - st.lastRot.getD 0) := by
  unfold rotateSignersInner at h
  split at h
  · cases h
  · simp only at h
    split at h
    · cases h
    · split at h
      · cases h
      · split at h
        · cases h
        · cases h
          refine ⟨rfl, rfl, rfl, ?_⟩
          intro he
          subst he
          simp_all

theorem inner_false_ok_iff (st : State) (ws : WSigners) (now : Nat) :
    (∃ r, rotateSignersInner H st ws false now = .ok r) ↔
    (validateSigners ws = .ok () ∧ (st.epochByHash (signersHash H ws)).isSome = false) := by
  unfold rotateSignersInner
  split
  · rename_i e he
    simp [he]
  · rename_i he
    simp only [he, Bool.false_eq_true, false_and, if_false, true_and]
    cases hd : (st.epochByHash (signersHash H ws)).isSome <;> simp

theorem rotate_ok_inv (st : State) (auths : List Addr) (ws : WSigners) (proof : Proof σ) (bypass : Bool) (now : Nat)
    (r : State × List Event) (h : rotateSigners H V st auths ws proof bypass now = .ok r) :
    (bypass = true → st.operator ∈ auths) ∧
    ∃ ev, rotateSignersInner H st ws (!bypass) now = .ok (r.1, ev) := by
  unfold rotateSigners at h
  split at h
  · cases h
  · rename_i hb
    split at h
    · cases h
    · split at h
      · cases h
      · split at h
        · cases h
        · rename_i st' ev hin
          cases h
          refine ⟨?_, ev, hin⟩
          intro hb'
          subst hb'
          simpa using hb

theorem approveLoop_pres (ms : List Message) (st : State) :
    (approveLoop H ms st).1.lastRot = st.lastRot ∧ (approveLoop H ms st).1.minDelay = st.minDelay ∧
    (approveLoop H ms st).1.operator = st.operator := by
  induction ms generalizing st with
  | nil => simp [approveLoop]
  | cons m rest ih =>
    unfold approveLoop
    split
    · exact ih st
    · simp only
      have := ih { st with approvals := fun c i =>
        if c = m.sourceChain ∧ i = m.messageId then .approved (messageHash H m) else st.approvals c i }
      simpa using this

theorem rotate_true_ok_iff (st : State) (auths : List Addr) (ws : WSigners) (proof : Proof σ) (now : Nat) :
    (∃ r, rotateSigners H V st auths ws proof true now = .ok r) ↔
    (st.operator ∈ auths ∧ (∃ b, validateProof H V st (rotateDataHash H ws) proof = .ok b) ∧
      ∃ r, rotateSignersInner H st ws false now = .ok r) := by
  unfold rotateSigners
  by_cases hop : st.operator ∈ auths
  · simp only [hop, not_true_eq_false, and_false, if_false, true_and, Bool.true_or, Bool.not_true,
      Bool.false_eq_true]
    cases hv : validateProof H V st (rotateDataHash H ws) proof with
    | error e => simp
    | ok b =>
      cases hin : rotateSignersInner H st ws false now with
      | error e => simp
      | ok r => simp
  · simp [hop]

theorem initSets_inv (now : Nat) (sets : List WSigners) (st : State) (r : State × List Event)
    (h : initSets H now sets st = .ok r) :
    r.1.minDelay = st.minDelay ∧ (r.1.lastRot = some now ∨ (sets = [] ∧ r.1.lastRot = st.lastRot)) := by
  induction sets generalizing st r with
  | nil =>
    simp only [initSets] at h
    cases h
    simp
  | cons ws rest ih =>
    unfold initSets at h
    split at h
    · cases h
    · rename_i st' ev hin
      split at h
      · cases h
      · rename_i st'' evs hrest
        cases h
        have h1 := inner_ok H st ws false now _ hin
        have h2 := ih st' _ hrest
        refine ⟨by simp only at h1 h2 ⊢; rw [h2.1, h1.2.1], Or.inl ?_⟩
        rcases h2.2 with h3 | ⟨_, h3⟩
        · exact h3
        · simp only at h3 h1 ⊢; rw [h3, h1.1]

theorem approveMessages_pres (st : State) (ms : List Message) (proof : Proof σ) (r : State × List Event)
    (h : approveMessages H V st ms proof = .ok r) :
    r.1.lastRot = st.lastRot ∧ r.1.minDelay = st.minDelay ∧ r.1.operator = st.operator := by
  unfold approveMessages at h
  split at h
  · cases h
  · split at h
    · cases h
    · cases h
      exact approveLoop_pres H ms st

theorem validateMessage_pres (st : State) (auths : List Addr) (caller : Addr) (chain id src ph : Bytes)
    (r : State × Bool × List Event) (h : validateMessage H st auths caller chain id src ph = .ok r) :
    r.1.lastRot = st.lastRot ∧ r.1.minDelay = st.minDelay ∧ r.1.operator = st.operator := by
  unfold validateMessage at h
  split at h
  · cases h
  · simp only at h
    split at h
    · cases h; exact ⟨rfl, rfl, rfl⟩
    · cases h; exact ⟨rfl, rfl, rfl⟩

theorem callContract_pres (st : State) (auths : List Addr) (caller : Addr) (chain dest payload : Bytes)
    (r : State × List Event) (h : callContract H st auths caller chain dest payload = .ok r) :
    r.1 = st := by
  unfold callContract at h
  split at h
  · cases h
  · cases h; rfl

theorem transferOwnership_pres (st : State) (auths : List Addr) (new : Addr)
    (r : State × List Event) (h : transferOwnership st auths new = .ok r) :
    r.1.lastRot = st.lastRot ∧ r.1.minDelay = st.minDelay ∧ r.1.operator = st.operator := by
  unfold transferOwnership at h
  split at h
  · cases h
  · cases h; exact ⟨rfl, rfl, rfl⟩

theorem transferOperatorship_pres (st : State) (auths : List Addr) (new : Addr)
    (r : State × List Event) (h : transferOperatorship st auths new = .ok r) :
    r.1.lastRot = st.lastRot ∧ r.1.minDelay = st.minDelay ∧ st.operator ∈ auths ∧ r.1.operator = new := by
  unfold transferOperatorship at h
  split at h
  · cases h
  · rename_i hop
    cases h; exact ⟨rfl, rfl, by simpa using hop, rfl⟩

theorem rotate_pres (st : State) (auths : List Addr) (ws : WSigners) (proof : Proof σ) (bypass : Bool) (now : Nat)
    (r : State × List Event) (h : rotateSigners H V st auths ws proof bypass now = .ok r) :
    r.1.lastRot = some now ∧ r.1.minDelay = st.minDelay ∧ r.1.operator = st.operator := by
  obtain ⟨_, ev, hin⟩ := rotate_ok_inv H V st auths ws proof bypass now _ h
  have := inner_ok H st ws _ now _ hin
  exact ⟨this.1, this.2.1, this.2.2.1⟩

/-- a non-bypass rotation succeeds only if at least `minDelay` has elapsed since the recorded last rotation -/
theorem nonbypass_delay (st : State) (auths : List Addr) (ws : WSigners) (proof : Proof σ) (now : Nat)
    (r : State × List Event) (h : rotateSigners H V st auths ws proof false now = .ok r) :
    st.lastRot.getD 0 ≤ now ∧ st.minDelay ≤ now - st.lastRot.getD 0 := by
  obtain ⟨_, ev, hin⟩ := rotate_ok_inv H V st auths ws proof false now r h
  exact (inner_ok H st ws _ now _ hin).2.2.2 rfl

/-- a bypass rotation needs the current operator's authorisation -/
theorem bypass_needs_operator (st : State) (auths : List Addr) (ws : WSigners) (proof : Proof σ) (now : Nat)
    (r : State × List Event) (h : rotateSigners H V st auths ws proof true now = .ok r) :
    st.operator ∈ auths := by
  exact (rotate_ok_inv H V st auths ws proof true now r h).1 rfl

/-- a bypass rotation ignores the clock entirely: its outcome's success does not depend on `now` -/
theorem bypass_ignores_delay (st : State) (auths : List Addr) (ws : WSigners) (proof : Proof σ) (now now' : Nat) :
    (∃ r, rotateSigners H V st auths ws proof true now = .ok r) ↔
    (∃ r, rotateSigners H V st auths ws proof true now' = .ok r) := by
  rw [rotate_true_ok_iff, rotate_true_ok_iff, inner_false_ok_iff, inner_false_ok_iff]

/-- every successful rotation, bypass or not, restarts the clock at the current time -/
theorem success_restarts_clock (st st' : State) (auths : List Addr) (ws : WSigners) (proof : Proof σ) (bypass : Bool)
    (now : Nat) (evs : List Event) (h : rotateSigners H V st auths ws proof bypass now = .ok (st', evs)) :
    st'.lastRot = some now := by
  obtain ⟨_, ev, hin⟩ := rotate_ok_inv H V st auths ws proof bypass now _ h
  exact (inner_ok H st ws _ now _ hin).1

/-- deployment counts as a rotation: after construction the clock reads the construction time -/
theorem construct_starts_clock (owner operator : Addr) (domain : Bytes) (minDelay retention : Nat) (sets : List WSigners)
    (now : Nat) (st : State) (evs : List Event)
    (h : construct H owner operator domain minDelay retention sets now = .ok (st, evs)) :
    st.lastRot = some now ∧ st.minDelay = minDelay := by
  unfold construct at h
  split at h
  · cases h
  · rename_i hne
    have := initSets_inv H now sets _ _ h
    refine ⟨?_, this.1⟩
    rcases this.2 with h1 | ⟨h1, _⟩
    · exact h1
    · subst h1; simp at hne

/-- the time of the most recent successful rotation in a history (or `t0` if none) -/
def lastSuccess (t0 now0 : Nat) : List (Op σ) → List Obs → Nat × Nat   -- (last success time, current clock)
  | (.rotate _ _ _ _) :: ops, (.ok _) :: os => lastSuccess now0 now0 ops os
  | (.setTime t) :: ops, _ :: os => lastSuccess t0 t ops os
  | _ :: ops, _ :: os => lastSuccess t0 now0 ops os
  | _, _ => (t0, now0)

theorem step_clock (w : World) (op : Op σ) (t0 : Nat) (h0 : w.st.lastRot = some t0) :
    ∃ t, (step H V w op).1.st.lastRot = some t ∧ (step H V w op).1.st.minDelay = w.st.minDelay ∧
      ∀ ops os, lastSuccess t0 w.now (op :: ops) ((step H V w op).2 :: os) =
        lastSuccess t (step H V w op).1.now ops os := by
  cases op with
  | approve ms proof =>
    simp only [step]
    cases hr : approveMessages H V w.st ms proof with
    | error e => exact ⟨t0, h0, rfl, fun ops os => by simp [lastSuccess]⟩
    | ok r =>
      have := approveMessages_pres H V _ _ _ _ hr
      exact ⟨t0, by simp only; rw [this.1, h0], this.2.1, fun ops os => by simp [lastSuccess]⟩
  | rotate auths ws proof bypass =>
    simp only [step]
    cases hr : rotateSigners H V w.st auths ws proof bypass w.now with
    | error e => exact ⟨t0, h0, rfl, fun ops os => by simp [lastSuccess]⟩
    | ok r =>
      have := rotate_pres H V _ _ _ _ _ _ _ hr
      exact ⟨w.now, this.1, this.2.1, fun ops os => by simp [lastSuccess]⟩
  | validateMessage auths caller chain id src ph =>
    simp only [step]
    cases hr : Gateway.validateMessage H w.st auths caller chain id src ph with
    | error e => exact ⟨t0, h0, rfl, fun ops os => by simp [lastSuccess]⟩
    | ok r =>
      have := validateMessage_pres H _ _ _ _ _ _ _ _ hr
      exact ⟨t0, by simp only; rw [this.1, h0], this.2.1, fun ops os => by simp [lastSuccess]⟩
  | callContract auths caller chain dest payload =>
    simp only [step]
    cases hr : Gateway.callContract H w.st auths caller chain dest payload with
    | error e => exact ⟨t0, h0, rfl, fun ops os => by simp [lastSuccess]⟩
    | ok r =>
      have := callContract_pres H _ _ _ _ _ _ _ hr
      exact ⟨t0, by simp only; rw [this, h0], by simp only; rw [this], fun ops os => by simp [lastSuccess]⟩
  | transferOwnership auths new =>
    simp only [step]
    cases hr : Gateway.transferOwnership w.st auths new with
    | error e => exact ⟨t0, h0, rfl, fun ops os => by simp [lastSuccess]⟩
    | ok r =>
      have := transferOwnership_pres _ _ _ _ hr
      exact ⟨t0, by simp only; rw [this.1, h0], this.2.1, fun ops os => by simp [lastSuccess]⟩
  | transferOperatorship auths new =>
    simp only [step]
    cases hr : Gateway.transferOperatorship w.st auths new with
    | error e => exact ⟨t0, h0, rfl, fun ops os => by simp [lastSuccess]⟩
    | ok r =>
      have := transferOperatorship_pres _ _ _ _ hr
      exact ⟨t0, by simp only; rw [this.1, h0], this.2.1, fun ops os => by simp [lastSuccess]⟩
  | setTime t =>
    exact ⟨t0, h0, rfl, fun ops os => by simp [step, lastSuccess]⟩
  | upgrade auths =>
    obtain ⟨b, hb⟩ := step_upgrade_fst H V w auths
    rw [hb]
    exact ⟨t0, h0, rfl, fun ops os => by simp [lastSuccess]⟩
  | migrate auths =>
    obtain ⟨b, hb⟩ := step_migrate_fst H V w auths
    rw [hb]
    exact ⟨t0, h0, rfl, fun ops os => by simp [lastSuccess]⟩

theorem run_cons (w : World) (op : Op σ) (ops : List (Op σ)) :
    run H V w (op :: ops) =
      ((run H V (step H V w op).1 ops).1, (step H V w op).2 :: (run H V (step H V w op).1 ops).2) := rfl

/-- **history invariant**: the recorded clock always equals the time of the most recent successful rotation of any
    kind (deployment counting as one); failed rotations, approvals, and everything else never move it. -/
theorem clock_is_last_success (w : World) (ops : List (Op σ)) (t0 : Nat) (h0 : w.st.lastRot = some t0) :
    (run H V w ops).1.st.lastRot = some (lastSuccess t0 w.now ops (run H V w ops).2).1 ∧
    (run H V w ops).1.now = (lastSuccess t0 w.now ops (run H V w ops).2).2 ∧
    (run H V w ops).1.st.minDelay = w.st.minDelay := by
  induction ops generalizing w t0 with
  | nil => exact ⟨h0, rfl, rfl⟩
  | cons op ops ih =>
    obtain ⟨t, h1, h2, h3⟩ := step_clock H V w op t0 h0
    have := ih (step H V w op).1 t h1
    rw [run_cons]
    simp only
    rw [h3]
    exact ⟨this.1, this.2.1, by rw [this.2.2, h2]⟩

/-- the operator role changes only through a transfer authorised by the current operator -/
theorem operator_step (w : World) (op : Op σ) :
    (step H V w op).1.st.operator = w.st.operator ∨
    (∃ auths new, op = .transferOperatorship auths new ∧ w.st.operator ∈ auths ∧ (step H V w op).1.st.operator = new) := by
  cases op with
  | approve ms proof =>
    left; simp only [step]
    cases hr : approveMessages H V w.st ms proof with
    | error e => rfl
    | ok r => exact (approveMessages_pres H V _ _ _ _ hr).2.2
  | rotate auths ws proof bypass =>
    left; simp only [step]
    cases hr : rotateSigners H V w.st auths ws proof bypass w.now with
    | error e => rfl
    | ok r => exact (rotate_pres H V _ _ _ _ _ _ _ hr).2.2
  | validateMessage auths caller chain id src ph =>
    left; simp only [step]
    cases hr : Gateway.validateMessage H w.st auths caller chain id src ph with
    | error e => rfl
    | ok r => exact (validateMessage_pres H _ _ _ _ _ _ _ _ hr).2.2
  | callContract auths caller chain dest payload =>
    left; simp only [step]
    cases hr : Gateway.callContract H w.st auths caller chain dest payload with
    | error e => rfl
    | ok r => simp only; rw [callContract_pres H _ _ _ _ _ _ _ hr]
  | transferOwnership auths new =>
    left; simp only [step]
    cases hr : Gateway.transferOwnership w.st auths new with
    | error e => rfl
    | ok r => exact (transferOwnership_pres _ _ _ _ hr).2.2
  | transferOperatorship auths new =>
    simp only [step]
    cases hr : Gateway.transferOperatorship w.st auths new with
    | error e => left; rfl
    | ok r =>
      have := transferOperatorship_pres _ _ _ _ hr
      exact Or.inr ⟨auths, new, rfl, this.2.2.1, this.2.2.2⟩
  | setTime t => left; rfl
  | upgrade auths =>
    left
    obtain ⟨b, hb⟩ := step_upgrade_fst H V w auths
    rw [hb]
  | migrate auths =>
    left
    obtain ⟨b, hb⟩ := step_migrate_fst H V w auths
    rw [hb]

/-! ### non-vacuity (the model RUN in the kernel on a concrete history, toy hash) -/
/-- the two administrative entry points every upgradable contract has — `upgrade` (here: to the same code) and `migrate` —
    leave the rotation clock, the configured delay and the ledger clock exactly as they were, whoever calls them and whether
    they succeed or not: no amount of upgrading re-opens or shortens a rate-limit window (the history theorems above range
    over these two operations as well) -/
theorem admin_steps_keep_clock (w : World) (auths : List Addr) :
    (step H V w (.upgrade auths)).1.st.lastRot = w.st.lastRot ∧ (step H V w (.upgrade auths)).1.st.minDelay = w.st.minDelay ∧
    (step H V w (.upgrade auths)).1.now = w.now ∧
    (step H V w (.migrate auths)).1.st.lastRot = w.st.lastRot ∧ (step H V w (.migrate auths)).1.st.minDelay = w.st.minDelay ∧
    (step H V w (.migrate auths)).1.now = w.now := by
  obtain ⟨b, hb⟩ := step_upgrade_fst H V w auths
  obtain ⟨c, hc⟩ := step_migrate_fst H V w auths
  rw [hb, hc]
  exact ⟨rfl, rfl, rfl, rfl, rfl, rfl⟩

section NonVacuity
open Cgp.Toy

/-- minimum delay 10, constructed at time 100 -/
def opsT : List (Op Unit) :=
  [ .setTime 109, .rotate [] wsB pf0 false,            -- 9 after deployment: refused
    .setTime 110, .rotate [] wsB pf0 false,            -- 10 after: accepted, the clock reads 110
    .setTime 113, .rotate [] wsC pfB false,            -- inside the window: refused
    .rotate [owner0] wsC pfB true,                     -- bypass authorised by someone who is not the operator: refused
    .rotate [operator0] wsC pfB true,                  -- operator bypass inside the window: accepted, the clock reads 113
    .setTime 122, .rotate [] wsD pfC false,            -- 12 after the last non-bypass rotation but 9 after the bypass: refused
    .setTime 123, .rotate [] wsD pfC false ]           -- 10 after the bypass: accepted

/-- the hypotheses of `clock_is_last_success`, `nonbypass_delay`, `bypass_needs_operator`, `success_restarts_clock` and
    `construct_starts_clock` are satisfiable, and the delay is really enforced: with minimum delay 10, a rotation 9 after
    deployment is refused and one 10 after is accepted; an operator bypass inside the window is accepted (not without the
    operator) and restarts the clock, so that a non-bypass rotation 9 after THE BYPASS is refused and one 10 after is accepted. -/
theorem clock_history_nonvacuous :
    ∃ w0, constructed H0 owner0 operator0 [1] 10 5 [ws0] 100 = some w0 ∧
      (∃ st evs, construct H0 owner0 operator0 [1] 10 5 [ws0] 100 = .ok (st, evs)) ∧
      -- `nonbypass_delay`: a successful non-bypass rotation (at 110, last 100)
      (∃ r, rotateSigners H0 V0 (run H0 V0 w0 (opsT.take 3)).1.st [] wsB pf0 false 110 = .ok r) ∧
      -- `bypass_needs_operator` / `success_restarts_clock`: a successful bypass rotation (at 113, last 110)
      (∃ st' evs, rotateSigners H0 V0 (run H0 V0 w0 (opsT.take 7)).1.st [operator0] wsC pfB true 113 = .ok (st', evs)) ∧
      -- `clock_is_last_success`: its hypothesis, and both sides of its equations along the history
      w0.st.lastRot = some 100 ∧ w0.st.minDelay = 10 ∧ w0.now = 100 ∧
      (run H0 V0 w0 opsT).2.map gwErr =
        [none, some .insufficientRotationDelay, none, none, none, some .insufficientRotationDelay, some .unauthorized, none,
         none, some .insufficientRotationDelay, none, none] ∧
      [2, 4, 6, 8, 10, 12].map (fun n => (run H0 V0 w0 (opsT.take n)).1.st.lastRot) =
        [some 100, some 110, some 110, some 113, some 113, some 123] ∧
      [2, 4, 6, 8, 10, 12].map (fun n => lastSuccess 100 w0.now (opsT.take n) (run H0 V0 w0 (opsT.take n)).2) =
        [(100, 109), (110, 110), (110, 113), (113, 113), (113, 122), (123, 123)] ∧
      (run H0 V0 w0 opsT).1.st.epoch = 4 ∧ (run H0 V0 w0 opsT).1.st.minDelay = 10 := by
  refine ⟨_, rfl, ⟨_, _, rfl⟩, exists_ok_of_isOk _ (by decide +kernel), exists_ok_pair_of_isOk _ (by decide +kernel), ?_⟩
  decide +kernel

/-- a history with the administrative steps INSIDE a delay window (minimum delay 10, deployed at 100): a migration without an
    open window is refused, the operator cannot upgrade, the owner can, the operator cannot migrate, the owner can — and the
    rotation attempted right afterwards (at 105) is still refused for the delay, while the same rotation at 110 goes through -/
theorem migration_history_nonvacuous :
    ∃ w0, constructed H0 owner0 operator0 [1] 10 5 [ws0] 100 = some w0 ∧
      (run H0 V0 w0 [.setTime 105, .migrate [owner0], .upgrade [operator0], .upgrade [owner0], .migrate [operator0],
          .migrate [owner0], .rotate [] wsB pf0 false, .setTime 110, .rotate [] wsB pf0 false]).2.map gwErr =
        [none, some .migrationNotAllowed, some .unauthorized, none, some .unauthorized, none,
         some .insufficientRotationDelay, none, none] := by
  refine ⟨_, rfl, ?_⟩
  decide +kernel

end NonVacuity

end Cgp.Props.C09
