/-
  Property C17 — only current operators act via the operators contract; calls are forwarded intact.
  Statements are FIXED: prove them exactly as stated (helper lemmas go above them or in Cgp/Proofs/C17.lean).
-/
import Cgp.Operators
import Cgp.Toy
namespace Cgp.Props.C17
open Cgp Cgp.Xdr Cgp.Operators

variable {τ : Type} (tgt : Target τ)

/-- a call is forwarded exactly when the caller is a member NOW, has authorised the call, and the target accepts it -/
theorem execute_iff (self : Addr) (st : State) (ts : τ) (auths : List Addr) (o c : Addr) (f : Bytes) (args : List ScVal) :
    (∃ r, execute tgt self st ts auths o c f args = .ok r) ↔
      (o ∈ auths ∧ st.isOp o = true ∧ ∃ r, tgt ts ⟨c, f, args, self⟩ = some r) := by
  unfold execute
  by_cases h1 : o ∈ auths
  · cases h2 : st.isOp o
    · simp [h1]
    · cases h3 : tgt ts ⟨c, f, args, self⟩ with
      | none => simp [h1]
      | some r => obtain ⟨a, b⟩ := r; simp [h1]
  · simp [h1]

/-- forwarding is exact: the target sees exactly the named contract, function and arguments (with the operators
    contract as the caller), once, and its post-state and return value are handed back unchanged -/
theorem forward_exact (self : Addr) (st : State) (ts ts' : τ) (auths : List Addr) (o c : Addr) (f : Bytes)
    (args : List ScVal) (v : ScVal)
    (h : execute tgt self st ts auths o c f args = .ok (ts', v)) :
    tgt ts ⟨c, f, args, self⟩ = some (ts', v) := by
  unfold execute at h
  by_cases h1 : o ∈ auths
  · cases h2 : st.isOp o
    · simp [h1, h2] at h
    · cases h3 : tgt ts ⟨c, f, args, self⟩ with
      | none => simp [h1, h2, h3] at h
      | some r =>
        obtain ⟨a, b⟩ := r
        simp [h1, h2, h3] at h
        simp [h.1, h.2]
  · simp [h1] at h

/-- if the target fails the whole call fails and nothing changes (neither the operators contract nor the target) -/
theorem target_failure_aborts (w : World τ) (auths : List Addr) (o c : Addr) (f : Bytes) (args : List ScVal)
    (h : tgt w.ts ⟨c, f, args, w.self⟩ = none) :
    (step tgt w (.execute auths o c f args)).1 = w ∧ ∃ e, (step tgt w (.execute auths o c f args)).2 = .err e := by
  simp only [step, execute, h]
  by_cases h1 : o ∈ auths
  · cases h2 : w.st.isOp o <;> simp [h1]
  · simp [h1]

/-- a non-member, or a member who has not authorised the call, never reaches the target: the target state is untouched -/
theorem unauthorised_never_forwards (w : World τ) (auths : List Addr) (o c : Addr) (f : Bytes) (args : List ScVal)
    (h : o ∉ auths ∨ w.st.isOp o = false) :
    (step tgt w (.execute auths o c f args)).1 = w ∧ ∃ e, (step tgt w (.execute auths o c f args)).2 = .err e := by
  simp only [step, execute]
  by_cases h1 : o ∈ auths
  · cases h2 : w.st.isOp o
    · simp [h1]
    · simp [h1, h2] at h
  · simp [h1]

theorem add_iff (st : State) (auths : List Addr) (a : Addr) :
    (∃ r, addOperator st auths a = .ok r) ↔ (st.owner ∈ auths ∧ st.isOp a = false) := by
  unfold addOperator
  by_cases h1 : st.owner ∈ auths
  · cases h2 : st.isOp a <;> simp [h1]
  · simp [h1]

theorem remove_iff (st : State) (auths : List Addr) (a : Addr) :
    (∃ r, removeOperator st auths a = .ok r) ↔ (st.owner ∈ auths ∧ st.isOp a = true) := by
  unfold removeOperator
  by_cases h1 : st.owner ∈ auths
  · cases h2 : st.isOp a <;> simp [h1]
  · simp [h1]

theorem add_effect (st st' : State) (auths : List Addr) (a : Addr) (evs : List Event)
    (h : addOperator st auths a = .ok (st', evs)) :
    st'.isOp a = true ∧ (∀ x, x ≠ a → st'.isOp x = st.isOp x) ∧ st'.owner = st.owner ∧ evs.length = 1 := by
  unfold addOperator at h
  by_cases h1 : st.owner ∈ auths
  · cases h2 : st.isOp a
    · simp [h1, h2] at h
      obtain ⟨hs, he⟩ := h
      subst hs; subst he
      refine ⟨by simp, ?_, rfl, rfl⟩
      intro x hx; simp [hx]
    · simp [h1, h2] at h
  · simp [h1] at h

theorem remove_effect (st st' : State) (auths : List Addr) (a : Addr) (evs : List Event)
    (h : removeOperator st auths a = .ok (st', evs)) :
    st'.isOp a = false ∧ (∀ x, x ≠ a → st'.isOp x = st.isOp x) ∧ st'.owner = st.owner ∧ evs.length = 1 := by
  unfold removeOperator at h
  by_cases h1 : st.owner ∈ auths
  · cases h2 : st.isOp a
    · simp [h1, h2] at h
    · simp [h1, h2] at h
      obtain ⟨hs, he⟩ := h
      subst hs; subst he
      refine ⟨by simp, ?_, rfl, rfl⟩
      intro x hx; simp [hx]
  · simp [h1] at h

/-- membership of `a` implied by a history: the last successful add/remove of `a` decides, else the initial value -/
def memberAfter (a : Addr) (init : Bool) : List Op → List Obs → Bool
  | (.add _ x) :: ops, (.ok _) :: os => memberAfter a (if x = a then true else init) ops os
  | (.remove _ x) :: ops, (.ok _) :: os => memberAfter a (if x = a then false else init) ops os
  | _ :: ops, _ :: os => memberAfter a init ops os
  | _, _ => init

/-- **membership = history**: after any history the set is exactly what the successful adds and removes imply -/
theorem membership_history (w : World τ) (ops : List Op) (a : Addr) :
    (run tgt w ops).1.st.isOp a = memberAfter a (w.st.isOp a) ops (run tgt w ops).2 := by
  induction ops generalizing w with
  | nil => simp [run, memberAfter]
  | cons op ops ih =>
    simp only [run]
    rw [ih]
    cases op with
    | add au x =>
      simp only [step]
      cases hA : addOperator w.st au x with
      | error e => simp [memberAfter]
      | ok r =>
        obtain ⟨st', evs⟩ := r
        have := add_effect _ _ _ _ _ hA
        simp only [memberAfter]
        by_cases hx : x = a
        · subst hx; simp [this.1]
        · simp [hx, this.2.1 a (Ne.symm hx)]
    | remove au x =>
      simp only [step]
      cases hA : removeOperator w.st au x with
      | error e => simp [memberAfter]
      | ok r =>
        obtain ⟨st', evs⟩ := r
        have := remove_effect _ _ _ _ _ hA
        simp only [memberAfter]
        by_cases hx : x = a
        · subst hx; simp [this.1]
        · simp [hx, this.2.1 a (Ne.symm hx)]
    | transferOwnership au n =>
      simp only [step, transferOwnership]
      by_cases h1 : w.st.owner ∈ au <;> simp [h1, memberAfter]
    | execute au o c f args =>
      simp only [step]
      cases hA : execute tgt w.self w.st w.ts au o c f args with
      | error e => simp [memberAfter]
      | ok r => obtain ⟨ts', v⟩ := r; simp [memberAfter]
    | upgradeMigrate au =>
      simp only [step]
      by_cases h1 : w.st.owner ∈ au <;> simp [h1, memberAfter]

/-- the set changes only by the owner's authorised add of an absent address or remove of a present one -/
theorem set_changes_only_by_owner (w : World τ) (op : Op) (a : Addr)
    (h : (step tgt w op).1.st.isOp a ≠ w.st.isOp a) :
    (∃ auths, op = .add auths a ∧ w.st.owner ∈ auths ∧ w.st.isOp a = false) ∨
    (∃ auths, op = .remove auths a ∧ w.st.owner ∈ auths ∧ w.st.isOp a = true) := by
  cases op with
  | add au x =>
    simp only [step] at h
    cases hA : addOperator w.st au x with
    | error e => simp [hA] at h
    | ok r =>
      obtain ⟨st', evs⟩ := r
      have he := add_effect _ _ _ _ _ hA
      have hi := (add_iff w.st au x).1 ⟨_, hA⟩
      simp only [hA] at h
      by_cases hx : x = a
      · subst hx; exact Or.inl ⟨au, rfl, hi.1, hi.2⟩
      · exact absurd (he.2.1 a (Ne.symm hx)) h
  | remove au x =>
    simp only [step] at h
    cases hA : removeOperator w.st au x with
    | error e => simp [hA] at h
    | ok r =>
      obtain ⟨st', evs⟩ := r
      have he := remove_effect _ _ _ _ _ hA
      have hi := (remove_iff w.st au x).1 ⟨_, hA⟩
      simp only [hA] at h
      by_cases hx : x = a
      · subst hx; exact Or.inr ⟨au, rfl, hi.1, hi.2⟩
      · exact absurd (he.2.1 a (Ne.symm hx)) h
  | transferOwnership au n =>
    simp only [step, transferOwnership] at h
    by_cases h1 : w.st.owner ∈ au <;> simp [h1] at h
  | execute au o c f args =>
    simp only [step] at h
    cases hA : execute tgt w.self w.st w.ts au o c f args with
    | error e => simp [hA] at h
    | ok r => obtain ⟨ts', v⟩ := r; simp [hA] at h
  | upgradeMigrate au => exact absurd (by rw [step_upgradeMigrate_fst]) h

/-- forwarding never changes the operators contract's own state; only `execute` can change the target's -/
theorem execute_keeps_state (w : World τ) (auths : List Addr) (o c : Addr) (f : Bytes) (args : List ScVal) :
    (step tgt w (.execute auths o c f args)).1.st = w.st ∧ (step tgt w (.execute auths o c f args)).1.self = w.self := by
  simp only [step]
  cases hA : execute tgt w.self w.st w.ts auths o c f args with
  | error e => simp
  | ok r => obtain ⟨ts', v⟩ := r; simp

theorem target_touched_only_by_execute (w : World τ) (op : Op) (h : (step tgt w op).1.ts ≠ w.ts) :
    ∃ auths o c f args, op = .execute auths o c f args ∧ o ∈ auths ∧ w.st.isOp o = true := by
  cases op with
  | add au x =>
    simp only [step] at h
    cases hA : addOperator w.st au x with
    | error e => simp [hA] at h
    | ok r => obtain ⟨st', evs⟩ := r; simp [hA] at h
  | remove au x =>
    simp only [step] at h
    cases hA : removeOperator w.st au x with
    | error e => simp [hA] at h
    | ok r => obtain ⟨st', evs⟩ := r; simp [hA] at h
  | transferOwnership au n =>
    simp only [step] at h
    cases hA : transferOwnership w.st au n with
    | error e => simp [hA] at h
    | ok r => obtain ⟨st', evs⟩ := r; simp [hA] at h
  | execute au o c f args =>
    simp only [step] at h
    cases hA : execute tgt w.self w.st w.ts au o c f args with
    | error e => simp [hA] at h
    | ok r =>
      have hi := (execute_iff tgt w.self w.st w.ts au o c f args).1 ⟨_, hA⟩
      exact ⟨au, o, c, f, args, rfl, hi.1, hi.2.1⟩
  | upgradeMigrate au => exact absurd (by rw [step_upgradeMigrate_fst]) h

theorem rejected_unchanged (w : World τ) (op : Op) (e : Err) (h : (step tgt w op).2 = .err e) :
    (step tgt w op).1 = w := by
  cases op with
  | add au x =>
    simp only [step] at h ⊢
    cases hA : addOperator w.st au x with
    | error e => simp
    | ok r => obtain ⟨st', evs⟩ := r; simp [hA] at h
  | remove au x =>
    simp only [step] at h ⊢
    cases hA : removeOperator w.st au x with
    | error e => simp
    | ok r => obtain ⟨st', evs⟩ := r; simp [hA] at h
  | transferOwnership au n =>
    simp only [step] at h ⊢
    cases hA : transferOwnership w.st au n with
    | error e => simp
    | ok r => obtain ⟨st', evs⟩ := r; simp [hA] at h
  | execute au o c f args =>
    simp only [step] at h ⊢
    cases hA : execute tgt w.self w.st w.ts au o c f args with
    | error e => simp
    | ok r => obtain ⟨ts', v⟩ := r; simp [hA] at h
  | upgradeMigrate au => exact step_upgradeMigrate_fst tgt w au

/-! ### non-vacuity (the model RUN in the kernel on a concrete history) -/
/-- the owner's administrative step — upgrade to the same code and migration — leaves the operator set, the owner and the
    target untouched, whether it is accepted or refused (the history theorems above range over this operation as well) -/
theorem admin_step_changes_nothing (w : World τ) (auths : List Addr) :
    (step tgt w (.upgradeMigrate auths)).1 = w ∧
    ((step tgt w (.upgradeMigrate auths)).2 = .ok [] ↔ w.st.owner ∈ auths) := by
  refine ⟨step_upgradeMigrate_fst tgt w auths, ?_⟩
  simp only [step]
  split <;> simp_all

section NonVacuity
open Cgp.Toy

def opsAddr : Addr := ⟨true, List.replicate 32 4⟩
def tgtAddr : Addr := ⟨true, List.replicate 32 5⟩
def op1 : Addr := ⟨false, List.replicate 32 11⟩
def op2 : Addr := ⟨false, List.replicate 32 12⟩
def stranger : Addr := ⟨false, List.replicate 32 13⟩
/-- the target: an accumulator at `tgtAddr` with one entry point "f" that only the operators contract may call; it adds its
    argument to its state and returns the new total; anything else traps -/
def tgt0 : Target Nat := fun n call =>
  if call.contract = tgtAddr ∧ call.func = [102] ∧ call.invoker = opsAddr then
    match call.args with
    | [.u64 k] => some (n + k, .u64 (n + k))
    | _ => none
  else none
def w0 : World Nat := { self := opsAddr, st := { owner := owner0, isOp := fun _ => false }, ts := 0 }
def opsH : List Op :=
  [ .execute [op1] op1 tgtAddr [102] [.u64 5],       -- not an operator yet: refused
    .add [stranger] op1,                             -- not the owner: refused
    .add [owner0] op1,
    .add [owner0] op1,                               -- already added: refused
    .execute [op1] op1 tgtAddr [102] [.u64 5],       -- forwarded: the target returns 5
    .execute [] op1 tgtAddr [102] [.u64 5],          -- the operator did not authorise: refused
    .execute [op1] op1 tgtAddr [103] [.u64 5],       -- the target traps: refused
    .execute [op2] op2 tgtAddr [102] [.u64 5],       -- not an operator: refused
    .remove [owner0] op1,
    .execute [op1] op1 tgtAddr [102] [.u64 7],       -- no longer an operator: refused
    .remove [owner0] op1,                            -- not an operator: refused
    .add [owner0] op2,
    .execute [op2] op2 tgtAddr [102] [.u64 7] ]      -- forwarded: the target returns 12
def errOf : Obs → Option Err | .err e => some e | _ => none
def valOf : Obs → Option Nat | .value (.u64 n) => some n | _ => none

/-- `membership_history` and `execute_iff` on a concrete history: an address executes through the contract exactly while it is
    a member — refused before it is added, forwarded (the target's state and return value show it, exactly once) after, refused
    again after it is removed; the membership computed from the history (`memberAfter`) agrees with the state at every point and
    takes both values; the hypotheses of `forward_exact`, `target_failure_aborts`, `unauthorised_never_forwards`,
    `set_changes_only_by_owner`, `target_touched_only_by_execute` and `add_effect` hold at the corresponding calls. -/
theorem operators_history_nonvacuous :
    (run tgt0 w0 opsH).2.map errOf =
      [some .notAnOperator, some .unauthorized, none, some .operatorAlreadyAdded, none, some .unauthorized, some .targetFailed,
       some .notAnOperator, none, some .notAnOperator, some .notAnOperator, none, none] ∧
    (run tgt0 w0 opsH).2.map valOf = [none, none, none, none, some 5, none, none, none, none, none, none, none, some 12] ∧
    (run tgt0 w0 opsH).1.ts = 12 ∧
    [0, 3, 5, 9, 13].map (fun n => (run tgt0 w0 (opsH.take n)).1.st.isOp op1) = [false, true, true, false, false] ∧
    [0, 3, 5, 9, 13].map (fun n => memberAfter op1 (w0.st.isOp op1) (opsH.take n) (run tgt0 w0 (opsH.take n)).2) =
      [false, true, true, false, false] ∧
    [0, 3, 5, 9, 13].map (fun n => (run tgt0 w0 (opsH.take n)).1.st.isOp op2) = [false, false, false, false, true] ∧
    memberAfter op2 (w0.st.isOp op2) opsH (run tgt0 w0 opsH).2 = true ∧
    -- `execute_iff` (right-hand side) and `forward_exact` at the fifth call
    op1 ∈ [op1] ∧ (run tgt0 w0 (opsH.take 4)).1.st.isOp op1 = true ∧
    (tgt0 (run tgt0 w0 (opsH.take 4)).1.ts ⟨tgtAddr, [102], [.u64 5], opsAddr⟩).isSome = true ∧
    (∃ ts' v, execute tgt0 opsAddr (run tgt0 w0 (opsH.take 4)).1.st (run tgt0 w0 (opsH.take 4)).1.ts [op1] op1 tgtAddr [102]
        [.u64 5] = .ok (ts', v)) ∧
    -- `target_failure_aborts` at the seventh
    tgt0 (run tgt0 w0 (opsH.take 6)).1.ts ⟨tgtAddr, [103], [.u64 5], (run tgt0 w0 (opsH.take 6)).1.self⟩ = none ∧
    -- `unauthorised_never_forwards` at the sixth and the tenth
    (op1 ∉ ([] : List Addr) ∨ (run tgt0 w0 (opsH.take 5)).1.st.isOp op1 = false) ∧
    (op1 ∉ [op1] ∨ (run tgt0 w0 (opsH.take 9)).1.st.isOp op1 = false) ∧
    -- `set_changes_only_by_owner` at the third and ninth, `target_touched_only_by_execute` at the fifth
    (step tgt0 (run tgt0 w0 (opsH.take 2)).1 (.add [owner0] op1)).1.st.isOp op1 ≠ (run tgt0 w0 (opsH.take 2)).1.st.isOp op1 ∧
    (step tgt0 (run tgt0 w0 (opsH.take 8)).1 (.remove [owner0] op1)).1.st.isOp op1 ≠ (run tgt0 w0 (opsH.take 8)).1.st.isOp op1 ∧
    (step tgt0 (run tgt0 w0 (opsH.take 4)).1 (.execute [op1] op1 tgtAddr [102] [.u64 5])).1.ts ≠ (run tgt0 w0 (opsH.take 4)).1.ts ∧
    -- `add_effect` / `remove_effect`
    (∃ st' evs, addOperator (run tgt0 w0 (opsH.take 2)).1.st [owner0] op1 = .ok (st', evs)) ∧
    (∃ st' evs, removeOperator (run tgt0 w0 (opsH.take 8)).1.st [owner0] op1 = .ok (st', evs)) := by
  refine ⟨?_, ?_, ?_, ?_, ?_, ?_, ?_, ?_, ?_, ?_, exists_ok_pair_of_isOk _ (by decide +kernel), ?_, ?_, ?_, ?_, ?_, ?_,
    exists_ok_pair_of_isOk _ (by decide +kernel), exists_ok_pair_of_isOk _ (by decide +kernel)⟩ <;> decide +kernel

end NonVacuity

end Cgp.Props.C17
