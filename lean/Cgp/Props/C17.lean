/-
  Property C17 — PLACEHOLDER while the full theorem file (lean/stmts/C17.lean.txt) is being proved.
-/
import Cgp.Operators
namespace Cgp.Props.C17
open Cgp Cgp.Xdr Cgp.Operators

theorem forward_exact {τ : Type} (tgt : Target τ) (self : Addr) (st : State) (ts ts' : τ) (auths : List Addr) (o c : Addr) (f : Bytes)
    (args : List ScVal) (v : ScVal)
    (h : execute tgt self st ts auths o c f args = .ok (ts', v)) :
    tgt ts ⟨c, f, args, self⟩ = some (ts', v) := by
  unfold execute at h
  split at h <;> try simp at h
  split at h <;> try simp at h
  split at h <;> simp_all

end Cgp.Props.C17
