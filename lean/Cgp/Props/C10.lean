/-
  Property C10 — the ITS codec is exact canonical Solidity ABI and never misdecodes.
  Statements are FIXED: prove them exactly as stated (helper lemmas go above them or in Cgp/Proofs/C10.lean).
  A machine-checked proof of the generic round trip for an earlier version of `encAux`/`parseAux` is in
  HINT_abi_roundtrip.lean.txt (same definitions, namespace `Abi`): reuse its structure.
-/
import Cgp.Abi
import Cgp.Proofs.C10
namespace Cgp.Props.C10
open Cgp Cgp.Abi

/-! ### the generic head/tail codec -/

/-- lenient parsing inverts encoding, for EVERY list of fields -/
theorem parse_encode (fs : List Field) (hwf : ∀ f ∈ fs, f.WF) (hsz : (encodeSeq fs).length < 256 ^ 32) :
    parseAux (fs.map kindOf) (encodeSeq fs) (encodeSeq fs) = some fs := by
  exact Cgp.Proofs.C10.parse_encode fs hwf hsz

/-- strict decoding inverts encoding … -/
theorem decodeSeq_encodeSeq (fs : List Field) (hwf : ∀ f ∈ fs, f.WF) (hsz : (encodeSeq fs).length < 256 ^ 32) :
    decodeSeq (fs.map kindOf) (encodeSeq fs) = some fs := by
  exact Cgp.Proofs.C10.decodeSeq_encodeSeq fs hwf hsz

/-- … and accepts ONLY canonical encodings: whenever it succeeds, re-encoding the result reproduces the input exactly -/
theorem decodeSeq_canonical (ks : List Bool) (b : Bytes) (fs : List Field) (h : decodeSeq ks b = some fs) :
    encodeSeq fs = b ∧ fs.map kindOf = ks ∧ (∀ f ∈ fs, ∀ x, f = .w x → x.length = 32) := by
  exact Cgp.Proofs.C10.decodeSeq_canonical ks b fs h

/-! ### messages -/

/-- encoding succeeds exactly for representable messages (a negative amount makes the real encoder panic, invalid
    UTF-8 makes it fail) -/
theorem encodeMsg_ok_iff (m : Msg) :
    (∃ b, encodeMsg m = .ok b) ↔
      (match m with
       | .transfer t => 0 ≤ t.amount
       | .deploy d => validUtf8 d.name = true ∧ validUtf8 d.symbol = true) := by
  exact Cgp.Proofs.C10.encodeMsg_ok_iff m

/-- **round trip**: decoding the encoding of a well-formed message returns the same message (an empty optional byte
    field reads back as absent) -/
theorem decodeMsg_encodeMsg (m : Msg) (b : Bytes) (hwf : m.wf) (henc : encodeMsg m = .ok b) (hsz : b.length < 256 ^ 32) :
    decodeMsg b = .ok m.normalize := by
  exact Cgp.Proofs.C10.decodeMsg_encodeMsg m b hwf henc hsz

/-- **canonicity**: whenever decoding succeeds, the result is well-formed, normalised, and re-encodes to exactly the input -/
theorem decodeMsg_canonical (b : Bytes) (m : Msg) (h : decodeMsg b = .ok m) :
    encodeMsg m = .ok b ∧ m.wf ∧ m.normalize = m := by
  exact Cgp.Proofs.C10.decodeMsg_canonical b m h

/-- both directions in one statement -/
theorem decodeMsg_iff (b : Bytes) (m : Msg) (hsz : b.length < 256 ^ 32) :
    decodeMsg b = .ok m ↔ (m.wf ∧ m.normalize = m ∧ encodeMsg m = .ok b) := by
  exact Cgp.Proofs.C10.decodeMsg_iff b m hsz

theorem decodeHub_encodeHub (m : HubMsg) (b : Bytes) (hwf : m.wf) (henc : encodeHub m = .ok b) (hsz : b.length < 256 ^ 32) :
    decodeHub b = .ok m.normalize := by
  exact Cgp.Proofs.C10.decodeHub_encodeHub m b hwf henc hsz

theorem decodeHub_canonical (b : Bytes) (m : HubMsg) (h : decodeHub b = .ok m) :
    encodeHub m = .ok b ∧ m.wf ∧ m.normalize = m := by
  exact Cgp.Proofs.C10.decodeHub_canonical b m h

/-! ### rejections -/

/-- amounts above 2^127-1 are rejected (decoded amounts are always in range) -/
theorem decoded_amount_in_range (b : Bytes) (t : Transfer) (h : decodeMsg b = .ok (.transfer t)) :
    0 ≤ t.amount ∧ t.amount < 2 ^ 127 := by
  exact Cgp.Proofs.C10.decoded_amount_in_range b t h

/-- unsupported message types are rejected: an inner message must be type 0 or 1, a hub message type 3 or 4 -/
theorem unsupported_types_rejected (b : Bytes) (hlen : 32 ≤ b.length) :
    (ofBE (b.take 32) ≠ 0 → ofBE (b.take 32) ≠ 1 → ∃ e, decodeMsg b = .error e) ∧
    (ofBE (b.take 32) ≠ 3 → ofBE (b.take 32) ≠ 4 → ∃ e, decodeHub b = .error e) := by
  exact Cgp.Proofs.C10.unsupported_types_rejected b hlen

theorem short_input_rejected (b : Bytes) (hlen : b.length < 32) :
    (∃ e, decodeMsg b = .error e) ∧ (∃ e, decodeHub b = .error e) := by
  exact Cgp.Proofs.C10.short_input_rejected b hlen

/-- trailing bytes are rejected: nothing that decodes can be extended and still decode to the same message -/
theorem trailing_bytes_rejected (b extra : Bytes) (m : Msg) (h : decodeMsg b = .ok m) (hne : extra ≠ []) :
    decodeMsg (b ++ extra) ≠ .ok m := by
  exact Cgp.Proofs.C10.trailing_bytes_rejected b extra m h hne

/-- non-vacuity: a concrete transfer round-trips -/
example : decodeMsg (encodeSeq (transferFields ⟨List.replicate 32 7, [1, 2], [3], 5, none⟩)) =
    .ok (.transfer ⟨List.replicate 32 7, [1, 2], [3], 5, none⟩) := by
  exact decodeMsg_encodeMsg (.transfer ⟨List.replicate 32 7, [1, 2], [3], 5, none⟩) _
    ⟨by simp, by decide, by decide⟩ rfl (by simp [encodeSeq, encAux, transferFields, tailOf, word_length, optBytes, padTo32])

end Cgp.Props.C10
