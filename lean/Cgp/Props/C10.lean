/-
  Property C10 — PLACEHOLDER while the full theorem file (lean/stmts/C10.lean.txt) is being proved.
-/
import Cgp.Abi
namespace Cgp.Props.C10
open Cgp Cgp.Abi

/-- strict sequence decoding accepts only canonical encodings: the result re-encodes to exactly the input -/
theorem decodeSeq_reencodes (ks : List Bool) (b : Bytes) (fs : List Field) (h : decodeSeq ks b = some fs) :
    encodeSeq fs = b := by
  unfold decodeSeq at h
  split at h
  · simp at h
  · split at h
    · simp at h; subst h; assumption
    · simp at h

end Cgp.Props.C10
