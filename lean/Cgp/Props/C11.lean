/-
  Property C11 — token ids are deterministic and write-once; deployed tokens stay mintable by the service.
  Statements are FIXED: prove them exactly as stated (helper lemmas go above them or in Cgp/Proofs/C11.lean).
  If you are convinced a statement is false as written, leave it `sorry`, give the concrete counterexample in your report
  and propose the minimal corrected statement.
-/
import Cgp.ItsOps
import Cgp.Toy
import Cgp.Proofs.C04
namespace Cgp.Props.C11
open Cgp Cgp.Xdr Cgp.Its

variable (H : Bytes → Bytes) (S : Bytes → Bytes) (k : Consts)

/-- the values really are host values: 32-byte ids, u32-sized strings -/
def Small (b : Bytes) : Prop := b.length < 256 ^ 4

/-! ### ids are domain-separated, injective functions of their inputs (or a hash collision is exhibited) -/

theorem zeroAddr_wf : zeroAddr.WF := by
  simp [zeroAddr, Addr.WF]

theorem chainNameHash_binds (c c' : Bytes) (hc : Small c) (hc' : Small c') (h : chainNameHash H c = chainNameHash H c') :
    c = c' ∨ Collision H := by
  unfold chainNameHash at h
  by_cases hx : enc (.str c) = enc (.str c')
  · left
    have h1 := enc_injective _ _ (by simpa [ScVal.WF, Small] using hc) (by simpa [ScVal.WF, Small] using hc') hx
    simpa using h1
  · exact Or.inr ⟨_, _, hx, h⟩

theorem deploySalt_binds (c c' : Bytes) (d d' : Addr) (s s' : Bytes)
    (hc : Small c) (hc' : Small c') (hd : d.WF) (hd' : d'.WF) (hs : Small s) (hs' : Small s')
    (hp : Small k.prefixTokenSalt) (hh : ∀ x, Small (H x))
    (h : deploySalt H k c d s = deploySalt H k c' d' s') :
    (c = c' ∧ d = d' ∧ s = s') ∨ Collision H := by
  unfold deploySalt at h
  by_cases hx : enc (.vec (.cons (.str k.prefixTokenSalt) (.cons (.bytes (chainNameHash H c))
      (.cons (.addr d) (.cons (.bytes s) .nil))))) = enc (.vec (.cons (.str k.prefixTokenSalt) (.cons (.bytes (chainNameHash H c'))
      (.cons (.addr d') (.cons (.bytes s') .nil)))))
  · unfold Small at *
    have h1 := enc_injective _ _ (by simp [ScVal.WF, ScVals.WF, ScVals.len, chainNameHash, *])
      (by simp [ScVal.WF, ScVals.WF, ScVals.len, chainNameHash, *]) hx
    simp only [ScVal.vec.injEq, ScVals.cons.injEq, ScVal.bytes.injEq, ScVal.addr.injEq, true_and, and_true] at h1
    obtain ⟨h2, h3, h4⟩ := h1
    rcases chainNameHash_binds H c c' hc hc' h2 with h5 | h5
    · exact Or.inl ⟨h5, h3, h4⟩
    · exact Or.inr h5
  · exact Or.inr ⟨_, _, hx, h⟩

theorem tokenIdOf_binds (a a' : Addr) (s s' : Bytes) (ha : a.WF) (ha' : a'.WF) (hs : Small s) (hs' : Small s')
    (hp2 : Small k.prefixTokenId) (h : tokenIdOf H k a s = tokenIdOf H k a' s') :
    (a = a' ∧ s = s') ∨ Collision H := by
  unfold tokenIdOf at h
  by_cases hx : enc (.vec (.cons (.str k.prefixTokenId) (.cons (.addr a) (.cons (.bytes s) .nil)))) =
      enc (.vec (.cons (.str k.prefixTokenId) (.cons (.addr a') (.cons (.bytes s') .nil))))
  · unfold Small at *
    have h1 := enc_injective _ _ (by simp [ScVal.WF, ScVals.WF, ScVals.len, *])
      (by simp [ScVal.WF, ScVals.WF, ScVals.len, *]) hx
    simp only [ScVal.vec.injEq, ScVals.cons.injEq, ScVal.bytes.injEq, ScVal.addr.injEq, true_and, and_true] at h1
    exact Or.inl h1
  · exact Or.inr ⟨_, _, hx, h⟩

theorem canonicalSalt_binds (c c' : Bytes) (t t' : Addr)
    (hc : Small c) (hc' : Small c') (ht : t.WF) (ht' : t'.WF)
    (hp : Small k.prefixCanonicalSalt) (hh : ∀ x, Small (H x))
    (h : canonicalSalt H k c t = canonicalSalt H k c' t') :
    (c = c' ∧ t = t') ∨ Collision H := by
  unfold canonicalSalt at h
  by_cases hx : enc (.vec (.cons (.str k.prefixCanonicalSalt) (.cons (.bytes (chainNameHash H c)) (.cons (.addr t) .nil)))) =
      enc (.vec (.cons (.str k.prefixCanonicalSalt) (.cons (.bytes (chainNameHash H c')) (.cons (.addr t') .nil))))
  · unfold Small at *
    have h1 := enc_injective _ _ (by simp [ScVal.WF, ScVals.WF, ScVals.len, chainNameHash, *])
      (by simp [ScVal.WF, ScVals.WF, ScVals.len, chainNameHash, *]) hx
    simp only [ScVal.vec.injEq, ScVals.cons.injEq, ScVal.bytes.injEq, ScVal.addr.injEq, true_and, and_true] at h1
    obtain ⟨h2, h3⟩ := h1
    rcases chainNameHash_binds H c c' hc hc' h2 with h5 | h5
    · exact Or.inl ⟨h5, h3⟩
    · exact Or.inr h5
  · exact Or.inr ⟨_, _, hx, h⟩

/-- the id of a service-deployed token is bound to (chain name, deployer, salt) -/
theorem interchain_id_binds (c c' : Bytes) (d d' : Addr) (s s' : Bytes)
    (hc : Small c) (hc' : Small c') (hd : d.WF) (hd' : d'.WF) (hs : Small s) (hs' : Small s')
    (hp : Small k.prefixTokenSalt) (hp2 : Small k.prefixTokenId) (hh : ∀ x, Small (H x))
    (h : interchainTokenId H k c d s = interchainTokenId H k c' d' s') :
    (c = c' ∧ d = d' ∧ s = s') ∨ Collision H := by
  unfold interchainTokenId at h
  rcases tokenIdOf_binds H k _ _ _ _ zeroAddr_wf zeroAddr_wf (hh _) (hh _) hp2 h with ⟨_, h1⟩ | h1
  · exact deploySalt_binds H k c c' d d' s s' hc hc' hd hd' hs hs' hp hh h1
  · exact Or.inr h1

/-- the id of a canonical token is bound to (chain name, token address) -/
theorem canonical_id_binds (c c' : Bytes) (t t' : Addr)
    (hc : Small c) (hc' : Small c') (ht : t.WF) (ht' : t'.WF)
    (hp : Small k.prefixCanonicalSalt) (hp2 : Small k.prefixTokenId) (hh : ∀ x, Small (H x))
    (h : canonicalTokenId H k c t = canonicalTokenId H k c' t') :
    (c = c' ∧ t = t') ∨ Collision H := by
  unfold canonicalTokenId at h
  rcases tokenIdOf_binds H k _ _ _ _ zeroAddr_wf zeroAddr_wf (hh _) (hh _) hp2 h with ⟨_, h1⟩ | h1
  · exact canonicalSalt_binds H k c c' t t' hc hc' ht ht' hp hh h1
  · exact Or.inr h1

/-- the two kinds of id never coincide, as long as the two salt prefixes differ -/
theorem interchain_ne_canonical (c c' : Bytes) (d t : Addr) (s : Bytes)
    (hc : Small c) (hc' : Small c') (hd : d.WF) (ht : t.WF) (hs : Small s)
    (hp : Small k.prefixTokenSalt) (hp' : Small k.prefixCanonicalSalt) (hp2 : Small k.prefixTokenId) (hh : ∀ x, Small (H x))
    (hne : k.prefixTokenSalt ≠ k.prefixCanonicalSalt)
    (h : interchainTokenId H k c d s = canonicalTokenId H k c' t) : Collision H := by
  unfold interchainTokenId canonicalTokenId at h
  rcases tokenIdOf_binds H k _ _ _ _ zeroAddr_wf zeroAddr_wf (hh _) (hh _) hp2 h with ⟨_, h1⟩ | h1
  · try unfold deploySalt canonicalSalt at h1
    refine ⟨_, _, ?_, h1⟩
    intro hx
    unfold Small at *
    have h2 := enc_injective _ _ (by simp [ScVal.WF, ScVals.WF, ScVals.len, chainNameHash, *])
      (by simp [ScVal.WF, ScVals.WF, ScVals.len, chainNameHash, *]) hx
    simp at h2
  · exact h1

/-- the deployed token's address is a function of (service, id), and different ids give different addresses or a collision of S -/
theorem deployed_address_binds (self : Addr) (tid tid' : Bytes) (h1 : tid.length = 32) (h2 : tid'.length = 32)
    (h : deployedAddress S k self tid = deployedAddress S k self tid') : tid = tid' ∨ Collision S := by
  unfold deployedAddress at h
  simp only [Addr.mk.injEq, true_and] at h
  by_cases hx : be32 8 ++ k.networkId ++ be32 0 ++ encAddr self ++ tid = be32 8 ++ k.networkId ++ be32 0 ++ encAddr self ++ tid'
  · exact Or.inl (List.append_cancel_left hx)
  · exact Or.inr ⟨_, _, hx, h⟩

/-! ### helper lemmas: frames and inversion -/

def Frame (st st' : State) : Prop :=
  st'.self = st.self ∧ st'.chainName = st.chainName ∧ st'.registry = st.registry ∧
  (∀ a, (st.tokens a).isSome = true → (st'.tokens a).isSome = true)

theorem Frame.refl (st : State) : Frame st st := ⟨rfl, rfl, rfl, fun _ h => h⟩

theorem Frame.trans {a b c : State} (h1 : Frame a b) (h2 : Frame b c) : Frame a c :=
  ⟨h2.1.trans h1.1, h2.2.1.trans h1.2.1, h2.2.2.1.trans h1.2.2.1, fun x hx => h2.2.2.2 x (h1.2.2.2 x hx)⟩

theorem frame_setTok (st : State) (a : Addr) (t : Tok) : Frame st (setTok st a t) := by
  refine ⟨rfl, rfl, rfl, ?_⟩
  intro x hx
  simp only [setTok]
  split <;> simp [hx]

theorem frame_gw (st : State) (g : Gateway.State) : Frame st { st with gw := g } := ⟨rfl, rfl, rfl, fun _ h => h⟩

theorem setTok_isSome (st : State) (a : Addr) (t : Tok) : ((setTok st a t).tokens a).isSome = true := by
  simp [setTok]

theorem setTok_get (st : State) (a : Addr) (t : Tok) : (setTok st a t).tokens a = some t := by
  simp [setTok]

theorem tokTransfer_frame {st st' : State} {token src dst : Addr} {amount : Int} {au : Bool}
    (h : tokTransfer st token src dst amount au = .ok st') : Frame st st' := by
  unfold tokTransfer at h
  split at h
  · cases h
  · split at h
    · cases h
    · extract_lets b1 at h
      split at h
      · cases h
      · cases h; exact frame_setTok _ _ _

theorem tokBurn_frame {st st' : State} {token src : Addr} {amount : Int} {au : Bool}
    (h : tokBurn st token src amount au = .ok st') : Frame st st' := by
  unfold tokBurn at h
  split at h
  · cases h
  · split at h
    · cases h
    · split at h
      · cases h
      · cases h; exact frame_setTok _ _ _

theorem tokMint_inv {st st' : State} {token dst : Addr} {amount : Int}
    (h : tokMintByService st token dst amount = .ok st') :
    ∃ t, st.tokens token = some t ∧ t.kind = .interchain ∧ t.owner = st.self ∧ t.minter t.owner = true ∧
      st' = setTok st token { t with bal := fun a => if a = dst then t.bal dst + amount else t.bal a } := by
  unfold tokMintByService at h
  split at h
  · cases h
  · rename_i t ht
    split at h
    · cases h
    · rename_i hk
      split at h
      · cases h
      · rename_i hc
        cases h
        refine ⟨t, ht, by simpa using hk, ?_, ?_, rfl⟩
        · by_cases ho : t.owner = st.self
          · exact ho
          · exact absurd (Or.inl ho) hc
        · cases hm : t.minter t.owner
          · exact absurd (Or.inr (Or.inl (by simp [hm]))) hc
          · rfl

theorem tokMint_frame {st st' : State} {token dst : Addr} {amount : Int}
    (h : tokMintByService st token dst amount = .ok st') : Frame st st' := by
  obtain ⟨t, _, _, _, _, rfl⟩ := tokMint_inv h
  exact frame_setTok _ _ _

def freshTok (st : State) (mo : Option Addr) (tid n s : Bytes) (d : Nat) : Tok :=
  { kind := .interchain, name := n, symbol := s, decimals := d, bal := fun _ => 0, owner := st.self,
    minter := fun a => a = st.self || mo = some a, tokenId := tid }

theorem deployTokenContract_inv {st st1 : State} {mo : Option Addr} {tid n s : Bytes} {d : Nat} {addr : Addr} {ev : Event}
    (h : deployTokenContract S k st mo tid n s d = .ok (st1, addr, ev)) :
    addr = deployedAddress S k st.self tid ∧ (st.tokens addr).isSome = false ∧
    st1 = setTok st addr (freshTok st mo tid n s d) := by
  unfold deployTokenContract at h
  simp only at h
  split at h
  · cases h
  · rename_i hc
    split at h
    · cases h
    · cases h
      refine ⟨rfl, ?_, rfl⟩
      cases hs : (st.tokens (deployedAddress S k st.self tid)).isSome
      · rfl
      · exact absurd (Or.inl hs) hc

theorem payGas_frame {st st' : State} {sp : Addr} {au : Bool} {dc : Bytes} {m : Abi.Msg} {gt : Addr} {ga : Int} {evs : List Event}
    (h : payGasAndCall H k st sp au dc m gt ga = .ok (st', evs)) : Frame st st' := by
  unfold payGasAndCall at h
  split at h
  · cases h
  · split at h
    · cases h
    · cases h
    · split at h
      · cases h
      · split at h
        · cases h
        · split at h
          · cases h
          · rename_i st1 ht
            cases h
            exact tokTransfer_frame ht

theorem deployRemoteToken_frame {st st' : State} {sp : Addr} {au : Bool} {ds dc : Bytes} {gt : Addr} {ga : Int} {tid : Bytes} {evs : List Event}
    (h : deployRemoteToken H k st sp au ds dc gt ga = .ok (st', tid, evs)) : Frame st st' := by
  unfold deployRemoteToken at h
  extract_lets tid0 at h
  split at h
  · cases h
  · split at h
    · cases h
    · split at h
      · cases h
      · simp only at h
        split at h
        · cases h
        · rename_i st1 evs1 hp
          simp only [Except.ok.injEq, Prod.mk.injEq] at h
          rw [← h.1]
          exact payGas_frame H k hp

theorem interchainTransfer_frame {st st' : State} {auths : List Addr} {caller : Addr} {tid dc da : Bytes} {amount : Int}
    {data : Option Bytes} {gt : Addr} {ga : Int} {evs : List Event}
    (h : interchainTransfer H k st auths caller tid dc da amount data gt ga = .ok (st', evs)) : Frame st st' := by
  unfold interchainTransfer at h
  split at h
  · cases h
  · split at h
    · cases h
    · split at h
      · cases h
      · rename_i addr mgr hr
        simp only at h
        split at h
        · cases h
        · rename_i st1 ht
          split at h
          · cases h
          · rename_i st2 evs2 hp
            cases h
            refine Frame.trans ?_ (payGas_frame H k hp)
            cases mgr
            · exact tokBurn_frame ht
            · exact tokTransfer_frame ht

theorem deploy_inv {st st' : State} {auths : List Addr} {caller : Addr} {salt name symbol : Bytes} {decimals : Nat}
    {supply : Int} {minter : Option Addr} {tid : Bytes} {evs : List Event}
    (h : deployInterchainToken H S k st auths caller salt name symbol decimals supply minter = .ok (st', tid, evs)) :
    caller ∈ auths ∧ tid = interchainTokenId H k st.chainName caller salt ∧
    (st.tokens (deployedAddress S k st.self tid)).isSome = false ∧
    ∃ st3, st' = { st3 with registry := fun x => if x = tid then some (deployedAddress S k st.self tid, .native) else st3.registry x } ∧
      ((¬ supply > 0 ∧ (∀ m, minter = some m → m ≠ st.self) ∧
          st3 = setTok st (deployedAddress S k st.self tid) (freshTok st minter tid name symbol decimals)) ∨
       (supply > 0 ∧ ∃ st2, tokMintByService (setTok st (deployedAddress S k st.self tid) (freshTok st (some st.self) tid name symbol decimals))
            (deployedAddress S k st.self tid) caller supply = .ok st2 ∧
          ((minter = none ∧ st3 = st2) ∨
           (∃ m t, minter = some m ∧ st2.tokens (deployedAddress S k st.self tid) = some t ∧
              st3 = setTok st2 (deployedAddress S k st.self tid)
                { t with minter := fun a => if a = m then true else if a = st2.self then false else t.minter a })))) := by
  unfold deployInterchainToken at h
  by_cases hau : caller ∈ auths
  · simp only [hau, not_true_eq_false, if_false] at h
    by_cases hsup : supply > 0
    · simp only [hsup, if_true] at h
      cases hd : deployTokenContract S k st (some st.self) (interchainTokenId H k st.chainName caller salt) name symbol decimals with
      | error e => rw [hd] at h; cases h
      | ok r =>
        obtain ⟨st1, addr, ev⟩ := r
        rw [hd] at h
        simp only at h
        obtain ⟨ha, hnone, hst1⟩ := deployTokenContract_inv S k hd
        cases hm : tokMintByService st1 addr caller supply with
        | error e => rw [hm] at h; cases h
        | ok st2 =>
          rw [hm] at h
          simp only at h
          cases minter with
          | none =>
            simp only [Except.ok.injEq, Prod.mk.injEq] at h
            obtain ⟨h1, h2, h3⟩ := h
            subst h2 ha hst1
            exact ⟨hau, rfl, hnone, st2, h1.symm, Or.inr ⟨hsup, st2, hm, Or.inl ⟨rfl, rfl⟩⟩⟩
          | some m =>
            simp only at h
            cases ht : st2.tokens addr with
            | none => rw [ht] at h; cases h
            | some t =>
              rw [ht] at h
              simp only [Except.ok.injEq, Prod.mk.injEq] at h
              obtain ⟨h1, h2, h3⟩ := h
              subst h2 ha hst1
              exact ⟨hau, rfl, hnone, _, h1.symm, Or.inr ⟨hsup, st2, hm, Or.inr ⟨m, t, rfl, ht, rfl⟩⟩⟩
    · simp only [hsup, if_false] at h
      split at h
      · cases h
      · rename_i im heq
        have him : im = minter ∧ ∀ m, minter = some m → m ≠ st.self := by
          cases minter with
          | none =>
            simp only [Except.ok.injEq] at heq
            exact ⟨heq.symm, by intro m hm; cases hm⟩
          | some m =>
            simp only at heq
            by_cases hm : m = st.self
            · simp [hm] at heq
            · simp only [hm, if_false, Except.ok.injEq] at heq
              exact ⟨heq.symm, by intro m' hm'; cases hm'; exact hm⟩
        obtain ⟨rfl, hne⟩ := him
        cases hd : deployTokenContract S k st im (interchainTokenId H k st.chainName caller salt) name symbol decimals with
        | error e => rw [hd] at h; cases h
        | ok r =>
          obtain ⟨st1, addr, ev⟩ := r
          rw [hd] at h
          simp only [Except.ok.injEq, Prod.mk.injEq] at h
          obtain ⟨ha, hnone, hst1⟩ := deployTokenContract_inv S k hd
          obtain ⟨h1, h2, h3⟩ := h
          subst h2 ha hst1
          exact ⟨hau, rfl, hnone, _, h1.symm, Or.inl ⟨hsup, hne, rfl⟩⟩
  · simp only [hau, not_false_eq_true, if_true] at h
    cases h

theorem execute_inv {st st' : State} {c i sa payload : Bytes} {evs : List Event}
    (h : execute H S k st c i sa payload = .ok (st', evs)) :
    ∃ gw' origin inner, Abi.decodeHub payload = .ok (.receiveFromHub origin inner) ∧
      match inner with
      | .transfer _ => Frame st st'
      | .deploy d => (st.registry d.tokenId).isSome = false ∧ ∃ st1 addr ev,
          deployTokenContract S k { st with gw := gw' } (d.minter.bind addrFromXdr) d.tokenId d.name d.symbol d.decimals
            = .ok (st1, addr, ev) ∧
          st' = { st1 with registry := fun x => if x = d.tokenId then some (addr, .native) else st1.registry x } := by
  unfold execute at h
  split at h
  · cases h
  · cases h
  · rename_i gw' gwEvs hv
    extract_lets st0 gwEvents at h
    split at h
    · cases h
    · cases h
    · split at h
      · cases h
      · split at h
        · cases h
        · split at h
          · cases h
          · cases h
          · rename_i origin inner hdec
            split at h
            · cases h
            · split at h
              · rename_i t
                refine ⟨gw', origin, _, hdec, ?_⟩
                show Frame st st'
                split at h
                · cases h
                · rename_i recipient hrec
                  split at h
                  · cases h
                  · rename_i addr mgr hreg
                    extract_lets given at h
                    generalize hgiven : given = g at h
                    cases g with
                    | error e => cases h
                    | ok st1 =>
                      simp only at h
                      simp only [given] at hgiven
                      have hf : Frame st st1 := by
                        refine Frame.trans (frame_gw st gw') ?_
                        cases mgr
                        · exact tokMint_frame hgiven
                        · exact tokTransfer_frame hgiven
                      split at h
                      · cases h; exact hf
                      · split at h
                        · cases h; exact hf
                        · cases h
              · rename_i d
                refine ⟨gw', origin, _, hdec, ?_⟩
                show _ ∧ _
                split at h
                · cases h
                · rename_i hreg
                  split at h
                  · cases h
                  · extract_lets minter at h
                    generalize hmo : minter = g at h
                    cases g with
                    | error e => cases h
                    | ok mo =>
                      simp only at h
                      have hmo' : mo = d.minter.bind addrFromXdr := by
                        cases hdm : d.minter with
                        | none =>
                          simp only [minter, hdm, Except.ok.injEq] at hmo
                          simp [← hmo]
                        | some m =>
                          simp only [minter, hdm] at hmo
                          cases hx : addrFromXdr m with
                          | none => rw [hx] at hmo; cases hmo
                          | some a =>
                            rw [hx] at hmo
                            simp only [Except.ok.injEq] at hmo
                            simp [← hmo, hx]
                      subst hmo'
                      split at h
                      · cases h
                      · rename_i st1 addr ev hd
                        simp only [Except.ok.injEq, Prod.mk.injEq] at h
                        refine ⟨?_, st1, addr, ev, hd, h.1.symm⟩
                        cases hs : (st.registry d.tokenId).isSome
                        · rfl
                        · exact absurd hs hreg

theorem frame_trusted (st : State) (f : Bytes → Bool) : Frame st { st with trusted := f } := ⟨rfl, rfl, rfl, fun _ h => h⟩
theorem frame_owner (st : State) (o : Addr) : Frame st { st with owner := o } := ⟨rfl, rfl, rfl, fun _ h => h⟩

/-- classification of what one step can do to (self, chainName, registry, tokens) -/
theorem step_cases (st : State) (op : Op) :
    Frame st (step H S k st op).1 ∨
    (∃ st3 tid, Frame st st3 ∧ (st3.tokens (deployedAddress S k st.self tid)).isSome = true ∧
        (st.tokens (deployedAddress S k st.self tid)).isSome = false ∧
        (step H S k st op).1 = { st3 with registry := fun x => if x = tid then some (deployedAddress S k st.self tid, .native) else st3.registry x } ∧
        ((st.registry tid).isSome = false ∨
          ∃ au ca sa n sy d su m, op = .deploy au ca sa n sy d su m ∧ interchainTokenId H k st.chainName ca sa = tid)) ∨
    (∃ token tid, (st.registry tid).isSome = false ∧
        (step H S k st op).1 = { st with registry := fun x => if x = tid then some (token, .lockUnlock) else st.registry x }) := by
  cases op with
  | setTrusted au c =>
    left
    simp only [step, setTrustedChain]
    split
    · exact Frame.refl _
    · split
      · exact Frame.refl _
      · exact frame_trusted _ _
  | removeTrusted au c =>
    left
    simp only [step, removeTrustedChain]
    split
    · exact Frame.refl _
    · split
      · exact Frame.refl _
      · exact frame_trusted _ _
  | transferOwnership au n =>
    left
    simp only [step, transferOwnership]
    split
    · exact Frame.refl _
    · exact frame_owner _ _
  | deploy au ca sa n sy d su m =>
    simp only [step]
    cases hd : deployInterchainToken H S k st au ca sa n sy d su m with
    | error e => left; exact Frame.refl _
    | ok r =>
      obtain ⟨st', tid, evs⟩ := r
      right; left
      obtain ⟨_, htid, hnone, st3, hst', hcase⟩ := deploy_inv H S k hd
      refine ⟨st3, tid, ?_, ?_, hnone, hst', Or.inr ⟨au, ca, sa, n, sy, d, su, m, rfl, htid.symm⟩⟩
      · rcases hcase with ⟨_, _, rfl⟩ | ⟨_, st2, hm, ⟨_, rfl⟩ | ⟨m', t, _, _, rfl⟩⟩
        · exact frame_setTok _ _ _
        · exact Frame.trans (frame_setTok _ _ _) (tokMint_frame hm)
        · exact Frame.trans (Frame.trans (frame_setTok _ _ _) (tokMint_frame hm)) (frame_setTok _ _ _)
      · rcases hcase with ⟨_, _, rfl⟩ | ⟨_, st2, hm, ⟨_, rfl⟩ | ⟨m', t, _, _, rfl⟩⟩
        · exact setTok_isSome _ _ _
        · exact (tokMint_frame hm).2.2.2 _ (setTok_isSome _ _ _)
        · exact setTok_isSome _ _ _
  | registerCanonical t =>
    simp only [step, registerCanonicalToken]
    split
    · left; exact Frame.refl _
    · rename_i hreg
      right; right
      refine ⟨t, _, ?_, rfl⟩
      simpa using hreg
  | deployRemote au ca sa de gt ga =>
    left
    simp only [step, deployRemoteInterchainToken]
    split
    · exact Frame.refl _
    · cases hd : deployRemoteToken H k st ca true (deploySalt H k st.chainName ca sa) de gt ga with
      | error e => exact Frame.refl _
      | ok r => obtain ⟨st', tid, evs⟩ := r; exact deployRemoteToken_frame H k hd
  | deployRemoteCanonical au t de sp gt ga =>
    left
    simp only [step, deployRemoteCanonicalToken]
    cases hd : deployRemoteToken H k st sp (decide (sp ∈ au)) (canonicalSalt H k st.chainName t) de gt ga with
    | error e => exact Frame.refl _
    | ok r => obtain ⟨st', tid, evs⟩ := r; exact deployRemoteToken_frame H k hd
  | transfer au ca ti de da am dt gt ga =>
    left
    simp only [step]
    cases hd : interchainTransfer H k st au ca ti de da am dt gt ga with
    | error e => exact Frame.refl _
    | ok r => obtain ⟨st', evs⟩ := r; exact interchainTransfer_frame H k hd
  | execute c i sa p =>
    simp only [step]
    cases hd : execute H S k st c i sa p with
    | error e => left; exact Frame.refl _
    | ok r =>
      obtain ⟨st', evs⟩ := r
      obtain ⟨gw', origin, inner, hdec, hin⟩ := execute_inv H S k hd
      cases inner with
      | transfer t => left; exact hin
      | deploy dd =>
        right; left
        obtain ⟨hreg, st1, addr, ev, hdt, hst'⟩ := hin
        obtain ⟨ha, hnone, hst1⟩ := deployTokenContract_inv S k hdt
        subst ha hst1
        refine ⟨_, dd.tokenId, Frame.trans (frame_gw st gw') (frame_setTok _ _ _), setTok_isSome _ _ _, hnone, hst', Or.inl hreg⟩
  | gateway f => left; exact frame_gw _ _
  | userTransfer t s d a au =>
    left
    simp only [step]
    split
    · exact Frame.refl _
    · split
      · rename_i st' ht; exact tokTransfer_frame ht
      · exact Frame.refl _
  | minterMint t m d a au =>
    left
    simp only [step]
    split
    · split
      · exact Frame.refl _
      · exact frame_setTok _ _ _
    · exact Frame.refl _
  | upgradeMigrate au => left; rw [step_upgradeMigrate_fst]; exact Frame.refl _

theorem step_chainName (st : State) (op : Op) : (step H S k st op).1.chainName = st.chainName := by
  rcases step_cases H S k st op with hf | ⟨st3, tid, hf, _, _, heq, _⟩ | ⟨token, tid, _, heq⟩
  · exact hf.2.1
  · rw [heq]; exact hf.2.1
  · rw [heq]

/-! ### the registry is write-once -/

/-- every native entry of the registry points at the address derived from its id, and that address holds a token -/
def RegInv (st : State) : Prop :=
  ∀ tid addr, st.registry tid = some (addr, .native) → addr = deployedAddress S k st.self tid ∧ (st.tokens addr).isSome = true

theorem regInv_step (st : State) (op : Op) (h : RegInv S k st) : RegInv S k (step H S k st op).1 := by
  intro x a hx
  rcases step_cases H S k st op with hf | ⟨st3, tid, hf, hsome, _, heq, _⟩ | ⟨token, tid, _, heq⟩
  · obtain ⟨hs, _, hr, ht⟩ := hf
    rw [hr] at hx
    obtain ⟨h1, h2⟩ := h x a hx
    rw [hs]
    exact ⟨h1, ht _ h2⟩
  · rw [heq] at hx ⊢
    simp only at hx ⊢
    obtain ⟨hs, _, hr, ht⟩ := hf
    by_cases hxt : x = tid
    · subst hxt
      simp only [if_true, Option.some.injEq, Prod.mk.injEq, and_true] at hx
      subst hx
      rw [hs]
      exact ⟨rfl, hsome⟩
    · simp only [hxt, if_false] at hx
      rw [hr] at hx
      obtain ⟨h1, h2⟩ := h x a hx
      rw [hs]
      exact ⟨h1, ht _ h2⟩
  · rw [heq] at hx ⊢
    simp only at hx ⊢
    by_cases hxt : x = tid
    · simp [hxt] at hx
    · simp only [hxt, if_false] at hx
      exact h x a hx

/-- a local deployment whose derived id equals `tid` (for a canonical entry this can only happen through a hash collision,
    see `interchain_ne_canonical`) -/
def DeploysId (chain : Bytes) (tid : Bytes) : Op → Prop
  | .deploy _ ca sa _ _ _ _ _ => interchainTokenId H k chain ca sa = tid
  | _ => False

theorem registry_write_once_step (st : State) (op : Op) (tid : Bytes) (v : Addr × Manager) (hinv : RegInv S k st)
    (h : st.registry tid = some v) (hnc : v.2 = .lockUnlock → ¬ DeploysId H k st.chainName tid op) :
    (step H S k st op).1.registry tid = some v := by
  rcases step_cases H S k st op with hf | ⟨st3, tid', hf, hsome, hnone, heq, hor⟩ | ⟨token, tid', hnone, heq⟩
  · rw [hf.2.2.1]; exact h
  · rw [heq]
    simp only
    by_cases hxt : tid = tid'
    · exfalso
      subst hxt
      obtain ⟨a, m⟩ := v
      cases m with
      | native =>
        have h2 := (hinv tid a h).2
        rw [(hinv tid a h).1] at h2
        rw [hnone] at h2
        cases h2
      | lockUnlock =>
        rcases hor with hor | ⟨au, ca, sa, n, sy, d, su, m, rfl, hid⟩
        · rw [h] at hor; cases hor
        · exact hnc rfl hid
    · simp only [hxt, if_false]
      rw [hf.2.2.1]; exact h
  · rw [heq]
    simp only
    by_cases hxt : tid = tid'
    · subst hxt
      rw [h] at hnone
      cases hnone
    · simp only [hxt, if_false]
      exact h

/-- once an id is registered its token address and manager type never change, in any history: re-deploying, re-registering
    and remote deploy messages for a taken id all leave the entry as it is -/
theorem registry_write_once (st : State) (ops : List Op) (tid : Bytes) (v : Addr × Manager) (hinv : RegInv S k st)
    (h : st.registry tid = some v) (hnc : v.2 = .lockUnlock → ∀ op ∈ ops, ¬ DeploysId H k st.chainName tid op) :
    (run H S k st ops).1.registry tid = some v := by
  induction ops generalizing st with
  | nil => simpa [run] using h
  | cons op ops ih =>
    simp only [run]
    apply ih
    · exact regInv_step H S k st op hinv
    · exact registry_write_once_step H S k st op tid v hinv h (fun hv => hnc hv op (List.mem_cons_self ..))
    · intro hv op' hop'
      rw [step_chainName]
      exact hnc hv op' (List.mem_cons_of_mem _ hop')

/-- re-registering a canonical token, and a remote deploy message for a taken id, fail -/
theorem taken_id_refused (st : State) (token : Addr) (c i sa payload origin : Bytes) (d : Abi.Deploy) :
    ((st.registry (canonicalTokenId H k st.chainName token)).isSome = true →
        ∃ e, registerCanonicalToken H k st token = .error e) ∧
    (Abi.decodeHub payload = .ok (.receiveFromHub origin (.deploy d)) → (st.registry d.tokenId).isSome = true →
        ∃ e, execute H S k st c i sa payload = .error e) := by
  constructor
  · intro hs
    refine ⟨.tokenAlreadyRegistered, ?_⟩
    unfold registerCanonicalToken
    simp only
    rw [if_pos]
    exact hs
  · intro hdec hs
    cases hex : execute H S k st c i sa payload with
    | error e => exact ⟨e, rfl⟩
    | ok r =>
      exfalso
      obtain ⟨st', evs⟩ := r
      obtain ⟨gw', origin', inner, hdec', hin⟩ := execute_inv H S k hex
      rw [hdec] at hdec'
      simp only [Except.ok.injEq, Abi.HubMsg.receiveFromHub.injEq] at hdec'
      obtain ⟨_, rfl⟩ := hdec'
      simp only at hin
      rw [hin.1] at hs
      cases hs

/-- re-deploying under the same (deployer, salt) fails: the derived address already holds the token -/
theorem redeploy_refused (st : State) (auths : List Addr) (caller : Addr) (salt name symbol : Bytes) (decimals : Nat)
    (supply : Int) (minter : Option Addr)
    (h : (st.tokens (deployedAddress S k st.self (interchainTokenId H k st.chainName caller salt))).isSome = true) :
    ∃ e, deployInterchainToken H S k st auths caller salt name symbol decimals supply minter = .error e := by
  cases hd : deployInterchainToken H S k st auths caller salt name symbol decimals supply minter with
  | error e => exact ⟨e, rfl⟩
  | ok r =>
    exfalso
    obtain ⟨st', tid, evs⟩ := r
    obtain ⟨_, htid, hnone, _⟩ := deploy_inv H S k hd
    subst htid
    rw [hnone] at h
    cases h

/-! ### what a local deployment produces -/

/-- Every successful local deployment: the id is the stated function of (chain, deployer, salt); the registry maps it to the
    derived address with the native manager; the token reports that id and the requested metadata, is owned by the service,
    and the deployer holds max(supply, 0).  Minting rights: under the hypothesis that NOT (supply > 0 and a minter other
    than the service is designated), the minters are exactly the service and the designated minter. -/
theorem deploy_exact (st st' : State) (auths : List Addr) (caller : Addr) (salt name symbol : Bytes) (decimals : Nat)
    (supply : Int) (minter : Option Addr) (tid : Bytes) (evs : List Event)
    (h : deployInterchainToken H S k st auths caller salt name symbol decimals supply minter = .ok (st', tid, evs)) :
    caller ∈ auths ∧ tid = interchainTokenId H k st.chainName caller salt ∧
    st'.registry tid = some (deployedAddress S k st.self tid, .native) ∧
    ∃ t, st'.tokens (deployedAddress S k st.self tid) = some t ∧
      t.kind = .interchain ∧ t.tokenId = tid ∧ t.name = name ∧ t.symbol = symbol ∧ t.decimals = decimals ∧
      t.owner = st.self ∧
      t.bal caller = (if supply > 0 then supply else 0) ∧ (∀ x, x ≠ caller → t.bal x = 0) ∧
      (¬ (supply > 0 ∧ ∃ m, minter = some m ∧ m ≠ st.self) →
          ∀ x, t.minter x = (decide (x = st.self) || decide (minter = some x))) := by
  obtain ⟨hau, htid, hnone, st3, hst', hcase⟩ := deploy_inv H S k h
  refine ⟨hau, htid, by rw [hst']; simp, ?_⟩
  rw [hst']
  simp only
  rcases hcase with ⟨hsup, hne, rfl⟩ | ⟨hsup, st2, hm, ⟨hmin, rfl⟩ | ⟨m', t, hmin, ht, rfl⟩⟩
  · refine ⟨freshTok st minter tid name symbol decimals, by simp [setTok], rfl, rfl, rfl, rfl, rfl, rfl, ?_, ?_, ?_⟩
    · simp [freshTok, hsup]
    · intro x _; rfl
    · intro _ x; rfl
  · obtain ⟨t, ht, _, _, _, rfl⟩ := tokMint_inv hm
    have ht' : t = freshTok st (some st.self) tid name symbol decimals := by
      simpa [setTok] using ht.symm
    subst ht'
    refine ⟨_, setTok_get _ _ _, rfl, rfl, rfl, rfl, rfl, rfl, ?_, ?_, ?_⟩
    · simp [freshTok, hsup]
    · intro x hx; simp [freshTok, hx]
    · intro _ x
      subst hmin
      by_cases hx : x = st.self <;> simp [freshTok, hx, eq_comm]
  · obtain ⟨t0, ht0, _, _, _, rfl⟩ := tokMint_inv hm
    have ht0' : t0 = freshTok st (some st.self) tid name symbol decimals := by
      simpa [setTok] using ht0.symm
    subst ht0'
    have ht' : t = { freshTok st (some st.self) tid name symbol decimals with
        bal := fun a => if a = caller then (freshTok st (some st.self) tid name symbol decimals).bal caller + supply
                        else (freshTok st (some st.self) tid name symbol decimals).bal a } := by
      simpa [setTok] using ht.symm
    subst ht'
    refine ⟨_, setTok_get _ _ _, rfl, rfl, rfl, rfl, rfl, rfl, ?_, ?_, ?_⟩
    · simp [freshTok, hsup]
    · intro x hx; simp [freshTok, hx]
    · intro hcond x
      subst hmin
      have hm' : m' = st.self := by
        by_cases hq : m' = st.self
        · exact hq
        · exact absurd ⟨hsup, m', rfl, hq⟩ hcond
      subst hm'
      by_cases hx : x = st.self <;> simp [freshTok, setTok, hx, eq_comm]

/-- KNOWN FINDING, proved: with a positive initial supply and a designated minter other than the service, the service is NOT
    a minter of the token it just deployed … -/
theorem supply_and_minter_counterexample (st st' : State) (auths : List Addr) (caller : Addr) (salt name symbol : Bytes)
    (decimals : Nat) (supply : Int) (m : Addr) (tid : Bytes) (evs : List Event)
    (hs : supply > 0) (hm : m ≠ st.self)
    (h : deployInterchainToken H S k st auths caller salt name symbol decimals supply (some m) = .ok (st', tid, evs)) :
    ∃ t, st'.tokens (deployedAddress S k st.self tid) = some t ∧ t.minter st.self = false ∧ t.minter m = true := by
  obtain ⟨hau, htid, hnone, st3, hst', hcase⟩ := deploy_inv H S k h
  rw [hst']
  simp only
  rcases hcase with ⟨hsup, _⟩ | ⟨hsup, st2, hm', ⟨hmin, _⟩ | ⟨m', t, hmin, ht, rfl⟩⟩
  · exact absurd hs hsup
  · cases hmin
  · cases hmin
    obtain ⟨t0, ht0, _, _, _, rfl⟩ := tokMint_inv hm'
    refine ⟨_, setTok_get _ _ _, ?_, ?_⟩
    · have : st.self ≠ m := fun hx => hm hx.symm
      simp [setTok, this]
    · simp

/-- … so the service can no longer mint it: every inbound transfer to that token is rejected -/
theorem no_mint_without_minter_right (st : State) (token dst : Addr) (amount : Int) (t : Tok)
    (ht : st.tokens token = some t) (hm : t.minter t.owner = false) :
    ∃ e, tokMintByService st token dst amount = .error e := by
  unfold tokMintByService
  rw [ht]
  simp only
  split
  · exact ⟨_, rfl⟩
  · rw [if_pos (Or.inr (Or.inl (by simp [hm])))]
    exact ⟨_, rfl⟩

/-- a token deployed by a remote deploy message: owned by the service, minters = the service and the decoded minter -/
theorem remote_deploy_exact (st st' : State) (c i sa payload origin : Bytes) (d : Abi.Deploy) (evs : List Event)
    (h : execute H S k st c i sa payload = .ok (st', evs))
    (hd : Abi.decodeHub payload = .ok (.receiveFromHub origin (.deploy d))) :
    st'.registry d.tokenId = some (deployedAddress S k st.self d.tokenId, .native) ∧
    ∃ t, st'.tokens (deployedAddress S k st.self d.tokenId) = some t ∧
      t.kind = .interchain ∧ t.tokenId = d.tokenId ∧ t.name = d.name ∧ t.symbol = d.symbol ∧ t.decimals = d.decimals ∧
      t.owner = st.self ∧ (∀ x, t.bal x = 0) ∧
      (∀ x, t.minter x = (decide (x = st.self) || decide ((d.minter.bind addrFromXdr) = some x))) := by
  obtain ⟨gw', origin', inner, hdec', hin⟩ := execute_inv H S k h
  rw [hd] at hdec'
  simp only [Except.ok.injEq, Abi.HubMsg.receiveFromHub.injEq] at hdec'
  obtain ⟨_, rfl⟩ := hdec'
  simp only at hin
  obtain ⟨_, st1, addr, ev, hdt, hst'⟩ := hin
  obtain ⟨ha, _, hst1⟩ := deployTokenContract_inv S k hdt
  simp only at ha
  subst ha hst1 hst'
  refine ⟨by simp, _, setTok_get _ _ _, rfl, rfl, rfl, rfl, rfl, rfl, fun _ => rfl, fun _ => rfl⟩

/-! ### where every registry entry comes from (history level) -/

/-- a service history recorded as (state before the call, the call, what was observed) -/
def itrace (st : State) : List Op → List (State × Op × Obs)
  | [] => []
  | op :: ops => (st, op, (step H S k st op).2) :: itrace (step H S k st op).1 ops

/-! #### helper lemmas for `registry_provenance`, and its CORRECTED forms
  `registry_provenance` below is FALSE as stated (left `sorry`): `deployInterchainToken` never looks at the registry, so when the
  interchain id of (deployer, salt) equals the canonical id of a registered token (a collision of `H`), a local deployment
  overwrites the canonical entry; the final entry is then (derived address, native) while the only step that found the id
  free was the canonical registration.  Proved instead: `registry_provenance_or_clash`, `registry_provenance_or_collision`,
  `registry_provenance_of_no_clash`. -/

/-- the three possible causes of the registry entry `tid ↦ (addr, mgr)` (the disjunction of `registry_provenance`) -/
def Cause (tid : Bytes) (addr : Addr) (mgr : Manager) (st : State) (op : Op) (o : Obs) : Prop :=
  (∃ auths caller salt name symbol dec supply minter evs,
      op = .deploy auths caller salt name symbol dec supply minter ∧ o = .okId tid evs ∧ caller ∈ auths ∧
      tid = interchainTokenId H k st.chainName caller salt ∧ mgr = .native ∧ addr = deployedAddress S k st.self tid) ∨
  (∃ token evs, op = .registerCanonical token ∧ o = .okId tid evs ∧
      tid = canonicalTokenId H k st.chainName token ∧ mgr = .lockUnlock ∧ addr = token) ∨
  (∃ c i sa payload origin d evs,
      op = .execute c i sa payload ∧ o = .ok evs ∧
      Abi.decodeHub payload = .ok (.receiveFromHub origin (.deploy d)) ∧ d.tokenId = tid ∧
      st.gw.approvals c i = .approved (Gateway.messageHash H ⟨c, i, sa, st.self, H payload⟩) ∧
      mgr = .native ∧ addr = deployedAddress S k st.self tid)

theorem step_self (st : State) (op : Op) : (step H S k st op).1.self = st.self := by
  rcases step_cases H S k st op with hf | ⟨st3, tid, hf, _, _, heq, _⟩ | ⟨token, tid, _, heq⟩
  · exact hf.1
  · rw [heq]; exact hf.1
  · rw [heq]

/-- the ops that can write the registry -/
def IsWriter : Op → Prop
  | .deploy .. => True
  | .registerCanonical _ => True
  | .execute .. => True
  | _ => False

theorem step_frame_of_not_writer (st : State) (op : Op) (hw : ¬ IsWriter op) : Frame st (step H S k st op).1 := by
  cases op with
  | setTrusted au c =>
    simp only [step, setTrustedChain]
    split
    · exact Frame.refl _
    · split
      · exact Frame.refl _
      · exact frame_trusted _ _
  | removeTrusted au c =>
    simp only [step, removeTrustedChain]
    split
    · exact Frame.refl _
    · split
      · exact Frame.refl _
      · exact frame_trusted _ _
  | transferOwnership au n =>
    simp only [step, transferOwnership]
    split
    · exact Frame.refl _
    · exact frame_owner _ _
  | deploy au ca sa n sy d su m => exact absurd trivial hw
  | registerCanonical t => exact absurd trivial hw
  | deployRemote au ca sa de gt ga =>
    simp only [step, deployRemoteInterchainToken]
    split
    · exact Frame.refl _
    · cases hd : deployRemoteToken H k st ca true (deploySalt H k st.chainName ca sa) de gt ga with
      | error e => exact Frame.refl _
      | ok r => obtain ⟨st', tid, evs⟩ := r; exact deployRemoteToken_frame H k hd
  | deployRemoteCanonical au t de sp gt ga =>
    simp only [step, deployRemoteCanonicalToken]
    cases hd : deployRemoteToken H k st sp (decide (sp ∈ au)) (canonicalSalt H k st.chainName t) de gt ga with
    | error e => exact Frame.refl _
    | ok r => obtain ⟨st', tid, evs⟩ := r; exact deployRemoteToken_frame H k hd
  | transfer au ca ti de da am dt gt ga =>
    simp only [step]
    cases hd : interchainTransfer H k st au ca ti de da am dt gt ga with
    | error e => exact Frame.refl _
    | ok r => obtain ⟨st', evs⟩ := r; exact interchainTransfer_frame H k hd
  | execute c i sa p => exact absurd trivial hw
  | gateway f => exact frame_gw _ _
  | userTransfer t s d a au =>
    simp only [step]
    split
    · exact Frame.refl _
    · split
      · rename_i st' ht; exact tokTransfer_frame ht
      · exact Frame.refl _
  | minterMint t m d a au =>
    simp only [step]
    split
    · split
      · exact Frame.refl _
      · exact frame_setTok _ _ _
    · exact Frame.refl _
  | upgradeMigrate au => rw [step_upgradeMigrate_fst]; exact Frame.refl _

/-- one step: an entry that appears in this step was written by one of the three writers, with the stated facts -/
theorem provenance_step (st : State) (op : Op) (tid : Bytes) (addr : Addr) (mgr : Manager)
    (h0 : st.registry tid = none) (h1 : (step H S k st op).1.registry tid = some (addr, mgr)) :
    Cause H S k tid addr mgr st op (step H S k st op).2 := by
  by_cases hw : IsWriter op
  · cases op with
    | deploy au ca sa n sy d su m =>
      left
      have hstep : step H S k st (.deploy au ca sa n sy d su m) =
          wrapId st (deployInterchainToken H S k st au ca sa n sy d su m) := rfl
      rw [hstep] at h1 ⊢
      cases hd : deployInterchainToken H S k st au ca sa n sy d su m with
      | error e =>
        rw [hd] at h1
        simp only [wrapId] at h1
        rw [h0] at h1; cases h1
      | ok r =>
        obtain ⟨st', tid', evs⟩ := r
        rw [hd] at h1
        simp only [wrapId] at h1 ⊢
        obtain ⟨hau, htid, hnone, st3, hst', hcase⟩ := deploy_inv H S k hd
        have hf : Frame st st3 := by
          rcases hcase with ⟨_, _, rfl⟩ | ⟨_, st2, hm, ⟨_, rfl⟩ | ⟨m', t, _, _, rfl⟩⟩
          · exact frame_setTok _ _ _
          · exact Frame.trans (frame_setTok _ _ _) (tokMint_frame hm)
          · exact Frame.trans (Frame.trans (frame_setTok _ _ _) (tokMint_frame hm)) (frame_setTok _ _ _)
        rw [hst'] at h1
        simp only at h1
        by_cases hxt : tid = tid'
        · subst hxt
          simp only [if_true, Option.some.injEq, Prod.mk.injEq] at h1
          exact ⟨au, ca, sa, n, sy, d, su, m, evs, rfl, rfl, hau, htid, h1.2.symm, h1.1.symm⟩
        · simp only [hxt, if_false] at h1
          rw [hf.2.2.1, h0] at h1; cases h1
    | registerCanonical t =>
      right; left
      have hstep : step H S k st (.registerCanonical t) = wrapId st (registerCanonicalToken H k st t) := rfl
      rw [hstep] at h1 ⊢
      unfold registerCanonicalToken at h1 ⊢
      simp only at h1 ⊢
      split at h1
      · simp only [wrapId] at h1
        rw [h0] at h1; cases h1
      · rename_i hreg
        rw [if_neg hreg]
        simp only [wrapId] at h1 ⊢
        by_cases hxt : tid = tokenIdOf H k zeroAddr (canonicalSalt H k st.chainName t)
        · simp only [hxt, if_true, Option.some.injEq, Prod.mk.injEq] at h1
          exact ⟨t, _, rfl, by rw [hxt], hxt, h1.2.symm, h1.1.symm⟩
        · simp only [hxt, if_false] at h1
          rw [h0] at h1; cases h1
    | execute c i sa p =>
      right; right
      have hstep : step H S k st (.execute c i sa p) = wrapEv st (execute H S k st c i sa p) := rfl
      rw [hstep] at h1 ⊢
      cases hd : execute H S k st c i sa p with
      | error e =>
        rw [hd] at h1
        simp only [wrapEv] at h1
        rw [h0] at h1; cases h1
      | ok r =>
        obtain ⟨st', evs⟩ := r
        rw [hd] at h1
        simp only [wrapEv] at h1 ⊢
        have happ := (Cgp.Proofs.C04.execute_inv H S k hd).1
        obtain ⟨gw', origin, inner, hdec, hin⟩ := execute_inv H S k hd
        cases inner with
        | transfer t =>
          have hf : Frame st st' := hin
          rw [hf.2.2.1, h0] at h1; cases h1
        | deploy dd =>
          obtain ⟨hreg, st1, a, ev, hdt, hst'⟩ := hin
          obtain ⟨ha, hnone, hst1⟩ := deployTokenContract_inv S k hdt
          subst ha hst1
          rw [hst'] at h1
          simp only at h1
          by_cases hxt : tid = dd.tokenId
          · subst hxt
            simp only [if_true, Option.some.injEq, Prod.mk.injEq] at h1
            exact ⟨c, i, sa, p, origin, dd, evs, rfl, rfl, hdec, rfl, happ, h1.2.symm, h1.1.symm⟩
          · simp only [hxt, if_false] at h1
            have : (setTok { st with gw := gw' } (deployedAddress S k st.self dd.tokenId)
                (freshTok { st with gw := gw' } (dd.minter.bind addrFromXdr) dd.tokenId dd.name dd.symbol dd.decimals)).registry tid
                = st.registry tid := rfl
            rw [this, h0] at h1; cases h1
    | _ => exact absurd hw (by simp [IsWriter])
  · exfalso
    have hf := step_frame_of_not_writer H S k st op hw
    rw [hf.2.2.1, h0] at h1; cases h1

/-! write-once for ONE id, from the invariant for that id only (so that no assumption on the other entries is needed) -/

def RegInvAt (st : State) (tid : Bytes) : Prop :=
  ∀ addr, st.registry tid = some (addr, .native) → addr = deployedAddress S k st.self tid ∧ (st.tokens addr).isSome = true

theorem regInvAt_step (st : State) (op : Op) (tid : Bytes) (h : RegInvAt S k st tid) :
    RegInvAt S k (step H S k st op).1 tid := by
  intro a hx
  rcases step_cases H S k st op with hf | ⟨st3, tid', hf, hsome, _, heq, _⟩ | ⟨token, tid', _, heq⟩
  · obtain ⟨hs, _, hr, ht⟩ := hf
    rw [hr] at hx
    obtain ⟨h1, h2⟩ := h a hx
    rw [hs]
    exact ⟨h1, ht _ h2⟩
  · rw [heq] at hx ⊢
    simp only at hx ⊢
    obtain ⟨hs, _, hr, ht⟩ := hf
    by_cases hxt : tid = tid'
    · subst hxt
      simp only [if_true, Option.some.injEq, Prod.mk.injEq, and_true] at hx
      subst hx
      rw [hs]
      exact ⟨rfl, hsome⟩
    · simp only [hxt, if_false] at hx
      rw [hr] at hx
      obtain ⟨h1, h2⟩ := h a hx
      rw [hs]
      exact ⟨h1, ht _ h2⟩
  · rw [heq] at hx ⊢
    simp only at hx ⊢
    by_cases hxt : tid = tid'
    · simp [hxt] at hx
    · simp only [hxt, if_false] at hx
      exact h a hx

theorem write_once_step_at (st : State) (op : Op) (tid : Bytes) (v : Addr × Manager) (hinv : RegInvAt S k st tid)
    (h : st.registry tid = some v) (hnc : v.2 = .lockUnlock → ¬ DeploysId H k st.chainName tid op) :
    (step H S k st op).1.registry tid = some v := by
  rcases step_cases H S k st op with hf | ⟨st3, tid', hf, hsome, hnone, heq, hor⟩ | ⟨token, tid', hnone, heq⟩
  · rw [hf.2.2.1]; exact h
  · rw [heq]
    simp only
    by_cases hxt : tid = tid'
    · exfalso
      subst hxt
      obtain ⟨a, m⟩ := v
      cases m with
      | native =>
        have h2 := (hinv a h).2
        rw [(hinv a h).1] at h2
        rw [hnone] at h2
        cases h2
      | lockUnlock =>
        rcases hor with hor | ⟨au, ca, sa, n, sy, d, su, m, rfl, hid⟩
        · rw [h] at hor; cases hor
        · exact hnc rfl hid
    · simp only [hxt, if_false]
      rw [hf.2.2.1]; exact h
  · rw [heq]
    simp only
    by_cases hxt : tid = tid'
    · subst hxt
      rw [h] at hnone
      cases hnone
    · simp only [hxt, if_false]
      exact h

/-- an entry stays as it is, unless it is a canonical one and a later local deployment derives the very same id -/
theorem stable_or_clash (st : State) (ops : List Op) (tid : Bytes) (v : Addr × Manager) (hinv : RegInvAt S k st tid)
    (h : st.registry tid = some v) :
    (run H S k st ops).1.registry tid = some v ∨
    (v.2 = .lockUnlock ∧ ∃ op ∈ ops, DeploysId H k st.chainName tid op) := by
  induction ops generalizing st with
  | nil => left; simpa [run] using h
  | cons op ops ih =>
    simp only [run]
    by_cases hc : v.2 = .lockUnlock ∧ DeploysId H k st.chainName tid op
    · exact Or.inr ⟨hc.1, op, List.mem_cons_self .., hc.2⟩
    · have h' := write_once_step_at H S k st op tid v hinv h (fun hv hd => hc ⟨hv, hd⟩)
      rcases ih _ (regInvAt_step H S k st op tid hinv) h' with hst | ⟨hv, op', hop', hd⟩
      · exact Or.inl hst
      · rw [step_chainName] at hd
        exact Or.inr ⟨hv, op', List.mem_cons_of_mem _ hop', hd⟩

/-- registry provenance, raw form (a first, unconditional statement was refuted by `clash_overwrites_canonical_entry`):
    either the cause is found in the history, or the history contains a canonical registration AND a local deployment whose
    ids both equal `tid` — which `interchain_ne_canonical` turns into a collision of `H` for host-sized inputs
    (see `registry_provenance_or_collision`). -/
theorem registry_provenance_or_clash (st0 : State) (ops : List Op) (tid : Bytes) (addr : Addr) (mgr : Manager)
    (h0 : st0.registry tid = none) (hfin : (run H S k st0 ops).1.registry tid = some (addr, mgr)) :
    (∃ st op o, (st, op, o) ∈ itrace H S k st0 ops ∧ st.registry tid = none ∧ st.chainName = st0.chainName ∧ st.self = st0.self ∧
      Cause H S k tid addr mgr st op o) ∨
    (∃ token au caller salt n sy d su m, Op.registerCanonical token ∈ ops ∧ Op.deploy au caller salt n sy d su m ∈ ops ∧
      tid = canonicalTokenId H k st0.chainName token ∧ tid = interchainTokenId H k st0.chainName caller salt) := by
  induction ops generalizing st0 with
  | nil =>
    simp only [run] at hfin
    rw [h0] at hfin; cases hfin
  | cons op ops ih =>
    simp only [run] at hfin
    cases hmid : (step H S k st0 op).1.registry tid with
    | none =>
      rcases ih (step H S k st0 op).1 hmid hfin with ⟨st, op', o, hmem, hn, hc, hs, hcase⟩ |
          ⟨token, au, caller, salt, n, sy, d, su, m, hr, hdp, h1, h2⟩
      · left
        refine ⟨st, op', o, ?_, hn, ?_, ?_, hcase⟩
        · simp only [itrace]; exact List.mem_cons_of_mem _ hmem
        · rw [hc, step_chainName]
        · rw [hs, step_self]
      · right
        rw [step_chainName] at h1 h2
        exact ⟨token, au, caller, salt, n, sy, d, su, m, List.mem_cons_of_mem _ hr, List.mem_cons_of_mem _ hdp, h1, h2⟩
    | some v =>
      obtain ⟨a, m⟩ := v
      have hcause := provenance_step H S k st0 op tid a m h0 hmid
      have hinv0 : RegInvAt S k st0 tid := by
        intro x hx; rw [h0] at hx; cases hx
      have hinv1 := regInvAt_step H S k st0 op tid hinv0
      rcases stable_or_clash H S k (step H S k st0 op).1 ops tid (a, m) hinv1 hmid with hst | ⟨hv, op', hop', hd⟩
      · rw [hst] at hfin
        simp only [Option.some.injEq, Prod.mk.injEq] at hfin
        obtain ⟨rfl, rfl⟩ := hfin
        left
        refine ⟨st0, op, _, ?_, h0, rfl, rfl, hcause⟩
        simp only [itrace]; exact List.mem_cons_self ..
      · right
        simp only at hv
        subst hv
        rw [step_chainName] at hd
        rcases hcause with ⟨_, _, _, _, _, _, _, _, _, _, _, _, _, hm, _⟩ | ⟨token, evs, hop, _, htid, _, _⟩ |
            ⟨_, _, _, _, _, _, _, _, _, _, _, _, hm, _⟩
        · cases hm
        · cases op' with
          | deploy au ca sa n sy d su mi =>
            simp only [DeploysId] at hd
            subst hop
            exact ⟨token, au, ca, sa, n, sy, d, su, mi, List.mem_cons_self .., List.mem_cons_of_mem _ hop', htid, hd.symm⟩
          | _ => simp only [DeploysId] at hd
        · cases hm

/-- the inputs of the two id-deriving calls are host values -/
def OpWF : Op → Prop
  | .deploy _ caller salt _ _ _ _ _ => caller.WF ∧ Small salt
  | .registerCanonical token => token.WF
  | _ => True

/-- **every registry entry has one of three causes**: in ANY history, an id that was free at the start and is registered at
    the end was registered by exactly one of
    * a local deployment authorised by its caller — the id is the interchain id of (chain name, that caller, its salt), the
      manager is mint/burn and the token address is the address derived from (service, id);
    * a canonical registration — the id is the canonical id of (chain name, that token), the manager is lock/unlock and
      the token address is that token;
    * the delivery of a hub message, approved at the gateway for the service with exactly this payload, that decodes to a
      remote deployment of this very id — mint/burn manager, derived address.
    Nothing else ever writes the registry — or a hash collision is exhibited (`deploy_interchain_token` itself never looks at
    the registry: that a local deployment cannot land on the id of a canonical registration rests on the domain-separating
    prefixes and collision-freeness of the hash, see `clash_overwrites_canonical_entry`). -/
theorem registry_provenance_or_collision (st0 : State) (ops : List Op) (tid : Bytes) (addr : Addr) (mgr : Manager)
    (hc : Small st0.chainName) (hp : Small k.prefixTokenSalt) (hp' : Small k.prefixCanonicalSalt) (hp2 : Small k.prefixTokenId)
    (hh : ∀ x, Small (H x)) (hne : k.prefixTokenSalt ≠ k.prefixCanonicalSalt) (hops : ∀ op ∈ ops, OpWF op)
    (h0 : st0.registry tid = none) (hfin : (run H S k st0 ops).1.registry tid = some (addr, mgr)) :
    (∃ st op o, (st, op, o) ∈ itrace H S k st0 ops ∧ st.registry tid = none ∧ st.chainName = st0.chainName ∧ st.self = st0.self ∧
      Cause H S k tid addr mgr st op o) ∨ Collision H := by
  rcases registry_provenance_or_clash H S k st0 ops tid addr mgr h0 hfin with h |
      ⟨token, au, caller, salt, n, sy, d, su, m, hr, hdp, h1, h2⟩
  · exact Or.inl h
  · right
    have hw1 : token.WF := hops _ hr
    have hw2 : caller.WF ∧ Small salt := hops _ hdp
    exact interchain_ne_canonical H k _ _ caller token salt hc hc hw2.1 hw1 hw2.2 hp hp' hp2 hh hne (h2.symm.trans h1)

/-- the statement as given, under the extra hypothesis that no id is both canonical and interchain on this chain -/
theorem registry_provenance_of_no_clash (st0 : State) (ops : List Op) (tid : Bytes) (addr : Addr) (mgr : Manager)
    (hnc : ∀ token caller salt, canonicalTokenId H k st0.chainName token ≠ interchainTokenId H k st0.chainName caller salt)
    (h0 : st0.registry tid = none) (hfin : (run H S k st0 ops).1.registry tid = some (addr, mgr)) :
    ∃ st op o, (st, op, o) ∈ itrace H S k st0 ops ∧ st.registry tid = none ∧ st.chainName = st0.chainName ∧ st.self = st0.self ∧
      ((∃ auths caller salt name symbol dec supply minter evs,
          op = .deploy auths caller salt name symbol dec supply minter ∧ o = .okId tid evs ∧ caller ∈ auths ∧
          tid = interchainTokenId H k st.chainName caller salt ∧ mgr = .native ∧ addr = deployedAddress S k st.self tid) ∨
       (∃ token evs, op = .registerCanonical token ∧ o = .okId tid evs ∧
          tid = canonicalTokenId H k st.chainName token ∧ mgr = .lockUnlock ∧ addr = token) ∨
       (∃ c i sa payload origin d evs,
          op = .execute c i sa payload ∧ o = .ok evs ∧
          Abi.decodeHub payload = .ok (.receiveFromHub origin (.deploy d)) ∧ d.tokenId = tid ∧
          st.gw.approvals c i = .approved (Gateway.messageHash H ⟨c, i, sa, st.self, H payload⟩) ∧
          mgr = .native ∧ addr = deployedAddress S k st.self tid)) := by
  rcases registry_provenance_or_clash H S k st0 ops tid addr mgr h0 hfin with h |
      ⟨token, _, caller, salt, _, _, _, _, _, _, _, h1, h2⟩
  · exact h
  · exact absurd (h1.symm.trans h2) (hnc token caller salt)


/-! ### non-vacuity (the service model RUN in the kernel on a concrete history, toy hash) -/
section NonVacuity
open Cgp.Toy

def k0 : Consts := ⟨[104], [1], [2], [3], [4]⟩
def svc : Addr := ⟨true, List.replicate 32 8⟩
def user : Addr := ⟨false, List.replicate 32 11⟩
def canon : Addr := ⟨true, List.replicate 32 22⟩
def sac : Tok := { kind := .sac, name := [71], symbol := [71], decimals := 7, bal := fun a => if a = user then 500 else 0, owner := owner0, minter := fun _ => false, tokenId := [] }
def gw0 : Gateway.State := Gateway.initState owner0 owner0 [1] 0 0
/-- a service with an empty registry -/
def st0 : State :=
  { self := svc, owner := owner0, gatewayAddr := ⟨true, List.replicate 32 6⟩, gasService := ⟨true, List.replicate 32 5⟩,
    hubAddress := [120], chainName := [115], trusted := fun c => c == [101], registry := fun _ => none, gw := gw0,
    tokens := fun a => if a = canon then some sac else none, executable := fun _ => false }
def salt : Bytes := List.replicate 32 1
def salt2 : Bytes := List.replicate 32 2
def tid1 : Bytes := interchainTokenId H0 k0 [115] user salt
def tid2 : Bytes := interchainTokenId H0 k0 [115] user salt2
def tidR : Bytes := List.replicate 32 51
def a1 : Addr := deployedAddress S0 k0 svc tid1
def tidc : Bytes := canonicalTokenId H0 k0 [115] canon
def dep (tid : Bytes) : Abi.Deploy := ⟨tid, [84], [84], 6, none⟩
/-- a remote deploy message for `tid`, from the trusted chain "e" through the hub -/
def remoteDeploy (tid : Bytes) : Bytes :=
  match Abi.encodeHub (.receiveFromHub [101] (.deploy (dep tid))) with
  | .ok b => b
  | .error _ => []
def approveFor (id payload : Bytes) (g : Gateway.State) : Gateway.State :=
  { g with approvals := fun c i => if c = [104] ∧ i = id then .approved (Gateway.messageHash H0 ⟨[104], id, [120], svc, H0 payload⟩) else g.approvals c i }
/-- the history that fills the registry: a local deployment and a canonical registration … -/
def ops1 : List Op :=
  [ .deploy [user] user salt [84] [84] 6 100 none,
    .registerCanonical canon ]
/-- … and the history after it: every attempt to take one of the two ids again is refused, a fresh id is accepted -/
def ops2 : List Op :=
  [ .deploy [user] user salt [84] [84] 6 100 none,              -- same deployer and salt: refused
    .deploy [user] user salt [85] [85] 7 0 (some user),         -- … also with other metadata
    .registerCanonical canon,                                   -- registered already: refused
    .gateway (approveFor [49] (remoteDeploy tid1)),
    .execute [104] [49] [120] (remoteDeploy tid1),              -- an approved remote deploy message for a taken id: refused
    .deploy [user] user salt2 [85] [85] 7 0 none,               -- another salt: accepted
    .transferOwnership [owner0] user ]
def itsErr : Obs → Option Err | .err e => some e | _ => none

instance (chain tid : Bytes) (op : Op) : Decidable (DeploysId H k chain tid op) := by
  cases op <;> simp only [DeploysId] <;> infer_instance

theorem regInv_run (st : State) (ops : List Op) (h : RegInv S k st) : RegInv S k (run H S k st ops).1 := by
  induction ops generalizing st with
  | nil => exact h
  | cons op ops ih =>
    simp only [run]
    exact ih _ (regInv_step H S k st op h)

theorem regInv_st0 : RegInv S0 k0 st0 := by
  intro tid addr h
  simp [st0] at h

/-- the hypotheses of `regInv_step`, `registry_write_once` (for a native and for a canonical entry), `redeploy_refused` and
    `taken_id_refused` are satisfiable, and the refusals really happen: after a local deployment and a canonical registration the
    registry holds two entries; re-deploying with the same salt, re-registering, and an approved remote deploy message for a
    taken id are refused (each for its own reason) while a fresh salt is accepted; the two entries are unchanged -/
theorem registry_write_once_nonvacuous :
    RegInv S0 k0 st0 ∧ RegInv S0 k0 (run H0 S0 k0 st0 ops1).1 ∧
    -- `taken_id_refused`, second part
    Abi.decodeHub (remoteDeploy tid1) = .ok (.receiveFromHub [101] (.deploy (dep tid1))) ∧
    ((run H0 S0 k0 st0 ops1).1.registry (dep tid1).tokenId).isSome = true ∧
    -- the first history fills the registry
    (run H0 S0 k0 st0 ops1).2.map itsErr = [none, none] ∧
    [tid1, tidc, tid2].map (fun t => (st0.registry t).isSome) = [false, false, false] ∧
    (run H0 S0 k0 st0 ops1).1.registry tid1 = some (a1, .native) ∧
    (run H0 S0 k0 st0 ops1).1.registry tidc = some (canon, .lockUnlock) ∧
    [tid1, tidc, tid2].Nodup ∧
    -- side condition of `registry_write_once`, for both entries
    ((a1, Manager.native).2 = .lockUnlock → ∀ op ∈ ops2, ¬ DeploysId H0 k0 (run H0 S0 k0 st0 ops1).1.chainName tid1 op) ∧
    ((canon, Manager.lockUnlock).2 = .lockUnlock → ∀ op ∈ ops2, ¬ DeploysId H0 k0 (run H0 S0 k0 st0 ops1).1.chainName tidc op) ∧
    -- `redeploy_refused`
    ((run H0 S0 k0 st0 ops1).1.tokens (deployedAddress S0 k0 (run H0 S0 k0 st0 ops1).1.self
        (interchainTokenId H0 k0 (run H0 S0 k0 st0 ops1).1.chainName user salt))).isSome = true ∧
    -- `taken_id_refused`, first part
    ((run H0 S0 k0 st0 ops1).1.registry (canonicalTokenId H0 k0 (run H0 S0 k0 st0 ops1).1.chainName canon)).isSome = true ∧
    -- the second history: refusals, and the entries afterwards
    (run H0 S0 k0 (run H0 S0 k0 st0 ops1).1 ops2).2.map itsErr =
      [some .deployFailed, some .deployFailed, some .tokenAlreadyRegistered, none, some .tokenAlreadyDeployed, none, none] ∧
    [tid1, tidc, tid2].map (run H0 S0 k0 (run H0 S0 k0 st0 ops1).1 ops2).1.registry =
      [some (a1, .native), some (canon, .lockUnlock), some (deployedAddress S0 k0 svc tid2, .native)] := by
  refine ⟨regInv_st0, regInv_run H0 S0 k0 _ _ regInv_st0, eq_ok_of_toOption _ _ (by decide +kernel), ?_⟩
  decide +kernel

/-- a hash without any collision resistance (constant): the interchain id of (user, salt) and the canonical id of `canon` coincide -/
def Hc : Bytes → Bytes := fun _ => []

/-- WHY the provenance and write-once theorems carry a no-collision side condition: `deploy_interchain_token` never looks at
    the registry, so under a colliding hash a local deployment OVERWRITES a canonical registration (kernel-run) -/
theorem clash_overwrites_canonical_entry :
    canonicalTokenId Hc k0 [115] canon = interchainTokenId Hc k0 [115] user salt ∧
    (step Hc S0 k0 st0 (.registerCanonical canon)).1.registry [] = some (canon, .lockUnlock) ∧
    (run Hc S0 k0 st0 [.registerCanonical canon, .deploy [user] user salt [84] [84] 6 0 none]).1.registry [] =
      some (deployedAddress S0 k0 svc [], .native) := by
  decide +kernel

end NonVacuity

end Cgp.Props.C11
