/-
  Property C16 — executable-interface apps act only on approved messages, exactly once.
  Statements are FIXED: prove them exactly as stated (helper lemmas go above them or in Cgp/Proofs/C16.lean;
  you may import and reuse Cgp.Props.C02 / Cgp.Proofs.C02, which are already proved).
-/
import Cgp.Executable
import Cgp.GatewaySpec
import Cgp.Proofs.C02
import Cgp.Proofs.C16
import Cgp.Props.C01
import Cgp.Toy
namespace Cgp.Props.C16
open Cgp Cgp.Xdr Cgp.Gateway Cgp.Executable
open Cgp.Proofs.C02 Cgp.Proofs.C16

variable (H : Bytes → Bytes) {σ : Type} (V : Bytes → Bytes → σ → Bool)

/-- the message an application `app` claims to be executing when it is handed (chain, id, source address, payload) -/
def claimed (app : Addr) (c i sa p : Bytes) : Message :=
  { sourceChain := c, messageId := i, sourceAddress := sa, contract := app, payloadHash := H p }

/-- an application performs its effect iff the gateway holds an unexecuted approval naming that application, the same
    chain, id and source address, and the hash of exactly the delivered payload -/
theorem app_effect_iff (gw : State) (app : Addr) (eff : Effects) (c i sa p : Bytes) :
    (∃ r, appExecute H gw app eff c i sa p = .ok r) ↔
      gw.approvals c i = .approved (messageHash H (claimed H app c i sa p)) := by
  rw [appExecute_eq]
  unfold claimed
  constructor
  · rintro ⟨r, h⟩
    split at h
    · assumption
    · cases h
  · intro h
    rw [if_pos h]
    exact ⟨_, rfl⟩

/-- exact outcome of a successful delivery: one new effect, the approval consumed, one gateway event, nothing else touched -/
theorem app_effect_exact (gw gw' : State) (app : Addr) (eff eff' : Effects) (c i sa p : Bytes) (evs : List Event)
    (h : appExecute H gw app eff c i sa p = .ok (gw', eff', evs)) :
    eff' = eff ++ [(c, i, sa, p)] ∧ gw'.approvals c i = .executed ∧
    (∀ c' i', ¬ (c' = c ∧ i' = i) → gw'.approvals c' i' = gw.approvals c' i') ∧
    evs = [evExecuted (claimed H app c i sa p)] := by
  rw [appExecute_eq] at h
  split at h
  · injection h with h
    injection h with h1 h2
    injection h2 with h2 h3
    subst h1; subst h2; subst h3
    refine ⟨rfl, by simp, ?_, rfl⟩
    intro c' i' hne
    simp [hne]
  · cases h

/-- otherwise the delivery fails (and, being a failed invocation, has no effect at all) -/
theorem app_rejected (gw : State) (app : Addr) (eff : Effects) (c i sa p : Bytes)
    (h : gw.approvals c i ≠ .approved (messageHash H (claimed H app c i sa p))) :
    ∃ e, appExecute H gw app eff c i sa p = .error e := by
  rw [appExecute_eq]
  unfold claimed at h
  rw [if_neg h]
  exact ⟨_, rfl⟩

/-- a delivered message cannot be delivered again — to any application, with any source address or payload -/
theorem app_effect_once (gw gw' : State) (app : Addr) (eff eff' : Effects) (c i sa p : Bytes) (evs : List Event)
    (h : appExecute H gw app eff c i sa p = .ok (gw', eff', evs))
    (app2 : Addr) (eff2 : Effects) (sa2 p2 : Bytes) :
    ∃ e, appExecute H gw' app2 eff2 c i sa2 p2 = .error e := by
  have hx := (app_effect_exact H gw gw' app eff eff' c i sa p evs h).2.1
  apply app_rejected
  rw [hx]
  intro hh; cases hh

/-- the effect binds every field of what was approved: if message `m` is the recorded approval and the application acts,
    then the application is `m`'s destination, the source address is `m`'s and the DELIVERED payload hashes to `m`'s
    payload hash — or a hash collision is exhibited -/
theorem app_effect_binds (gw : State) (m : Message) (app : Addr) (eff : Effects) (sa p : Bytes)
    (hm : m.Typed) (hc : (claimed H app m.sourceChain m.messageId sa p).Typed)
    (hrec : gw.approvals m.sourceChain m.messageId = .approved (messageHash H m))
    (h : ∃ r, appExecute H gw app eff m.sourceChain m.messageId sa p = .ok r) :
    (app = m.contract ∧ sa = m.sourceAddress ∧ H p = m.payloadHash) ∨ Collision H := by
  have hr := (app_effect_iff H gw app eff m.sourceChain m.messageId sa p).mp h
  rw [hrec] at hr
  injection hr with hr
  unfold messageHash at hr
  by_cases hx : enc m.toSc = enc (claimed H app m.sourceChain m.messageId sa p).toSc
  · have := enc_injective _ _ (toSc_WF hm) (toSc_WF hc) hx
    have := toSc_injective this
    left
    cases m
    simp only [claimed, Message.mk.injEq] at this
    obtain ⟨_, _, h1, h2, h3⟩ := this
    exact ⟨h2.symm, h1.symm, h3.symm⟩
  · exact Or.inr ⟨_, _, hx, hr⟩

/-! ### histories: gateway operations interleaved with deliveries to arbitrary applications -/

inductive XOp (σ : Type) where
  | gw (op : Op σ)
  | deliver (app : Addr) (c i sa p : Bytes)

structure XWorld where
  w : World
  eff : Addr → Effects

def xstep (x : XWorld) : XOp σ → XWorld × Bool      -- Bool: did a delivery take effect
  | .gw op => ({ x with w := (step H V x.w op).1 }, false)
  | .deliver app c i sa p =>
    match appExecute H x.w.st app (x.eff app) c i sa p with
    | .ok (gw', eff', _) => ({ w := { x.w with st := gw' }, eff := fun a => if a = app then eff' else x.eff a }, true)
    | .error _ => (x, false)

def xrun (x : XWorld) : List (XOp σ) → XWorld × List Bool
  | [] => (x, [])
  | op :: ops =>
    let (x', b) := xstep H V x op
    let (x'', bs) := xrun x' ops
    (x'', b :: bs)

/-- effective deliveries of message (c, i) in a history -/
def deliveries (c i : Bytes) : List (XOp σ) → List Bool → Nat
  | (.deliver _ c' i' _ _) :: ops, true :: bs => deliveries c i ops bs + (if c' = c ∧ i' = i then 1 else 0)
  | _ :: ops, _ :: bs => deliveries c i ops bs
  | _, _ => 0

theorem xrun_cons (x : XWorld) (op : XOp σ) (ops : List (XOp σ)) :
    xrun H V x (op :: ops) =
      ((xrun H V (xstep H V x op).1 ops).1, (xstep H V x op).2 :: (xrun H V (xstep H V x op).1 ops).2) := rfl

/-- contribution of one (operation, flag) pair to `deliveries` -/
def xhit (c i : Bytes) : XOp σ → Bool → Nat
  | .deliver _ c' i' _ _, true => if c' = c ∧ i' = i then 1 else 0
  | _, _ => 0

theorem deliveries_cons (c i : Bytes) (op : XOp σ) (ops : List (XOp σ)) (b : Bool) (bs : List Bool) :
    deliveries c i (op :: ops) (b :: bs) = deliveries c i ops bs + xhit c i op b := by
  cases op <;> cases b <;> simp [deliveries, xhit]

theorem xstep_adv (x : XWorld) (op : XOp σ) (c i : Bytes) :
    Adv (x.w.st.approvals c i) ((xstep H V x op).1.w.st.approvals c i) := by
  cases op with
  | gw op => exact step_adv H V x.w op c i
  | deliver app c' i' sa p =>
    simp only [xstep]
    split
    · rename_i gw' eff' evs h
      obtain ⟨_, he, hne, _⟩ := app_effect_exact H _ _ _ _ _ _ _ _ _ _ h
      have hap := (app_effect_iff H x.w.st app (x.eff app) c' i' sa p).mp ⟨_, h⟩
      by_cases hci : c = c' ∧ i = i'
      · obtain ⟨rfl, rfl⟩ := hci
        exact Or.inr (Or.inr ⟨⟨_, hap⟩, he⟩)
      · exact Or.inl (hne c i hci).symm
    · exact Adv.refl _

theorem xstep_executed (x : XWorld) (op : XOp σ) (c i : Bytes) (h0 : x.w.st.approvals c i = .executed) :
    (xstep H V x op).1.w.st.approvals c i = .executed := by
  rcases xstep_adv H V x op c i with h | ⟨h, _⟩ | ⟨_, h⟩
  · rw [← h]; exact h0
  · rw [h0] at h; cases h
  · exact h

/-- a hit happens only from `approved`, and leaves `executed` -/
theorem xhit_step (x : XWorld) (op : XOp σ) (c i : Bytes) (hh : xhit c i op (xstep H V x op).2 ≠ 0) :
    (∃ h, x.w.st.approvals c i = .approved h) ∧ (xstep H V x op).1.w.st.approvals c i = .executed ∧
    xhit c i op (xstep H V x op).2 = 1 := by
  cases op with
  | gw op => simp [xhit] at hh
  | deliver app c' i' sa p =>
    simp only [xstep] at hh ⊢
    split at hh
    · rename_i gw' eff' evs h
      obtain ⟨_, he, _, _⟩ := app_effect_exact H _ _ _ _ _ _ _ _ _ _ h
      have hap := (app_effect_iff H x.w.st app (x.eff app) c' i' sa p).mp ⟨_, h⟩
      simp only [xhit] at hh ⊢
      by_cases hci : c' = c ∧ i' = i
      · obtain ⟨rfl, rfl⟩ := hci
        exact ⟨⟨_, hap⟩, he, by simp⟩
      · simp [hci] at hh
    · simp [xhit] at hh

theorem deliveries_bound (x : XWorld) (ops : List (XOp σ)) (c i : Bytes) :
    deliveries c i ops (xrun H V x ops).2 ≤ 1 ∧
    (x.w.st.approvals c i = .executed → deliveries c i ops (xrun H V x ops).2 = 0) := by
  induction ops generalizing x with
  | nil => simp [deliveries]
  | cons op ops ih =>
    rw [xrun_cons]
    simp only [deliveries_cons]
    obtain ⟨ih1, ih2⟩ := ih (xstep H V x op).1
    by_cases hh : xhit c i op (xstep H V x op).2 = 0
    · rw [hh]
      refine ⟨ih1, fun h0 => ?_⟩
      have := ih2 (xstep_executed H V x op c i h0)
      omega
    · obtain ⟨⟨h, ha⟩, he, h1⟩ := xhit_step H V x op c i hh
      have := ih2 he
      rw [h1, this]
      refine ⟨Nat.le_refl _, fun h0 => ?_⟩
      rw [h0] at ha; cases ha

/-- **exactly once over every history**: whatever the gateway operations (approvals, re-approvals of the same id with the
    same or other content, rotations, direct consumption attempts) and deliveries, each (chain, id) takes effect at most once
    across ALL applications -/
theorem effect_at_most_once (x : XWorld) (ops : List (XOp σ)) (c i : Bytes) :
    deliveries c i ops (xrun H V x ops).2 ≤ 1 := by
  exact (deliveries_bound H V x ops c i).1

/-- and never, if the message was already executed -/
theorem no_effect_after_executed (x : XWorld) (ops : List (XOp σ)) (c i : Bytes)
    (h0 : x.w.st.approvals c i = .executed) :
    deliveries c i ops (xrun H V x ops).2 = 0 := by
  exact (deliveries_bound H V x ops c i).2 h0

/-! ### end to end: an application's effect was signed -/

def xtrace (x : XWorld) : List (XOp σ) → List (XWorld × XOp σ × Bool)
  | [] => []
  | op :: ops => (x, op, (xstep H V x op).2) :: xtrace (xstep H V x op).1 ops

def XOp.Typed : XOp σ → Prop
  | .gw op => op.Typed
  | .deliver .. => True

/-! #### helpers for `app_effect_was_signed` -/

theorem xtrace_cons (x : XWorld) (op : XOp σ) (ops : List (XOp σ)) :
    xtrace H V x (op :: ops) = (x, op, (xstep H V x op).2) :: xtrace H V (xstep H V x op).1 ops := rfl

/-- a delivery that takes effect found the approval of exactly what the application claims -/
theorem xstep_deliver_true (x : XWorld) (app : Addr) (c i sa p : Bytes)
    (h : (xstep H V x (.deliver app c i sa p)).2 = true) :
    x.w.st.approvals c i = .approved (messageHash H (claimed H app c i sa p)) := by
  simp only [xstep] at h
  split at h
  · rename_i gw' eff' evs he
    exact (app_effect_iff H x.w.st app (x.eff app) c i sa p).mp ⟨_, he⟩
  · simp at h

/-- every typed step preserves the invariant of C01 -/
theorem xstep_inv (x : XWorld) (op : XOp σ) (hty : op.Typed) (hinv : Cgp.Props.C01.AInv H x.w.st) :
    Cgp.Props.C01.AInv H (xstep H V x op).1.w.st := by
  cases op with
  | gw op => exact Cgp.Props.C01.AInv_step H V x.w op hty hinv
  | deliver app c' i' sa p =>
    simp only [xstep]
    split
    · rename_i gw' eff' evs he
      rw [appExecute_eq] at he
      split at he
      · injection he with he
        injection he with he1 _
        subst he1
        exact Cgp.Props.C01.AInv_sameAuth H _ _ hinv ⟨rfl, rfl, rfl, rfl⟩
      · cases he
    · exact hinv

/-- one step of a history: an `approved h` record after the step was there before, or the step was a successful
    `approve_messages` with a valid proof whose batch contains a message with that key and hash -/
theorem xstep_approved (x : XWorld) (op : XOp σ) (hty : op.Typed) (hinv : Cgp.Props.C01.AInv H x.w.st) (c i h : Bytes)
    (h1 : (xstep H V x op).1.w.st.approvals c i = .approved h) :
    x.w.st.approvals c i = .approved h ∨
    (∃ ms proof m, op = .gw (.approve ms proof) ∧ m ∈ ms ∧ m.sourceChain = c ∧ m.messageId = i ∧
        messageHash H m = h ∧ ProofValid H V x.w.st (approveDataHash H ms) proof) ∨ Collision H := by
  cases op with
  | gw op =>
    rcases Cgp.Props.C01.step_approved H V x.w op hty hinv c i h h1 with h2 | ⟨ms, proof, evs, m, rfl, _, hr⟩ | hcol
    · exact Or.inl h2
    · exact Or.inr (Or.inl ⟨ms, proof, m, rfl, hr⟩)
    · exact Or.inr (Or.inr hcol)
  | deliver app c' i' sa p =>
    left
    simp only [xstep] at h1
    split at h1
    · rename_i gw' eff' evs he
      obtain ⟨_, hx, hne, _⟩ := app_effect_exact H _ _ _ _ _ _ _ _ _ _ he
      by_cases hci : c = c' ∧ i = i'
      · obtain ⟨rfl, rfl⟩ := hci
        simp only at h1
        rw [hx] at h1; cases h1
      · simp only at h1
        rw [hne c i hci] at h1
        exact h1
    · exact h1

theorem xtrace_signed (ops : List (XOp σ)) : ∀ (x0 : XWorld), Cgp.Props.C01.AInv H x0.w.st → (∀ op ∈ ops, op.Typed) →
    ∀ (pre post : List (XWorld × XOp σ × Bool)) (x : XWorld) (app : Addr) (c i sa p : Bytes),
    xtrace H V x0 ops = pre ++ (x, .deliver app c i sa p, true) :: post →
    x0.w.st.approvals c i = .approved (messageHash H (claimed H app c i sa p)) ∨
    (∃ xa ms proof b m, (xa, XOp.gw (.approve ms proof), b) ∈ pre ∧ m ∈ ms ∧
        m.sourceChain = c ∧ m.messageId = i ∧ messageHash H m = messageHash H (claimed H app c i sa p) ∧
        ProofValid H V xa.w.st (approveDataHash H ms) proof)
    ∨ Collision H := by
  induction ops with
  | nil =>
    intro x0 _ _ pre post x app c i sa p ht
    simp [xtrace] at ht
  | cons op ops ih =>
    intro x0 hinv hty pre post x app c i sa p ht
    rw [xtrace_cons] at ht
    have hop : op.Typed := hty op List.mem_cons_self
    cases pre with
    | nil =>
      simp only [List.nil_append, List.cons.injEq, Prod.mk.injEq] at ht
      obtain ⟨⟨rfl, rfl, hb⟩, _⟩ := ht
      exact Or.inl (xstep_deliver_true H V x0 app c i sa p hb)
    | cons e pre' =>
      simp only [List.cons_append, List.cons.injEq] at ht
      obtain ⟨rfl, ht⟩ := ht
      rcases ih (xstep H V x0 op).1 (xstep_inv H V x0 op hop hinv) (fun o ho => hty o (List.mem_cons_of_mem _ ho))
          pre' post x app c i sa p ht with h1 | ⟨xa, ms, proof, b, m, hmem, hr⟩ | hcol
      · rcases xstep_approved H V x0 op hop hinv c i _ h1 with h2 | ⟨ms, proof, m, rfl, hr⟩ | hcol
        · exact Or.inl h2
        · exact Or.inr (Or.inl ⟨x0, ms, proof, _, m, List.mem_cons_self, hr⟩)
        · exact Or.inr (Or.inr hcol)
      · exact Or.inr (Or.inl ⟨xa, ms, proof, b, m, List.mem_cons_of_mem _ hmem, hr⟩)
      · exact Or.inr (Or.inr hcol)

/-- **every effect of every application was signed**: in every history that starts from a freshly constructed gateway
    (typed sets and submissions), each delivery that takes effect at an application is preceded by a successful
    `approve_messages` call whose batch contains a message with this chain and id and the very message hash of what the
    application claims to execute (so, by C01's `messageHash_binds`, that very message: same source address, this application as
    destination, hash of exactly this payload), under a proof valid at that moment (C01's `ProofValid`) — or a hash
    collision is exhibited. -/
theorem app_effect_was_signed (owner operator : Addr) (domain : Bytes) (minDelay retention : Nat) (sets : List WSigners)
    (now : Nat) (x0 : XWorld) (hsets : ∀ ws ∈ sets, ws.Typed)
    (hc : constructed H owner operator domain minDelay retention sets now = some x0.w)
    (ops : List (XOp σ)) (hty : ∀ op ∈ ops, op.Typed)
    (pre post : List (XWorld × XOp σ × Bool)) (x : XWorld) (app : Addr) (c i sa p : Bytes)
    (ht : xtrace H V x0 ops = pre ++ (x, .deliver app c i sa p, true) :: post) :
    (∃ xa ms proof b m, (xa, XOp.gw (.approve ms proof), b) ∈ pre ∧ m ∈ ms ∧
        m.sourceChain = c ∧ m.messageId = i ∧ messageHash H m = messageHash H (claimed H app c i sa p) ∧
        ProofValid H V xa.w.st (approveDataHash H ms) proof)
    ∨ Collision H := by
  have hinv := Cgp.Props.C01.AInv_constructed H owner operator domain minDelay retention sets now x0.w hsets hc
  have h0 := Cgp.Props.C01.constructed_no_approvals H owner operator domain minDelay retention sets now x0.w hc c i
  rcases xtrace_signed H V ops x0 hinv hty pre post x app c i sa p ht with h1 | h1
  · rw [h0] at h1; cases h1
  · exact h1


/-! ### non-vacuity (the model RUN in the kernel on a concrete history, toy hash) -/
section NonVacuity
open Cgp.Toy

def app0 : Addr := ⟨true, List.replicate 32 9⟩
def mA : Message := ⟨[97], [49], [98], app0, H0 [1, 2, 3]⟩

/-- the hypotheses of `app_effect_was_signed` are satisfiable, and exactly-once is visible: on a freshly constructed gateway
    a signed approval, then a delivery that takes effect, then the same delivery again, which does not -/
theorem app_effect_was_signed_nonvacuous :
    ∃ g0, constructed H0 owner0 owner0 [1] 0 0 [ws0] 5 = some g0 ∧
      ((xtrace H0 V0 ⟨g0, fun _ => []⟩
          [.gw (.approve [mA] pf0), .deliver app0 [97] [49] [98] [1, 2, 3], .deliver app0 [97] [49] [98] [1, 2, 3]]).map (·.2.2))
        = [false, true, false] := by
  refine ⟨_, rfl, ?_⟩
  decide +kernel

end NonVacuity

end Cgp.Props.C16
