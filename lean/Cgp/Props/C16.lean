/-
  Property C16 — PLACEHOLDER while the full theorem file (lean/stmts/C16.lean.txt) is being proved.
-/
import Cgp.Executable
import Cgp.GatewaySpec
namespace Cgp.Props.C16
open Cgp Cgp.Xdr Cgp.Gateway Cgp.Executable

theorem app_rejected_unauth_never (H : Bytes → Bytes) (gw : State) (app : Addr) (eff : Effects) (c i sa p : Bytes)
    (h : gw.approvals c i = .notApproved) :
    ∃ e, appExecute H gw app eff c i sa p = .error e := by
  simp [appExecute, validateMessage, h]

end Cgp.Props.C16
