/-
  Property C14 — PLACEHOLDER while the full theorem file (lean/stmts/C14.lean.txt) is being proved.
-/
import Cgp.GasService
namespace Cgp.Props.C14
open Cgp Cgp.Xdr Cgp.Sac Cgp.GasService

theorem rejected_moves_nothing (H : Bytes → Bytes) (st : State) (op : Op) (e : Err) (h : (step H st op).2 = .error e) :
    (step H st op).1 = st := by
  simp only [step] at h ⊢
  split <;> simp_all

end Cgp.Props.C14
