/-
  Property C14 — the gas service holds exactly what was paid in minus what its collector paid out.
  Statements are FIXED: prove them exactly as stated (helper lemmas go above them or in Cgp/Proofs/C14.lean).
-/
import Cgp.GasService
import Cgp.Toy
namespace Cgp.Props.C14
open Cgp Cgp.Xdr Cgp.Sac Cgp.GasService

theorem transfer_some {b b' : Bank} {token src dst : Addr} {amount : Int} {au : Bool}
    (h : b.transfer token src dst amount au = some b') :
    b.isToken token = true ∧ au = true ∧ 0 ≤ amount ∧ amount ≤ b.bal token src ∧
    ∀ t x, b'.bal t x = b.bal t x + (if t = token ∧ x = dst then amount else 0)
        - (if t = token ∧ x = src then amount else 0) := by
  unfold Bank.transfer at h
  split at h; · cases h
  split at h; · cases h
  split at h; · cases h
  split at h; · cases h
  extract_lets b1 at h
  split at h; · cases h
  cases h
  have hb1 : ∀ t x, b1.bal t x = if t = token ∧ x = src then b.bal token src - amount else b.bal t x :=
    fun _ _ => rfl
  refine ⟨by simp_all, by simp_all, by omega, by omega, ?_⟩
  intro t x
  simp only [hb1]
  by_cases h1 : t = token <;> by_cases h2 : x = dst <;> by_cases h3 : x = src <;> by_cases h4 : dst = src <;>
    simp [h1, h2, h3, h4] <;> (try subst_vars) <;> (try simp_all) <;> (try omega)

theorem mint_some {b b' : Bank} {token dst : Addr} {amount : Int}
    (h : b.mint token dst amount = some b') :
    0 ≤ amount ∧ ∀ t x, b'.bal t x = b.bal t x + (if t = token ∧ x = dst then amount else 0) := by
  unfold Bank.mint at h
  split at h; · cases h
  split at h; · cases h
  split at h; · cases h
  cases h
  refine ⟨by omega, ?_⟩
  intro t x
  simp only
  split
  · next h1 => obtain ⟨rfl, rfl⟩ := h1; rfl
  · omega

theorem payGas_inv {H : Bytes → Bytes} {st st' : State} {auths sender chain dest payload spender token amount metadata evs}
    (h : payGas H st auths sender chain dest payload spender token amount metadata = .ok (st', evs)) :
    spender ∈ auths ∧ 0 < amount ∧ evs = [evGasPaid H sender chain dest payload spender token amount metadata] ∧
    ∃ b, st.bank.transfer token spender st.self amount true = some b ∧ st' = { st with bank := b } := by
  unfold payGas at h
  split at h; · cases h
  split at h; · cases h
  split at h; · cases h
  next b hb =>
  cases h
  exact ⟨by simp_all, by omega, rfl, b, hb, rfl⟩

theorem addGas_inv {st st' : State} {auths sender msgId spender token amount evs}
    (h : addGas st auths sender msgId spender token amount = .ok (st', evs)) :
    spender ∈ auths ∧ 0 < amount ∧ evs = [evGasAdded sender msgId spender token amount] ∧
    ∃ b, st.bank.transfer token spender st.self amount true = some b ∧ st' = { st with bank := b } := by
  unfold addGas at h
  split at h; · cases h
  split at h; · cases h
  split at h; · cases h
  next b hb =>
  cases h
  exact ⟨by simp_all, by omega, rfl, b, hb, rfl⟩

theorem collectFees_inv {st st' : State} {auths receiver token amount evs}
    (h : collectFees st auths receiver token amount = .ok (st', evs)) :
    st.collector ∈ auths ∧ 0 < amount ∧ evs = [evCollected st.collector token amount] ∧
    ∃ b, st.bank.transfer token st.self receiver amount true = some b ∧ st' = { st with bank := b } := by
  unfold collectFees at h
  split at h; · cases h
  split at h; · cases h
  split at h; · cases h
  split at h; · cases h
  split at h; · cases h
  next b hb =>
  cases h
  exact ⟨by simp_all, by omega, rfl, b, hb, rfl⟩

theorem refund_inv {st st' : State} {auths msgId receiver token amount evs}
    (h : refund st auths msgId receiver token amount = .ok (st', evs)) :
    st.collector ∈ auths ∧ evs = [evRefunded msgId receiver token amount] ∧
    ∃ b, st.bank.transfer token st.self receiver amount true = some b ∧ st' = { st with bank := b } := by
  unfold refund at h
  split at h; · cases h
  split at h; · cases h
  next b hb =>
  cases h
  exact ⟨by simp_all, rfl, b, hb, rfl⟩

theorem transferOwnership_inv {st st' : State} {auths new evs}
    (h : transferOwnership st auths new = .ok (st', evs)) : st' = { st with owner := new } := by
  unfold transferOwnership at h
  split at h; · cases h
  cases h; rfl

theorem userTransfer_inv {H : Bytes → Bytes} {st st' : State} {t s d a au evs}
    (h : apply H st (.userTransfer t s d a au) = .ok (st', evs)) :
    s ≠ st.self ∧ d ≠ st.self ∧ ∃ b, st.bank.transfer t s d a au = some b ∧ st' = { st with bank := b } := by
  simp only [apply] at h
  split at h; · cases h
  split at h; · cases h
  next b hb =>
  cases h
  exact ⟨by simp_all, by simp_all, b, hb, rfl⟩

theorem adminMint_inv {H : Bytes → Bytes} {st st' : State} {t d a evs}
    (h : apply H st (.adminMint t d a) = .ok (st', evs)) :
    d ≠ st.self ∧ ∃ b, st.bank.mint t d a = some b ∧ st' = { st with bank := b } := by
  simp only [apply] at h
  split at h; · cases h
  split at h; · cases h
  next b hb =>
  cases h
  exact ⟨by simp_all, b, hb, rfl⟩

theorem step_ok {H : Bytes → Bytes} {st : State} {op : Op} {st' evs} (h : apply H st op = .ok (st', evs)) :
    step H st op = (st', .ok evs) := by
  simp only [step, h]

theorem step_err {H : Bytes → Bytes} {st : State} {op : Op} {e} (h : apply H st op = .error e) :
    step H st op = (st, .error e) := by
  simp only [step, h]

variable (H : Bytes → Bytes)

/-- signed movement of `token` into the service caused by a SUCCESSFUL operation -/
def flow (token : Addr) : Op → Int
  | .payGas _ _ _ _ _ _ t a _ => if t = token then a else 0
  | .addGas _ _ _ _ t a => if t = token then a else 0
  | .collectFees _ _ t a => if t = token then -a else 0
  | .refund _ _ _ t a => if t = token then -a else 0
  | _ => 0

/-- the counterparty of every movement is somebody else than the service itself -/
def External (self : Addr) : Op → Prop
  | .payGas _ _ _ _ _ sp _ _ _ => sp ≠ self
  | .addGas _ _ _ sp _ _ => sp ≠ self
  | .collectFees _ r _ _ => r ≠ self
  | .refund _ _ r _ _ => r ≠ self
  | _ => True

/-- payments and top-ups received minus fees collected and refunds issued, over a history (successful operations only) -/
def netFlow (st : State) (token : Addr) : List Op → Int
  | [] => 0
  | op :: rest =>
    (match (step H st op).2 with | .ok _ => flow token op | .error _ => 0) + netFlow (step H st op).1 token rest

def BankNonNeg (b : Bank) : Prop := ∀ t h, 0 ≤ b.bal t h

theorem self_fixed (st : State) (op : Op) :
    (step H st op).1.self = st.self ∧ (step H st op).1.collector = st.collector := by
  cases h : apply H st op with
  | error e => rw [step_err h]; exact ⟨rfl, rfl⟩
  | ok p =>
    obtain ⟨st', evs⟩ := p
    rw [step_ok h]
    cases op with
    | payGas => obtain ⟨_, _, _, b, _, rfl⟩ := payGas_inv h; exact ⟨rfl, rfl⟩
    | addGas => obtain ⟨_, _, _, b, _, rfl⟩ := addGas_inv h; exact ⟨rfl, rfl⟩
    | collectFees => obtain ⟨_, _, _, b, _, rfl⟩ := collectFees_inv h; exact ⟨rfl, rfl⟩
    | refund => obtain ⟨_, _, b, _, rfl⟩ := refund_inv h; exact ⟨rfl, rfl⟩
    | transferOwnership => rw [transferOwnership_inv h]; exact ⟨rfl, rfl⟩
    | userTransfer => obtain ⟨_, _, b, _, rfl⟩ := userTransfer_inv h; exact ⟨rfl, rfl⟩
    | adminMint => obtain ⟨_, b, _, rfl⟩ := adminMint_inv h; exact ⟨rfl, rfl⟩
    | upgradeMigrate au => cases (apply_upgradeMigrate_ok H st au _ h).1; exact ⟨rfl, rfl⟩

theorem service_balance_step (st : State) (op : Op) (token : Addr) (hext : External st.self op) :
    (step H st op).1.bank.bal token st.self =
      st.bank.bal token st.self + (match (step H st op).2 with | .ok _ => flow token op | .error _ => 0) := by
  cases h : apply H st op with
  | error e => rw [step_err h]; simp
  | ok p =>
    obtain ⟨st', evs⟩ := p
    rw [step_ok h]
    cases op with
    | payGas au s c d pl sp t a m =>
      obtain ⟨_, _, _, b, hb, rfl⟩ := payGas_inv h
      obtain ⟨_, _, _, _, hbal⟩ := transfer_some hb
      simp only [External] at hext
      simp only [flow, hbal]
      by_cases ht : t = token
      · subst ht; simp [Ne.symm hext]
      · simp [ht, Ne.symm ht]
    | addGas au s i sp t a =>
      obtain ⟨_, _, _, b, hb, rfl⟩ := addGas_inv h
      obtain ⟨_, _, _, _, hbal⟩ := transfer_some hb
      simp only [External] at hext
      simp only [flow, hbal]
      by_cases ht : t = token
      · subst ht; simp [Ne.symm hext]
      · simp [ht, Ne.symm ht]
    | collectFees au r t a =>
      obtain ⟨_, _, _, b, hb, rfl⟩ := collectFees_inv h
      obtain ⟨_, _, _, _, hbal⟩ := transfer_some hb
      simp only [External] at hext
      simp only [flow, hbal]
      by_cases ht : t = token
      · subst ht; simp [Ne.symm hext]; omega
      · simp [ht, Ne.symm ht]
    | refund au i r t a =>
      obtain ⟨_, _, b, hb, rfl⟩ := refund_inv h
      obtain ⟨_, _, _, _, hbal⟩ := transfer_some hb
      simp only [External] at hext
      simp only [flow, hbal]
      by_cases ht : t = token
      · subst ht; simp [Ne.symm hext]; omega
      · simp [ht, Ne.symm ht]
    | transferOwnership => rw [transferOwnership_inv h]; simp [flow]
    | userTransfer t s d a au =>
      obtain ⟨h1, h2, b, hb, rfl⟩ := userTransfer_inv h
      obtain ⟨_, _, _, _, hbal⟩ := transfer_some hb
      simp [flow, hbal, Ne.symm h1, Ne.symm h2]
    | adminMint t d a =>
      obtain ⟨h1, b, hb, rfl⟩ := adminMint_inv h
      obtain ⟨_, hbal⟩ := mint_some hb
      simp [flow, hbal, Ne.symm h1]
    | upgradeMigrate au => cases (apply_upgradeMigrate_ok H st au _ h).1; simp [flow]

/-- **balance equation over every history**, for every token -/
theorem service_balance_run (st : State) (ops : List Op) (token : Addr) (hext : ∀ op ∈ ops, External st.self op) :
    (run H st ops).bank.bal token st.self = st.bank.bal token st.self + netFlow H st token ops := by
  induction ops generalizing st with
  | nil => simp [run, netFlow]
  | cons op rest ih =>
    have hs := (self_fixed H st op).1
    have h1 := service_balance_step H st op token (hext op (by simp))
    have h2 := ih (step H st op).1 (by rw [hs]; intro o ho; exact hext o (by simp [ho]))
    rw [hs] at h2
    simp only [run, netFlow]
    rw [h2, h1]; omega

/-- a payment requires a positive amount, the spender's authorisation, and moves exactly that amount from the spender -/
theorem payment_exact_and_positive (st st' : State) (auths : List Addr) (sender : Addr) (chain dest payload : Bytes)
    (spender token : Addr) (amount : Int) (metadata : Bytes) (evs : List Event)
    (h : payGas H st auths sender chain dest payload spender token amount metadata = .ok (st', evs))
    (hext : spender ≠ st.self) :
    0 < amount ∧ spender ∈ auths ∧ amount ≤ st.bank.bal token spender ∧
    st'.bank.bal token spender = st.bank.bal token spender - amount ∧
    st'.bank.bal token st.self = st.bank.bal token st.self + amount ∧
    (∀ t h, ¬ (t = token ∧ (h = spender ∨ h = st.self)) → st'.bank.bal t h = st.bank.bal t h) ∧
    evs = [evGasPaid H sender chain dest payload spender token amount metadata] := by
  obtain ⟨h1, h2, h3, b, hb, rfl⟩ := payGas_inv h
  obtain ⟨_, _, _, h4, hbal⟩ := transfer_some hb
  refine ⟨h2, h1, h4, ?_, ?_, ?_, h3⟩
  · simp [hbal, hext]
  · simp [hbal, Ne.symm hext]
  · intro t x hn
    simp only [hbal]
    by_cases ht : t = token
    · subst ht
      have : ¬ x = spender := fun e => hn ⟨rfl, Or.inl e⟩
      have : ¬ x = st.self := fun e => hn ⟨rfl, Or.inr e⟩
      simp [*]
    · simp [ht]

theorem topup_exact_and_positive (st st' : State) (auths : List Addr) (sender : Addr) (msgId : Bytes)
    (spender token : Addr) (amount : Int) (evs : List Event)
    (h : addGas st auths sender msgId spender token amount = .ok (st', evs)) (hext : spender ≠ st.self) :
    0 < amount ∧ spender ∈ auths ∧
    st'.bank.bal token spender = st.bank.bal token spender - amount ∧
    st'.bank.bal token st.self = st.bank.bal token st.self + amount ∧
    evs = [evGasAdded sender msgId spender token amount] := by
  obtain ⟨h1, h2, h3, b, hb, rfl⟩ := addGas_inv h
  obtain ⟨_, _, _, h4, hbal⟩ := transfer_some hb
  refine ⟨h2, h1, ?_, ?_, h3⟩
  · simp [hbal, hext]
  · simp [hbal, Ne.symm hext]

/-- fee collection: collector only, positive amount, never more than the service holds, exact movement, one event -/
theorem collect_exact (st st' : State) (auths : List Addr) (receiver token : Addr) (amount : Int) (evs : List Event)
    (h : collectFees st auths receiver token amount = .ok (st', evs)) (hext : receiver ≠ st.self) :
    st.collector ∈ auths ∧ 0 < amount ∧ amount ≤ st.bank.bal token st.self ∧
    st'.bank.bal token st.self = st.bank.bal token st.self - amount ∧
    st'.bank.bal token receiver = st.bank.bal token receiver + amount ∧
    evs = [evCollected st.collector token amount] := by
  obtain ⟨h1, h2, h3, b, hb, rfl⟩ := collectFees_inv h
  obtain ⟨_, _, _, h4, hbal⟩ := transfer_some hb
  refine ⟨h1, h2, h4, ?_, ?_, h3⟩
  · simp [hbal, Ne.symm hext]
  · simp [hbal, hext]

theorem refund_exact (st st' : State) (auths : List Addr) (msgId : Bytes) (receiver token : Addr) (amount : Int)
    (evs : List Event)
    (h : refund st auths msgId receiver token amount = .ok (st', evs)) (hext : receiver ≠ st.self) :
    st.collector ∈ auths ∧ 0 ≤ amount ∧ amount ≤ st.bank.bal token st.self ∧
    st'.bank.bal token st.self = st.bank.bal token st.self - amount ∧
    st'.bank.bal token receiver = st.bank.bal token receiver + amount ∧
    evs = [evRefunded msgId receiver token amount] := by
  obtain ⟨h1, h3, b, hb, rfl⟩ := refund_inv h
  obtain ⟨_, _, h2, h4, hbal⟩ := transfer_some hb
  refine ⟨h1, h2, h4, ?_, ?_, h3⟩
  · simp [hbal, Ne.symm hext]
  · simp [hbal, hext]

/-- only the gas collector can move funds out: if any operation lowers the service's balance of any token,
    it is a collect or refund call that the collector authorised -/
theorem only_collector_pays_out (st : State) (op : Op) (token : Addr)
    (h : (step H st op).1.bank.bal token st.self < st.bank.bal token st.self) :
    st.collector ∈ (match op with
      | .collectFees au _ _ _ => au
      | .refund au _ _ _ _ => au
      | _ => []) := by
  cases h' : apply H st op with
  | error e => rw [step_err h'] at h; simp at h
  | ok p =>
    obtain ⟨st', evs⟩ := p
    rw [step_ok h'] at h
    cases op with
    | payGas au s c d pl sp t a m =>
      exfalso
      obtain ⟨_, _, _, b, hb, rfl⟩ := payGas_inv h'
      obtain ⟨_, _, _, _, hbal⟩ := transfer_some hb
      simp only [hbal] at h
      by_cases ht : token = t
      · simp only [ht, true_and, if_true] at h
        split at h <;> omega
      · simp [ht] at h
    | addGas au s i sp t a =>
      exfalso
      obtain ⟨_, _, _, b, hb, rfl⟩ := addGas_inv h'
      obtain ⟨_, _, _, _, hbal⟩ := transfer_some hb
      simp only [hbal] at h
      by_cases ht : token = t
      · simp only [ht, true_and, if_true] at h
        split at h <;> omega
      · simp [ht] at h
    | collectFees au r t a => exact (collectFees_inv h').1
    | refund au i r t a => exact (refund_inv h').1
    | transferOwnership => rw [transferOwnership_inv h'] at h; simp at h
    | userTransfer t s d a au =>
      exfalso
      obtain ⟨h1, h2, b, hb, rfl⟩ := userTransfer_inv h'
      obtain ⟨_, _, _, _, hbal⟩ := transfer_some hb
      simp [hbal, Ne.symm h1, Ne.symm h2] at h
    | adminMint t d a =>
      exfalso
      obtain ⟨h1, b, hb, rfl⟩ := adminMint_inv h'
      obtain ⟨_, hbal⟩ := mint_some hb
      simp [hbal, Ne.symm h1] at h
    | upgradeMigrate au =>
      exfalso
      cases (apply_upgradeMigrate_ok H st au _ h').1
      simp at h

/-- never overdrawn: no balance (of the service or anyone) ever becomes negative, over every history -/
theorem nonneg_step (st : State) (op : Op) (h : BankNonNeg st.bank) : BankNonNeg (step H st op).1.bank := by
  have htr : ∀ {b' : Bank} {tok src dst : Addr} {amt : Int} {au : Bool},
      st.bank.transfer tok src dst amt au = some b' → BankNonNeg b' := by
    intro b' tok src dst amt au hb t x
    obtain ⟨_, _, h0, h1, hbal⟩ := transfer_some hb
    have := h t x
    rw [hbal]
    by_cases hs : t = tok ∧ x = src
    · obtain ⟨rfl, rfl⟩ := hs
      simp only [true_and, if_true]
      split <;> omega
    · simp only [hs, if_false]
      split <;> omega
  cases h' : apply H st op with
  | error e => rw [step_err h']; exact h
  | ok p =>
    obtain ⟨st', evs⟩ := p
    rw [step_ok h']
    cases op with
    | payGas => obtain ⟨_, _, _, b, hb, rfl⟩ := payGas_inv h'; exact htr hb
    | addGas => obtain ⟨_, _, _, b, hb, rfl⟩ := addGas_inv h'; exact htr hb
    | collectFees => obtain ⟨_, _, _, b, hb, rfl⟩ := collectFees_inv h'; exact htr hb
    | refund => obtain ⟨_, _, b, hb, rfl⟩ := refund_inv h'; exact htr hb
    | transferOwnership => rw [transferOwnership_inv h']; exact h
    | userTransfer => obtain ⟨_, _, b, hb, rfl⟩ := userTransfer_inv h'; exact htr hb
    | adminMint =>
      obtain ⟨_, b, hb, rfl⟩ := adminMint_inv h'
      obtain ⟨h0, hbal⟩ := mint_some hb
      intro t x
      have := h t x
      simp only [hbal]
      split <;> omega
    | upgradeMigrate au => cases (apply_upgradeMigrate_ok H st au _ h').1; exact h

theorem nonneg_run (st : State) (ops : List Op) (h : BankNonNeg st.bank) : BankNonNeg (run H st ops).bank := by
  induction ops generalizing st with
  | nil => exact h
  | cons op rest ih => exact ih _ (nonneg_step H st op h)

theorem rejected_moves_nothing (st : State) (op : Op) (e : Err) (h : (step H st op).2 = .error e) :
    (step H st op).1 = st := by
  cases h' : apply H st op with
  | error e => rw [step_err h']
  | ok p =>
    obtain ⟨st', evs⟩ := p
    rw [step_ok h'] at h; cases h

/-- non-positive payments are rejected -/
theorem nonpositive_payment_rejected (st : State) (auths : List Addr) (sender : Addr) (chain dest payload : Bytes)
    (spender token : Addr) (amount : Int) (metadata : Bytes) (h : amount ≤ 0) :
    (∃ e, payGas H st auths sender chain dest payload spender token amount metadata = .error e) ∧
    (∃ e, addGas st auths sender chain spender token amount = .error e) := by
  constructor
  · unfold payGas
    split
    · exact ⟨_, rfl⟩
    · exact ⟨_, rfl⟩
  · unfold addGas
    split
    · exact ⟨_, rfl⟩
    · exact ⟨_, rfl⟩

/-! ### non-vacuity (the model RUN in the kernel on a concrete history, toy hash) -/
/-- the owner's administrative step — upgrade to the same code and migration — moves no funds and changes no role, whether it is
    accepted or refused; it is accepted only with the owner's authorisation (the history theorems above range over this operation) -/
theorem admin_step_changes_nothing (st : State) (auths : List Addr) :
    (step H st (.upgradeMigrate auths)).1 = st ∧
    (∀ r, apply H st (.upgradeMigrate auths) = .ok r → r = (st, []) ∧ st.owner ∈ auths) :=
  ⟨step_upgradeMigrate_fst H st auths, fun r h => apply_upgradeMigrate_ok H st auths r h⟩

section NonVacuity
open Cgp.Toy

def svcG : Addr := ⟨true, List.replicate 32 5⟩
def coll : Addr := ⟨false, List.replicate 32 6⟩
def user : Addr := ⟨false, List.replicate 32 11⟩
def other : Addr := ⟨false, List.replicate 32 12⟩
def app : Addr := ⟨true, List.replicate 32 9⟩
def gasTok : Addr := ⟨true, List.replicate 32 21⟩
def noTok : Addr := ⟨true, List.replicate 32 22⟩
/-- one gas token; the user holds 1000 of it -/
def bank0 : Bank := { isToken := fun a => a == gasTok, bal := fun t h => if t = gasTok ∧ h = user then 1000 else 0 }
def st0 : State := { self := svcG, owner := owner0, collector := coll, bank := bank0 }
def opsG : List Op :=
  [ .payGas [user] app [100] [101] [1, 2] user gasTok 50 [],            -- +50
    .addGas [user] app [49] user gasTok 20,                             -- +20
    .collectFees [coll] coll gasTok 30,                                 -- −30
    .refund [coll] [49] user gasTok 10,                                 -- −10
    .collectFees [coll] coll gasTok 100,                                -- more than held (30): refused
    .refund [coll] [49] user gasTok 1000,                               -- more than held: refused
    .collectFees [user] user gasTok 5,                                  -- not the collector: refused
    .refund [user] [49] user gasTok 5,                                  -- not the collector: refused
    .payGas [user] app [100] [101] [1, 2] user gasTok 0 [],             -- zero amount: refused
    .payGas [] app [100] [101] [1, 2] user gasTok 5 [],                 -- no authorisation of the spender: refused
    .payGas [user] app [100] [101] [1, 2] user gasTok 5000 [],          -- more than the spender has: refused
    .addGas [user] app [49] user noTok 5,                               -- no such token: refused
    .userTransfer gasTok user other 100 true,                           -- environment: does not touch the service
    .adminMint gasTok other 7 ]
/-- what each call of a history returned: `none` = success -/
def outcomes (st : State) : List Op → List (Option Err)
  | [] => []
  | op :: rest => (match (step H st op).2 with | .ok _ => none | .error e => some e) :: outcomes (step H st op).1 rest

instance (self : Addr) (op : Op) : Decidable (External self op) := by
  cases op <;> simp only [External] <;> infer_instance

theorem bankNonNeg_st0 : BankNonNeg st0.bank := by
  intro t h
  simp only [st0, bank0]
  split <;> decide

/-- the hypotheses of `service_balance_run` and `nonneg_run` are satisfiable and the equation is not `0 = 0`: a payment (50), a
    top-up (20), a fee collection (30), a refund (10), then eight refused calls — among them a collection and a refund of more
    than the service holds — and two environment moves.  `External` holds for every operation, the net flow is 30 and so is the
    service's balance; every balance involved is non-negative. -/
theorem gas_history_nonvacuous :
    BankNonNeg st0.bank ∧
    (∀ op ∈ opsG, External st0.self op) ∧
    outcomes H0 st0 opsG =
      [none, none, none, none, some .insufficientBalance, some .tokenCallFailed, some .unauthorized, some .unauthorized,
       some .invalidAmount, some .unauthorized, some .tokenCallFailed, some .tokenCallFailed, none, none] ∧
    st0.bank.bal gasTok st0.self = 0 ∧ netFlow H0 st0 gasTok opsG = 30 ∧ (run H0 st0 opsG).bank.bal gasTok st0.self = 30 ∧
    [svcG, user, coll, other].map ((run H0 st0 opsG).bank.bal gasTok) = [30, 840, 30, 107] ∧
    netFlow H0 st0 noTok opsG = 0 ∧ (run H0 st0 opsG).bank.bal noTok st0.self = 0 ∧
    -- the balance equation along the way: after the payment and the top-up, before any payout
    netFlow H0 st0 gasTok (opsG.take 2) = 70 ∧ (run H0 st0 (opsG.take 2)).bank.bal gasTok st0.self = 70 ∧
    -- `only_collector_pays_out`: the collection lowers the service's balance
    (step H0 (run H0 st0 (opsG.take 2)) (.collectFees [coll] coll gasTok 30)).1.bank.bal gasTok st0.self <
      (run H0 st0 (opsG.take 2)).bank.bal gasTok st0.self ∧
    -- `payment_exact_and_positive` / `collect_exact` / `refund_exact`: successful calls
    (∃ st' evs, payGas H0 st0 [user] app [100] [101] [1, 2] user gasTok 50 [] = .ok (st', evs)) ∧ user ≠ st0.self ∧
    (∃ st' evs, collectFees (run H0 st0 (opsG.take 2)) [coll] coll gasTok 30 = .ok (st', evs)) ∧
    (∃ st' evs, refund (run H0 st0 (opsG.take 3)) [coll] [49] user gasTok 10 = .ok (st', evs)) ∧
    coll ≠ (run H0 st0 (opsG.take 2)).self := by
  refine ⟨bankNonNeg_st0, ?_, ?_, ?_, ?_, ?_, ?_, ?_, ?_, ?_, ?_, ?_, exists_ok_pair_of_isOk _ (by decide +kernel), ?_,
    exists_ok_pair_of_isOk _ (by decide +kernel), exists_ok_pair_of_isOk _ (by decide +kernel), ?_⟩ <;> decide +kernel

end NonVacuity

end Cgp.Props.C14
