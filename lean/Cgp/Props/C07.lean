/-
  Property C07 — no spending, burning, sending or consuming for an address without its authorisation.
  Statements are FIXED: prove them exactly as stated (helper lemmas go above them or in Cgp/Proofs/C07.lean).
  In every model `auths` is the set of addresses that authorised exactly this call (or are the calling contract): a
  success therefore REQUIRES the named address's own authorisation — nobody else's (recipient, counterparty, owner) helps.
-/
import Cgp.Token
import Cgp.GasService
import Cgp.GatewayOps
import Cgp.ItsOps
import Cgp.Operators
import Cgp.Executable
import Cgp.Props.C12
import Cgp.Props.C14
import Cgp.Props.C18
import Cgp.Props.C02
import Cgp.Proofs.C07
namespace Cgp.Props.C07
open Cgp Cgp.Xdr

/-! ### token -/

/-- the address whose authorisation a token operation needs -/
def tokenSubject : Token.Op → Option Addr
  | .approve src _ _ _ => some src
  | .transfer src _ _ => some src
  | .transferFrom spender _ _ _ => some spender
  | .burn src _ => some src
  | .burnFrom spender _ _ => some spender
  | .mintFrom minter _ _ => some minter
  | _ => none

theorem token_debit_needs_subject (st : Token.State) (c : Token.Ctx) (op : Token.Op) (a : Addr) (evs : List Token.Event)
    (hs : tokenSubject op = some a) (hok : (Token.step st c op).2 = .ok evs) : a ∈ c.auths := by
  rcases C12.step_cases st c op with ⟨e, _, hstep⟩ | ⟨st', evs', hap, hstep⟩
  · rw [hstep] at hok; cases hok
  · cases op with
    | mintFrom m t x =>
      simp only [tokenSubject, Option.some.injEq] at hs; subst hs
      exact (C12.mintFrom_exact _ _ _ _ _ _ _ hap).1
    | mint t x => simp [tokenSubject] at hs
    | addMinter m => simp [tokenSubject] at hs
    | removeMinter m => simp [tokenSubject] at hs
    | approve s p x e =>
      simp only [tokenSubject, Option.some.injEq] at hs; subst hs
      exact (C12.approve_exact' _ _ _ _ _ _ _ _ hap).1
    | transfer s d x =>
      simp only [tokenSubject, Option.some.injEq] at hs; subst hs
      exact (C12.transfer_exact _ _ _ _ _ _ _ hap).1
    | transferFrom p s d x =>
      simp only [tokenSubject, Option.some.injEq] at hs; subst hs
      exact (C12.transferFrom_exact _ _ _ _ _ _ _ _ hap).1
    | burn s x =>
      simp only [tokenSubject, Option.some.injEq] at hs; subst hs
      exact (C12.burn_exact _ _ _ _ _ _ hap).1
    | burnFrom p s x =>
      simp only [tokenSubject, Option.some.injEq] at hs; subst hs
      exact (C12.burnFrom_exact _ _ _ _ _ _ _ hap).1
    | transferOwnership n => simp [tokenSubject] at hs
    | upgradeMigrate => simp [tokenSubject] at hs

/-- a delegated spend additionally needs an allowance granted BY THE HOLDER: without one (never granted or expired) a
    positive delegated transfer or burn fails even with the spender's authorisation -/
theorem delegated_needs_allowance (st : Token.State) (c : Token.Ctx) (spender src dst : Addr) (amount : Int)
    (hpos : 0 < amount) (hno : (Token.readAllowance st c.seq src spender).amount = 0) :
    (∃ e, Token.transferFrom st c spender src dst amount = .error e) ∧ (∃ e, Token.burnFrom st c spender src amount = .error e) := by
  exact C12.insufficient_allowance_rejected st c spender src dst amount (by rw [hno]; exact hpos)

theorem token_refused_unchanged (st : Token.State) (c : Token.Ctx) (op : Token.Op) (e : Token.Err)
    (h : (Token.step st c op).2 = .error e) : (Token.step st c op).1 = st := by
  exact C12.rejected_no_effect st c op e h

/-! ### every live allowance was granted by the holder (history level) -/

/-- a token history recorded as (state before the call, its ledger context, the call) -/
def ttrace (st : Token.State) : List (Token.Ctx × Token.Op) → List (Token.State × Token.Ctx × Token.Op)
  | [] => []
  | (c, op) :: rest => (st, c, op) :: ttrace (Token.step st c op).1 rest

/-- history-level invariant, from ANY start state: a positive entry afterwards is either dominated by an entry of the
    start state (same expiration, at least that amount) or was granted by a successful, holder-authorised approve in the
    history -/
theorem run_allow (hist : List (Token.Ctx × Token.Op)) : ∀ (st0 : Token.State) (src spender : Addr) (a : Token.Allowance),
    (Token.run st0 hist).allow src spender = some a → 0 < a.amount →
    (∃ al, st0.allow src spender = some al ∧ al.expiration = a.expiration ∧ a.amount ≤ al.amount) ∨
    (∃ st c amount evs,
      (st, c, Token.Op.approve src spender amount a.expiration) ∈ ttrace st0 hist ∧
      (Token.step st c (.approve src spender amount a.expiration)).2 = .ok evs ∧
      src ∈ c.auths ∧ a.amount ≤ amount) := by
  induction hist with
  | nil =>
    intro st0 src spender a hfin _
    exact Or.inl ⟨a, hfin, rfl, Int.le_refl _⟩
  | cons x rest ih =>
    obtain ⟨c, op⟩ := x
    intro st0 src spender a hfin hpos
    simp only [Token.run] at hfin
    rcases ih (Token.step st0 c op).1 src spender a hfin hpos with ⟨al, hal, hexp, hle⟩ | ⟨st, c', amount, evs, hmem, hr⟩
    · have hpos' : 0 < al.amount := by omega
      rcases C12.step_cases st0 c op with ⟨e, _, hstep⟩ | ⟨st', evs', hap, hstep⟩
      · rw [hstep] at hal
        exact Or.inl ⟨al, hal, hexp, hle⟩
      · rw [hstep] at hal
        rcases Cgp.Proofs.C07.apply_allow st0 st' c op evs' hap src spender al hal hpos' with ⟨al0, h0, hexp0, hle0⟩ | ⟨hop, hau⟩
        · exact Or.inl ⟨al0, h0, by omega, by omega⟩
        · subst hop
          refine Or.inr ⟨st0, c, al.amount, evs', ?_, ?_, hau, hle⟩
          · rw [← hexp]
            simp only [ttrace]
            exact List.mem_cons_self
          · rw [← hexp, hstep]
    · refine Or.inr ⟨st, c', amount, evs, ?_, hr⟩
      simp only [ttrace]
      exact List.mem_cons_of_mem _ hmem

/-- **every positive allowance on record was granted by the holder**: from construction, through ANY history (any calls,
    authorisations and ledger movements), if the token afterwards holds an allowance entry with a positive amount for
    (holder, spender), then somewhere in that history a successful `approve(holder, spender, amount, expiration)` was
    authorised BY THE HOLDER, for at least that amount and exactly that expiration. Delegated spending only ever lowers the
    amount; nothing but the holder's own approval creates or raises it. Together with `token_debit_needs_subject` (the spender
    must authorise each delegated call) no balance is ever debited without its holder's say. -/
theorem allowance_was_granted (owner : Addr) (minter : Option Addr) (hist : List (Token.Ctx × Token.Op))
    (src spender : Addr) (a : Token.Allowance)
    (hfin : (Token.run (Token.construct owner minter) hist).allow src spender = some a) (hpos : 0 < a.amount) :
    ∃ st c amount evs,
      (st, c, Token.Op.approve src spender amount a.expiration) ∈ ttrace (Token.construct owner minter) hist ∧
      (Token.step st c (.approve src spender amount a.expiration)).2 = .ok evs ∧
      src ∈ c.auths ∧ a.amount ≤ amount := by
  rcases run_allow hist (Token.construct owner minter) src spender a hfin hpos with ⟨al, hal, _, _⟩ | h
  · simp [Token.construct] at hal
  · exact h

/-! ### gas service -/

theorem gas_payment_needs_spender (H : Bytes → Bytes) (st : GasService.State) (auths : List Addr) (sender : Addr)
    (chain dest payload msgId : Bytes) (spender token : Addr) (amount : Int) (metadata : Bytes) :
    ((∃ r, GasService.payGas H st auths sender chain dest payload spender token amount metadata = .ok r) → spender ∈ auths) ∧
    ((∃ r, GasService.addGas st auths sender msgId spender token amount = .ok r) → spender ∈ auths) := by
  refine ⟨?_, ?_⟩
  · rintro ⟨⟨st', evs⟩, h⟩
    exact (C14.payGas_inv h).1
  · rintro ⟨⟨st', evs⟩, h⟩
    exact (C14.addGas_inv h).1

/-! ### gateway -/

theorem gateway_needs_caller (H : Bytes → Bytes) (st : Gateway.State) (auths : List Addr) (caller : Addr)
    (chain dest payload id src ph : Bytes) :
    ((∃ r, Gateway.callContract H st auths caller chain dest payload = .ok r) → caller ∈ auths) ∧
    ((∃ r, Gateway.validateMessage H st auths caller chain id src ph = .ok r) → caller ∈ auths) := by
  refine ⟨?_, ?_⟩
  · rintro ⟨r, h⟩
    unfold Gateway.callContract at h
    split at h
    · cases h
    · rename_i hc; exact Decidable.not_not.mp hc
  · rintro ⟨r, h⟩
    unfold Gateway.validateMessage at h
    split at h
    · cases h
    · rename_i hc; exact Decidable.not_not.mp hc

/-- consuming a message FOR an address needs that address: the message is only ever consumed for the authorised caller -/
theorem consume_only_for_caller (H : Bytes → Bytes) (st st' : Gateway.State) (auths : List Addr) (caller : Addr)
    (chain id src ph : Bytes) (evs : List Gateway.Event)
    (h : Gateway.validateMessage H st auths caller chain id src ph = .ok (st', true, evs)) :
    caller ∈ auths ∧ st.approvals chain id =
      .approved (Gateway.messageHash H { sourceChain := chain, messageId := id, sourceAddress := src, contract := caller, payloadHash := ph }) := by
  exact (C02.consume_iff H st auths caller chain id src ph).mp ⟨st', evs, h⟩

/-! ### interchain token service -/

theorem its_needs_caller (H S : Bytes → Bytes) (k : Its.Consts) (st : Its.State) (auths : List Addr) (caller token spender : Addr)
    (salt name symbol dest tid destAddr : Bytes) (decimals : Nat) (supply amount : Int) (minter : Option Addr)
    (data : Option Bytes) (gasToken : Addr) (gasAmount : Int) :
    ((∃ r, Its.deployInterchainToken H S k st auths caller salt name symbol decimals supply minter = .ok r) → caller ∈ auths) ∧
    ((∃ r, Its.deployRemoteInterchainToken H k st auths caller salt dest gasToken gasAmount = .ok r) → caller ∈ auths) ∧
    ((∃ r, Its.deployRemoteCanonicalToken H k st auths token dest spender gasToken gasAmount = .ok r) → spender ∈ auths) ∧
    ((∃ r, Its.interchainTransfer H k st auths caller tid dest destAddr amount data gasToken gasAmount = .ok r) → caller ∈ auths) := by
  refine ⟨?_, ?_, ?_, ?_⟩
  · rintro ⟨r, h⟩
    by_cases hc : caller ∈ auths
    · exact hc
    · exfalso
      unfold Its.deployInterchainToken at h
      rw [if_pos hc] at h
      cases h
  · rintro ⟨⟨st', tid', evs⟩, h⟩
    exact (C18.remote_interchain_needs H k _ _ _ _ _ _ _ _ _ _ h).1
  · rintro ⟨⟨st', tid', evs⟩, h⟩
    exact (C18.remote_canonical_needs H k _ _ _ _ _ _ _ _ _ _ h).1
  · rintro ⟨r, h⟩
    unfold Its.interchainTransfer at h
    split at h
    · cases h
    · split at h
      · cases h
      · rename_i hc; exact Decidable.not_not.mp hc

theorem its_refused_unchanged (H S : Bytes → Bytes) (k : Its.Consts) (st : Its.State) (op : Its.Op) (e : Its.Err)
    (h : (Its.step H S k st op).2 = .err e) : (Its.step H S k st op).1 = st := by
  cases op with
  | setTrusted au c => exact C18.wrapEv_err _ _ _ h
  | removeTrusted au c => exact C18.wrapEv_err _ _ _ h
  | transferOwnership au n => exact C18.wrapEv_err _ _ _ h
  | deploy au ca sa n sy d su m => exact C18.wrapId_err _ _ _ h
  | registerCanonical t => exact C18.wrapId_err _ _ _ h
  | deployRemote au ca sa de gt ga => exact C18.wrapId_err _ _ _ h
  | deployRemoteCanonical au t de sp gt ga => exact C18.wrapId_err _ _ _ h
  | transfer au ca ti de da am dt gt ga => exact C18.wrapEv_err _ _ _ h
  | execute c i sa p => exact C18.wrapEv_err _ _ _ h
  | gateway f => simp only [Its.step] at h; cases h
  | userTransfer t s d a au =>
    simp only [Its.step] at h ⊢
    split
    · rfl
    · rename_i hn
      rw [if_neg hn] at h
      split
      · rename_i st' heq
        rw [heq] at h; cases h
      · rfl
  | minterMint t m d a au =>
    simp only [Its.step] at h ⊢
    split
    · rename_i tk heq
      split
      · rfl
      · rename_i hn
        rw [heq] at h
        simp only [] at h
        rw [if_neg hn] at h
        cases h
    · rfl
  | upgradeMigrate au => exact Its.step_upgradeMigrate_fst H S k st au

/-! ### operators contract and the example application -/

theorem operators_execute_needs_operator {τ : Type} (tgt : Operators.Target τ) (self : Addr) (st : Operators.State) (ts : τ)
    (auths : List Addr) (o c : Addr) (f : Bytes) (args : List ScVal) (r : τ × ScVal)
    (h : Operators.execute tgt self st ts auths o c f args = .ok r) : o ∈ auths ∧ st.isOp o = true := by
  unfold Operators.execute at h
  split at h
  · cases h
  · rename_i hc
    split at h
    · cases h
    · rename_i ho
      exact ⟨Decidable.not_not.mp hc, by simpa using ho⟩

theorem example_send_needs_caller (H : Bytes → Bytes) (gs : GasService.State) (auths : List Addr) (app caller : Addr)
    (chain dest message : Bytes) (token : Addr) (amount : Int) (r : GasService.State × List GasService.Event)
    (h : Executable.exampleSend H gs auths app caller chain dest message token amount = .ok r) :
    caller ∈ auths ∧ 0 < amount := by
  unfold Executable.exampleSend at h
  split at h
  · cases h
  · rename_i hc
    obtain ⟨st', evs⟩ := r
    exact ⟨Decidable.not_not.mp hc, (C14.payGas_inv h).2.1⟩

end Cgp.Props.C07
