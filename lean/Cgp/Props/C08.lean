/-
  Property C08 — old signer sets stay valid for exactly the configured number of rotations.
  Statements are FIXED: prove them exactly as stated (helper lemmas go above them or in Cgp/Proofs/C08.lean).
-/
import Cgp.GatewaySpec
import Cgp.Props.C03
import Cgp.Toy
namespace Cgp.Props.C08
open Cgp Cgp.Xdr Cgp.Gateway

variable (H : Bytes → Bytes) {σ : Type} (V : Bytes → Bytes → σ → Bool)

/-! ### helper lemmas -/

theorem validateProof_ok {st : State} {dh : Bytes} {proof : Proof σ} {b : Bool}
    (h : validateProof H V st dh proof = .ok b) :
    ∃ e, st.epochByHash (signersHash H proof.weightedSigners) = some e ∧ e ≤ st.epoch ∧
      st.epoch - e ≤ st.retention ∧ b = (e == st.epoch) := by
  unfold validateProof at h
  simp only at h
  split at h
  · cases h
  · rename_i e he
    split at h
    · cases h
    · split at h
      · cases h
      · split at h
        · cases h
        · cases h
        · injection h with h
          exact ⟨e, he, by omega, by omega, h.symm⟩

/-- non-rotating operations leave the auth part of the state alone -/
def Keeps (st st' : State) : Prop :=
  st'.epoch = st.epoch ∧ st'.retention = st.retention ∧ st'.epochByHash = st.epochByHash

theorem Keeps.refl (st : State) : Keeps st st := ⟨rfl, rfl, rfl⟩

theorem approveLoop_keeps (ms : List Message) (st : State) : Keeps st (approveLoop H ms st).1 := by
  induction ms generalizing st with
  | nil => exact Keeps.refl st
  | cons m rest ih =>
    unfold approveLoop
    split
    · exact ih st
    · have := ih { st with approvals := fun c i =>
        if c = m.sourceChain ∧ i = m.messageId then .approved (messageHash H m) else st.approvals c i }
      exact this

theorem approveMessages_keeps {st : State} {ms : List Message} {proof : Proof σ} {r : State × List Event}
    (h : approveMessages H V st ms proof = .ok r) : Keeps st r.1 := by
  unfold approveMessages at h
  split at h
  · cases h
  · split at h
    · cases h
    · injection h with h
      subst h
      exact approveLoop_keeps H ms st

theorem rotateSignersInner_ok {st : State} {ws : WSigners} {enf : Bool} {now : Nat} {r : State × Event}
    (h : rotateSignersInner H st ws enf now = .ok r) :
    r.1.epoch = st.epoch + 1 ∧ r.1.retention = st.retention ∧
      ∀ x e, st.epochByHash x = some e → r.1.epochByHash x = some e := by
  unfold rotateSignersInner at h
  split at h
  · cases h
  · simp only at h
    split at h
    · cases h
    · split at h
      · cases h
      · split at h
        · cases h
        · rename_i hdup
          injection h with h
          subst h
          refine ⟨rfl, rfl, ?_⟩
          intro x e hx
          simp only
          by_cases hxe : x = signersHash H ws
          · subst hxe
            simp [hx] at hdup
          · simp [hxe, hx]

theorem rotateSigners_ok {st : State} {auths : List Addr} {ws : WSigners} {proof : Proof σ} {bp : Bool} {now : Nat}
    {r : State × List Event}
    (h : rotateSigners H V st auths ws proof bp now = .ok r) :
    r.1.epoch = st.epoch + 1 ∧ r.1.retention = st.retention ∧
      ∀ x e, st.epochByHash x = some e → r.1.epochByHash x = some e := by
  unfold rotateSigners at h
  split at h
  · cases h
  · split at h
    · cases h
    · split at h
      · cases h
      · split at h
        · cases h
        · rename_i st' ev hin
          injection h with h
          subst h
          exact rotateSignersInner_ok H hin

theorem validateMessage_keeps {st : State} {auths : List Addr} {caller : Addr} {chain id src ph : Bytes}
    {r : State × Bool × List Event}
    (h : validateMessage H st auths caller chain id src ph = .ok r) : Keeps st r.1 := by
  unfold validateMessage at h
  split at h
  · cases h
  · simp only at h
    split at h
    · injection h with h; subst h; exact ⟨rfl, rfl, rfl⟩
    · injection h with h; subst h; exact ⟨rfl, rfl, rfl⟩

theorem callContract_keeps {st : State} {auths : List Addr} {caller : Addr} {chain dest payload : Bytes}
    {r : State × List Event}
    (h : callContract H st auths caller chain dest payload = .ok r) : Keeps st r.1 := by
  unfold callContract at h
  split at h
  · cases h
  · injection h with h; subst h; exact ⟨rfl, rfl, rfl⟩

theorem transferOwnership_keeps {st : State} {auths : List Addr} {new : Addr} {r : State × List Event}
    (h : transferOwnership st auths new = .ok r) : Keeps st r.1 := by
  unfold transferOwnership at h
  split at h
  · cases h
  · injection h with h; subst h; exact ⟨rfl, rfl, rfl⟩

theorem transferOperatorship_keeps {st : State} {auths : List Addr} {new : Addr} {r : State × List Event}
    (h : transferOperatorship st auths new = .ok r) : Keeps st r.1 := by
  unfold transferOperatorship at h
  split at h
  · cases h
  · injection h with h; subst h; exact ⟨rfl, rfl, rfl⟩

theorem run_nil (w : World) : run H V w ([] : List (Op σ)) = (w, []) := rfl

theorem run_cons (w : World) (op : Op σ) (ops : List (Op σ)) :
    run H V w (op :: ops) =
      ((run H V (step H V w op).1 ops).1, (step H V w op).2 :: (run H V (step H V w op).1 ops).2) := rfl

/-- one step: retention is constant, installed hashes keep their epoch -/
theorem step_stable (w : World) (op : Op σ) :
    (step H V w op).1.st.retention = w.st.retention ∧
      ∀ x e, w.st.epochByHash x = some e → (step H V w op).1.st.epochByHash x = some e := by
  cases op with
  | approve ms proof =>
    unfold step
    simp only
    split
    · rename_i st' evs h
      have := approveMessages_keeps H V h
      exact ⟨this.2.1, fun x e hx => by simp only; rw [this.2.2]; exact hx⟩
    · exact ⟨rfl, fun _ _ hx => hx⟩
  | rotate auths ws proof bypass =>
    unfold step
    simp only
    split
    · rename_i st' evs h
      have := rotateSigners_ok H V h
      exact ⟨this.2.1, this.2.2⟩
    · exact ⟨rfl, fun _ _ hx => hx⟩
  | validateMessage auths caller chain id src ph =>
    unfold step
    simp only
    split
    · rename_i st' b evs h
      have := validateMessage_keeps H h
      exact ⟨this.2.1, fun x e hx => by simp only; rw [this.2.2]; exact hx⟩
    · exact ⟨rfl, fun _ _ hx => hx⟩
  | callContract auths caller chain dest payload =>
    unfold step
    simp only
    split
    · rename_i st' evs h
      have := callContract_keeps H h
      exact ⟨this.2.1, fun x e hx => by simp only; rw [this.2.2]; exact hx⟩
    · exact ⟨rfl, fun _ _ hx => hx⟩
  | transferOwnership auths new =>
    unfold step
    simp only
    split
    · rename_i st' evs h
      have := transferOwnership_keeps h
      exact ⟨this.2.1, fun x e hx => by simp only; rw [this.2.2]; exact hx⟩
    · exact ⟨rfl, fun _ _ hx => hx⟩
  | transferOperatorship auths new =>
    unfold step
    simp only
    split
    · rename_i st' evs h
      have := transferOperatorship_keeps h
      exact ⟨this.2.1, fun x e hx => by simp only; rw [this.2.2]; exact hx⟩
    · exact ⟨rfl, fun _ _ hx => hx⟩
  | setTime now => exact ⟨rfl, fun _ _ hx => hx⟩
  | upgrade auths =>
    obtain ⟨b, hb⟩ := step_upgrade_fst H V w auths
    rw [hb]; exact ⟨rfl, fun _ _ hx => hx⟩
  | migrate auths =>
    obtain ⟨b, hb⟩ := step_migrate_fst H V w auths
    rw [hb]; exact ⟨rfl, fun _ _ hx => hx⟩


/-- For a set installed at epoch `e` and a proof whose signatures are otherwise fine, the proof check
    (used by approvals, standalone checks and rotations alike) succeeds iff at most `retention` newer sets exist. -/
theorem retained_iff (st : State) (dh : Bytes) (proof : Proof σ) (e : Nat)
    (hinst : st.epochByHash (signersHash H proof.weightedSigners) = some e) (he : e ≤ st.epoch)
    (hsig : validateSignaturesLoop V (messageHashToSign H st.domain (signersHash H proof.weightedSigners) dh)
              proof.threshold proof.signers 0 = .ok true) :
    (∃ b, validateProof H V st dh proof = .ok b) ↔ st.epoch - e ≤ st.retention := by
  unfold validateProof
  simp only [hinst]
  have h1 : ¬ st.epoch < e := by omega
  simp only [h1, if_false]
  by_cases h2 : st.epoch - e > st.retention
  · simp only [h2, if_true]
    constructor
    · rintro ⟨b, hb⟩; cases hb
    · intro h; omega
  · simp only [h2, if_false, hsig]
    exact ⟨fun _ => by omega, fun _ => ⟨_, rfl⟩⟩

/-- the approval path honours exactly the same window -/
theorem approve_retained_iff (st : State) (ms : List Message) (hms : ms ≠ []) (proof : Proof σ) (e : Nat)
    (hinst : st.epochByHash (signersHash H proof.weightedSigners) = some e) (he : e ≤ st.epoch)
    (hsig : validateSignaturesLoop V (messageHashToSign H st.domain (signersHash H proof.weightedSigners) (approveDataHash H ms))
              proof.threshold proof.signers 0 = .ok true) :
    (∃ r, approveMessages H V st ms proof = .ok r) ↔ st.epoch - e ≤ st.retention := by
  have hr := retained_iff H V st (approveDataHash H ms) proof e hinst he hsig
  rw [← hr]
  unfold approveMessages
  have hne : ms.isEmpty = false := by cases ms with
    | nil => exact absurd rfl hms
    | cons _ _ => rfl
  constructor
  · rintro ⟨r, h⟩
    split at h
    · cases h
    · rename_i b hb; exact ⟨b, hb⟩
  · rintro ⟨b, hb⟩
    simp [hb, hne]

/-- without bypass only the newest set can authorise a rotation -/
theorem nonbypass_needs_latest (st : State) (auths : List Addr) (ws : WSigners) (proof : Proof σ) (now : Nat)
    (r : State × List Event)
    (h : rotateSigners H V st auths ws proof false now = .ok r) :
    st.epochByHash (signersHash H proof.weightedSigners) = some st.epoch := by
  unfold rotateSigners at h
  split at h
  · cases h
  · split at h
    · cases h
    · rename_i isLatest hv
      split at h
      · cases h
      · rename_i hl
        simp only [Bool.false_or, Bool.not_eq_true', Bool.not_eq_false] at hl
        obtain ⟨e, he, _, _, hb⟩ := validateProof_ok H V hv
        rw [hl] at hb
        have : e = st.epoch := by simpa using hb.symm
        rw [he, this]

/-- a bypass rotation is refused for a set outside the window no matter who authorises it -/
theorem bypass_needs_retained (st : State) (auths : List Addr) (ws : WSigners) (proof : Proof σ) (now e : Nat)
    (r : State × List Event)
    (hinst : st.epochByHash (signersHash H proof.weightedSigners) = some e)
    (h : rotateSigners H V st auths ws proof true now = .ok r) :
    e ≤ st.epoch ∧ st.epoch - e ≤ st.retention := by
  unfold rotateSigners at h
  split at h
  · cases h
  · split at h
    · cases h
    · rename_i isLatest hv
      obtain ⟨e', he', h1, h2, _⟩ := validateProof_ok H V hv
      rw [hinst] at he'
      injection he' with he'
      subst he'
      exact ⟨h1, h2⟩

/-- number of successful rotations in a list of observations paired with their operations -/
def rotations : List (Op σ) → List Obs → Nat
  | (.rotate _ _ _ _) :: ops, (.ok _) :: os => rotations ops os + 1
  | _ :: ops, _ :: os => rotations ops os
  | _, _ => 0


theorem rotations_cons (op : Op σ) (ops : List (Op σ)) (o : Obs) (os : List Obs) :
    rotations (op :: ops) (o :: os) = rotations [op] [o] + rotations ops os := by
  cases op <;> cases o <;> simp [rotations, Nat.add_comm]

theorem step_epoch (w : World) (op : Op σ) :
    (step H V w op).1.st.epoch = w.st.epoch + rotations [op] [(step H V w op).2] := by
  cases op with
  | approve ms proof =>
    unfold step
    simp only
    split
    · rename_i st' evs h
      have := approveMessages_keeps H V h
      simp only [rotations]
      exact this.1
    · simp [rotations]
  | rotate auths ws proof bypass =>
    unfold step
    simp only
    split
    · rename_i st' evs h
      have := rotateSigners_ok H V h
      simp only [rotations]
      exact this.1
    · simp [rotations]
  | validateMessage auths caller chain id src ph =>
    unfold step
    simp only
    split
    · rename_i st' b evs h
      have := validateMessage_keeps H h
      simp only [rotations]
      exact this.1
    · simp [rotations]
  | callContract auths caller chain dest payload =>
    unfold step
    simp only
    split
    · rename_i st' evs h
      have := callContract_keeps H h
      simp only [rotations]
      exact this.1
    · simp [rotations]
  | transferOwnership auths new =>
    unfold step
    simp only
    split
    · rename_i st' evs h
      have := transferOwnership_keeps h
      simp only [rotations]
      exact this.1
    · simp [rotations]
  | transferOperatorship auths new =>
    unfold step
    simp only
    split
    · rename_i st' evs h
      have := transferOperatorship_keeps h
      simp only [rotations]
      exact this.1
    · simp [rotations]
  | setTime now => simp [step, rotations]
  | upgrade auths =>
    obtain ⟨b, hb⟩ := step_upgrade_fst H V w auths
    rw [hb]; simp [rotations]
  | migrate auths =>
    obtain ⟨b, hb⟩ := step_migrate_fst H V w auths
    rw [hb]; simp [rotations]

/-- history form: the epoch after any history is the old epoch plus the number of successful rotations … -/
theorem epoch_after_history (w : World) (ops : List (Op σ)) :
    (run H V w ops).1.st.epoch = w.st.epoch + rotations ops (run H V w ops).2 := by
  induction ops generalizing w with
  | nil => simp [run_nil, rotations]
  | cons op ops ih =>
    rw [run_cons]
    simp only
    rw [ih, rotations_cons, step_epoch H V w op]
    omega

theorem installed_epoch_stable_aux (w : World) (ops : List (Op σ)) (h : Bytes) (e : Nat)
    (hinst : w.st.epochByHash h = some e) :
    (run H V w ops).1.st.epochByHash h = some e ∧ (run H V w ops).1.st.retention = w.st.retention := by
  induction ops generalizing w with
  | nil => exact ⟨hinst, rfl⟩
  | cons op ops ih =>
    rw [run_cons]
    simp only
    have hs := step_stable H V w op
    have := ih (step H V w op).1 (hs.2 h e hinst)
    exact ⟨this.1, this.2.trans hs.1⟩

/-- … an installed set keeps its epoch forever, and the retention setting never changes … -/
theorem installed_epoch_stable (w : World) (ops : List (Op σ)) (h : Bytes) (e : Nat)
    (hinv : GInv H w.st) (hinst : w.st.epochByHash h = some e) :
    (run H V w ops).1.st.epochByHash h = some e ∧ (run H V w ops).1.st.retention = w.st.retention := by
  have _ := hinv
  exact installed_epoch_stable_aux H V w ops h e hinst

/-- … so a set installed at `e` is honoured after `k` further successful rotations iff `(epoch - e) + k ≤ retention`:
    refused from the moment one more than `retention` newer sets exist. -/
theorem after_k_rotations (w : World) (ops : List (Op σ)) (dh : Bytes) (proof : Proof σ) (e : Nat)
    (hinv : GInv H w.st)
    (hinst : w.st.epochByHash (signersHash H proof.weightedSigners) = some e) (he : e ≤ w.st.epoch)
    (hsig : validateSignaturesLoop V
              (messageHashToSign H (run H V w ops).1.st.domain (signersHash H proof.weightedSigners) dh)
              proof.threshold proof.signers 0 = .ok true) :
    (∃ b, validateProof H V (run H V w ops).1.st dh proof = .ok b) ↔
      (w.st.epoch - e) + rotations ops (run H V w ops).2 ≤ w.st.retention := by
  have _ := hinv
  have hst := installed_epoch_stable_aux H V w ops (signersHash H proof.weightedSigners) e hinst
  have hep := epoch_after_history H V w ops
  have he' : e ≤ (run H V w ops).1.st.epoch := by omega
  rw [retained_iff H V (run H V w ops).1.st dh proof e hst.1 he' hsig, hst.2, hep]
  omega

/-! ### non-vacuity (the model RUN in the kernel on a concrete history, toy hash) -/
section NonVacuity
open Cgp.Toy

def dst : Addr := ⟨true, List.replicate 32 9⟩
def msg (i : UInt8) : Message := ⟨[97], [i], [98], dst, List.replicate 32 3⟩
/-- retention 1; `pf0` is a proof by the FIRST set `ws0` -/
def opsK : List (Op Unit) :=
  [ .approve [msg 49] pf0,              -- no newer set: accepted
    .rotate [] wsB pf0 false,           -- first rotation (epoch 2)
    .approve [msg 50] pf0,              -- one newer set, retention 1: the first set is still honoured
    .rotate [] wsC pfB false,           -- second rotation (epoch 3)
    .approve [msg 51] pf0,              -- two newer sets: refused
    .rotate [owner0] wsD pf0 true,      -- … also on the bypass path, with the operator's authorisation
    .approve [msg 51] pfB ]             -- the second set now has one newer set: honoured

/-- `GInv` of the constructed world comes from `Reachable` (empty history) -/
theorem ginv_of_constructed (w0 : World) (h : constructed H0 owner0 owner0 [1] 0 1 [ws0] 5 = some w0) : GInv H0 w0.st :=
  Cgp.Props.C03.GInv_reachable H0 V0 w0 ⟨owner0, owner0, [1], 0, 1, [ws0], 5, w0, [], h, rfl⟩

/-- all hypotheses of `after_k_rotations` (and of `retained_iff`, `approve_retained_iff`, `nonbypass_needs_latest`,
    `bypass_needs_retained`) hold on a concrete history with retention 1, and both sides of the equivalence occur: after one
    rotation a proof by the first set is accepted (0 + 1 ≤ 1), after two it is refused (0 + 2 > 1) — on the approval path
    and on the bypass-rotation path alike -/
theorem after_k_rotations_nonvacuous :
    ∃ w0, constructed H0 owner0 owner0 [1] 0 1 [ws0] 5 = some w0 ∧
      GInv H0 w0.st ∧
      -- the signature hypothesis, at k = 1 and at k = 2
      validateSignaturesLoop V0 (messageHashToSign H0 (run H0 V0 w0 (opsK.take 2)).1.st.domain
          (signersHash H0 pf0.weightedSigners) (approveDataHash H0 [msg 50])) pf0.threshold pf0.signers 0 = .ok true ∧
      validateSignaturesLoop V0 (messageHashToSign H0 (run H0 V0 w0 (opsK.take 4)).1.st.domain
          (signersHash H0 pf0.weightedSigners) (approveDataHash H0 [msg 51])) pf0.threshold pf0.signers 0 = .ok true ∧
      -- k = 1: accepted (left-hand side of the equivalence, and on the approval path)
      (∃ b, validateProof H0 V0 (run H0 V0 w0 (opsK.take 2)).1.st (approveDataHash H0 [msg 50]) pf0 = .ok b) ∧
      (∃ r, approveMessages H0 V0 (run H0 V0 w0 (opsK.take 2)).1.st [msg 50] pf0 = .ok r) ∧
      -- `nonbypass_needs_latest` / `bypass_needs_retained`: successful rotations of both kinds
      (∃ r, rotateSigners H0 V0 (run H0 V0 w0 (opsK.take 3)).1.st [] wsC pfB false 5 = .ok r) ∧
      (∃ r, rotateSigners H0 V0 (run H0 V0 w0 (opsK.take 3)).1.st [owner0] wsC pf0 true 5 = .ok r) ∧
      -- installed at epoch 1, retention 1
      w0.st.epochByHash (signersHash H0 pf0.weightedSigners) = some 1 ∧ 1 ≤ w0.st.epoch ∧ w0.st.retention = 1 ∧
      (run H0 V0 w0 opsK).2.map gwErr =
        [none, none, none, none, some .outdatedSigners, some .outdatedSigners, none] ∧
      -- k = 1: right-hand side
      rotations (opsK.take 2) (run H0 V0 w0 (opsK.take 2)).2 = 1 ∧
      (w0.st.epoch - 1) + rotations (opsK.take 2) (run H0 V0 w0 (opsK.take 2)).2 ≤ w0.st.retention ∧
      -- k = 2: refused, both sides false
      rotations (opsK.take 4) (run H0 V0 w0 (opsK.take 4)).2 = 2 ∧
      (validateProof H0 V0 (run H0 V0 w0 (opsK.take 4)).1.st (approveDataHash H0 [msg 51]) pf0).isOk = false ∧
      ¬ ((w0.st.epoch - 1) + rotations (opsK.take 4) (run H0 V0 w0 (opsK.take 4)).2 ≤ w0.st.retention) ∧
      -- `retained_iff` at the world after two rotations: installed at 1, epoch 3
      (run H0 V0 w0 (opsK.take 4)).1.st.epochByHash (signersHash H0 pf0.weightedSigners) = some 1 ∧
      (run H0 V0 w0 (opsK.take 4)).1.st.epoch = 3 := by
  refine ⟨_, rfl, ginv_of_constructed _ rfl, eq_ok_true_of _ (by decide +kernel), eq_ok_true_of _ (by decide +kernel),
    exists_ok_of_isOk _ (by decide +kernel), exists_ok_of_isOk _ (by decide +kernel),
    exists_ok_of_isOk _ (by decide +kernel), exists_ok_of_isOk _ (by decide +kernel), ?_⟩
  decide +kernel

end NonVacuity

end Cgp.Props.C08
