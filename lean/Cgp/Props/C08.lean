/-
  Property C08 — PLACEHOLDER while the full theorem file (see /verif/lean/stmts) is being proved:
  only the rollback clause is here.  Replaced by the complete file as soon as it checks.
-/
import Cgp.GatewaySpec
namespace Cgp.Props.C08
open Cgp Cgp.Xdr Cgp.Gateway

variable (H : Bytes → Bytes) {σ : Type} (V : Bytes → Bytes → σ → Bool)

theorem failed_rotation_unchanged (w : World) (auths : List Addr) (ws : WSigners) (proof : Proof σ) (bypass : Bool) (e : Err)
    (h : (step H V w (.rotate auths ws proof bypass)).2 = .err e) :
    (step H V w (.rotate auths ws proof bypass)).1 = w := by
  simp only [step] at h ⊢
  split <;> simp_all

end Cgp.Props.C08
