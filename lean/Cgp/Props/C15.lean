/-
  Property C15 — owner-only upgrades, one migration per upgrade, all-or-nothing Upgrader.
  Statements are FIXED: prove them exactly as stated (helper lemmas go above them or in Cgp/Proofs/C15.lean).
-/
import Cgp.Upgradable
import Cgp.Toy
namespace Cgp.Props.C15
open Cgp Cgp.Xdr Cgp.Upgradable

/-- code produced by `#[derive(Upgradable)]`: has `migrate`, which requires and closes the window; `upgrade` opens it -/
def IsDerived (code : Code) : Prop := code.hasMigrate = true ∧ code.usesWindow = true ∧ code.opensWindow = true

/-- every piece of code the contract can ever run is derived code -/
def AllDerived (codes : Codes) (c : Contract) : Prop := IsDerived c.code ∧ ∀ h code, codes h = some code → IsDerived code


theorem upgrade_ok {codes : Codes} {c c' : Contract} {auths : List Addr} {h : Bytes}
    (hok : upgrade codes c auths h = .ok c') :
    c.owner ∈ auths ∧ ∃ code, codes h = some code ∧
      c' = { c with code := code, migrating := c.migrating || c.code.opensWindow } := by
  unfold upgrade at hok
  split at hok
  · cases hok
  · rename_i hin
    split at hok
    · cases hok
    · rename_i code hc
      cases hok
      exact ⟨Classical.not_not.mp hin, code, hc, rfl⟩

theorem migrate_ok {c c' : Contract} {auths : List Addr} {d : List ScVal} {evs : List Event}
    (hok : migrate c auths d = .ok (c', evs)) :
    c.code.hasMigrate = true ∧ c.owner ∈ auths ∧
      ((c.code.usesWindow = true ∧ c.migrating = true ∧ c' = { c with migrating := false } ∧
          evs = [evUpgraded c.code.version]) ∨
       (c.code.usesWindow = false ∧ c'.code = c.code ∧ c'.owner = c.owner ∧ c'.migrating = c.migrating ∧ evs = [])) := by
  unfold migrate at hok
  split at hok
  · cases hok
  · rename_i h1
    split at hok
    · cases hok
    · split at hok
      · cases hok
      · rename_i h3
        refine ⟨by simpa using h1, Classical.not_not.mp h3, ?_⟩
        split at hok
        · rename_i h4
          split at hok
          · cases hok
          · rename_i h5
            cases hok
            exact Or.inl ⟨h4, by simpa using h5, rfl, rfl⟩
        · rename_i h4
          cases hok
          exact Or.inr ⟨by simpa using h4, rfl, rfl, rfl, rfl⟩

theorem upgrader_ok {codes : Codes} {c c' : Contract} {au am : List Addr} {nv h : Bytes} {d : List ScVal}
    {evs : List Event} (hok : upgraderUpgrade codes c au am nv h d = .ok (c', evs)) :
    c.code.version ≠ nv ∧ ∃ c1, upgrade codes c au h = .ok c1 ∧ migrate c1 am d = .ok (c', evs) ∧
      c'.code.version = nv := by
  unfold upgraderUpgrade at hok
  split at hok
  · cases hok
  · rename_i hv
    split at hok
    · cases hok
    · rename_i c1 hu
      split at hok
      · cases hok
      · rename_i c2 evs2 hm
        split at hok
        · cases hok
        · rename_i hv2
          cases hok
          exact ⟨hv, c1, hu, hm, Classical.not_not.mp hv2⟩

theorem step_err_unchanged (codes : Codes) (c : Contract) (op : Op) (e : Err) (h : (step codes c op).2 = .err e) :
    (step codes c op).1 = c := by
  cases op <;> simp only [step] at h ⊢ <;> split at h <;> first | rfl | cases h


theorem transfer_ok {c c' : Contract} {au : List Addr} {n : Addr}
    (hok : transferOwnership c au n = .ok c') : c.owner ∈ au ∧ c' = { c with owner := n } := by
  unfold transferOwnership at hok
  split at hok
  · cases hok
  · rename_i h
    cases hok
    exact ⟨Classical.not_not.mp h, rfl⟩

theorem upgrade_needs_owner (codes : Codes) (c c' : Contract) (auths : List Addr) (h : Bytes)
    (hok : upgrade codes c auths h = .ok c') : c.owner ∈ auths := by
  exact (upgrade_ok hok).1

theorem upgrade_effect (codes : Codes) (c c' : Contract) (auths : List Addr) (h : Bytes)
    (hok : upgrade codes c auths h = .ok c') :
    codes h = some c'.code ∧ c'.owner = c.owner ∧ c'.data = c.data ∧
    (c.code.opensWindow = true → c'.migrating = true) := by
  obtain ⟨_, code, hc, rfl⟩ := upgrade_ok hok
  exact ⟨hc, rfl, rfl, fun ho => by simp [ho]⟩

/-- for derived code and well-typed data: migration runs iff the owner authorised it and the window is open -/
theorem migrate_iff (c : Contract) (auths : List Addr) (d : List ScVal) (hd : IsDerived c.code)
    (hacc : c.code.accepts d = true) :
    (∃ r, migrate c auths d = .ok r) ↔ (c.owner ∈ auths ∧ c.migrating = true) := by
  obtain ⟨h1, h2, h3⟩ := hd
  constructor
  · rintro ⟨⟨c', evs⟩, hr⟩
    obtain ⟨_, ho, hcase⟩ := migrate_ok hr
    rcases hcase with ⟨_, hm, _, _⟩ | ⟨hu, _⟩
    · exact ⟨ho, hm⟩
    · rw [h2] at hu; cases hu
  · rintro ⟨ho, hm⟩
    exact ⟨({ c with migrating := false }, [evUpgraded c.code.version]),
      by simp [migrate, h1, h2, hacc, ho, hm]⟩

/-- it closes the window, announces the (new) version, and changes nothing else -/
theorem migrate_closes_window (c c' : Contract) (auths : List Addr) (d : List ScVal) (evs : List Event)
    (hd : IsDerived c.code) (hok : migrate c auths d = .ok (c', evs)) :
    c'.migrating = false ∧ evs = [evUpgraded c.code.version] ∧ c'.owner = c.owner ∧ c'.data = c.data ∧
    c'.code.version = c.code.version := by
  obtain ⟨_, ho, hcase⟩ := migrate_ok hok
  rcases hcase with ⟨_, hm, rfl, rfl⟩ | ⟨hu, _⟩
  · exact ⟨rfl, rfl, rfl, rfl, rfl⟩
  · rw [hd.2.1] at hu; cases hu

theorem migrate_without_window_fails (c : Contract) (auths : List Addr) (d : List ScVal) (hd : IsDerived c.code)
    (hw : c.migrating = false) : ∃ e, migrate c auths d = .error e := by
  cases hm : migrate c auths d with
  | error e => exact ⟨e, rfl⟩
  | ok r =>
    obtain ⟨c', evs⟩ := r
    obtain ⟨_, _, hcase⟩ := migrate_ok hm
    rcases hcase with ⟨_, hm', _, _⟩ | ⟨hu, _⟩
    · rw [hw] at hm'; cases hm'
    · rw [hd.2.1] at hu; cases hu

/-- successful direct migrations / upgrades in a history -/
def migrations : List Op → List Obs → Nat
  | (.migrate _ _) :: ops, (.ok _) :: os => migrations ops os + 1
  | _ :: ops, _ :: os => migrations ops os
  | _, _ => 0
def upgrades : List Op → List Obs → Nat
  | (.upgrade _ _) :: ops, (.ok _) :: os => upgrades ops os + 1
  | _ :: ops, _ :: os => upgrades ops os
  | _, _ => 0

/-- derived-ness is preserved by every operation -/
theorem allDerived_step (codes : Codes) (c : Contract) (op : Op) (h : AllDerived codes c) :
    AllDerived codes (step codes c op).1 := by
  obtain ⟨hc, hall⟩ := h
  refine ⟨?_, hall⟩
  cases op with
  | upgrade au hh =>
    simp only [step]
    split
    · rename_i c' hu
      obtain ⟨_, code, hcode, rfl⟩ := upgrade_ok hu
      exact hall _ _ hcode
    · exact hc
  | migrate au d =>
    simp only [step]
    split
    · rename_i c' evs hm
      obtain ⟨_, _, hcase⟩ := migrate_ok hm
      rcases hcase with ⟨_, _, rfl, _⟩ | ⟨_, hcode, _⟩
      · exact hc
      · show IsDerived c'.code
        rw [hcode]; exact hc
    · exact hc
  | viaUpgrader au am v hh d =>
    simp only [step]
    split
    · rename_i c' evs hu
      obtain ⟨_, c1, hu1, hm, _⟩ := upgrader_ok hu
      obtain ⟨_, code, hcode, rfl⟩ := upgrade_ok hu1
      obtain ⟨_, _, hcase⟩ := migrate_ok hm
      rcases hcase with ⟨_, _, rfl, _⟩ | ⟨_, hcode', _⟩
      · exact hall _ _ hcode
      · show IsDerived c'.code
        rw [hcode']; exact hall _ _ hcode
    · exact hc
  | transferOwnership au n =>
    simp only [step]
    split
    · rename_i c' ht
      obtain ⟨_, rfl⟩ := transfer_ok ht
      exact hc
    · exact hc


def dM : Op → Obs → Nat
  | .migrate _ _, .ok _ => 1
  | _, _ => 0
def dU : Op → Obs → Nat
  | .upgrade _ _, .ok _ => 1
  | _, _ => 0

theorem migrations_cons (op : Op) (ops : List Op) (o : Obs) (os : List Obs) :
    migrations (op :: ops) (o :: os) = migrations ops os + dM op o := by
  cases op <;> cases o <;> simp [migrations, dM]

theorem upgrades_cons (op : Op) (ops : List Op) (o : Obs) (os : List Obs) :
    upgrades (op :: ops) (o :: os) = upgrades ops os + dU op o := by
  cases op <;> cases o <;> simp [upgrades, dU]

theorem run_cons (codes : Codes) (c : Contract) (op : Op) (ops : List Op) :
    run codes c (op :: ops) = ((run codes (step codes c op).1 ops).1,
      (step codes c op).2 :: (run codes (step codes c op).1 ops).2) := by
  simp [run]

theorem upgrader_closes_aux (codes : Codes) (c c' : Contract) (au am : List Addr) (nv h : Bytes) (d : List ScVal)
    (evs : List Event) (hd : AllDerived codes c) (hok : upgraderUpgrade codes c au am nv h d = .ok (c', evs)) :
    c'.migrating = false ∧ evs = [evUpgraded nv] := by
  obtain ⟨hv, c1, hu, hm, hv2⟩ := upgrader_ok hok
  obtain ⟨hoa, code, hcode, rfl⟩ := upgrade_ok hu
  have hder : IsDerived code := hd.2 _ _ hcode
  obtain ⟨h1, h2, h3, h4, h5⟩ := migrate_closes_window _ _ _ _ _ hder hm
  refine ⟨h1, ?_⟩
  rw [h2, ← hv2, h5]

theorem step_count (codes : Codes) (c : Contract) (op : Op) (hd : AllDerived codes c) :
    dM op (step codes c op).2 + (if (step codes c op).1.migrating then 1 else 0)
      ≤ dU op (step codes c op).2 + (if c.migrating then 1 else 0) := by
  cases op with
  | upgrade au hh =>
    cases hu : upgrade codes c au hh with
    | error e =>
      have hs : step codes c (.upgrade au hh) = (c, .err e) := by simp [step, hu]
      rw [hs]; simp [dM, dU]
    | ok c' =>
      have hs : step codes c (.upgrade au hh) = (c', .ok []) := by simp [step, hu]
      rw [hs]; simp only [dM, dU]
      split <;> split <;> omega
  | migrate au d =>
    cases hm : migrate c au d with
    | error e =>
      have hs : step codes c (.migrate au d) = (c, .err e) := by simp [step, hm]
      rw [hs]; simp [dM, dU]
    | ok r =>
      obtain ⟨c', evs⟩ := r
      have hs : step codes c (.migrate au d) = (c', .ok evs) := by simp [step, hm]
      rw [hs]
      obtain ⟨_, _, hcase⟩ := migrate_ok hm
      rcases hcase with ⟨_, hmig, rfl, _⟩ | ⟨hu, _⟩
      · simp [dM, dU, hmig]
      · rw [hd.1.2.1] at hu; cases hu
  | viaUpgrader au am v hh d =>
    cases hu : upgraderUpgrade codes c au am v hh d with
    | error e =>
      have hs : step codes c (.viaUpgrader au am v hh d) = (c, .err e) := by simp [step, hu]
      rw [hs]; simp [dM, dU]
    | ok r =>
      obtain ⟨c', evs⟩ := r
      have hs : step codes c (.viaUpgrader au am v hh d) = (c', .ok evs) := by simp [step, hu]
      rw [hs]
      obtain ⟨hcl, _⟩ := upgrader_closes_aux codes c c' au am v hh d evs hd hu
      simp [dM, dU, hcl]
  | transferOwnership au n =>
    cases ht : transferOwnership c au n with
    | error e =>
      have hs : step codes c (.transferOwnership au n) = (c, .err e) := by simp [step, ht]
      rw [hs]; simp [dM, dU]
    | ok c' =>
      have hs : step codes c (.transferOwnership au n) = (c', .ok []) := by simp [step, ht]
      rw [hs]
      obtain ⟨_, rfl⟩ := transfer_ok ht
      simp [dM, dU]

theorem ndm_gen (codes : Codes) (ops : List Op) : ∀ (c : Contract), AllDerived codes c →
    migrations ops (run codes c ops).2 + (if (run codes c ops).1.migrating then 1 else 0)
      ≤ upgrades ops (run codes c ops).2 + (if c.migrating then 1 else 0) := by
  induction ops with
  | nil => intro c _; simp only [run, migrations, upgrades]; exact Nat.le_refl _
  | cons op ops ih =>
    intro c hd
    have ih' := ih (step codes c op).1 (allDerived_step codes c op hd)
    have hs := step_count codes c op hd
    rw [run_cons]
    simp only [migrations_cons, upgrades_cons]
    omega

/-- **one migration per upgrade, over every history**: starting with the window closed, the number of successful
    migrations (plus one if the window is still open) never exceeds the number of successful upgrades — so a
    migration can never run twice for one upgrade, nor without a preceding upgrade.  (Upgrades driven through the
    Upgrader are atomic upgrade+migrate pairs and count on neither side.) -/
theorem no_double_migrate (codes : Codes) (c : Contract) (ops : List Op) (hd : AllDerived codes c)
    (hw : c.migrating = false) :
    migrations ops (run codes c ops).2 + (if (run codes c ops).1.migrating then 1 else 0)
      ≤ upgrades ops (run codes c ops).2 := by
  have := ndm_gen codes ops c hd
  rw [hw] at this
  simpa using this

/-- the Upgrader either completes both steps and ends at the requested, different version … -/
theorem upgrader_success (codes : Codes) (c c' : Contract) (au am : List Addr) (nv h : Bytes) (d : List ScVal)
    (evs : List Event) (hok : upgraderUpgrade codes c au am nv h d = .ok (c', evs)) :
    c.code.version ≠ nv ∧ c'.code.version = nv ∧ c.owner ∈ au ∧ c.owner ∈ am ∧
    codes h = some c'.code ∧ c'.owner = c.owner := by
  obtain ⟨hv, c1, hu, hm, hv2⟩ := upgrader_ok hok
  obtain ⟨hoa, code, hcode, rfl⟩ := upgrade_ok hu
  obtain ⟨_, hom, hcase⟩ := migrate_ok hm
  refine ⟨hv, hv2, hoa, hom, ?_, ?_⟩
  · rcases hcase with ⟨_, _, rfl, _⟩ | ⟨_, hc, _⟩
    · exact hcode
    · rw [hc]; exact hcode
  · rcases hcase with ⟨_, _, rfl, _⟩ | ⟨_, _, ho, _⟩
    · rfl
    · exact ho

/-- … and for derived code it leaves the window closed … -/
theorem upgrader_success_closes (codes : Codes) (c c' : Contract) (au am : List Addr) (nv h : Bytes) (d : List ScVal)
    (evs : List Event) (hd : AllDerived codes c) (hok : upgraderUpgrade codes c au am nv h d = .ok (c', evs)) :
    c'.migrating = false ∧ evs = [evUpgraded nv] := by
  obtain ⟨hv, c1, hu, hm, hv2⟩ := upgrader_ok hok
  obtain ⟨hoa, code, hcode, rfl⟩ := upgrade_ok hu
  have hder : IsDerived code := hd.2 _ _ hcode
  obtain ⟨h1, h2, h3, h4, h5⟩ := migrate_closes_window _ _ _ _ _ hder hm
  refine ⟨h1, ?_⟩
  rw [h2, ← hv2, h5]

/-- … or leaves the target's code, version, data, window and owner exactly as before -/
theorem upgrader_atomic (codes : Codes) (c : Contract) (au am : List Addr) (nv h : Bytes) (d : List ScVal) :
    (∃ evs, (step codes c (.viaUpgrader au am nv h d)).2 = .ok evs ∧
        (step codes c (.viaUpgrader au am nv h d)).1.code.version = nv ∧ c.code.version ≠ nv) ∨
    ((∃ e, (step codes c (.viaUpgrader au am nv h d)).2 = .err e) ∧ (step codes c (.viaUpgrader au am nv h d)).1 = c) := by
  simp only [step]
  cases hu : upgraderUpgrade codes c au am nv h d with
  | error e => exact Or.inr ⟨⟨e, rfl⟩, rfl⟩
  | ok r =>
    obtain ⟨c', evs⟩ := r
    obtain ⟨hv, _, _, _, hv2⟩ := upgrader_ok hu
    exact Or.inl ⟨evs, rfl, hv2, hv⟩

/-- requesting the current version, or a version the new code does not report, always fails -/
theorem upgrader_version_checks (codes : Codes) (c : Contract) (au am : List Addr) (nv h : Bytes) (d : List ScVal) :
    (c.code.version = nv → ∃ e, upgraderUpgrade codes c au am nv h d = .error e) ∧
    (∀ code, codes h = some code → code.version ≠ nv → ∃ e, upgraderUpgrade codes c au am nv h d = .error e) := by
  constructor
  · intro hv
    exact ⟨.sameVersion, by simp [upgraderUpgrade, hv]⟩
  · intro code hcode hne
    cases hu : upgraderUpgrade codes c au am nv h d with
    | error e => exact ⟨e, rfl⟩
    | ok r =>
      obtain ⟨c', evs⟩ := r
      obtain ⟨_, hv2, _, _, hcode', _⟩ := upgrader_success codes c c' au am nv h d evs hu
      rw [hcode] at hcode'
      obtain rfl := Option.some.inj hcode'
      exact absurd hv2 hne

theorem rejected_unchanged (codes : Codes) (c : Contract) (op : Op) (e : Err) (h : (step codes c op).2 = .err e) :
    (step codes c op).1 = c := by
  exact step_err_unchanged codes c op e h

/-- code, window and owner change only through calls the CURRENT owner authorised -/
theorem changes_need_owner (codes : Codes) (c : Contract) (op : Op) (h : (step codes c op).1 ≠ c) :
    c.owner ∈ (match op with
      | .upgrade au _ => au
      | .migrate au _ => au
      | .viaUpgrader au _ _ _ _ => au
      | .transferOwnership au _ => au) := by
  cases op with
  | upgrade au hh =>
    simp only [step] at h
    split at h
    · rename_i c' hu; exact (upgrade_ok hu).1
    · exact absurd rfl h
  | migrate au d =>
    simp only [step] at h
    split at h
    · rename_i c' evs hm; exact (migrate_ok hm).2.1
    · exact absurd rfl h
  | viaUpgrader au am v hh d =>
    simp only [step] at h
    split at h
    · rename_i c' evs hu
      obtain ⟨_, c1, hu1, _, _⟩ := upgrader_ok hu
      exact (upgrade_ok hu1).1
    · exact absurd rfl h
  | transferOwnership au n =>
    simp only [step] at h
    split at h
    · rename_i c' ht; exact (transfer_ok ht).1
    · exact absurd rfl h

/-! ### non-vacuity (the model RUN in the kernel on a concrete history) -/
section NonVacuity
open Cgp.Toy

/-- derived code reporting version `v`; its `migrate` takes no data -/
def derived (v : Bytes) : Code :=
  { version := v, hasMigrate := true, usesWindow := true, accepts := fun d => d.isEmpty, store := fun _ => none, opensWindow := true }
def v1 : Bytes := [49]
def v2 : Bytes := [50]
def v3 : Bytes := [51]
def h2 : Bytes := List.replicate 32 2
def h3 : Bytes := List.replicate 32 3
/-- the ledger's code table: two uploaded wasm hashes -/
def codes0 : Codes := fun h => if h = h2 then some (derived v2) else if h = h3 then some (derived v3) else none
def stranger : Addr := ⟨false, List.replicate 32 12⟩
def c0 : Contract := { owner := owner0, code := derived v1, migrating := false, data := some [7] }
def opsU : List Op :=
  [ .migrate [owner0] [],                                  -- no upgrade before: refused
    .upgrade [stranger] h2,                                -- not the owner: refused
    .upgrade [owner0] [99],                                -- no such code: refused
    .upgrade [owner0] h2,                                  -- version 2 installed, window open
    .migrate [stranger] [],                                -- not the owner: refused
    .migrate [owner0] [],                                  -- runs, closes the window
    .migrate [owner0] [],                                  -- second migration for the same upgrade: refused
    .viaUpgrader [owner0] [owner0] v2 h3 [],               -- Upgrader asked for the current version: refused
    .viaUpgrader [owner0] [owner0] [57] h3 [],             -- Upgrader asked for a version the new code does not report: refused
    .viaUpgrader [owner0] [] v3 h3 [],                     -- nested migrate not authorised: refused, the upgrade is rolled back too
    .viaUpgrader [owner0] [owner0] v3 h3 [],               -- upgrade + migrate in one call: version 3, window closed
    .upgrade [owner0] h2 ]                                 -- a further upgrade, not yet migrated: window open
def errOf : Obs → Option Err | .err e => some e | _ => none
def nEvents : Obs → Nat | .ok evs => evs.length | .err _ => 0
/-- the decidable part of a contract -/
def view (c : Contract) : Addr × Bytes × Bool × Option Bytes := (c.owner, c.code.version, c.migrating, c.data)

theorem derived_isDerived (v : Bytes) : IsDerived (derived v) := ⟨rfl, rfl, rfl⟩

theorem allDerived_c0 : AllDerived codes0 c0 := by
  refine ⟨derived_isDerived _, ?_⟩
  intro h code hc
  simp only [codes0] at hc
  split at hc
  · injection hc with hc; subst hc; exact derived_isDerived _
  · split at hc
    · injection hc with hc; subst hc; exact derived_isDerived _
    · cases hc

/-- the hypotheses of `no_double_migrate` are satisfiable and its bound is attained: from a contract with the window closed and
    only derived code around, a migration without upgrade is refused, an upgrade by the owner succeeds, its migration runs once,
    the second migration is refused; Upgrader calls for the current version, for a version the new code does not report, and
    without the owner's authorisation of the nested migrate are refused and leave owner, version, window and data as they were
    (`upgrader_atomic`, second alternative); a correct Upgrader call ends at the new version with the window closed (first
    alternative); after one more upgrade: 1 migration + 1 open window = 2 upgrades. -/
theorem upgrade_history_nonvacuous :
    AllDerived codes0 c0 ∧ c0.migrating = false ∧
    (run codes0 c0 opsU).2.map errOf =
      [some .migrationNotAllowed, some .unauthorized, some .noSuchCode, none, some .unauthorized, none,
       some .migrationNotAllowed, some .sameVersion, some .unexpectedNewVersion, some .unauthorized, none, none] ∧
    (run codes0 c0 opsU).2.map nEvents = [0, 0, 0, 0, 0, 1, 0, 0, 0, 0, 1, 0] ∧
    migrations opsU (run codes0 c0 opsU).2 = 1 ∧ upgrades opsU (run codes0 c0 opsU).2 = 2 ∧
    (run codes0 c0 opsU).1.migrating = true ∧
    migrations (opsU.take 7) (run codes0 c0 (opsU.take 7)).2 = 1 ∧ upgrades (opsU.take 7) (run codes0 c0 (opsU.take 7)).2 = 1 ∧
    [0, 3, 4, 6, 7, 8, 9, 10, 11, 12].map (fun n => view (run codes0 c0 (opsU.take n)).1) =
      [(owner0, v1, false, some [7]), (owner0, v1, false, some [7]), (owner0, v2, true, some [7]), (owner0, v2, false, some [7]),
       (owner0, v2, false, some [7]), (owner0, v2, false, some [7]), (owner0, v2, false, some [7]), (owner0, v2, false, some [7]),
       (owner0, v3, false, some [7]), (owner0, v2, true, some [7])] ∧
    -- `migrate_iff` / `migrate_closes_window`: data accepted, owner's authorisation, window open
    (run codes0 c0 (opsU.take 5)).1.code.accepts [] = true ∧
    (∃ c' evs, migrate (run codes0 c0 (opsU.take 5)).1 [owner0] [] = .ok (c', evs)) ∧
    -- `upgrade_effect`, `upgrader_success`
    (∃ c', upgrade codes0 c0 [owner0] h2 = .ok c') ∧
    (∃ c' evs, upgraderUpgrade codes0 (run codes0 c0 (opsU.take 10)).1 [owner0] [owner0] v3 h3 [] = .ok (c', evs)) := by
  refine ⟨allDerived_c0, ?_, ?_, ?_, ?_, ?_, ?_, ?_, ?_, ?_, ?_, exists_ok_pair_of_isOk _ (by decide +kernel),
    exists_ok_of_isOk _ (by decide +kernel), exists_ok_pair_of_isOk _ (by decide +kernel)⟩ <;> decide +kernel

end NonVacuity

end Cgp.Props.C15
