/-
  Property C15 — PLACEHOLDER while the full theorem file (lean/stmts/C15.lean.txt) is being proved.
-/
import Cgp.Upgradable
namespace Cgp.Props.C15
open Cgp Cgp.Xdr Cgp.Upgradable

theorem rejected_unchanged (codes : Codes) (c : Contract) (op : Op) (e : Err) (h : (step codes c op).2 = .err e) :
    (step codes c op).1 = c := by
  cases op <;> simp only [step] at h ⊢ <;> split <;> simp_all

end Cgp.Props.C15
