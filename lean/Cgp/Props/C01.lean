/-
  Property C01 — approvals need threshold-weight signatures from a live signer set.
  Statements are FIXED: prove them exactly as stated (helper lemmas go above them or in Cgp/Proofs/C01.lean).
-/
import Cgp.GatewaySpec
import Cgp.Props.C03
import Cgp.Toy
import Cgp.Proofs.C02
namespace Cgp.Props.C01
open Cgp Cgp.Xdr Cgp.Gateway

variable (H : Bytes → Bytes) {σ : Type} (V : Bytes → Bytes → σ → Bool)


/-! ### helpers -/

theorem loop_iff_aux (digest : Bytes) (thr : Nat) (ps : List (PSigner σ)) :
    ∀ total, total < thr →
      (validateSignaturesLoop V digest thr ps total = .ok true ↔
        ∃ k, k ≤ ps.length ∧ AllSigsValid V digest (ps.take k) ∧
          thr ≤ total + signedWeight (ps.take k) ∧ total + signedWeight (ps.take k) < two128) := by
  induction ps with
  | nil =>
    intro total ht
    simp only [validateSignaturesLoop, List.take_nil, signedWeight, List.length_nil]
    constructor
    · intro h; cases h
    · rintro ⟨k, _, _, h1, _⟩; omega
  | cons p rest ih =>
    intro total ht
    constructor
    · intro h
      unfold validateSignaturesLoop at h
      cases hs : p.sig with
      | none =>
        rw [hs] at h
        simp only at h
        obtain ⟨k, hk, hv, h1, h2⟩ := (ih total ht).mp h
        refine ⟨k + 1, by simp; omega, ?_, ?_, ?_⟩
        · intro q hq s hqs
          simp only [List.take_succ_cons, List.mem_cons] at hq
          rcases hq with rfl | hq
          · rw [hs] at hqs; cases hqs
          · exact hv q hq s hqs
        · simp only [List.take_succ_cons, signedWeight, hs, Option.isSome_none]; simpa using h1
        · simp only [List.take_succ_cons, signedWeight, hs, Option.isSome_none]; simpa using h2
      | some s =>
        rw [hs] at h
        simp only at h
        by_cases hV : V p.signer.key digest s = true
        · simp only [hV, Bool.not_true, Bool.false_eq_true, if_false] at h
          by_cases ho : total + p.signer.weight ≥ two128
          · simp only [ho, if_true] at h; cases h
          · simp only [ho, if_false] at h
            by_cases hthr : total + p.signer.weight ≥ thr
            · refine ⟨1, by simp, ?_, ?_, ?_⟩
              · intro q hq s' hqs
                simp only [List.take_succ_cons, List.take_zero, List.mem_singleton] at hq
                subst hq
                rw [hs] at hqs; cases hqs; exact hV
              · simp only [List.take_succ_cons, List.take_zero, signedWeight, hs, Option.isSome_some, if_true]; omega
              · simp only [List.take_succ_cons, List.take_zero, signedWeight, hs, Option.isSome_some, if_true]; omega
            · simp only [hthr, if_false] at h
              obtain ⟨k, hk, hv, h1, h2⟩ := (ih (total + p.signer.weight) (by omega)).mp h
              refine ⟨k + 1, by simp; omega, ?_, ?_, ?_⟩
              · intro q hq s' hqs
                simp only [List.take_succ_cons, List.mem_cons] at hq
                rcases hq with rfl | hq
                · rw [hs] at hqs; cases hqs; exact hV
                · exact hv q hq s' hqs
              · simp only [List.take_succ_cons, signedWeight, hs, Option.isSome_some, if_true]; omega
              · simp only [List.take_succ_cons, signedWeight, hs, Option.isSome_some, if_true]; omega
        · simp only [hV, Bool.not_false, if_true] at h
          cases h
    · rintro ⟨k, hk, hv, h1, h2⟩
      cases k with
      | zero => simp only [List.take_zero, signedWeight] at h1; omega
      | succ k =>
        simp only [List.take_succ_cons, signedWeight] at h1 h2
        simp only [List.length_cons] at hk
        have hv' : AllSigsValid V digest (rest.take k) := by
          intro q hq s hqs
          exact hv q (by simp only [List.take_succ_cons, List.mem_cons]; exact Or.inr hq) s hqs
        unfold validateSignaturesLoop
        cases hs : p.sig with
        | none =>
          simp only
          rw [hs] at h1 h2
          simp only [Option.isSome_none, Bool.false_eq_true, if_false, Nat.zero_add] at h1 h2
          exact (ih total ht).mpr ⟨k, by omega, hv', h1, h2⟩
        | some s =>
          simp only
          rw [hs] at h1 h2
          simp only [Option.isSome_some, if_true] at h1 h2
          have hV : V p.signer.key digest s = true :=
            hv p (by simp) s hs
          simp only [hV, Bool.not_true, Bool.false_eq_true, if_false]
          have ho : ¬ (total + p.signer.weight ≥ two128) := by omega
          simp only [ho, if_false]
          by_cases hthr : total + p.signer.weight ≥ thr
          · simp only [hthr, if_true]
          · simp only [hthr, if_false]
            exact (ih (total + p.signer.weight) (by omega)).mpr ⟨k, by omega, hv', by omega, by omega⟩

/-- The signature loop accepts exactly when P's signature condition holds (any threshold > 0, any list). -/
theorem validateSignatures_iff (digest : Bytes) (thr : Nat) (ps : List (PSigner σ)) (hthr : 0 < thr) :
    validateSignaturesLoop V digest thr ps 0 = .ok true ↔ SigsOk V digest thr ps := by
  rw [loop_iff_aux V digest thr ps 0 hthr]
  simp only [SigsOk, Nat.zero_add]

/-- the loop never answers `ok true` unless the threshold is met: it is `ok true`, `ok false`, or a trap -/
theorem validateSignatures_sound (digest : Bytes) (thr : Nat) (ps : List (PSigner σ)) (hthr : 0 < thr)
    (h : validateSignaturesLoop V digest thr ps 0 = .ok true) :
    ∃ k, k ≤ ps.length ∧ AllSigsValid V digest (ps.take k) ∧ thr ≤ signedWeight (ps.take k) := by
  obtain ⟨k, hk, hv, h1, _⟩ := (validateSignatures_iff V digest thr ps hthr).mp h
  exact ⟨k, hk, hv, h1⟩

theorem validateProof_ok_iff (st : State) (dh : Bytes) (proof : Proof σ) (b : Bool) :
    validateProof H V st dh proof = .ok b ↔
      ∃ e, st.epochByHash (signersHash H proof.weightedSigners) = some e ∧ e ≤ st.epoch ∧
        st.epoch - e ≤ st.retention ∧
        validateSignaturesLoop V (messageHashToSign H st.domain (signersHash H proof.weightedSigners) dh)
          proof.threshold proof.signers 0 = .ok true ∧ b = (e == st.epoch) := by
  unfold validateProof
  simp only
  cases he : st.epochByHash (signersHash H proof.weightedSigners) with
  | none =>
    simp only
    constructor
    · intro h; cases h
    · rintro ⟨e, he', _⟩; cases he'
  | some e =>
    simp only
    by_cases h1 : st.epoch < e
    · simp only [h1, if_true]
      constructor
      · intro h; cases h
      · rintro ⟨e', he', hle, _⟩; cases he'; omega
    · simp only [h1, if_false]
      by_cases h2 : st.epoch - e > st.retention
      · simp only [h2, if_true]
        constructor
        · intro h; cases h
        · rintro ⟨e', he', _, hle, _⟩; cases he'; omega
      · simp only [h2, if_false]
        cases hl : validateSignaturesLoop V (messageHashToSign H st.domain (signersHash H proof.weightedSigners) dh)
            proof.threshold proof.signers 0 with
        | error x =>
          simp only
          constructor
          · intro h; cases h
          · rintro ⟨e', _, _, _, hx, _⟩; cases hx
        | ok r =>
          cases r with
          | false =>
            simp only
            constructor
            · intro h; cases h
            · rintro ⟨e', _, _, _, hx, _⟩; cases hx
          | true =>
            simp only
            constructor
            · intro h
              cases h
              exact ⟨e, rfl, by omega, by omega, by first | rfl | trivial, by first | rfl | trivial⟩
            · rintro ⟨e', he', _, _, _, hb⟩
              cases he'
              rw [hb]

/-- **operational ⇔ declarative**: a proof check succeeds exactly when `ProofValid` holds. -/
theorem validateProof_iff (st : State) (dh : Bytes) (proof : Proof σ) (hthr : 0 < proof.threshold) :
    (∃ b, validateProof H V st dh proof = .ok b) ↔ ProofValid H V st dh proof := by
  unfold ProofValid
  constructor
  · rintro ⟨b, hb⟩
    obtain ⟨e, he, h1, h2, hl, _⟩ := (validateProof_ok_iff H V st dh proof b).mp hb
    exact ⟨e, he, h1, h2, (validateSignatures_iff V _ _ _ hthr).mp hl⟩
  · rintro ⟨e, he, h1, h2, hs⟩
    exact ⟨e == st.epoch, (validateProof_ok_iff H V st dh proof _).mpr
      ⟨e, he, h1, h2, (validateSignatures_iff V _ _ _ hthr).mpr hs, rfl⟩⟩

/-- the boolean returned says whether the proof's set is the latest one -/
theorem validateProof_latest (st : State) (dh : Bytes) (proof : Proof σ) (b : Bool)
    (h : validateProof H V st dh proof = .ok b) :
    (b = true ↔ st.epochByHash (signersHash H proof.weightedSigners) = some st.epoch) := by
  obtain ⟨e, he, _, _, _, hb⟩ := (validateProof_ok_iff H V st dh proof b).mp h
  rw [he, hb]
  simp

/-- approval batches: accepted exactly when the proof is valid for the batch's data hash and the batch is non-empty -/
theorem approve_ok_iff (st : State) (ms : List Message) (proof : Proof σ) (hthr : 0 < proof.threshold) :
    (∃ r, approveMessages H V st ms proof = .ok r) ↔
      (ProofValid H V st (approveDataHash H ms) proof ∧ ms ≠ []) := by
  rw [← validateProof_iff H V st _ proof hthr]
  unfold approveMessages
  cases hv : validateProof H V st (approveDataHash H ms) proof with
  | error x =>
    simp only
    constructor
    · rintro ⟨r, hr⟩; cases hr
    · rintro ⟨⟨b, hb⟩, _⟩; cases hb
  | ok b =>
    simp only
    cases ms with
    | nil =>
      simp only [List.isEmpty_nil, if_true]
      constructor
      · rintro ⟨r, hr⟩; cases hr
      · rintro ⟨_, h⟩; simp at h
    | cons m ms =>
      simp only [List.isEmpty_cons, Bool.false_eq_true, if_false]
      exact ⟨fun _ => ⟨⟨b, rfl⟩, by simp⟩, fun _ => ⟨_, rfl⟩⟩

/-- every rejected submission changes nothing (and emits nothing: the observation carries no events) -/
theorem approve_rejected_unchanged (w : World) (ms : List Message) (proof : Proof σ) (e : Err)
    (h : (step H V w (.approve ms proof)).2 = .err e) :
    (step H V w (.approve ms proof)).1 = w := by
  simp only [step] at h ⊢
  cases ha : approveMessages H V w.st ms proof with
  | error x => rfl
  | ok r =>
    rw [ha] at h
    obtain ⟨st', evs⟩ := r
    simp only at h
    cases h

/-- Converse clause: an honestly built proof — every attached signature genuine, the signed entries (ANY subset
    of the signers, in any positions) weigh at least the threshold, declared weights do not overflow — from an
    installed, retained set is accepted. -/
theorem honest_proof_accepted (st : State) (dh : Bytes) (proof : Proof σ) (e : Nat)
    (hinst : st.epochByHash (signersHash H proof.weightedSigners) = some e)
    (he : e ≤ st.epoch) (hret : st.epoch - e ≤ st.retention)
    (hvalid : AllSigsValid V (messageHashToSign H st.domain (signersHash H proof.weightedSigners) dh) proof.signers)
    (hpos : 0 < proof.threshold)
    (hw : proof.threshold ≤ signedWeight proof.signers)
    (hno : signedWeight proof.signers < two128) :
    ∃ b, validateProof H V st dh proof = .ok b := by
  rw [validateProof_iff H V st dh proof hpos]
  refine ⟨e, hinst, he, hret, proof.signers.length, Nat.le_refl _, ?_, ?_, ?_⟩
  · rw [List.take_length]; exact hvalid
  · rw [List.take_length]; exact hw
  · rw [List.take_length]; exact hno

/-! ### the digest binds domain, signer set, command kind and batch (or exhibits a collision) -/


theorem list_map_inj {α β} (f : α → β) (hf : ∀ a b, f a = f b → a = b) :
    ∀ (l₁ l₂ : List α), l₁.map f = l₂.map f → l₁ = l₂ := by
  intro l₁
  induction l₁ with
  | nil =>
    intro l₂ h
    cases l₂ with
    | nil => rfl
    | cons _ _ => simp at h
  | cons x xs ih =>
    intro l₂ h
    cases l₂ with
    | nil => simp at h
    | cons y ys =>
      simp only [List.map_cons, List.cons.injEq] at h
      rw [hf x y h.1, ih ys h.2]

theorem wsigner_toSc_inj (a b : WSigner) (h : a.toSc = b.toSc) : a = b := by
  cases a; cases b
  simp [WSigner.toSc] at h
  simp [h]

theorem wsigner_wf (s : WSigner) (h : s.Typed) : s.toSc.WF := by
  obtain ⟨h1, h2⟩ := h
  simp [WSigner.toSc, ScVal.WF, ScPairs.WF, ScPairs.len, symSigner, symWeight, h1]
  simpa [two128] using h2

theorem wsigners_wf (ws : WSigners) (h : ws.Typed) : ws.toSc.WF := by
  obtain ⟨h1, h2, h3, h4⟩ := h
  simp only [WSigners.toSc, ScVal.WF, ScPairs.WF, ScPairs.len, ScVals.len_ofList, List.length_map,
    ScVals.WF_ofList, List.mem_map]
  refine ⟨by decide, by decide, by omega, by decide, ⟨h2, ?_⟩, by decide, ?_, trivial⟩
  · rintro v ⟨s, hs, rfl⟩
    exact wsigner_wf s (h1 s hs)
  · simpa [two128] using h3

theorem message_wf (m : Message) (h : m.Typed) : m.toSc.WF := by
  obtain ⟨h1, h2, h3, h4, h5⟩ := h
  simp only [Message.toSc, ScVal.WF, ScPairs.WF, ScPairs.len]
  refine ⟨by decide, by decide, h4, by decide, h2, by decide, by omega, by decide, h3, by decide, h1, trivial⟩

theorem approveData_wf (ms : List Message) (h : ∀ m ∈ ms, m.Typed) (hl : ms.length < 256 ^ 4) :
    (approveData ms).WF := by
  simp only [approveData, ScVal.WF, ScVals.WF, ScVals.len, ScVals.len_ofList, List.length_map,
    ScVals.WF_ofList, List.mem_map]
  refine ⟨by decide, ⟨by decide, by decide, trivial⟩, ⟨hl, ?_⟩, trivial⟩
  rintro v ⟨m, hm, rfl⟩
  exact message_wf m (h m hm)

theorem rotateData_wf (ws : WSigners) (h : ws.Typed) : (rotateData ws).WF := by
  simp only [rotateData, ScVal.WF, ScVals.WF, ScVals.len]
  exact ⟨by decide, ⟨by decide, by decide, trivial⟩, wsigners_wf ws h, trivial⟩

theorem kinds_ne (ms : List Message) (ws : WSigners) : approveData ms ≠ rotateData ws := by
  intro h
  simp [approveData, rotateData, symApproveMessages, symRotateSigners] at h

theorem toSc_injective_signers (a b : WSigners) (h : a.toSc = b.toSc) : a = b := by
  cases a; cases b
  simp [WSigners.toSc] at h
  obtain ⟨h1, h2, h3⟩ := h
  have := list_map_inj _ wsigner_toSc_inj _ _ (ScVals.ofList_injective h2)
  simp [*]

theorem toSc_injective_message (a b : Message) (h : a.toSc = b.toSc) : a = b := by
  cases a; cases b
  simp [Message.toSc] at h
  simp [h]

theorem signersHash_binds (a b : WSigners) (ha : a.Typed) (hb : b.Typed)
    (h : signersHash H a = signersHash H b) : a = b ∨ Collision H := by
  unfold signersHash at h
  by_cases hx : enc a.toSc = enc b.toSc
  · exact Or.inl (toSc_injective_signers a b (enc_injective _ _ (wsigners_wf a ha) (wsigners_wf b hb) hx))
  · exact Or.inr ⟨_, _, hx, h⟩

theorem approveDataHash_binds (a b : List Message) (ha : ∀ m ∈ a, m.Typed) (hb : ∀ m ∈ b, m.Typed)
    (hla : a.length < 256 ^ 4) (hlb : b.length < 256 ^ 4)
    (h : approveDataHash H a = approveDataHash H b) : a = b ∨ Collision H := by
  unfold approveDataHash at h
  by_cases hx : enc (approveData a) = enc (approveData b)
  · left
    have h1 := enc_injective _ _ (approveData_wf a ha hla) (approveData_wf b hb hlb) hx
    simp [approveData] at h1
    exact list_map_inj _ toSc_injective_message _ _ (ScVals.ofList_injective h1)
  · exact Or.inr ⟨_, _, hx, h⟩

/-- an approval data hash can never serve as a rotation data hash (command kinds are bound) -/
theorem command_kinds_distinct (ms : List Message) (ws : WSigners)
    (hms : ∀ m ∈ ms, m.Typed) (hl : ms.length < 256 ^ 4) (hws : ws.Typed)
    (h : approveDataHash H ms = rotateDataHash H ws) : Collision H := by
  unfold approveDataHash rotateDataHash at h
  refine ⟨_, _, ?_, h⟩
  intro hx
  exact kinds_ne ms ws (enc_injective _ _ (approveData_wf ms hms hl) (rotateData_wf ws hws) hx)

theorem digest_binds (d d' sh sh' dh dh' : Bytes)
    (hd : d.length = 32) (hd' : d'.length = 32) (hs : sh.length = 32) (hs' : sh'.length = 32)
    (h : messageHashToSign H d sh dh = messageHashToSign H d' sh' dh') :
    (d = d' ∧ sh = sh' ∧ dh = dh') ∨ Collision H := by
  unfold messageHashToSign at h
  by_cases hx : d ++ sh ++ dh = d' ++ sh' ++ dh'
  · left
    have h1 := List.append_inj hx (by simp [hd, hd', hs, hs'])
    have h2 := List.append_inj h1.1 (by omega)
    exact ⟨h2.1, h2.2, h1.2⟩
  · exact Or.inr ⟨_, _, hx, h⟩

/-- In a state satisfying the auth invariant, an accepted proof declares exactly a set that was installed
    (signers, weights, threshold, nonce all as installed) — or a hash collision is exhibited. -/
theorem accepted_set_is_installed (st : State) (hinv : GInv H st) (dh : Bytes) (proof : Proof σ) (b : Bool)
    (htyped : proof.weightedSigners.Typed)
    (hinst : ∀ e ws, st.setAt e = some ws → ws.Typed)
    (h : validateProof H V st dh proof = .ok b) :
    (∃ e, st.setAt e = some proof.weightedSigners ∧ e ≤ st.epoch ∧ st.epoch - e ≤ st.retention) ∨ Collision H := by
  obtain ⟨e, he, h1, h2, _, _⟩ := (validateProof_ok_iff H V st dh proof b).mp h
  obtain ⟨ws, hws, hh, _⟩ := hinv.ghost e _ (hinv.bwd e _ he)
  rcases signersHash_binds H ws proof.weightedSigners (hinst e ws hws) htyped hh with heq | hc
  · subst heq
    exact Or.inl ⟨e, hws, h1, h2⟩
  · exact Or.inr hc

/-! ### the same for every REACHABLE state (construction followed by any history) -/

/-- In every reachable state an accepted proof declares exactly an installed, still-retained set — or a collision is exhibited. -/
theorem accepted_set_is_installed_reachable (w : World) (hreach : Reachable H V w) (dh : Bytes) (proof : Proof σ) (b : Bool)
    (htyped : proof.weightedSigners.Typed)
    (hinst : ∀ e ws, w.st.setAt e = some ws → ws.Typed)
    (h : validateProof H V w.st dh proof = .ok b) :
    (∃ e, w.st.setAt e = some proof.weightedSigners ∧ e ≤ w.st.epoch ∧ w.st.epoch - e ≤ w.st.retention) ∨ Collision H := by
  exact accepted_set_is_installed H V w.st (Cgp.Props.C03.GInv_reachable H V w hreach) dh proof b htyped hinst h

/-- … hence its declared threshold is positive and within the overflow-free total weight of the declared signers
    (installed sets are well-formed), which discharges the side condition of `validateProof_iff` for reachable states -/
theorem accepted_threshold_pos_reachable (w : World) (hreach : Reachable H V w) (dh : Bytes) (proof : Proof σ) (b : Bool)
    (htyped : proof.weightedSigners.Typed)
    (hinst : ∀ e ws, w.st.setAt e = some ws → ws.Typed)
    (h : validateProof H V w.st dh proof = .ok b) :
    (0 < proof.threshold ∧ WellFormed proof.weightedSigners) ∨ Collision H := by
  have hinv := Cgp.Props.C03.GInv_reachable H V w hreach
  obtain ⟨e, he, _, _, _, _⟩ := (validateProof_ok_iff H V w.st dh proof b).mp h
  obtain ⟨ws, hws, hh, hwf⟩ := hinv.ghost e _ (hinv.bwd e _ he)
  rcases signersHash_binds H ws proof.weightedSigners (hinst e ws hws) htyped hh with heq | hc
  · subst heq
    exact Or.inl ⟨hwf.2.2.2.2.2.1, hwf⟩
  · exact Or.inr hc

/-- **C01 for reachable states, both directions at once**: a proof check succeeds iff `ProofValid` — or a hash collision
    is exhibited (the only way a proof with threshold 0 could ever match an installed set) -/
theorem validateProof_iff_reachable (w : World) (hreach : Reachable H V w) (dh : Bytes) (proof : Proof σ)
    (htyped : proof.weightedSigners.Typed)
    (hinst : ∀ e ws, w.st.setAt e = some ws → ws.Typed) :
    ((∃ b, validateProof H V w.st dh proof = .ok b) → ProofValid H V w.st dh proof ∨ Collision H) ∧
    (ProofValid H V w.st dh proof → 0 < proof.threshold → ∃ b, validateProof H V w.st dh proof = .ok b) := by
  constructor
  · rintro ⟨b, hb⟩
    rcases accepted_threshold_pos_reachable H V w hreach dh proof b htyped hinst hb with ⟨hpos, _⟩ | hc
    · exact Or.inl ((validateProof_iff H V w.st dh proof hpos).mp ⟨b, hb⟩)
    · exact Or.inr hc
  · intro hv hpos
    exact (validateProof_iff H V w.st dh proof hpos).mpr hv

/-! ### every approval on record was signed (history level) -/

/-! #### helpers: the invariant carried along a history, and the one-step analysis -/

/-- the auth invariant together with "every set recorded in the ghost field is typed" -/
def AInv (st : State) : Prop := GInv H st ∧ ∀ e ws, st.setAt e = some ws → ws.Typed

theorem AInv_sameAuth (st st' : State) (h : AInv H st) (hs : Cgp.Proofs.C03.SameAuth st' st) : AInv H st' := by
  obtain ⟨h1, h2, h3, h4⟩ := hs
  refine ⟨Cgp.Proofs.C03.GInv_congr H st st' h.1 h1 h2 h3 h4, ?_⟩
  intro e ws hws
  rw [h4] at hws
  exact h.2 e ws hws

theorem AInv_rotated (st : State) (ws : WSigners) (now : Nat) (h : AInv H st) (hty : ws.Typed)
    (hwf : WellFormed ws) (hn : st.epochByHash (signersHash H ws) = none) :
    AInv H (Cgp.Proofs.C03.rotated H st ws now) := by
  refine ⟨Cgp.Proofs.C03.GInv_rotated H st ws now h.1 hwf hn, ?_⟩
  intro e ws' hws
  simp only [Cgp.Proofs.C03.rotated] at hws
  split at hws
  · cases hws; exact hty
  · exact h.2 e ws' hws

/-- every typed operation preserves the invariant -/
theorem AInv_step (w : World) (op : Op σ) (hty : op.Typed) (h : AInv H w.st) : AInv H (step H V w op).1.st := by
  rcases Cgp.Proofs.C03.step_auth H V w op with hs | ⟨auths, ws, proof, bypass, evs, hop, _, hst, hwf, hn⟩
  · exact AInv_sameAuth H _ _ h hs
  · subst hop
    rw [hst]
    exact AInv_rotated H w.st ws w.now h hty.1 hwf hn

theorem initSets_AInv (now : Nat) (sets : List WSigners) (st st' : State) (evs : List Event)
    (h : initSets H now sets st = .ok (st', evs)) (hty : ∀ ws ∈ sets, ws.Typed) (hg : AInv H st) :
    AInv H st' := by
  induction sets generalizing st evs with
  | nil =>
    unfold initSets at h
    injection h with h
    injection h with h1 h2
    subst h1
    exact hg
  | cons ws rest ih =>
    obtain ⟨hwf, hn, evs', hr⟩ := Cgp.Proofs.C03.initSets_cons_ok H now ws rest st st' evs h
    exact ih _ evs' hr (fun x hx => hty x (List.mem_cons_of_mem _ hx))
      (AInv_rotated H st ws now hg (hty ws List.mem_cons_self) hwf hn)

theorem initSets_approvals (now : Nat) (sets : List WSigners) (st st' : State) (evs : List Event)
    (h : initSets H now sets st = .ok (st', evs)) : st'.approvals = st.approvals := by
  induction sets generalizing st evs with
  | nil =>
    unfold initSets at h
    injection h with h
    injection h with h1 h2
    subst h1
    rfl
  | cons ws rest ih =>
    obtain ⟨_, _, evs', hr⟩ := Cgp.Proofs.C03.initSets_cons_ok H now ws rest st st' evs h
    have h2 := ih (Cgp.Proofs.C03.rotated H st ws now) evs' hr
    exact h2

theorem AInv_initState (owner operator : Addr) (domain : Bytes) (minDelay retention : Nat) :
    AInv H (initState owner operator domain minDelay retention) := by
  refine ⟨Cgp.Proofs.C03.GInv_initState H owner operator domain minDelay retention, ?_⟩
  intro e ws h
  simp [initState] at h

theorem constructed_initSets (owner operator : Addr) (domain : Bytes) (minDelay retention : Nat) (sets : List WSigners)
    (now : Nat) (w0 : World) (hc : constructed H owner operator domain minDelay retention sets now = some w0) :
    ∃ evs, initSets H now sets (initState owner operator domain minDelay retention) = .ok (w0.st, evs) := by
  unfold constructed at hc
  cases hcon : construct H owner operator domain minDelay retention sets now with
  | error e => rw [hcon] at hc; cases hc
  | ok r =>
    obtain ⟨st, evs⟩ := r
    rw [hcon] at hc
    dsimp only at hc
    injection hc with hc
    subst hc
    unfold construct at hcon
    by_cases he : sets.isEmpty = true
    · rw [if_pos he] at hcon; cases hcon
    · rw [if_neg he] at hcon
      exact ⟨evs, hcon⟩

/-- the invariant holds right after a construction with typed sets -/
theorem AInv_constructed (owner operator : Addr) (domain : Bytes) (minDelay retention : Nat) (sets : List WSigners)
    (now : Nat) (w0 : World) (hsets : ∀ ws ∈ sets, ws.Typed)
    (hc : constructed H owner operator domain minDelay retention sets now = some w0) : AInv H w0.st := by
  obtain ⟨evs, h⟩ := constructed_initSets H owner operator domain minDelay retention sets now w0 hc
  exact initSets_AInv H now sets _ _ evs h hsets (AInv_initState H owner operator domain minDelay retention)

/-- under the invariant an accepted proof is a valid proof (or a collision is exhibited) -/
theorem proofValid_of_ok (st : State) (hinv : AInv H st) (dh : Bytes) (proof : Proof σ) (b : Bool)
    (htyped : proof.weightedSigners.Typed) (h : validateProof H V st dh proof = .ok b) :
    ProofValid H V st dh proof ∨ Collision H := by
  obtain ⟨e, he, _, _, _, _⟩ := (validateProof_ok_iff H V st dh proof b).mp h
  obtain ⟨ws, hws, hh, hwf⟩ := hinv.1.ghost e _ (hinv.1.bwd e _ he)
  rcases signersHash_binds H ws proof.weightedSigners (hinv.2 e ws hws) htyped hh with heq | hc
  · subst heq
    exact Or.inl ((validateProof_iff H V st dh proof hwf.2.2.2.2.2.1).mp ⟨b, h⟩)
  · exact Or.inr hc

/-- a record `approved h` after the approval loop was there before, or is the hash of a message of the batch -/
theorem approveLoop_new (ms : List Message) (st : State) (c i h : Bytes)
    (h1 : (approveLoop H ms st).1.approvals c i = .approved h) :
    st.approvals c i = .approved h ∨
    ∃ m, m ∈ ms ∧ m.sourceChain = c ∧ m.messageId = i ∧ messageHash H m = h := by
  induction ms generalizing st with
  | nil => exact Or.inl h1
  | cons m rest ih =>
    by_cases hk : st.approvals m.sourceChain m.messageId = .notApproved
    · rw [Cgp.Proofs.C02.approveLoop_fresh H st m rest hk] at h1
      rcases ih _ h1 with h2 | ⟨m', hm', hr⟩
      · by_cases hci : c = m.sourceChain ∧ i = m.messageId
        · simp only [Cgp.Proofs.C02.setApproved, hci, and_self, if_true] at h2
          injection h2 with h2
          exact Or.inr ⟨m, List.mem_cons_self, hci.1.symm, hci.2.symm, h2⟩
        · simp only [Cgp.Proofs.C02.setApproved, hci, if_false] at h2
          exact Or.inl h2
      · exact Or.inr ⟨m', List.mem_cons_of_mem _ hm', hr⟩
    · rw [Cgp.Proofs.C02.approveLoop_known H st m rest hk] at h1
      rcases ih _ h1 with h2 | ⟨m', hm', hr⟩
      · exact Or.inl h2
      · exact Or.inr ⟨m', List.mem_cons_of_mem _ hm', hr⟩

/-- operations other than `approve` never create an `approved` record -/
theorem step_approved_other (w : World) (op : Op σ) (hna : ∀ ms proof, op ≠ .approve ms proof) (c i h : Bytes)
    (h1 : (step H V w op).1.st.approvals c i = .approved h) : w.st.approvals c i = .approved h := by
  rcases Cgp.Proofs.C02.step_adv H V w op c i with ha | ⟨ha, _⟩ | ⟨_, ha⟩
  · rw [ha]; exact h1
  · exfalso
    cases op with
    | approve ms proof => exact hna ms proof rfl
    | rotate auths ws proof bypass =>
      simp only [step] at h1
      split at h1
      · rename_i st' evs hr
        have := Cgp.Proofs.C02.rotateSigners_approvals H V _ _ _ _ _ _ _ _ hr
        simp only [this] at h1
        rw [ha] at h1; cases h1
      · rw [ha] at h1; cases h1
    | validateMessage auths caller chain id src ph =>
      simp only [step] at h1
      split at h1
      · rename_i st' b evs hr
        obtain ⟨_, ⟨_, _, hs, _⟩ | ⟨_, _, hs, _⟩⟩ := Cgp.Proofs.C02.validateMessage_ok H _ _ _ _ _ _ _ _ _ _ hr
        · subst hs
          simp only at h1
          split at h1
          · cases h1
          · rw [ha] at h1; cases h1
        · subst hs
          rw [ha] at h1; cases h1
      · rw [ha] at h1; cases h1
    | callContract auths caller chain dest payload =>
      simp only [step, callContract] at h1
      split at h1
      · rename_i hr
        split at hr
        · cases hr
        · cases hr; rw [ha] at h1; cases h1
      · rw [ha] at h1; cases h1
    | transferOwnership auths new =>
      simp only [step, transferOwnership] at h1
      split at h1
      · rename_i hr
        split at hr
        · cases hr
        · cases hr; rw [ha] at h1; cases h1
      · rw [ha] at h1; cases h1
    | transferOperatorship auths new =>
      simp only [step, transferOperatorship] at h1
      split at h1
      · rename_i hr
        split at hr
        · cases hr
        · cases hr; rw [ha] at h1; cases h1
      · rw [ha] at h1; cases h1
    | setTime now =>
      have : (step H V w (.setTime now)).1.st = w.st := rfl
      rw [this, ha] at h1; cases h1
    | upgrade auths =>
      obtain ⟨b, hb⟩ := step_upgrade_fst H V w auths
      rw [hb] at h1
      simp only [ha] at h1; cases h1
    | migrate auths =>
      obtain ⟨b, hb⟩ := step_migrate_fst H V w auths
      rw [hb] at h1
      simp only [ha] at h1; cases h1
  · rw [ha] at h1; cases h1

/-- **one step**: a record `approved h` present after a typed operation was present before, or the operation was a
    successful `approve_messages` whose batch contains a message with that key and hash and whose proof was valid -/
theorem step_approved (w : World) (op : Op σ) (hty : op.Typed) (hinv : AInv H w.st) (c i h : Bytes)
    (h1 : (step H V w op).1.st.approvals c i = .approved h) :
    w.st.approvals c i = .approved h ∨
    (∃ ms proof evs m, op = .approve ms proof ∧ (step H V w op).2 = .ok evs ∧ m ∈ ms ∧
        m.sourceChain = c ∧ m.messageId = i ∧ messageHash H m = h ∧
        ProofValid H V w.st (approveDataHash H ms) proof) ∨ Collision H := by
  by_cases hna : ∀ ms proof, op ≠ .approve ms proof
  · exact Or.inl (step_approved_other H V w op hna c i h h1)
  · have hex : ∃ ms proof, op = .approve ms proof := by
      cases op with
      | approve ms proof => exact ⟨ms, proof, rfl⟩
      | _ => exact absurd (fun _ _ hh => by cases hh) hna
    obtain ⟨ms, proof, rfl⟩ := hex
    cases ha : approveMessages H V w.st ms proof with
    | error e =>
      have : (step H V w (.approve ms proof)).1 = w := by simp only [step, ha]
      rw [this] at h1
      exact Or.inl h1
    | ok r =>
      obtain ⟨st', evs⟩ := r
      have hs1 : (step H V w (.approve ms proof)).1.st = st' := by simp only [step, ha]
      have hs2 : (step H V w (.approve ms proof)).2 = .ok evs := by simp only [step, ha]
      rw [hs1] at h1
      have hl := Cgp.Proofs.C02.approveMessages_ok H V _ _ _ _ _ ha
      have hst : st' = (approveLoop H ms w.st).1 := by rw [hl]
      have hv : ∃ b, validateProof H V w.st (approveDataHash H ms) proof = .ok b := by
        unfold approveMessages at ha
        cases hv : validateProof H V w.st (approveDataHash H ms) proof with
        | error e => rw [hv] at ha; cases ha
        | ok b => exact ⟨b, rfl⟩
      obtain ⟨b, hv⟩ := hv
      rw [hst] at h1
      rcases approveLoop_new H ms w.st c i h h1 with h2 | ⟨m, hm, hc, hi, hh⟩
      · exact Or.inl h2
      · rcases proofValid_of_ok H V w.st hinv _ proof b hty hv with hp | hcol
        · exact Or.inr (Or.inl ⟨ms, proof, evs, m, rfl, hs2, hm, hc, hi, hh, hp⟩)
        · exact Or.inr (Or.inr hcol)

theorem trace_cons (w : World) (op : Op σ) (ops : List (Op σ)) :
    trace H V w (op :: ops) = (w, op, (step H V w op).2) :: trace H V (step H V w op).1 ops := rfl

/-- the history-level statement from any world satisfying the invariant -/
theorem run_approved (ops : List (Op σ)) : ∀ (w : World), AInv H w.st → (∀ op ∈ ops, op.Typed) → ∀ (c i h : Bytes),
    (run H V w ops).1.st.approvals c i = .approved h →
    w.st.approvals c i = .approved h ∨
    (∃ wa ms proof evs m, (wa, Op.approve ms proof, Obs.ok evs) ∈ trace H V w ops ∧ m ∈ ms ∧
        m.sourceChain = c ∧ m.messageId = i ∧ messageHash H m = h ∧
        ProofValid H V wa.st (approveDataHash H ms) proof)
    ∨ Collision H := by
  induction ops with
  | nil => intro w _ _ c i h hfin; exact Or.inl hfin
  | cons op ops ih =>
    intro w hinv hty c i h hfin
    rw [Cgp.Proofs.C02.run_cons] at hfin
    have hop : op.Typed := hty op List.mem_cons_self
    rcases ih (step H V w op).1 (AInv_step H V w op hop hinv) (fun o ho => hty o (List.mem_cons_of_mem _ ho)) c i h hfin with
      h1 | ⟨wa, ms, proof, evs, m, hmem, hr⟩ | hcol
    · rcases step_approved H V w op hop hinv c i h h1 with h2 | ⟨ms, proof, evs, m, rfl, hobs, hr⟩ | hcol
      · exact Or.inl h2
      · refine Or.inr (Or.inl ⟨w, ms, proof, evs, m, ?_, hr⟩)
        rw [trace_cons, hobs]
        exact List.mem_cons_self
      · exact Or.inr (Or.inr hcol)
    · refine Or.inr (Or.inl ⟨wa, ms, proof, evs, m, ?_, hr⟩)
      rw [trace_cons]
      exact List.mem_cons_of_mem _ hmem
    · exact Or.inr (Or.inr hcol)

/-- **every approved message in every reachable state was signed**: start from any successful construction with typed
    initial sets and run ANY history of typed submissions; if afterwards the gateway holds an approval `h` for (chain, id),
    then somewhere in that history a successful `approve_messages` call carried a message with that chain and id whose
    message hash is `h`, and its proof was valid in the state it was submitted to (signatures by members of a registered,
    still-retained set reaching that set's threshold, over the digest binding domain, set, command kind and that very
    batch) — or a hash collision is exhibited. -/
theorem approved_was_signed (owner operator : Addr) (domain : Bytes) (minDelay retention : Nat) (sets : List WSigners)
    (now : Nat) (w0 : World) (hsets : ∀ ws ∈ sets, ws.Typed)
    (hc : constructed H owner operator domain minDelay retention sets now = some w0)
    (ops : List (Op σ)) (hty : ∀ op ∈ ops, op.Typed) (c i h : Bytes)
    (hfin : (run H V w0 ops).1.st.approvals c i = .approved h) :
    (∃ wa ms proof evs m, (wa, Op.approve ms proof, Obs.ok evs) ∈ trace H V w0 ops ∧ m ∈ ms ∧
        m.sourceChain = c ∧ m.messageId = i ∧ messageHash H m = h ∧
        ProofValid H V wa.st (approveDataHash H ms) proof)
    ∨ Collision H := by
  have hinv := AInv_constructed H owner operator domain minDelay retention sets now w0 hsets hc
  obtain ⟨evs0, hi⟩ := constructed_initSets H owner operator domain minDelay retention sets now w0 hc
  have h0 : w0.st.approvals c i = .notApproved := by
    rw [initSets_approvals H now sets _ _ evs0 hi]; rfl
  rcases run_approved H V ops w0 hinv hty c i h hfin with h1 | h1
  · rw [h0] at h1; cases h1
  · exact h1

/-- equal message hashes mean equal messages (source chain, id, source address, destination contract, payload hash) —
    or a hash collision is exhibited; so the signed message of `approved_was_signed` is determined field by field -/
theorem messageHash_binds (a b : Message) (ha : a.Typed) (hb : b.Typed)
    (h : messageHash H a = messageHash H b) : a = b ∨ Collision H := by
  unfold messageHash at h
  by_cases hx : enc a.toSc = enc b.toSc
  · exact Or.inl (toSc_injective_message a b (enc_injective _ _ (message_wf a ha) (message_wf b hb) hx))
  · exact Or.inr ⟨_, _, hx, h⟩

/-- a freshly constructed gateway holds no approvals at all -/
theorem constructed_no_approvals (owner operator : Addr) (domain : Bytes) (minDelay retention : Nat) (sets : List WSigners)
    (now : Nat) (w0 : World) (hc : constructed H owner operator domain minDelay retention sets now = some w0) (c i : Bytes) :
    w0.st.approvals c i = .notApproved := by
  obtain ⟨evs0, hi⟩ := constructed_initSets H owner operator domain minDelay retention sets now w0 hc
  rw [initSets_approvals H now sets _ _ evs0 hi]
  rfl

/-- non-vacuity: a concrete one-signer proof satisfies `SigsOk` -/
example : SigsOk (fun _ _ (_ : Unit) => true) [] 3 [⟨⟨[1], 5⟩, some ()⟩] := by
  refine ⟨1, by simp, ?_, ?_, ?_⟩
  · intro p _ s _; rfl
  · simp [signedWeight]
  · simp [signedWeight, two128]

/-! ### non-vacuity (the model RUN in the kernel on a concrete history, toy hash) -/
section NonVacuity
open Cgp.Toy

def m0 : Message := ⟨[97], [49], [98], ⟨true, List.replicate 32 9⟩, List.replicate 32 3⟩

/-- the hypotheses of `approved_was_signed` are satisfiable: a constructed gateway, typed sets and submissions, and an
    approval on record after the history -/
theorem approved_was_signed_nonvacuous :
    (∀ ws ∈ [ws0], ws.Typed) ∧ (∀ op ∈ [(Op.approve [m0] pf0 : Op Unit)], op.Typed) ∧
    ∃ w0, constructed H0 owner0 owner0 [1] 0 0 [ws0] 5 = some w0 ∧
      (run H0 V0 w0 [.approve [m0] pf0]).1.st.approvals [97] [49] = .approved (messageHash H0 m0) := by
  refine ⟨?_, ?_, _, rfl, ?_⟩
  · intro ws h
    simp only [List.mem_singleton] at h
    subst h
    exact ws0_typed
  · intro op h
    simp only [List.mem_singleton] at h
    subst h
    exact pf0_typed
  · decide +kernel

end NonVacuity

end Cgp.Props.C01
