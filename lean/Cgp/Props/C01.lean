/-
  Property C01 — PLACEHOLDER while the full theorem file (see /verif/lean/stmts) is being proved:
  only the rollback clause is here.  Replaced by the complete file as soon as it checks.
-/
import Cgp.GatewaySpec
namespace Cgp.Props.C01
open Cgp Cgp.Xdr Cgp.Gateway

variable (H : Bytes → Bytes) {σ : Type} (V : Bytes → Bytes → σ → Bool)

theorem approve_rejected_unchanged (w : World) (ms : List Message) (proof : Proof σ) (e : Err)
    (h : (step H V w (.approve ms proof)).2 = .err e) :
    (step H V w (.approve ms proof)).1 = w := by
  simp only [step] at h ⊢
  split <;> simp_all

end Cgp.Props.C01
