/-
  Property C01 — approvals need threshold-weight signatures from a live signer set.
  Statements are FIXED: prove them exactly as stated (helper lemmas go above them or in Cgp/Proofs/C01.lean).
-/
import Cgp.GatewaySpec
import Cgp.Props.C03
namespace Cgp.Props.C01
open Cgp Cgp.Xdr Cgp.Gateway

variable (H : Bytes → Bytes) {σ : Type} (V : Bytes → Bytes → σ → Bool)


/-! ### helpers -/

theorem loop_iff_aux (digest : Bytes) (thr : Nat) (ps : List (PSigner σ)) :
    ∀ total, total < thr →
      (validateSignaturesLoop V digest thr ps total = .ok true ↔
        ∃ k, k ≤ ps.length ∧ AllSigsValid V digest (ps.take k) ∧
          thr ≤ total + signedWeight (ps.take k) ∧ total + signedWeight (ps.take k) < two128) := by
  induction ps with
  | nil =>
    intro total ht
    simp only [validateSignaturesLoop, List.take_nil, signedWeight, List.length_nil]
    constructor
    · intro h; cases h
    · rintro ⟨k, _, _, h1, _⟩; omega
  | cons p rest ih =>
    intro total ht
    constructor
    · intro h
      unfold validateSignaturesLoop at h
      cases hs : p.sig with
      | none =>
        rw [hs] at h
        simp only at h
        obtain ⟨k, hk, hv, h1, h2⟩ := (ih total ht).mp h
        refine ⟨k + 1, by simp; omega, ?_, ?_, ?_⟩
        · intro q hq s hqs
          simp only [List.take_succ_cons, List.mem_cons] at hq
          rcases hq with rfl | hq
          · rw [hs] at hqs; cases hqs
          · exact hv q hq s hqs
        · simp only [List.take_succ_cons, signedWeight, hs, Option.isSome_none]; simpa using h1
        · simp only [List.take_succ_cons, signedWeight, hs, Option.isSome_none]; simpa using h2
      | some s =>
        rw [hs] at h
        simp only at h
        by_cases hV : V p.signer.key digest s = true
        · simp only [hV, Bool.not_true, Bool.false_eq_true, if_false] at h
          by_cases ho : total + p.signer.weight ≥ two128
          · simp only [ho, if_true] at h; cases h
          · simp only [ho, if_false] at h
            by_cases hthr : total + p.signer.weight ≥ thr
            · refine ⟨1, by simp, ?_, ?_, ?_⟩
              · intro q hq s' hqs
                simp only [List.take_succ_cons, List.take_zero, List.mem_singleton] at hq
                subst hq
                rw [hs] at hqs; cases hqs; exact hV
              · simp only [List.take_succ_cons, List.take_zero, signedWeight, hs, Option.isSome_some, if_true]; omega
              · simp only [List.take_succ_cons, List.take_zero, signedWeight, hs, Option.isSome_some, if_true]; omega
            · simp only [hthr, if_false] at h
              obtain ⟨k, hk, hv, h1, h2⟩ := (ih (total + p.signer.weight) (by omega)).mp h
              refine ⟨k + 1, by simp; omega, ?_, ?_, ?_⟩
              · intro q hq s' hqs
                simp only [List.take_succ_cons, List.mem_cons] at hq
                rcases hq with rfl | hq
                · rw [hs] at hqs; cases hqs; exact hV
                · exact hv q hq s' hqs
              · simp only [List.take_succ_cons, signedWeight, hs, Option.isSome_some, if_true]; omega
              · simp only [List.take_succ_cons, signedWeight, hs, Option.isSome_some, if_true]; omega
        · simp only [hV, Bool.not_false, if_true] at h
          cases h
    · rintro ⟨k, hk, hv, h1, h2⟩
      cases k with
      | zero => simp only [List.take_zero, signedWeight] at h1; omega
      | succ k =>
        simp only [List.take_succ_cons, signedWeight] at h1 h2
        simp only [List.length_cons] at hk
        have hv' : AllSigsValid V digest (rest.take k) := by
          intro q hq s hqs
          exact hv q (by simp only [List.take_succ_cons, List.mem_cons]; exact Or.inr hq) s hqs
        unfold validateSignaturesLoop
        cases hs : p.sig with
        | none =>
          simp only
          rw [hs] at h1 h2
          simp only [Option.isSome_none, Bool.false_eq_true, if_false, Nat.zero_add] at h1 h2
          exact (ih total ht).mpr ⟨k, by omega, hv', h1, h2⟩
        | some s =>
          simp only
          rw [hs] at h1 h2
          simp only [Option.isSome_some, if_true] at h1 h2
          have hV : V p.signer.key digest s = true :=
            hv p (by simp) s hs
          simp only [hV, Bool.not_true, Bool.false_eq_true, if_false]
          have ho : ¬ (total + p.signer.weight ≥ two128) := by omega
          simp only [ho, if_false]
          by_cases hthr : total + p.signer.weight ≥ thr
          · simp only [hthr, if_true]
          · simp only [hthr, if_false]
            exact (ih (total + p.signer.weight) (by omega)).mpr ⟨k, by omega, hv', by omega, by omega⟩

/-- The signature loop accepts exactly when P's signature condition holds (any threshold > 0, any list). -/
theorem validateSignatures_iff (digest : Bytes) (thr : Nat) (ps : List (PSigner σ)) (hthr : 0 < thr) :
    validateSignaturesLoop V digest thr ps 0 = .ok true ↔ SigsOk V digest thr ps := by
  rw [loop_iff_aux V digest thr ps 0 hthr]
  simp only [SigsOk, Nat.zero_add]

/-- the loop never answers `ok true` unless the threshold is met: it is `ok true`, `ok false`, or a trap -/
theorem validateSignatures_sound (digest : Bytes) (thr : Nat) (ps : List (PSigner σ)) (hthr : 0 < thr)
    (h : validateSignaturesLoop V digest thr ps 0 = .ok true) :
    ∃ k, k ≤ ps.length ∧ AllSigsValid V digest (ps.take k) ∧ thr ≤ signedWeight (ps.take k) := by
  obtain ⟨k, hk, hv, h1, _⟩ := (validateSignatures_iff V digest thr ps hthr).mp h
  exact ⟨k, hk, hv, h1⟩

theorem validateProof_ok_iff (st : State) (dh : Bytes) (proof : Proof σ) (b : Bool) :
    validateProof H V st dh proof = .ok b ↔
      ∃ e, st.epochByHash (signersHash H proof.weightedSigners) = some e ∧ e ≤ st.epoch ∧
        st.epoch - e ≤ st.retention ∧
        validateSignaturesLoop V (messageHashToSign H st.domain (signersHash H proof.weightedSigners) dh)
          proof.threshold proof.signers 0 = .ok true ∧ b = (e == st.epoch) := by
  unfold validateProof
  simp only
  cases he : st.epochByHash (signersHash H proof.weightedSigners) with
  | none =>
    simp only
    constructor
    · intro h; cases h
    · rintro ⟨e, he', _⟩; cases he'
  | some e =>
    simp only
    by_cases h1 : st.epoch < e
    · simp only [h1, if_true]
      constructor
      · intro h; cases h
      · rintro ⟨e', he', hle, _⟩; cases he'; omega
    · simp only [h1, if_false]
      by_cases h2 : st.epoch - e > st.retention
      · simp only [h2, if_true]
        constructor
        · intro h; cases h
        · rintro ⟨e', he', _, hle, _⟩; cases he'; omega
      · simp only [h2, if_false]
        cases hl : validateSignaturesLoop V (messageHashToSign H st.domain (signersHash H proof.weightedSigners) dh)
            proof.threshold proof.signers 0 with
        | error x =>
          simp only
          constructor
          · intro h; cases h
          · rintro ⟨e', _, _, _, hx, _⟩; cases hx
        | ok r =>
          cases r with
          | false =>
            simp only
            constructor
            · intro h; cases h
            · rintro ⟨e', _, _, _, hx, _⟩; cases hx
          | true =>
            simp only
            constructor
            · intro h
              cases h
              exact ⟨e, rfl, by omega, by omega, by first | rfl | trivial, by first | rfl | trivial⟩
            · rintro ⟨e', he', _, _, _, hb⟩
              cases he'
              rw [hb]

/-- **operational ⇔ declarative**: a proof check succeeds exactly when `ProofValid` holds. -/
theorem validateProof_iff (st : State) (dh : Bytes) (proof : Proof σ) (hthr : 0 < proof.threshold) :
    (∃ b, validateProof H V st dh proof = .ok b) ↔ ProofValid H V st dh proof := by
  unfold ProofValid
  constructor
  · rintro ⟨b, hb⟩
    obtain ⟨e, he, h1, h2, hl, _⟩ := (validateProof_ok_iff H V st dh proof b).mp hb
    exact ⟨e, he, h1, h2, (validateSignatures_iff V _ _ _ hthr).mp hl⟩
  · rintro ⟨e, he, h1, h2, hs⟩
    exact ⟨e == st.epoch, (validateProof_ok_iff H V st dh proof _).mpr
      ⟨e, he, h1, h2, (validateSignatures_iff V _ _ _ hthr).mpr hs, rfl⟩⟩

/-- the boolean returned says whether the proof's set is the latest one -/
theorem validateProof_latest (st : State) (dh : Bytes) (proof : Proof σ) (b : Bool)
    (h : validateProof H V st dh proof = .ok b) :
    (b = true ↔ st.epochByHash (signersHash H proof.weightedSigners) = some st.epoch) := by
  obtain ⟨e, he, _, _, _, hb⟩ := (validateProof_ok_iff H V st dh proof b).mp h
  rw [he, hb]
  simp

/-- approval batches: accepted exactly when the proof is valid for the batch's data hash and the batch is non-empty -/
theorem approve_ok_iff (st : State) (ms : List Message) (proof : Proof σ) (hthr : 0 < proof.threshold) :
    (∃ r, approveMessages H V st ms proof = .ok r) ↔
      (ProofValid H V st (approveDataHash H ms) proof ∧ ms ≠ []) := by
  rw [← validateProof_iff H V st _ proof hthr]
  unfold approveMessages
  cases hv : validateProof H V st (approveDataHash H ms) proof with
  | error x =>
    simp only
    constructor
    · rintro ⟨r, hr⟩; cases hr
    · rintro ⟨⟨b, hb⟩, _⟩; cases hb
  | ok b =>
    simp only
    cases ms with
    | nil =>
      simp only [List.isEmpty_nil, if_true]
      constructor
      · rintro ⟨r, hr⟩; cases hr
      · rintro ⟨_, h⟩; simp at h
    | cons m ms =>
      simp only [List.isEmpty_cons, Bool.false_eq_true, if_false]
      exact ⟨fun _ => ⟨⟨b, rfl⟩, by simp⟩, fun _ => ⟨_, rfl⟩⟩

/-- every rejected submission changes nothing (and emits nothing: the observation carries no events) -/
theorem approve_rejected_unchanged (w : World) (ms : List Message) (proof : Proof σ) (e : Err)
    (h : (step H V w (.approve ms proof)).2 = .err e) :
    (step H V w (.approve ms proof)).1 = w := by
  simp only [step] at h ⊢
  cases ha : approveMessages H V w.st ms proof with
  | error x => rfl
  | ok r =>
    rw [ha] at h
    obtain ⟨st', evs⟩ := r
    simp only at h
    cases h

/-- Converse clause: an honestly built proof — every attached signature genuine, the signed entries (ANY subset
    of the signers, in any positions) weigh at least the threshold, declared weights do not overflow — from an
    installed, retained set is accepted. -/
theorem honest_proof_accepted (st : State) (dh : Bytes) (proof : Proof σ) (e : Nat)
    (hinst : st.epochByHash (signersHash H proof.weightedSigners) = some e)
    (he : e ≤ st.epoch) (hret : st.epoch - e ≤ st.retention)
    (hvalid : AllSigsValid V (messageHashToSign H st.domain (signersHash H proof.weightedSigners) dh) proof.signers)
    (hpos : 0 < proof.threshold)
    (hw : proof.threshold ≤ signedWeight proof.signers)
    (hno : signedWeight proof.signers < two128) :
    ∃ b, validateProof H V st dh proof = .ok b := by
  rw [validateProof_iff H V st dh proof hpos]
  refine ⟨e, hinst, he, hret, proof.signers.length, Nat.le_refl _, ?_, ?_, ?_⟩
  · rw [List.take_length]; exact hvalid
  · rw [List.take_length]; exact hw
  · rw [List.take_length]; exact hno

/-! ### the digest binds domain, signer set, command kind and batch (or exhibits a collision) -/


theorem list_map_inj {α β} (f : α → β) (hf : ∀ a b, f a = f b → a = b) :
    ∀ (l₁ l₂ : List α), l₁.map f = l₂.map f → l₁ = l₂ := by
  intro l₁
  induction l₁ with
  | nil =>
    intro l₂ h
    cases l₂ with
    | nil => rfl
    | cons _ _ => simp at h
  | cons x xs ih =>
    intro l₂ h
    cases l₂ with
    | nil => simp at h
    | cons y ys =>
      simp only [List.map_cons, List.cons.injEq] at h
      rw [hf x y h.1, ih ys h.2]

theorem wsigner_toSc_inj (a b : WSigner) (h : a.toSc = b.toSc) : a = b := by
  cases a; cases b
  simp [WSigner.toSc] at h
  simp [h]

theorem wsigner_wf (s : WSigner) (h : s.Typed) : s.toSc.WF := by
  obtain ⟨h1, h2⟩ := h
  simp [WSigner.toSc, ScVal.WF, ScPairs.WF, ScPairs.len, symSigner, symWeight, h1]
  simpa [two128] using h2

theorem wsigners_wf (ws : WSigners) (h : ws.Typed) : ws.toSc.WF := by
  obtain ⟨h1, h2, h3, h4⟩ := h
  simp only [WSigners.toSc, ScVal.WF, ScPairs.WF, ScPairs.len, ScVals.len_ofList, List.length_map,
    ScVals.WF_ofList, List.mem_map]
  refine ⟨by decide, by decide, by omega, by decide, ⟨h2, ?_⟩, by decide, ?_, trivial⟩
  · rintro v ⟨s, hs, rfl⟩
    exact wsigner_wf s (h1 s hs)
  · simpa [two128] using h3

theorem message_wf (m : Message) (h : m.Typed) : m.toSc.WF := by
  obtain ⟨h1, h2, h3, h4, h5⟩ := h
  simp only [Message.toSc, ScVal.WF, ScPairs.WF, ScPairs.len]
  refine ⟨by decide, by decide, h4, by decide, h2, by decide, by omega, by decide, h3, by decide, h1, trivial⟩

theorem approveData_wf (ms : List Message) (h : ∀ m ∈ ms, m.Typed) (hl : ms.length < 256 ^ 4) :
    (approveData ms).WF := by
  simp only [approveData, ScVal.WF, ScVals.WF, ScVals.len, ScVals.len_ofList, List.length_map,
    ScVals.WF_ofList, List.mem_map]
  refine ⟨by decide, ⟨by decide, by decide, trivial⟩, ⟨hl, ?_⟩, trivial⟩
  rintro v ⟨m, hm, rfl⟩
  exact message_wf m (h m hm)

theorem rotateData_wf (ws : WSigners) (h : ws.Typed) : (rotateData ws).WF := by
  simp only [rotateData, ScVal.WF, ScVals.WF, ScVals.len]
  exact ⟨by decide, ⟨by decide, by decide, trivial⟩, wsigners_wf ws h, trivial⟩

theorem kinds_ne (ms : List Message) (ws : WSigners) : approveData ms ≠ rotateData ws := by
  intro h
  simp [approveData, rotateData, symApproveMessages, symRotateSigners] at h

theorem toSc_injective_signers (a b : WSigners) (h : a.toSc = b.toSc) : a = b := by
  cases a; cases b
  simp [WSigners.toSc] at h
  obtain ⟨h1, h2, h3⟩ := h
  have := list_map_inj _ wsigner_toSc_inj _ _ (ScVals.ofList_injective h2)
  simp [*]

theorem toSc_injective_message (a b : Message) (h : a.toSc = b.toSc) : a = b := by
  cases a; cases b
  simp [Message.toSc] at h
  simp [h]

theorem signersHash_binds (a b : WSigners) (ha : a.Typed) (hb : b.Typed)
    (h : signersHash H a = signersHash H b) : a = b ∨ Collision H := by
  unfold signersHash at h
  by_cases hx : enc a.toSc = enc b.toSc
  · exact Or.inl (toSc_injective_signers a b (enc_injective _ _ (wsigners_wf a ha) (wsigners_wf b hb) hx))
  · exact Or.inr ⟨_, _, hx, h⟩

theorem approveDataHash_binds (a b : List Message) (ha : ∀ m ∈ a, m.Typed) (hb : ∀ m ∈ b, m.Typed)
    (hla : a.length < 256 ^ 4) (hlb : b.length < 256 ^ 4)
    (h : approveDataHash H a = approveDataHash H b) : a = b ∨ Collision H := by
  unfold approveDataHash at h
  by_cases hx : enc (approveData a) = enc (approveData b)
  · left
    have h1 := enc_injective _ _ (approveData_wf a ha hla) (approveData_wf b hb hlb) hx
    simp [approveData] at h1
    exact list_map_inj _ toSc_injective_message _ _ (ScVals.ofList_injective h1)
  · exact Or.inr ⟨_, _, hx, h⟩

/-- an approval data hash can never serve as a rotation data hash (command kinds are bound) -/
theorem command_kinds_distinct (ms : List Message) (ws : WSigners)
    (hms : ∀ m ∈ ms, m.Typed) (hl : ms.length < 256 ^ 4) (hws : ws.Typed)
    (h : approveDataHash H ms = rotateDataHash H ws) : Collision H := by
  unfold approveDataHash rotateDataHash at h
  refine ⟨_, _, ?_, h⟩
  intro hx
  exact kinds_ne ms ws (enc_injective _ _ (approveData_wf ms hms hl) (rotateData_wf ws hws) hx)

theorem digest_binds (d d' sh sh' dh dh' : Bytes)
    (hd : d.length = 32) (hd' : d'.length = 32) (hs : sh.length = 32) (hs' : sh'.length = 32)
    (h : messageHashToSign H d sh dh = messageHashToSign H d' sh' dh') :
    (d = d' ∧ sh = sh' ∧ dh = dh') ∨ Collision H := by
  unfold messageHashToSign at h
  by_cases hx : d ++ sh ++ dh = d' ++ sh' ++ dh'
  · left
    have h1 := List.append_inj hx (by simp [hd, hd', hs, hs'])
    have h2 := List.append_inj h1.1 (by omega)
    exact ⟨h2.1, h2.2, h1.2⟩
  · exact Or.inr ⟨_, _, hx, h⟩

/-- In a state satisfying the auth invariant, an accepted proof declares exactly a set that was installed
    (signers, weights, threshold, nonce all as installed) — or a hash collision is exhibited. -/
theorem accepted_set_is_installed (st : State) (hinv : GInv H st) (dh : Bytes) (proof : Proof σ) (b : Bool)
    (htyped : proof.weightedSigners.Typed)
    (hinst : ∀ e ws, st.setAt e = some ws → ws.Typed)
    (h : validateProof H V st dh proof = .ok b) :
    (∃ e, st.setAt e = some proof.weightedSigners ∧ e ≤ st.epoch ∧ st.epoch - e ≤ st.retention) ∨ Collision H := by
  obtain ⟨e, he, h1, h2, _, _⟩ := (validateProof_ok_iff H V st dh proof b).mp h
  obtain ⟨ws, hws, hh, _⟩ := hinv.ghost e _ (hinv.bwd e _ he)
  rcases signersHash_binds H ws proof.weightedSigners (hinst e ws hws) htyped hh with heq | hc
  · subst heq
    exact Or.inl ⟨e, hws, h1, h2⟩
  · exact Or.inr hc

/-! ### the same for every REACHABLE state (construction followed by any history) -/

/-- In every reachable state an accepted proof declares exactly an installed, still-retained set — or a collision is exhibited. -/
theorem accepted_set_is_installed_reachable (w : World) (hreach : Reachable H V w) (dh : Bytes) (proof : Proof σ) (b : Bool)
    (htyped : proof.weightedSigners.Typed)
    (hinst : ∀ e ws, w.st.setAt e = some ws → ws.Typed)
    (h : validateProof H V w.st dh proof = .ok b) :
    (∃ e, w.st.setAt e = some proof.weightedSigners ∧ e ≤ w.st.epoch ∧ w.st.epoch - e ≤ w.st.retention) ∨ Collision H := by
  exact accepted_set_is_installed H V w.st (Cgp.Props.C03.GInv_reachable H V w hreach) dh proof b htyped hinst h

/-- … hence its declared threshold is positive and within the overflow-free total weight of the declared signers
    (installed sets are well-formed), which discharges the side condition of `validateProof_iff` for reachable states -/
theorem accepted_threshold_pos_reachable (w : World) (hreach : Reachable H V w) (dh : Bytes) (proof : Proof σ) (b : Bool)
    (htyped : proof.weightedSigners.Typed)
    (hinst : ∀ e ws, w.st.setAt e = some ws → ws.Typed)
    (h : validateProof H V w.st dh proof = .ok b) :
    (0 < proof.threshold ∧ WellFormed proof.weightedSigners) ∨ Collision H := by
  have hinv := Cgp.Props.C03.GInv_reachable H V w hreach
  obtain ⟨e, he, _, _, _, _⟩ := (validateProof_ok_iff H V w.st dh proof b).mp h
  obtain ⟨ws, hws, hh, hwf⟩ := hinv.ghost e _ (hinv.bwd e _ he)
  rcases signersHash_binds H ws proof.weightedSigners (hinst e ws hws) htyped hh with heq | hc
  · subst heq
    exact Or.inl ⟨hwf.2.2.2.2.2.1, hwf⟩
  · exact Or.inr hc

/-- **C01 for reachable states, both directions at once**: a proof check succeeds iff `ProofValid` — or a hash collision
    is exhibited (the only way a proof with threshold 0 could ever match an installed set) -/
theorem validateProof_iff_reachable (w : World) (hreach : Reachable H V w) (dh : Bytes) (proof : Proof σ)
    (htyped : proof.weightedSigners.Typed)
    (hinst : ∀ e ws, w.st.setAt e = some ws → ws.Typed) :
    ((∃ b, validateProof H V w.st dh proof = .ok b) → ProofValid H V w.st dh proof ∨ Collision H) ∧
    (ProofValid H V w.st dh proof → 0 < proof.threshold → ∃ b, validateProof H V w.st dh proof = .ok b) := by
  constructor
  · rintro ⟨b, hb⟩
    rcases accepted_threshold_pos_reachable H V w hreach dh proof b htyped hinst hb with ⟨hpos, _⟩ | hc
    · exact Or.inl ((validateProof_iff H V w.st dh proof hpos).mp ⟨b, hb⟩)
    · exact Or.inr hc
  · intro hv hpos
    exact (validateProof_iff H V w.st dh proof hpos).mpr hv

/-- non-vacuity: a concrete one-signer proof satisfies `SigsOk` -/
example : SigsOk (fun _ _ (_ : Unit) => true) [] 3 [⟨⟨[1], 5⟩, some ()⟩] := by
  refine ⟨1, by simp, ?_, ?_, ?_⟩
  · intro p _ s _; rfl
  · simp [signedWeight]
  · simp [signedWeight, two128]

end Cgp.Props.C01
