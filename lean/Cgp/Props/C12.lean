/-
  Property C12 — PLACEHOLDER while the full theorem file (lean/stmts/C12.lean.txt) is being proved.
-/
import Cgp.Token
namespace Cgp.Props.C12
open Cgp Cgp.Xdr Cgp.Token

theorem rejected_no_effect (st : State) (c : Ctx) (op : Op) (e : Err) (h : (step st c op).2 = .error e) :
    (step st c op).1 = st := by
  simp only [step] at h ⊢
  split <;> simp_all

end Cgp.Props.C12
