/-
  Property C12 — token balances, allowances and supply follow the standard token rules.
  Statements are FIXED: prove them exactly as stated (helper lemmas go above them or in Cgp/Proofs/C12.lean).
-/
import Cgp.Token
import Cgp.Toy
namespace Cgp.Props.C12
open Cgp Cgp.Xdr Cgp.Token

/-- sum of the balances of a list of accounts -/
def total (st : State) : List Addr → Int
  | [] => 0
  | a :: r => st.bal a + total st r

/-- the accounts whose balance an operation may touch -/
def Op.accounts : Op → List Addr
  | .mintFrom _ t _ => [t] | .mint t _ => [t]
  | .transfer s d _ => [s, d] | .transferFrom _ s d _ => [s, d]
  | .burn s _ => [s] | .burnFrom _ s _ => [s]
  | _ => []

/-- change of the total supply caused by a SUCCESSFUL operation -/
def supplyDelta : Op → Int
  | .mintFrom _ _ a => a | .mint _ a => a
  | .burn _ a => -a | .burnFrom _ _ a => -a
  | _ => 0

/-- supply change accumulated over a history (only successful operations count) -/
def supplyChange (st : State) : List (Ctx × Op) → Int
  | [] => 0
  | (c, op) :: rest =>
    (match (step st c op).2 with | .ok _ => supplyDelta op | .error _ => 0) + supplyChange (step st c op).1 rest

def NonNeg (st : State) : Prop :=
  (∀ a, 0 ≤ st.bal a) ∧ (∀ f s al, st.allow f s = some al → 0 ≤ al.amount)

/-! ### helper lemmas -/

theorem spendBalance_ok {st st1 : State} {who : Addr} {amount : Int}
    (h : spendBalance st who amount = .ok st1) :
    amount ≤ st.bal who ∧
    st1 = { st with bal := fun a => if a = who then st.bal who - amount else st.bal a } := by
  unfold spendBalance at h
  split at h
  · cases h
  · cases h; exact ⟨by omega, rfl⟩

theorem receiveBalance_ok {st st1 : State} {who : Addr} {amount : Int}
    (h : receiveBalance st who amount = .ok st1) :
    st1 = { st with bal := fun a => if a = who then st.bal who + amount else st.bal a } := by
  unfold receiveBalance at h
  split at h
  · cases h
  · cases h; rfl

theorem writeAllowance_ok {st st1 : State} {c : Ctx} {src spender : Addr} {amount : Int} {exp : Nat}
    (h : writeAllowance st c src spender amount exp = .ok st1) :
    (0 < amount → c.seq ≤ exp) ∧
    st1 = { st with allow := fun f s => if f = src ∧ s = spender then some ⟨amount, exp⟩ else st.allow f s } := by
  unfold writeAllowance at h
  split at h
  · cases h
  · split at h
    · cases h
    · cases h
      refine ⟨?_, rfl⟩
      intro hp
      rename_i h1 _
      by_cases hh : exp < c.seq
      · exact absurd ⟨hp, hh⟩ h1
      · omega

theorem read_expired_zero (st : State) (seq : Nat) (src spender : Addr)
    (hx : (readAllowance st seq src spender).expiration < seq) :
    (readAllowance st seq src spender).amount = 0 := by
  unfold readAllowance at hx ⊢
  split
  · rfl
  · split
    · rfl
    · rename_i a heq hnot
      rw [heq] at hx
      simp only [hnot, if_false] at hx

theorem read_after_write (st : State) (seq : Nat) (src spender : Addr) (amount : Int) (exp : Nat) :
    readAllowance { st with allow := fun f s => if f = src ∧ s = spender then some ⟨amount, exp⟩ else st.allow f s }
      seq src spender = if exp < seq then ⟨0, exp⟩ else ⟨amount, exp⟩ := by
  simp only [readAllowance, and_self, if_true]

theorem spendAllowance_ok {st st1 : State} {c : Ctx} {src spender : Addr} {amount : Int}
    (h : spendAllowance st c src spender amount = .ok st1) :
    amount ≤ (readAllowance st c.seq src spender).amount ∧
    st1.bal = st.bal ∧ st1.minter = st.minter ∧ st1.owner = st.owner ∧
    (0 ≤ amount →
      (readAllowance st1 c.seq src spender).amount = (readAllowance st c.seq src spender).amount - amount) ∧
    (∀ f s, ¬ (f = src ∧ s = spender) → st1.allow f s = st.allow f s) ∧
    (0 ≤ amount → ∀ al, st1.allow src spender = some al → st.allow src spender = some al ∨
        al.amount = (readAllowance st c.seq src spender).amount - amount) := by
  unfold spendAllowance at h
  simp only at h
  have hz := read_expired_zero st c.seq src spender
  generalize ha : readAllowance st c.seq src spender = a at h hz ⊢
  split at h
  · cases h
  · rename_i hlt
    have hle : amount ≤ a.amount := by omega
    split at h
    · rename_i hpos
      obtain ⟨hw, rfl⟩ := writeAllowance_ok h
      refine ⟨hle, rfl, rfl, rfl, ?_, ?_, ?_⟩
      · intro _
        have hlive : ¬ (a.expiration < c.seq) := by
          intro hx
          have := hz hx
          omega
        rw [read_after_write, if_neg hlive]
      · intro f s hfs
        simp only [hfs, if_false]
      · intro _ al hal
        simp only [and_self, if_true] at hal
        cases hal
        exact Or.inr rfl
    · cases h
      refine ⟨hle, rfl, rfl, rfl, ?_, ?_, ?_⟩
      · intro h0
        have : amount = 0 := by omega
        rw [ha]; omega
      · intros; rfl
      · intro _ al hal; exact Or.inl hal

theorem step_cases (st : State) (c : Ctx) (op : Op) :
    (∃ e, apply st c op = .error e ∧ step st c op = (st, .error e)) ∨
    (∃ st' evs, apply st c op = .ok (st', evs) ∧ step st c op = (st', .ok evs)) := by
  unfold step
  cases h : apply st c op with
  | error e => exact Or.inl ⟨e, rfl, rfl⟩
  | ok p => obtain ⟨st', evs⟩ := p; exact Or.inr ⟨st', evs, rfl, rfl⟩

theorem total_congr (st st' : State) (l : List Addr) (h : ∀ a ∈ l, st'.bal a = st.bal a) :
    total st' l = total st l := by
  induction l with
  | nil => rfl
  | cons x r ih =>
    simp only [total]
    rw [h x (by simp), ih (fun a ha => h a (by simp [ha]))]

theorem total_update (st st' : State) (l : List Addr) (x : Addr) (d : Int) (hnd : l.Nodup) (hx : x ∈ l)
    (h1 : st'.bal x = st.bal x + d) (h2 : ∀ a, a ≠ x → st'.bal a = st.bal a) :
    total st' l = total st l + d := by
  induction l with
  | nil => simp at hx
  | cons y r ih =>
    simp only [total]
    rw [List.nodup_cons] at hnd
    by_cases hyx : y = x
    · subst hyx
      have : total st' r = total st r :=
        total_congr st st' r (fun a ha => h2 a (fun he => hnd.1 (he ▸ ha)))
      rw [this, h1]; omega
    · have hxr : x ∈ r := by
        rcases List.mem_cons.1 hx with he | hr
        · exact absurd he.symm hyx
        · exact hr
      rw [ih hnd.2 hxr, h2 y hyx]; omega

theorem total_move (st st' : State) (l : List Addr) (src dst : Addr) (amount : Int) (hnd : l.Nodup)
    (hs : src ∈ l) (hd : dst ∈ l)
    (h1 : src ≠ dst → st'.bal src = st.bal src - amount ∧ st'.bal dst = st.bal dst + amount)
    (h2 : src = dst → st'.bal src = st.bal src)
    (h3 : ∀ a, a ≠ src → a ≠ dst → st'.bal a = st.bal a) :
    total st' l = total st l := by
  by_cases he : src = dst
  · subst he
    apply total_congr
    intro a _
    by_cases ha : a = src
    · subst ha; exact h2 rfl
    · exact h3 a ha ha
  · obtain ⟨hs', hd'⟩ := h1 he
    let stm : State := { st with bal := fun a => if a = src then st.bal src - amount else st.bal a }
    have e1 : total stm l = total st l + (-amount) := by
      apply total_update st stm l src (-amount) hnd hs
      · simp [stm]; omega
      · intro a ha; simp [stm, ha]
    have e2 : total st' l = total stm l + amount := by
      apply total_update stm st' l dst amount hnd hd
      · simp [stm, Ne.symm he]; exact hd'
      · intro a ha
        by_cases has : a = src
        · subst has; simp [stm]; exact hs'
        · simp [stm, has]; exact h3 a has ha
    omega

theorem approve_exact' (st st' : State) (c : Ctx) (src spender : Addr) (amount : Int) (exp : Nat) (evs : List Event)
    (h : approve st c src spender amount exp = .ok (st', evs)) :
    src ∈ c.auths ∧ 0 ≤ amount ∧ (0 < amount → c.seq ≤ exp) ∧
    st' = { st with allow := fun f s => if f = src ∧ s = spender then some ⟨amount, exp⟩ else st.allow f s } ∧
    evs = [evApprove src spender amount exp] := by
  unfold approve at h
  split at h
  · cases h
  rename_i hauth
  split at h
  · cases h
  rename_i hamt
  split at h
  · cases h
  rename_i st1 h1
  cases h
  obtain ⟨hw, rfl⟩ := writeAllowance_ok h1
  exact ⟨by simpa using hauth, by omega, hw, rfl, rfl⟩

theorem addMinter_ok {st st' : State} {c : Ctx} {m : Addr} {evs : List Event}
    (h : addMinter st c m = .ok (st', evs)) :
    st.owner ∈ c.auths ∧ st' = { st with minter := fun a => if a = m then true else st.minter a } := by
  unfold addMinter at h
  split at h
  · cases h
  rename_i hauth
  cases h
  exact ⟨by simpa using hauth, rfl⟩

theorem removeMinter_ok {st st' : State} {c : Ctx} {m : Addr} {evs : List Event}
    (h : removeMinter st c m = .ok (st', evs)) :
    st.owner ∈ c.auths ∧ st' = { st with minter := fun a => if a = m then false else st.minter a } := by
  unfold removeMinter at h
  split at h
  · cases h
  rename_i hauth
  cases h
  exact ⟨by simpa using hauth, rfl⟩

theorem transferOwnership_ok {st st' : State} {c : Ctx} {new : Addr} {evs : List Event}
    (h : transferOwnership st c new = .ok (st', evs)) :
    st.owner ∈ c.auths ∧ st' = { st with owner := new } ∧
    evs = [evOwnershipTransferred st.owner new, evSetAdmin st.owner new] := by
  unfold transferOwnership at h
  split at h
  · cases h
  rename_i hauth
  cases h
  exact ⟨by simpa using hauth, rfl, rfl⟩

theorem nonneg_of_bal_allow (st st' : State) (h : NonNeg st)
    (hb : ∀ a, 0 ≤ st'.bal a)
    (hal : ∀ f s al, st'.allow f s = some al → st.allow f s = some al ∨ 0 ≤ al.amount) : NonNeg st' := by
  refine ⟨hb, ?_⟩
  intro f s al hfs
  rcases hal f s al hfs with h1 | h1
  · exact h.2 f s al h1
  · exact h1

theorem spendAllowance_allow_nonneg {st st0 : State} {c : Ctx} {src spender : Addr} {amount : Int}
    (h0 : spendAllowance st c src spender amount = .ok st0) (hamt : 0 ≤ amount) :
    ∀ f s al, st0.allow f s = some al → st.allow f s = some al ∨ 0 ≤ al.amount := by
  obtain ⟨hle, _, _, _, _, hoth, hme⟩ := spendAllowance_ok h0
  intro f s al hfs
  by_cases hh : f = src ∧ s = spender
  · obtain ⟨rfl, rfl⟩ := hh
    rcases hme hamt al hfs with h1 | h1
    · exact Or.inl h1
    · right; omega
  · rw [hoth f s hh] at hfs; exact Or.inl hfs

/-! ### exact effects -/

theorem transfer_exact (st st' : State) (c : Ctx) (src dst : Addr) (amount : Int) (evs : List Event)
    (h : transfer st c src dst amount = .ok (st', evs)) :
    src ∈ c.auths ∧ 0 ≤ amount ∧ amount ≤ st.bal src ∧
    (src ≠ dst → st'.bal src = st.bal src - amount ∧ st'.bal dst = st.bal dst + amount) ∧
    (src = dst → st'.bal src = st.bal src) ∧
    (∀ a, a ≠ src → a ≠ dst → st'.bal a = st.bal a) ∧
    st'.allow = st.allow ∧ st'.minter = st.minter ∧ st'.owner = st.owner ∧
    evs = [evTransfer src dst amount] := by
  unfold transfer at h
  split at h
  · cases h
  rename_i hauth
  split at h
  · cases h
  rename_i hamt
  split at h
  · cases h
  rename_i st1 h1
  split at h
  · cases h
  rename_i st2 h2
  cases h
  obtain ⟨hle, rfl⟩ := spendBalance_ok h1
  have := receiveBalance_ok h2
  subst this
  refine ⟨by simpa using hauth, by omega, hle, ?_, ?_, ?_, rfl, rfl, rfl, rfl⟩
  · intro hne
    simp [hne, Ne.symm hne]
  · intro he
    subst he
    simp
  · intro a h1 h2
    simp [h1, h2]

theorem transferFrom_exact (st st' : State) (c : Ctx) (spender src dst : Addr) (amount : Int) (evs : List Event)
    (h : transferFrom st c spender src dst amount = .ok (st', evs)) :
    spender ∈ c.auths ∧ 0 ≤ amount ∧ amount ≤ st.bal src ∧
    amount ≤ (readAllowance st c.seq src spender).amount ∧
    (readAllowance st' c.seq src spender).amount = (readAllowance st c.seq src spender).amount - amount ∧
    (src ≠ dst → st'.bal src = st.bal src - amount ∧ st'.bal dst = st.bal dst + amount) ∧
    (src = dst → st'.bal src = st.bal src) ∧
    (∀ a, a ≠ src → a ≠ dst → st'.bal a = st.bal a) ∧
    evs = [evTransfer src dst amount] := by
  unfold transferFrom at h
  split at h
  · cases h
  rename_i hauth
  split at h
  · cases h
  rename_i hamt
  split at h
  · cases h
  rename_i st0 h0
  split at h
  · cases h
  rename_i st1 h1
  split at h
  · cases h
  rename_i st2 h2
  cases h
  obtain ⟨hal, hb, _, _, hrd, _, _⟩ := spendAllowance_ok h0
  obtain ⟨hle, rfl⟩ := spendBalance_ok h1
  have := receiveBalance_ok h2
  subst this
  have hamt' : 0 ≤ amount := by omega
  refine ⟨by simpa using hauth, hamt', by rw [← hb]; exact hle, hal, ?_, ?_, ?_, ?_, rfl⟩
  · exact hrd hamt'
  · intro hne
    simp [hne, Ne.symm hne, hb]
  · intro he
    subst he
    simp [hb]
  · intro a h1 h2
    simp [h1, h2, hb]

theorem mintFrom_exact (st st' : State) (c : Ctx) (minter to : Addr) (amount : Int) (evs : List Event)
    (h : mintFrom st c minter to amount = .ok (st', evs)) :
    minter ∈ c.auths ∧ st.minter minter = true ∧ 0 ≤ amount ∧
    st'.bal to = st.bal to + amount ∧ (∀ a, a ≠ to → st'.bal a = st.bal a) ∧
    st'.allow = st.allow ∧ evs = [evMint minter to amount] := by
  unfold mintFrom at h
  split at h
  · cases h
  rename_i hauth
  split at h
  · cases h
  rename_i hm
  split at h
  · cases h
  rename_i hamt
  split at h
  · cases h
  rename_i st1 h1
  cases h
  have := receiveBalance_ok h1
  subst this
  refine ⟨by simpa using hauth, by simpa using hm, by omega, by simp, ?_, rfl, rfl⟩
  intro a ha
  simp [ha]

theorem burn_exact (st st' : State) (c : Ctx) (src : Addr) (amount : Int) (evs : List Event)
    (h : burn st c src amount = .ok (st', evs)) :
    src ∈ c.auths ∧ 0 ≤ amount ∧ amount ≤ st.bal src ∧
    st'.bal src = st.bal src - amount ∧ (∀ a, a ≠ src → st'.bal a = st.bal a) ∧
    st'.allow = st.allow ∧ evs = [evBurn src amount] := by
  unfold burn at h
  split at h
  · cases h
  rename_i hauth
  split at h
  · cases h
  rename_i hamt
  split at h
  · cases h
  rename_i st1 h1
  cases h
  obtain ⟨hle, rfl⟩ := spendBalance_ok h1
  refine ⟨by simpa using hauth, by omega, hle, by simp, ?_, rfl, rfl⟩
  intro a ha
  simp [ha]

theorem burnFrom_exact (st st' : State) (c : Ctx) (spender src : Addr) (amount : Int) (evs : List Event)
    (h : burnFrom st c spender src amount = .ok (st', evs)) :
    spender ∈ c.auths ∧ 0 ≤ amount ∧ amount ≤ st.bal src ∧
    amount ≤ (readAllowance st c.seq src spender).amount ∧
    (readAllowance st' c.seq src spender).amount = (readAllowance st c.seq src spender).amount - amount ∧
    st'.bal src = st.bal src - amount ∧ (∀ a, a ≠ src → st'.bal a = st.bal a) ∧
    evs = [evBurn src amount] := by
  unfold burnFrom at h
  split at h
  · cases h
  rename_i hauth
  split at h
  · cases h
  rename_i hamt
  split at h
  · cases h
  rename_i st0 h0
  split at h
  · cases h
  rename_i st1 h1
  cases h
  obtain ⟨hal, hb, _, _, hrd, _, _⟩ := spendAllowance_ok h0
  obtain ⟨hle, rfl⟩ := spendBalance_ok h1
  have hamt' : 0 ≤ amount := by omega
  refine ⟨by simpa using hauth, hamt', by rw [← hb]; exact hle, hal, hrd hamt', by simp [hb], ?_, rfl⟩
  intro a ha
  simp [ha, hb]

/-! ### supply -/

/-- one successful operation changes the sum of balances (over any duplicate-free account list that contains
    the accounts it touches) by exactly its supply delta; a failed one changes nothing -/
theorem supply_step (st : State) (c : Ctx) (op : Op) (accts : List Addr) (hnd : accts.Nodup)
    (hin : ∀ a ∈ Op.accounts op, a ∈ accts) :
    total (step st c op).1 accts =
      total st accts + (match (step st c op).2 with | .ok _ => supplyDelta op | .error _ => 0) := by
  rcases step_cases st c op with ⟨e, _, hs⟩ | ⟨st', evs, ha, hs⟩
  · rw [hs]; simp
  · rw [hs]
    simp only
    cases op with
    | mintFrom m t a =>
      simp only [apply] at ha
      obtain ⟨_, _, _, h1, h2, _⟩ := mintFrom_exact _ _ _ _ _ _ _ ha
      exact total_update st st' accts t a hnd (hin t (by simp [Op.accounts])) h1 h2
    | mint t a =>
      simp only [apply, mint] at ha
      obtain ⟨_, _, _, h1, h2, _⟩ := mintFrom_exact _ _ _ _ _ _ _ ha
      exact total_update st st' accts t a hnd (hin t (by simp [Op.accounts])) h1 h2
    | addMinter m =>
      simp only [apply] at ha
      obtain ⟨_, hst⟩ := addMinter_ok ha
      simp only [supplyDelta]
      rw [total_congr st st' accts (fun _ _ => by rw [hst])]; omega
    | removeMinter m =>
      simp only [apply] at ha
      obtain ⟨_, hst⟩ := removeMinter_ok ha
      simp only [supplyDelta]
      rw [total_congr st st' accts (fun _ _ => by rw [hst])]; omega
    | approve s p a e =>
      simp only [apply] at ha
      obtain ⟨_, _, _, hst, _⟩ := approve_exact' _ _ _ _ _ _ _ _ ha
      simp only [supplyDelta]
      rw [total_congr st st' accts (fun _ _ => by rw [hst])]; omega
    | transfer s d a =>
      simp only [apply] at ha
      obtain ⟨_, _, _, h1, h2, h3, _⟩ := transfer_exact _ _ _ _ _ _ _ ha
      simp only [supplyDelta]
      rw [total_move st st' accts s d a hnd (hin s (by simp [Op.accounts])) (hin d (by simp [Op.accounts])) h1 h2 h3]
      omega
    | transferFrom p s d a =>
      simp only [apply] at ha
      obtain ⟨_, _, _, _, _, h1, h2, h3, _⟩ := transferFrom_exact _ _ _ _ _ _ _ _ ha
      simp only [supplyDelta]
      rw [total_move st st' accts s d a hnd (hin s (by simp [Op.accounts])) (hin d (by simp [Op.accounts])) h1 h2 h3]
      omega
    | burn s a =>
      simp only [apply] at ha
      obtain ⟨_, _, _, h1, h2, _⟩ := burn_exact _ _ _ _ _ _ ha
      exact total_update st st' accts s (-a) hnd (hin s (by simp [Op.accounts])) (by rw [h1]; omega) h2
    | burnFrom p s a =>
      simp only [apply] at ha
      obtain ⟨_, _, _, _, _, h1, h2, _⟩ := burnFrom_exact _ _ _ _ _ _ _ ha
      exact total_update st st' accts s (-a) hnd (hin s (by simp [Op.accounts])) (by rw [h1]; omega) h2
    | transferOwnership n =>
      simp only [apply] at ha
      obtain ⟨_, hst, _⟩ := transferOwnership_ok ha
      simp only [supplyDelta]
      rw [total_congr st st' accts (fun _ _ => by rw [hst])]; omega
    | upgradeMigrate =>
      cases (apply_upgradeMigrate_ok _ _ _ ha).1
      simp [supplyDelta]

/-- **Σ balances = supply** over every history: the sum of balances moves exactly by the mints minus the burns -/
theorem supply_run (st : State) (ops : List (Ctx × Op)) (accts : List Addr) (hnd : accts.Nodup)
    (hin : ∀ p ∈ ops, ∀ a ∈ Op.accounts p.2, a ∈ accts) :
    total (run st ops) accts = total st accts + supplyChange st ops := by
  induction ops generalizing st with
  | nil => simp [run, supplyChange]
  | cons p rest ih =>
    obtain ⟨c, op⟩ := p
    simp only [run, supplyChange]
    rw [ih (step st c op).1 (fun q hq => hin q (by simp [hq]))]
    rw [supply_step st c op accts hnd (hin (c, op) (by simp))]
    omega

/-! ### non-negativity -/

theorem nonneg_construct (owner : Addr) (minter : Option Addr) : NonNeg (construct owner minter) := by
  refine ⟨fun a => ?_, fun f s al h => ?_⟩
  · simp [construct]
  · simp [construct] at h

theorem nonneg_step (st : State) (c : Ctx) (op : Op) (h : NonNeg st) : NonNeg (step st c op).1 := by
  rcases step_cases st c op with ⟨e, _, hs⟩ | ⟨st', evs, ha, hs⟩
  · rw [hs]; exact h
  · rw [hs]
    simp only
    cases op with
    | mintFrom m t a =>
      simp only [apply] at ha
      obtain ⟨_, _, h0, h1, h2, h3, _⟩ := mintFrom_exact _ _ _ _ _ _ _ ha
      apply nonneg_of_bal_allow st st' h
      · intro x
        by_cases hx : x = t
        · subst hx; rw [h1]; have := h.1 x; omega
        · rw [h2 x hx]; exact h.1 x
      · intro f s al hfs; rw [h3] at hfs; exact Or.inl hfs
    | mint t a =>
      simp only [apply, mint] at ha
      obtain ⟨_, _, h0, h1, h2, h3, _⟩ := mintFrom_exact _ _ _ _ _ _ _ ha
      apply nonneg_of_bal_allow st st' h
      · intro x
        by_cases hx : x = t
        · subst hx; rw [h1]; have := h.1 x; omega
        · rw [h2 x hx]; exact h.1 x
      · intro f s al hfs; rw [h3] at hfs; exact Or.inl hfs
    | addMinter m =>
      simp only [apply] at ha
      obtain ⟨_, rfl⟩ := addMinter_ok ha
      exact h
    | removeMinter m =>
      simp only [apply] at ha
      obtain ⟨_, rfl⟩ := removeMinter_ok ha
      exact h
    | approve s p a e =>
      simp only [apply] at ha
      obtain ⟨_, h0, _, rfl, _⟩ := approve_exact' _ _ _ _ _ _ _ _ ha
      apply nonneg_of_bal_allow st _ h
      · exact h.1
      · intro f s' al hfs
        simp only at hfs
        split at hfs
        · cases hfs; exact Or.inr h0
        · exact Or.inl hfs
    | transfer s d a =>
      simp only [apply] at ha
      obtain ⟨_, h0, hle, h1, h2, h3, h4, _⟩ := transfer_exact _ _ _ _ _ _ _ ha
      apply nonneg_of_bal_allow st st' h
      · intro x
        by_cases hsd : s = d
        · subst hsd
          by_cases hx : x = s
          · subst hx; rw [h2 rfl]; exact h.1 x
          · rw [h3 x hx hx]; exact h.1 x
        · obtain ⟨e1, e2⟩ := h1 hsd
          by_cases hx : x = s
          · subst hx; rw [e1]; omega
          · by_cases hx' : x = d
            · subst hx'; rw [e2]; have := h.1 x; omega
            · rw [h3 x hx hx']; exact h.1 x
      · intro f s al hfs; rw [h4] at hfs; exact Or.inl hfs
    | transferFrom p s d a =>
      simp only [apply] at ha
      obtain ⟨_, h0, hle, _, _, h1, h2, h3, _⟩ := transferFrom_exact _ _ _ _ _ _ _ _ ha
      apply nonneg_of_bal_allow st st' h
      · intro x
        by_cases hsd : s = d
        · subst hsd
          by_cases hx : x = s
          · subst hx; rw [h2 rfl]; exact h.1 x
          · rw [h3 x hx hx]; exact h.1 x
        · obtain ⟨e1, e2⟩ := h1 hsd
          by_cases hx : x = s
          · subst hx; rw [e1]; omega
          · by_cases hx' : x = d
            · subst hx'; rw [e2]; have := h.1 x; omega
            · rw [h3 x hx hx']; exact h.1 x
      · unfold transferFrom at ha
        split at ha
        · cases ha
        split at ha
        · cases ha
        split at ha
        · cases ha
        rename_i st0 hsp
        split at ha
        · cases ha
        rename_i st1 hsb
        split at ha
        · cases ha
        rename_i st2 hrb
        cases ha
        obtain ⟨_, rfl⟩ := spendBalance_ok hsb
        have := receiveBalance_ok hrb
        subst this
        have hfin := spendAllowance_allow_nonneg hsp h0
        exact hfin
    | burn s a =>
      simp only [apply] at ha
      obtain ⟨_, h0, hle, h1, h2, h3, _⟩ := burn_exact _ _ _ _ _ _ ha
      apply nonneg_of_bal_allow st st' h
      · intro x
        by_cases hx : x = s
        · subst hx; rw [h1]; omega
        · rw [h2 x hx]; exact h.1 x
      · intro f s al hfs; rw [h3] at hfs; exact Or.inl hfs
    | burnFrom p s a =>
      simp only [apply] at ha
      obtain ⟨_, h0, hle, _, _, h1, h2, _⟩ := burnFrom_exact _ _ _ _ _ _ _ ha
      apply nonneg_of_bal_allow st st' h
      · intro x
        by_cases hx : x = s
        · subst hx; rw [h1]; omega
        · rw [h2 x hx]; exact h.1 x
      · unfold burnFrom at ha
        split at ha
        · cases ha
        split at ha
        · cases ha
        split at ha
        · cases ha
        rename_i st0 hsp
        split at ha
        · cases ha
        rename_i st1 hsb
        cases ha
        obtain ⟨_, rfl⟩ := spendBalance_ok hsb
        have hfin := spendAllowance_allow_nonneg hsp h0
        exact hfin
    | transferOwnership n =>
      simp only [apply] at ha
      obtain ⟨_, rfl, _⟩ := transferOwnership_ok ha
      exact h
    | upgradeMigrate =>
      cases (apply_upgradeMigrate_ok _ _ _ ha).1
      exact h

/-- no balance or allowance is ever negative, in any history from construction -/
theorem nonneg_run (st : State) (ops : List (Ctx × Op)) (h : NonNeg st) : NonNeg (run st ops) := by
  induction ops generalizing st with
  | nil => exact h
  | cons p rest ih =>
    obtain ⟨c, op⟩ := p
    simp only [run]
    exact ih _ (nonneg_step st c op h)

/-! ### rejections -/

theorem rejected_no_effect (st : State) (c : Ctx) (op : Op) (e : Err) (h : (step st c op).2 = .error e) :
    (step st c op).1 = st := by
  rcases step_cases st c op with ⟨e', _, hs⟩ | ⟨st', evs, _, hs⟩
  · rw [hs]
  · rw [hs] at h; cases h

/-- the amount an operation carries, if any -/
def Op.amount : Op → Option Int
  | .mintFrom _ _ a => some a | .mint _ a => some a | .approve _ _ a _ => some a
  | .transfer _ _ a => some a | .transferFrom _ _ _ a => some a | .burn _ a => some a | .burnFrom _ _ a => some a
  | _ => none

theorem negative_amount_rejected (st : State) (c : Ctx) (op : Op) (a : Int) (ha : Op.amount op = some a) (hneg : a < 0) :
    ∃ e, (step st c op).2 = .error e := by
  rcases step_cases st c op with ⟨e, _, hs⟩ | ⟨st', evs, hap, hs⟩
  · exact ⟨e, by rw [hs]⟩
  · exfalso
    cases op with
    | mintFrom m t x =>
      simp only [apply] at hap
      simp only [Op.amount, Option.some.injEq] at ha; subst ha
      have := (mintFrom_exact _ _ _ _ _ _ _ hap).2.2.1
      omega
    | mint t x =>
      simp only [apply, mint] at hap
      simp only [Op.amount, Option.some.injEq] at ha; subst ha
      have := (mintFrom_exact _ _ _ _ _ _ _ hap).2.2.1
      omega
    | addMinter m => simp [Op.amount] at ha
    | removeMinter m => simp [Op.amount] at ha
    | approve s p x e =>
      simp only [apply] at hap
      simp only [Op.amount, Option.some.injEq] at ha; subst ha
      have := (approve_exact' _ _ _ _ _ _ _ _ hap).2.1
      omega
    | transfer s d x =>
      simp only [apply] at hap
      simp only [Op.amount, Option.some.injEq] at ha; subst ha
      have := (transfer_exact _ _ _ _ _ _ _ hap).2.1
      omega
    | transferFrom p s d x =>
      simp only [apply] at hap
      simp only [Op.amount, Option.some.injEq] at ha; subst ha
      have := (transferFrom_exact _ _ _ _ _ _ _ _ hap).2.1
      omega
    | burn s x =>
      simp only [apply] at hap
      simp only [Op.amount, Option.some.injEq] at ha; subst ha
      have := (burn_exact _ _ _ _ _ _ hap).2.1
      omega
    | burnFrom p s x =>
      simp only [apply] at hap
      simp only [Op.amount, Option.some.injEq] at ha; subst ha
      have := (burnFrom_exact _ _ _ _ _ _ _ hap).2.1
      omega
    | transferOwnership n => simp [Op.amount] at ha
    | upgradeMigrate => simp [Op.amount] at ha

theorem insufficient_balance_rejected (st : State) (c : Ctx) (src dst : Addr) (amount : Int) (h : st.bal src < amount) :
    (∃ e, transfer st c src dst amount = .error e) ∧ (∃ e, burn st c src amount = .error e) ∧
    (∀ spender, (∃ e, transferFrom st c spender src dst amount = .error e) ∧ (∃ e, burnFrom st c spender src amount = .error e)) := by
  refine ⟨?_, ?_, fun spender => ⟨?_, ?_⟩⟩
  · cases hr : transfer st c src dst amount with
    | error e => exact ⟨e, rfl⟩
    | ok p =>
      obtain ⟨st', evs⟩ := p
      have := (transfer_exact _ _ _ _ _ _ _ hr).2.2.1
      omega
  · cases hr : burn st c src amount with
    | error e => exact ⟨e, rfl⟩
    | ok p =>
      obtain ⟨st', evs⟩ := p
      have := (burn_exact _ _ _ _ _ _ hr).2.2.1
      omega
  · cases hr : transferFrom st c spender src dst amount with
    | error e => exact ⟨e, rfl⟩
    | ok p =>
      obtain ⟨st', evs⟩ := p
      have := (transferFrom_exact _ _ _ _ _ _ _ _ hr).2.2.1
      omega
  · cases hr : burnFrom st c spender src amount with
    | error e => exact ⟨e, rfl⟩
    | ok p =>
      obtain ⟨st', evs⟩ := p
      have := (burnFrom_exact _ _ _ _ _ _ _ hr).2.2.1
      omega

/-- insufficient, expired or never-granted allowance: delegated operations with a positive amount are rejected -/
theorem insufficient_allowance_rejected (st : State) (c : Ctx) (spender src dst : Addr) (amount : Int)
    (h : (readAllowance st c.seq src spender).amount < amount) :
    (∃ e, transferFrom st c spender src dst amount = .error e) ∧ (∃ e, burnFrom st c spender src amount = .error e) := by
  refine ⟨?_, ?_⟩
  · cases hr : transferFrom st c spender src dst amount with
    | error e => exact ⟨e, rfl⟩
    | ok p =>
      obtain ⟨st', evs⟩ := p
      have := (transferFrom_exact _ _ _ _ _ _ _ _ hr).2.2.2.1
      omega
  · cases hr : burnFrom st c spender src amount with
    | error e => exact ⟨e, rfl⟩
    | ok p =>
      obtain ⟨st', evs⟩ := p
      have := (burnFrom_exact _ _ _ _ _ _ _ hr).2.2.2.1
      omega

theorem never_granted_reads_zero (st : State) (seq : Nat) (src spender : Addr) (h : st.allow src spender = none) :
    (readAllowance st seq src spender).amount = 0 := by
  simp only [readAllowance, h]

theorem expired_reads_zero (st : State) (seq : Nat) (src spender : Addr) (al : Allowance)
    (h : st.allow src spender = some al) (hexp : al.expiration < seq) :
    (readAllowance st seq src spender).amount = 0 := by
  simp only [readAllowance, h, hexp, if_true]

/-! ### allowance lifetime -/

/-- after a successful approve, the allowance reads as the approved amount at every ledger up to AND INCLUDING the
    expiration ledger, and as 0 afterwards -/
theorem allowance_live_iff (st st' : State) (c : Ctx) (src spender : Addr) (amount : Int) (exp : Nat) (evs : List Event)
    (h : approve st c src spender amount exp = .ok (st', evs)) (seq' : Nat) :
    (readAllowance st' seq' src spender).amount = if seq' ≤ exp then amount else 0 := by
  obtain ⟨_, _, _, rfl, _⟩ := approve_exact' _ _ _ _ _ _ _ _ h
  rw [read_after_write]
  by_cases hs : seq' ≤ exp
  · rw [if_neg (by omega), if_pos hs]
  · rw [if_pos (by omega), if_neg hs]

theorem approve_exact (st st' : State) (c : Ctx) (src spender : Addr) (amount : Int) (exp : Nat) (evs : List Event)
    (h : approve st c src spender amount exp = .ok (st', evs)) :
    src ∈ c.auths ∧ 0 ≤ amount ∧ (0 < amount → c.seq ≤ exp) ∧
    st'.bal = st.bal ∧ (∀ f s, ¬ (f = src ∧ s = spender) → st'.allow f s = st.allow f s) ∧
    evs = [evApprove src spender amount exp] := by
  obtain ⟨h1, h2, h3, rfl, h5⟩ := approve_exact' _ _ _ _ _ _ _ _ h
  refine ⟨h1, h2, h3, rfl, ?_, h5⟩
  intro f s hfs
  simp only [hfs, if_false]

theorem approve_rejects_expired_positive (st : State) (c : Ctx) (src spender : Addr) (amount : Int) (exp : Nat)
    (hpos : 0 < amount) (hexp : exp < c.seq) : ∃ e, approve st c src spender amount exp = .error e := by
  cases hr : approve st c src spender amount exp with
  | error e => exact ⟨e, rfl⟩
  | ok p =>
    obtain ⟨st', evs⟩ := p
    have := (approve_exact' _ _ _ _ _ _ _ _ hr).2.2.1 hpos
    omega

/-! ### minting rights, ownership, events -/

theorem only_minters_mint (st : State) (c : Ctx) (op : Op) (evs : List Event)
    (hok : (step st c op).2 = .ok evs) (hd : 0 < supplyDelta op) :
    (∃ m t a, op = .mintFrom m t a ∧ st.minter m = true ∧ m ∈ c.auths) ∨
    (∃ t a, op = .mint t a ∧ st.minter st.owner = true ∧ st.owner ∈ c.auths) := by
  rcases step_cases st c op with ⟨e, _, hs⟩ | ⟨st', evs', hap, hs⟩
  · rw [hs] at hok; cases hok
  · cases op with
    | mintFrom m t a =>
      simp only [apply] at hap
      obtain ⟨h1, h2, _⟩ := mintFrom_exact _ _ _ _ _ _ _ hap
      exact Or.inl ⟨m, t, a, rfl, h2, h1⟩
    | mint t a =>
      simp only [apply, mint] at hap
      obtain ⟨h1, h2, _⟩ := mintFrom_exact _ _ _ _ _ _ _ hap
      exact Or.inr ⟨t, a, rfl, h2, h1⟩
    | addMinter m => simp [supplyDelta] at hd
    | removeMinter m => simp [supplyDelta] at hd
    | approve s p a e => simp [supplyDelta] at hd
    | transfer s d a => simp [supplyDelta] at hd
    | transferFrom p s d a => simp [supplyDelta] at hd
    | burn s a =>
      simp only [apply] at hap
      simp only [supplyDelta] at hd
      have := (burn_exact _ _ _ _ _ _ hap).2.1
      omega
    | burnFrom p s a =>
      simp only [apply] at hap
      simp only [supplyDelta] at hd
      have := (burnFrom_exact _ _ _ _ _ _ _ hap).2.1
      omega
    | transferOwnership n => simp [supplyDelta] at hd
    | upgradeMigrate => simp [supplyDelta] at hd

/-- the minter set and the owner change only through the owner's own authorised calls -/
theorem roles_step (st : State) (c : Ctx) (op : Op) :
    ((step st c op).1.minter = st.minter ∧ (step st c op).1.owner = st.owner) ∨ st.owner ∈ c.auths := by
  rcases step_cases st c op with ⟨e, _, hs⟩ | ⟨st', evs, hap, hs⟩
  · rw [hs]; exact Or.inl ⟨rfl, rfl⟩
  · rw [hs]
    simp only
    cases op with
    | mintFrom m t a =>
      left
      simp only [apply, mintFrom] at hap
      split at hap
      · cases hap
      split at hap
      · cases hap
      split at hap
      · cases hap
      split at hap
      · cases hap
      rename_i st1 h1
      cases hap
      have := receiveBalance_ok h1
      subst this
      exact ⟨rfl, rfl⟩
    | mint t a =>
      left
      simp only [apply, mint, mintFrom] at hap
      split at hap
      · cases hap
      split at hap
      · cases hap
      split at hap
      · cases hap
      split at hap
      · cases hap
      rename_i st1 h1
      cases hap
      have := receiveBalance_ok h1
      subst this
      exact ⟨rfl, rfl⟩
    | addMinter m =>
      simp only [apply] at hap
      exact Or.inr (addMinter_ok hap).1
    | removeMinter m =>
      simp only [apply] at hap
      exact Or.inr (removeMinter_ok hap).1
    | approve s p a e =>
      simp only [apply] at hap
      obtain ⟨_, _, _, rfl, _⟩ := approve_exact' _ _ _ _ _ _ _ _ hap
      exact Or.inl ⟨rfl, rfl⟩
    | transfer s d a =>
      simp only [apply] at hap
      obtain ⟨_, _, _, _, _, _, _, h1, h2, _⟩ := transfer_exact _ _ _ _ _ _ _ hap
      exact Or.inl ⟨h1, h2⟩
    | transferFrom p s d a =>
      left
      simp only [apply, transferFrom] at hap
      split at hap
      · cases hap
      split at hap
      · cases hap
      split at hap
      · cases hap
      rename_i st0 hsp
      split at hap
      · cases hap
      rename_i st1 hsb
      split at hap
      · cases hap
      rename_i st2 hrb
      cases hap
      obtain ⟨_, rfl⟩ := spendBalance_ok hsb
      have := receiveBalance_ok hrb
      subst this
      obtain ⟨_, _, hm, ho, _⟩ := spendAllowance_ok hsp
      exact ⟨hm, ho⟩
    | burn s a =>
      left
      simp only [apply, burn] at hap
      split at hap
      · cases hap
      split at hap
      · cases hap
      split at hap
      · cases hap
      rename_i st1 hsb
      cases hap
      obtain ⟨_, rfl⟩ := spendBalance_ok hsb
      exact ⟨rfl, rfl⟩
    | burnFrom p s a =>
      left
      simp only [apply, burnFrom] at hap
      split at hap
      · cases hap
      split at hap
      · cases hap
      split at hap
      · cases hap
      rename_i st0 hsp
      split at hap
      · cases hap
      rename_i st1 hsb
      cases hap
      obtain ⟨_, rfl⟩ := spendBalance_ok hsb
      obtain ⟨_, _, hm, ho, _⟩ := spendAllowance_ok hsp
      exact ⟨hm, ho⟩
    | transferOwnership n =>
      simp only [apply] at hap
      exact Or.inr (transferOwnership_ok hap).1
    | upgradeMigrate => exact Or.inr (apply_upgradeMigrate_ok _ _ _ hap).2

/-- administrator change: the ownable event and the token-standard `set_admin` event both name the PREVIOUS and the new administrator -/
theorem transferOwnership_exact (st st' : State) (c : Ctx) (new : Addr) (evs : List Event)
    (h : transferOwnership st c new = .ok (st', evs)) :
    st.owner ∈ c.auths ∧ st'.owner = new ∧ st'.bal = st.bal ∧ st'.allow = st.allow ∧ st'.minter = st.minter ∧
    evs = [evOwnershipTransferred st.owner new, evSetAdmin st.owner new] := by
  obtain ⟨h1, rfl, h3⟩ := transferOwnership_ok h
  exact ⟨h1, rfl, rfl, rfl, rfl, h3⟩

/-- non-vacuity: a concrete successful transfer -/
example : ∃ st' evs, transfer { (construct ⟨true, [1]⟩ none) with bal := fun _ => 5 }
    ⟨[⟨true, [2]⟩], 0, 0⟩ ⟨true, [2]⟩ ⟨true, [3]⟩ 5 = .ok (st', evs) := by
  simp [transfer, spendBalance, receiveBalance, construct, i128Max]

/-! ### non-vacuity (the model RUN in the kernel on a concrete history) -/
/-- the owner's administrative step — upgrade to the same code and migration — changes no balance, allowance or role, whether it
    is accepted or refused; it is accepted only with the owner's authorisation (the history theorems above range over it) -/
theorem admin_step_changes_nothing (st : State) (c : Ctx) :
    (step st c .upgradeMigrate).1 = st ∧
    (∀ r, apply st c .upgradeMigrate = .ok r → r = (st, []) ∧ st.owner ∈ c.auths) :=
  ⟨step_upgradeMigrate_fst st c, fun r h => apply_upgradeMigrate_ok st c r h⟩

section NonVacuity
open Cgp.Toy

def minterB : Addr := ⟨true, List.replicate 32 8⟩
def alice : Addr := ⟨false, List.replicate 32 11⟩
def bob : Addr := ⟨false, List.replicate 32 12⟩
def carol : Addr := ⟨false, List.replicate 32 13⟩
def accts : List Addr := [alice, bob, carol]
/-- a freshly constructed token: owner `owner0`, designated minter `minterB` -/
def st0 : State := construct owner0 (some minterB)
/-- ledger 10, host TTL limit 100 -/
def ctxOf (a : Addr) : Ctx := ⟨[a], 10, 100⟩
def opsK : List (Ctx × Op) :=
  [ (ctxOf owner0, .mint alice 100),                         -- the owner mints
    (ctxOf minterB, .mintFrom minterB bob 50),               -- the designated minter mints
    (ctxOf alice, .transfer alice bob 30),
    (ctxOf alice, .approve alice carol 40 20),               -- allowance 40 until ledger 20
    (ctxOf carol, .transferFrom carol alice bob 25),         -- allowance 15 left
    (ctxOf bob, .burn bob 5),
    (ctxOf alice, .transfer alice bob 1000),                 -- overdraft: refused
    (ctxOf carol, .transferFrom carol alice bob 20),         -- more than the allowance left: refused
    (ctxOf carol, .burnFrom carol alice 10),                 -- allowance 5 left
    (ctxOf alice, .mint alice 5),                            -- not the owner's authorisation: refused
    (ctxOf carol, .mintFrom carol carol 5),                  -- not a minter: refused
    (ctxOf alice, .transfer alice bob (-1)),                 -- negative amount: refused
    (ctxOf bob, .transfer alice bob 1),                      -- not the holder's authorisation: refused
    (⟨[carol], 21, 100⟩, .transferFrom carol alice bob 5), -- after the expiration ledger: refused
    (ctxOf alice, .addMinter carol),                         -- not the owner: refused
    (ctxOf owner0, .addMinter carol),
    (ctxOf owner0, .transferOwnership alice) ]
/-- what each call of a history returned: `none` = success -/
def outcomes (st : State) : List (Ctx × Op) → List (Option Err)
  | [] => []
  | (c, op) :: rest =>
    (match (step st c op).2 with | .ok _ => none | .error e => some e) :: outcomes (step st c op).1 rest

/-- the hypotheses of `supply_run` and `nonneg_run` are satisfiable and the supply equation is not `0 = 0`: a history from
    construction with two mints (100 + 50), a transfer, an approval, a delegated transfer, a burn (5), a delegated burn (10) and
    eight refused calls (overdraft, allowance exceeded, allowance expired, missing authorisations, non-minter, negative
    amount).  Σ balances = 135 = supply change; no balance or allowance is negative; the minter set and the owner changed only
    by the owner's own calls (`roles_step`: both alternatives occur). -/
theorem token_history_nonvacuous :
    NonNeg st0 ∧
    accts.Nodup ∧ (∀ p ∈ opsK, ∀ a ∈ Op.accounts p.2, a ∈ accts) ∧
    outcomes st0 opsK =
      [none, none, none, none, none, none, some .insufficientBalance, some .insufficientAllowance, none, some .unauthorized,
       some .notMinter, some .invalidAmount, some .unauthorized, some .insufficientAllowance, some .unauthorized, none, none] ∧
    total st0 accts = 0 ∧ supplyChange st0 opsK = 135 ∧ total (run st0 opsK) accts = 135 ∧
    accts.map (run st0 opsK).bal = [35, 100, 0] ∧
    (run st0 opsK).allow alice carol = some ⟨5, 20⟩ ∧
    (readAllowance (run st0 opsK) 20 alice carol).amount = 5 ∧ (readAllowance (run st0 opsK) 21 alice carol).amount = 0 ∧
    [owner0, minterB, carol, alice].map st0.minter = [true, true, false, false] ∧
    [owner0, minterB, carol, alice].map (run st0 opsK).minter = [true, true, true, false] ∧
    st0.owner = owner0 ∧ (run st0 opsK).owner = alice ∧
    -- a refused call of `rejected_no_effect` / `insufficient_balance_rejected`: the balance really is too small
    (run st0 (opsK.take 6)).bal alice < 1000 := by
  refine ⟨nonneg_construct _ _, ?_⟩
  decide +kernel

end NonVacuity

end Cgp.Props.C12
