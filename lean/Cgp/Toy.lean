/-
  Cgp.Toy — a toy hash, a toy signature check and small concrete values, used ONLY by the non-vacuity theorems at the end of
  the property files: with them the models can be RUN inside the kernel (`decide +kernel`), which shows that the hypotheses
  of the history-level theorems are met by concrete, non-trivial histories (a theorem whose hypotheses nothing satisfies
  would check and mean nothing).
-/
import Cgp.GatewaySpec
namespace Cgp.Toy
open Cgp Cgp.Xdr Cgp.Gateway

/-- 32 bytes: length byte, byte sum, zeros — certainly not collision-free, which is irrelevant for running the model -/
def H0 : Bytes → Bytes := fun b => [UInt8.ofNat b.length, b.foldl (· + ·) 0] ++ List.replicate 30 0
/-- the same for contract-address derivation -/
def S0 : Bytes → Bytes := H0
/-- every attached signature verifies -/
def V0 : Bytes → Bytes → Unit → Bool := fun _ _ _ => true
def key1 : Bytes := List.replicate 32 1
def ws0 : WSigners := ⟨[⟨key1, 1⟩], 1, List.replicate 32 0⟩
def pf0 : Proof Unit := ⟨[⟨⟨key1, 1⟩, some ()⟩], 1, List.replicate 32 0⟩
def owner0 : Addr := ⟨true, List.replicate 32 7⟩

theorem ws0_typed : ws0.Typed := by
  refine ⟨?_, by decide, by decide, by decide⟩
  intro s hs
  simp only [ws0, List.mem_singleton] at hs
  subst hs
  exact ⟨by decide, by decide⟩

theorem pf0_typed : pf0.weightedSigners.Typed := by
  refine ⟨?_, by decide, by decide, by decide⟩
  intro s hs
  simp only [pf0, Proof.weightedSigners, List.map_cons, List.map_nil, List.mem_singleton] at hs
  subst hs
  exact ⟨by decide, by decide⟩

/-! helpers for the non-vacuity sections: `Except` values have no decidable equality, their `isOk` projection does -/
theorem exists_ok_of_isOk {ε α : Type} (x : Except ε α) (h : x.isOk = true) : ∃ r, x = .ok r := by
  cases x with
  | ok r => exact ⟨r, rfl⟩
  | error e => cases h

theorem exists_ok_pair_of_isOk {ε α β : Type} (x : Except ε (α × β)) (h : x.isOk = true) : ∃ a b, x = .ok (a, b) := by
  cases x with
  | ok r => exact ⟨r.1, r.2, rfl⟩
  | error e => cases h

theorem eq_ok_unit_iff_isOk {ε : Type} (x : Except ε Unit) : x = .ok () ↔ x.isOk = true := by
  cases x with
  | ok r => exact ⟨fun _ => rfl, fun _ => rfl⟩
  | error e => exact ⟨fun h => (by cases h), fun h => (by cases h)⟩

theorem eq_ok_true_of {ε : Type} (x : Except ε Bool) (h : (match x with | .ok true => true | _ => false) = true) :
    x = .ok true := by
  cases x with
  | ok b => cases b with
    | true => rfl
    | false => cases h
  | error e => cases h

theorem eq_ok_of_toOption {ε α : Type} (x : Except ε α) (a : α) (h : x.toOption = some a) : x = .ok a := by
  cases x with
  | ok r => simp only [Except.toOption, Option.some.injEq] at h; rw [h]
  | error e => cases h

theorem exists_error_of_isOk {ε α : Type} (x : Except ε α) (h : x.isOk = false) : ∃ e, x = .error e := by
  cases x with
  | ok r => cases h
  | error e => exact ⟨e, rfl⟩

/-! further signer sets and proofs by them (every attached signature passes `V0`) -/
def key2 : Bytes := List.replicate 32 2
def operator0 : Addr := ⟨false, List.replicate 32 8⟩
def wsB : WSigners := ⟨[⟨key1, 1⟩, ⟨key2, 2⟩], 2, List.replicate 32 0⟩
def wsC : WSigners := ⟨[⟨key2, 3⟩], 3, List.replicate 32 0⟩
def wsD : WSigners := ⟨[⟨key1, 4⟩, ⟨key2, 4⟩], 5, List.replicate 32 0⟩
def wsE : WSigners := ⟨[⟨key1, 6⟩], 6, List.replicate 32 0⟩
/-- threshold 0: not well-formed -/
def wsBad : WSigners := ⟨[⟨key1, 4⟩], 0, List.replicate 32 0⟩
/-- a proof by `wsB` (its second signer alone reaches the threshold), by `wsC`, by `wsD` -/
def pfB : Proof Unit := ⟨[⟨⟨key1, 1⟩, none⟩, ⟨⟨key2, 2⟩, some ()⟩], 2, List.replicate 32 0⟩
def pfC : Proof Unit := ⟨[⟨⟨key2, 3⟩, some ()⟩], 3, List.replicate 32 0⟩
def pfD : Proof Unit := ⟨[⟨⟨key1, 4⟩, some ()⟩, ⟨⟨key2, 4⟩, some ()⟩], 5, List.replicate 32 0⟩

/-! decidable views of what a gateway call returned -/
def gwOk : Obs → Bool | .err _ => false | _ => true
def gwErr : Obs → Option Err | .err e => some e | _ => none
def gwRet : Obs → Option Bool | .okBool b _ => some b | _ => none
def gwEvents : Obs → Nat | .ok evs => evs.length | .okBool _ evs => evs.length | .err _ => 0

theorem err_of_gwErr (o : Obs) (e : Err) (h : gwErr o = some e) : o = .err e := by
  cases o with
  | err e' => simp only [gwErr] at h; injection h with h; rw [h]
  | ok _ => cases h
  | okBool _ _ => cases h

theorem exists_ok_of_gwOk (o : Obs) (h : (match o with | .ok _ => true | _ => false) = true) : ∃ evs, o = .ok evs := by
  cases o with
  | ok evs => exact ⟨evs, rfl⟩
  | err _ => cases h
  | okBool _ _ => cases h

end Cgp.Toy
