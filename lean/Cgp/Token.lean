/-
  Cgp.Token — operational model **M** of contracts/interchain-token/src/contract.rs.
  Balances are `Int` with the code's i128 traps made explicit; the allowance table mirrors the
  temporary-storage entries (amount, expiration ledger) and the code's own expiry tests.
-/
import Cgp.Xdr
namespace Cgp.Token
open Cgp Cgp.Xdr

def i128Max : Int := 2 ^ 127 - 1

inductive Err where
  | unauthorized | notMinter | invalidAmount | invalidExpirationLedger
  | insufficientAllowance | insufficientBalance
  | trapOverflow          -- i128 addition overflow in receive_balance
  | hostTtlLimit          -- extend_ttl beyond the host's maximum entry lifetime
  | migrationNotAllowed
deriving DecidableEq, Repr, Inhabited

structure Event where
  topics : List ScVal
  data : ScVal

structure Allowance where
  amount : Int
  expiration : Nat
deriving DecidableEq, Repr, Inhabited

structure State where
  owner : Addr
  minter : Addr → Bool
  bal : Addr → Int
  /-- `none` = no entry was ever written -/
  allow : Addr → Addr → Option Allowance
  migrating : Bool

def sym (s : String) : ScVal := .sym s.toUTF8.toList
def i128v (i : Int) : ScVal := .i128 (if i < 0 then (i + 2 ^ 128).toNat else i.toNat)

def evMint (minter to : Addr) (amount : Int) : Event := ⟨[sym "mint", .addr minter, .addr to], i128v amount⟩
def evTransfer (src dst : Addr) (amount : Int) : Event := ⟨[sym "transfer", .addr src, .addr dst], i128v amount⟩
def evBurn (src : Addr) (amount : Int) : Event := ⟨[sym "burn", .addr src], i128v amount⟩
def evApprove (src spender : Addr) (amount : Int) (exp : Nat) : Event :=
  ⟨[sym "approve", .addr src, .addr spender], .vec (.cons (i128v amount) (.cons (.u32 exp) .nil))⟩
def evSetAdmin (prev new : Addr) : Event := ⟨[sym "set_admin", .addr prev], .addr new⟩
def evOwnershipTransferred (prev new : Addr) : Event :=
  ⟨[sym "ownership_transferred", .addr prev, .addr new], .vec .nil⟩
def evMinterAdded (m : Addr) : Event := ⟨[sym "minter_added", .addr m], .void⟩
def evMinterRemoved (m : Addr) : Event := ⟨[sym "minter_removed", .addr m], .void⟩

/-- the ledger environment of one invocation -/
structure Ctx where
  auths : List Addr        -- addresses that authorised exactly this call
  seq : Nat                -- current ledger sequence number
  maxLive : Nat            -- host limit on `extend_ttl` (max entry TTL - 1)

/-- `read_allowance`: an entry whose expiration ledger is in the past reads as amount 0 -/
def readAllowance (st : State) (seq : Nat) (src spender : Addr) : Allowance :=
  match st.allow src spender with
  | none => ⟨0, 0⟩
  | some a => if a.expiration < seq then ⟨0, a.expiration⟩ else a

/-- `write_allowance` -/
def writeAllowance (st : State) (c : Ctx) (src spender : Addr) (amount : Int) (exp : Nat) : Except Err State :=
  if amount > 0 ∧ exp < c.seq then .error .invalidExpirationLedger
  else if amount > 0 ∧ exp - c.seq > c.maxLive then .error .hostTtlLimit
  else .ok { st with allow := fun f s => if f = src ∧ s = spender then some ⟨amount, exp⟩ else st.allow f s }

/-- `spend_allowance` -/
def spendAllowance (st : State) (c : Ctx) (src spender : Addr) (amount : Int) : Except Err State :=
  let a := readAllowance st c.seq src spender
  if a.amount < amount then .error .insufficientAllowance
  else if amount > 0 then writeAllowance st c src spender (a.amount - amount) a.expiration
  else .ok st

/-- `spend_balance` -/
def spendBalance (st : State) (who : Addr) (amount : Int) : Except Err State :=
  if st.bal who < amount then .error .insufficientBalance
  else .ok { st with bal := fun a => if a = who then st.bal who - amount else st.bal a }

/-- `receive_balance` (plain `+` on i128 with overflow checks on) -/
def receiveBalance (st : State) (who : Addr) (amount : Int) : Except Err State :=
  if st.bal who + amount > i128Max then .error .trapOverflow
  else .ok { st with bal := fun a => if a = who then st.bal who + amount else st.bal a }

def mintFrom (st : State) (c : Ctx) (minter to : Addr) (amount : Int) : Except Err (State × List Event) :=
  if minter ∉ c.auths then .error .unauthorized
  else if !st.minter minter then .error .notMinter
  else if amount < 0 then .error .invalidAmount
  else match receiveBalance st to amount with
    | .error e => .error e
    | .ok st' => .ok (st', [evMint minter to amount])

/-- `StellarAssetInterface::mint` = `mint_from(owner, …)` -/
def mint (st : State) (c : Ctx) (to : Addr) (amount : Int) : Except Err (State × List Event) :=
  mintFrom st c st.owner to amount

def addMinter (st : State) (c : Ctx) (m : Addr) : Except Err (State × List Event) :=
  if st.owner ∉ c.auths then .error .unauthorized
  else .ok ({ st with minter := fun a => if a = m then true else st.minter a }, [evMinterAdded m])

def removeMinter (st : State) (c : Ctx) (m : Addr) : Except Err (State × List Event) :=
  if st.owner ∉ c.auths then .error .unauthorized
  else .ok ({ st with minter := fun a => if a = m then false else st.minter a }, [evMinterRemoved m])

def approve (st : State) (c : Ctx) (src spender : Addr) (amount : Int) (exp : Nat) : Except Err (State × List Event) :=
  if src ∉ c.auths then .error .unauthorized
  else if amount < 0 then .error .invalidAmount
  else match writeAllowance st c src spender amount exp with
    | .error e => .error e
    | .ok st' => .ok (st', [evApprove src spender amount exp])

def transfer (st : State) (c : Ctx) (src dst : Addr) (amount : Int) : Except Err (State × List Event) :=
  if src ∉ c.auths then .error .unauthorized
  else if amount < 0 then .error .invalidAmount
  else match spendBalance st src amount with
    | .error e => .error e
    | .ok st1 => match receiveBalance st1 dst amount with
      | .error e => .error e
      | .ok st2 => .ok (st2, [evTransfer src dst amount])

def transferFrom (st : State) (c : Ctx) (spender src dst : Addr) (amount : Int) : Except Err (State × List Event) :=
  if spender ∉ c.auths then .error .unauthorized
  else if amount < 0 then .error .invalidAmount
  else match spendAllowance st c src spender amount with
    | .error e => .error e
    | .ok st0 => match spendBalance st0 src amount with
      | .error e => .error e
      | .ok st1 => match receiveBalance st1 dst amount with
        | .error e => .error e
        | .ok st2 => .ok (st2, [evTransfer src dst amount])

def burn (st : State) (c : Ctx) (src : Addr) (amount : Int) : Except Err (State × List Event) :=
  if src ∉ c.auths then .error .unauthorized
  else if amount < 0 then .error .invalidAmount
  else match spendBalance st src amount with
    | .error e => .error e
    | .ok st1 => .ok (st1, [evBurn src amount])

def burnFrom (st : State) (c : Ctx) (spender src : Addr) (amount : Int) : Except Err (State × List Event) :=
  if spender ∉ c.auths then .error .unauthorized
  else if amount < 0 then .error .invalidAmount
  else match spendAllowance st c src spender amount with
    | .error e => .error e
    | .ok st0 => match spendBalance st0 src amount with
      | .error e => .error e
      | .ok st1 => .ok (st1, [evBurn src amount])

/-- `transfer_ownership` / `set_admin`: ownable event, then the token-standard `set_admin (previous, new)` -/
def transferOwnership (st : State) (c : Ctx) (new : Addr) : Except Err (State × List Event) :=
  if st.owner ∉ c.auths then .error .unauthorized
  else .ok ({ st with owner := new }, [evOwnershipTransferred st.owner new, evSetAdmin st.owner new])

/-- constructor: the owner and the optional minter become minters -/
def construct (owner : Addr) (minter : Option Addr) : State :=
  { owner, minter := fun a => decide (a = owner ∨ minter = some a), bal := fun _ => 0, allow := fun _ _ => none, migrating := false }

/-! ### transition system -/

inductive Op where
  | mintFrom (minter to : Addr) (amount : Int)
  | mint (to : Addr) (amount : Int)
  | addMinter (m : Addr)
  | removeMinter (m : Addr)
  | approve (src spender : Addr) (amount : Int) (exp : Nat)
  | transfer (src dst : Addr) (amount : Int)
  | transferFrom (spender src dst : Addr) (amount : Int)
  | burn (src : Addr) (amount : Int)
  | burnFrom (spender src : Addr) (amount : Int)
  | transferOwnership (new : Addr)
  /-- the owner upgrades the token to its own code and runs the (empty) migration: the window opens and closes again -/
  | upgradeMigrate

def apply (st : State) (c : Ctx) : Op → Except Err (State × List Event)
  | .mintFrom m t a => mintFrom st c m t a
  | .mint t a => mint st c t a
  | .addMinter m => addMinter st c m
  | .removeMinter m => removeMinter st c m
  | .approve s p a e => approve st c s p a e
  | .transfer s d a => transfer st c s d a
  | .transferFrom p s d a => transferFrom st c p s d a
  | .burn s a => burn st c s a
  | .burnFrom p s a => burnFrom st c p s a
  | .transferOwnership n => transferOwnership st c n
  | .upgradeMigrate => if st.owner ∉ c.auths then .error .unauthorized else .ok (st, [])

/-- upgrade to the same code + the empty migration: it succeeds only with the owner's authorisation and changes nothing -/
theorem apply_upgradeMigrate_ok (st : State) (c : Ctx) (r : State × List Event)
    (h : apply st c .upgradeMigrate = .ok r) : r = (st, []) ∧ st.owner ∈ c.auths := by
  simp only [apply] at h
  split at h
  · cases h
  · rename_i hc; cases h; exact ⟨rfl, Decidable.not_not.mp hc⟩

/-- one invocation with the host's rollback -/
def step (st : State) (c : Ctx) (op : Op) : State × Except Err (List Event) :=
  match apply st c op with
  | .ok (st', evs) => (st', .ok evs)
  | .error e => (st, .error e)

theorem step_upgradeMigrate_fst (st : State) (c : Ctx) : (step st c .upgradeMigrate).1 = st := by
  simp only [step, apply]
  by_cases h : st.owner ∈ c.auths <;> simp [h]

/-- a history: each operation comes with its own ledger context (authorisations, ledger sequence) -/
def run (st : State) : List (Ctx × Op) → State
  | [] => st
  | (c, op) :: rest => run (step st c op).1 rest

end Cgp.Token
