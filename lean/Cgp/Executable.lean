/-
  Cgp.Executable — model of applications built on `AxelarExecutableInterface` (contracts/axelar-gateway/src/executable.rs):
  `execute` = the helper `validate_message` (gateway.validate_message(SELF, chain, id, source address, H(payload)),
  `NotApproved` unless it returns true) and only then the application's own effect.  Both the shipped Example
  (contracts/example) and a minimal application follow this shape.
-/
import Cgp.GatewayOps
import Cgp.GasService
namespace Cgp.Executable
open Cgp Cgp.Xdr Cgp.Gateway

inductive AppErr where
  | notApproved
  | gateway (e : Gateway.Err)
deriving Repr

/-- what an application did: the messages it acted on, in order (its "effects") -/
abbrev Effects := List (Bytes × Bytes × Bytes × Bytes)     -- (chain, id, source address, payload)

section
variable (H : Bytes → Bytes)

/-- `execute(source_chain, message_id, source_address, payload)` of application `app`.
    The application is the caller of the gateway, hence authorised as itself. -/
def appExecute (gw : State) (app : Addr) (eff : Effects) (chain id src payload : Bytes) :
    Except AppErr (State × Effects × List Event) :=
  match validateMessage H gw [app] app chain id src (H payload) with
  | .error e => .error (.gateway e)
  | .ok (_, false, _) => .error .notApproved
  | .ok (gw', true, evs) => .ok (gw', eff ++ [(chain, id, src, payload)], evs)

/-- `Example::send(caller, chain, address, message, gas_token)`: the caller's authorisation, then the gas payment BY THE CALLER
    for the example app as sender (the caller's authorisation tree covers it), then the outbound call as the app.
    Returns the gas service's new state and its `gas_paid` event; the gateway announcement is the app's `call_contract`. -/
def exampleSend (gs : GasService.State) (auths : List Addr) (app caller : Addr) (chain dest message : Bytes)
    (token : Addr) (amount : Int) : Except GasService.Err (GasService.State × List GasService.Event) :=
  if caller ∉ auths then .error .unauthorized
  else GasService.payGas H gs [caller] app chain dest message caller token amount []

end
end Cgp.Executable
