/-
  Cgp.Executable — model of applications built on `AxelarExecutableInterface` (contracts/axelar-gateway/src/executable.rs):
  `execute` = the helper `validate_message` (gateway.validate_message(SELF, chain, id, source address, H(payload)),
  `NotApproved` unless it returns true) and only then the application's own effect.  Both the shipped Example
  (contracts/example) and a minimal application follow this shape.
-/
import Cgp.GatewayOps
namespace Cgp.Executable
open Cgp Cgp.Xdr Cgp.Gateway

inductive AppErr where
  | notApproved
  | gateway (e : Gateway.Err)
deriving Repr

/-- what an application did: the messages it acted on, in order (its "effects") -/
abbrev Effects := List (Bytes × Bytes × Bytes × Bytes)     -- (chain, id, source address, payload)

section
variable (H : Bytes → Bytes)

/-- `execute(source_chain, message_id, source_address, payload)` of application `app`.
    The application is the caller of the gateway, hence authorised as itself. -/
def appExecute (gw : State) (app : Addr) (eff : Effects) (chain id src payload : Bytes) :
    Except AppErr (State × Effects × List Event) :=
  match validateMessage H gw [app] app chain id src (H payload) with
  | .error e => .error (.gateway e)
  | .ok (_, false, _) => .error .notApproved
  | .ok (gw', true, evs) => .ok (gw', eff ++ [(chain, id, src, payload)], evs)

end
end Cgp.Executable
