/-
  Cgp.System — the deployed system as ONE transition system: the gateway (Cgp.GatewayOps) and the interchain token
  service with its tokens (Cgp.ItsOps) sharing the gateway state, exactly as the correspondence driver composes them
  (Cgp.Drive.ItsD runs every `gw.*` line through the gateway model on the gateway state held inside the service world).
  Here the gateway's moves are the gateway model's own operations, not an arbitrary state change, so end-to-end
  statements ("a delivery the service acted on was signed by a threshold of a retained signer set") can be made.
-/
import Cgp.ItsOps
import Cgp.GatewaySpec
namespace Cgp.System
open Cgp Cgp.Xdr

/-- the token service (which holds the gateway's state and the token ledger) and the ledger clock -/
structure World where
  its : Its.State
  now : Nat

inductive Op (σ : Type) where
  /-- anybody's call to the gateway -/
  | gw (op : Gateway.Op σ)
  /-- any call to the service, or a token move that does not involve it -/
  | its (op : Its.Op)

inductive Obs where
  | gw (o : Gateway.Obs)
  | its (o : Its.Obs)

section
variable (H : Bytes → Bytes) (S : Bytes → Bytes) {σ : Type} (V : Bytes → Bytes → σ → Bool) (k : Its.Consts)

/-- one top-level invocation. `Its.Op.gateway f` (an arbitrary change of the gateway state) is not a real call and is
    refused here: in this system the gateway changes only through its own operations. -/
def step (w : World) : Op σ → World × Obs
  | .gw op =>
    let r := Gateway.step H V ⟨w.its.gw, w.now⟩ op
    ({ its := { w.its with gw := r.1.st }, now := r.1.now }, .gw r.2)
  | .its (.gateway _) => (w, .its (.err .unauthorized))
  | .its op =>
    let r := Its.step H S k w.its op
    ({ w with its := r.1 }, .its r.2)

/-- a history, recorded as (world before the call, the call, what was observed) -/
def trace (w : World) : List (Op σ) → List (World × Op σ × Obs)
  | [] => []
  | op :: ops => (w, op, (step H S V k w op).2) :: trace (step H S V k w op).1 ops

def final (w : World) : List (Op σ) → World
  | [] => w
  | op :: ops => final (step H S V k w op).1 ops

end

/-- the signer sets named by gateway submissions really are host values (32-byte keys and nonces, u128 weights) -/
def TypedOp {σ : Type} : Op σ → Prop
  | .gw op => op.Typed
  | .its _ => True

end Cgp.System
