#!/usr/bin/env python3
"""Print the prompt given to a mutation sub-agent for one property (property text only)."""
import json, sys
pid = sys.argv[1]
for l in open('/verif/properties.jsonl'):
    p = json.loads(l)
    if p['id'] == pid:
        break
else:
    sys.exit("no such property")
wt = f"/tmp/wt8/{pid}"
print(f"""You are helping to evaluate a verification tool by producing realistic *bugs* for it to find. You work ONLY inside the git worktree {wt} (a checkout of the Rust workspace axelarnetwork/axelar-cgp-soroban: Soroban/Stellar smart contracts — gateway, interchain token service, token, gas service, operators, upgrader, example). Never touch /repo or /verif, and do not read anything under /verif.

The sandbox is offline. Build and test with:  cd {wt} && CARGO_NET_OFFLINE=true cargo test --workspace --no-fail-fast --offline   (first build takes a few minutes; the target dir is inside the worktree). The existing suite (about 160 tests) passes on the unchanged checkout.

Here is a semantic property the code base is supposed to satisfy:

  Title: {p['title']}
  Statement: {p['statement']}
  Quantified over: {p['quantifier']['text']}

Your task: produce TWO different source changes (mutations) to the non-test source code of the workspace (files under contracts/*/src or packages/*/src, not tests, not testutils) such that, for each change separately:
  1. the workspace still compiles and the WHOLE existing test suite still passes unchanged (run it and confirm);
  2. the change makes the property above FALSE for the real contracts;
  3. the violation needs something specific to manifest — a particular multi-step sequence of operations, an unusual/boundary input, a particular history or configuration, or two cooperating sites that each look fine alone — NOT something that ordinary use would expose at once (do not simply break the happy path);
  4. (round 8) the tool under evaluation compares the real contracts with a reference model on generated operation sequences; seven
     earlier rounds (over 250 changes) already covered: dropped / moved / loosened authorisation and validity checks, replay guards,
     storage durability, hashed-data omissions, overflow rewrites, event field slips, swallowed sub-call failures, batch handling,
     boundary values (0, 1, max), second-invocation state, query functions, constructors, administrative operations, one address in
     two roles, blanket vs exact authorisation, unusual metadata (whitespace, NUL, unicode), short / long / degenerate byte strings, the zero address and look-alike
     addresses (account / contract with the same bytes), ids squatted before registration, chain names equal to the hub's or the
     contract's own or in mixed case, 33-bit and near-maximal integers, version-string ordering, position inside a batch,
     a failing call by an outsider in between, newly exported functions, and inputs that equal one another.
     Think adversarially about what such a tool is LEAST likely to generate or observe, for example: a long dependency chain
     (the change only matters after four or more specific earlier operations); an effect on something that is rarely read back
     (a second token, a second message id, another user's allowance, another application's approval); behaviour that depends on the
     RELATION between two inputs (equal lengths, one a prefix of the other, same hash prefix, sorted vs unsorted, a value equal to a
     stored constant); data-dependent branches on a specific byte or bit; an interaction of three principals; or a change that is
     correct for every value the repository's own tests use but wrong for a neighbouring family of values; and
     the change looks like something a developer could plausibly write (an off-by-one, a reordered/dropped check, a wrong variable, a too-loose comparison, a refactoring slip), is small (a few lines), and the two changes differ in mechanism and location.

For each change k in {{1,2}} write these files into {wt}/out/m<k>/ :
  - patch.diff : output of `git diff` containing ONLY the source mutation (no demonstration files), applicable with `git apply` at the worktree's HEAD;
  - demo.rs : a self-contained Rust integration test file (to be copied to a path you name, e.g. contracts/<crate>/tests/seeded_demo.rs) with one or more #[test]s that FAIL with the mutation applied and PASS on the unchanged checkout. Confirm both directions yourself by actually running it;
  - meta.json : {{"property": "{pid}", "summary": "<one sentence: what was changed>", "needs": "<what specific input/sequence/history is needed for it to manifest>", "demo_path": "<where demo.rs must be copied, relative to the worktree root>", "demo_cmd": "<exact cargo test command to run the demo>", "suite_passes_with_mutation": true}}

When done, revert the worktree's tracked files to HEAD (git checkout -- .) and remove your demo files from the source tree (keep only {wt}/out/). Do not commit anything. Finally reply with a brief summary of the two mutations (files/lines changed, how they manifest) — the details must be in the out/ files.
""")
