#!/usr/bin/env python3
"""Regenerates props.json (obligation lists per property) from the theorem names found in lean/Cgp/Props/<id>.lean.
   The lists are committed; ./check audits every name in them with `#print axioms`."""
import re, json, os, glob
VERIF = os.path.dirname(os.path.dirname(os.path.abspath(__file__)))
base = json.load(open(os.path.join(VERIF, "props.base.json")))
out = {}
for pid, meta in base.items():
    path = os.path.join(VERIF, "lean", "Cgp", "Props", f"{pid}.lean")
    if not os.path.exists(path):
        continue
    src = open(path).read()
    ns = re.search(r"^namespace\s+(\S+)", src, re.M).group(1)
    names = [f"{ns}.{m}" for m in re.findall(r"^theorem\s+([\w.']+)", src, re.M)]
    # the fixed statements file (if any) defines which theorems are the property's obligations; helpers are not counted
    st = os.path.join(VERIF, "lean", "stmts", f"{pid}.lean.txt")
    if os.path.exists(st):
        want = [f"{ns}.{m}" for m in re.findall(r"^theorem\s+([\w.']+)", open(st).read(), re.M)]
        names = [n for n in want if n in names] if all(n in names for n in want) else names
    d = dict(meta)
    d["theorems"] = names
    out[pid] = d
json.dump(out, open(os.path.join(VERIF, "props.json"), "w"), indent=1)
print({k: len(v["theorems"]) for k, v in out.items()})
