#!/usr/bin/env python3
"""addstmts.py <proved-file> <stmts-file> <name>... : append the statements (doc comment, signature; proof replaced by sorry)
of the named theorems / defs, as they stand in the proved file, to the fixed statement file (before its final `end`)."""
import re, sys
src = open(sys.argv[1]).read(); sf = sys.argv[2]; names = sys.argv[3:]
out = []
for n in names:
    m = re.search(r"((?:^/--(?:(?!-/).)*?-/\n)?)^(theorem|def)\s+" + re.escape(n) + r"\b(.*?)(?=^\S|\Z)", src, re.M | re.S)
    if not m: sys.exit("not found: " + n)
    doc, kind, body = m.group(1), m.group(2), m.group(3)
    if kind == "theorem":
        k = re.search(r":=\s*(by\b|\n)", body)
        out.append(f"{doc}theorem {n}{body[:k.start()]}:= by\n  sorry\n")
    else:
        out.append(f"{doc}def {n}{body.rstrip()}\n")
s = open(sf).read()
k = s.rstrip().rfind("\nend ")
s = s[:k].rstrip() + "\n\n" + "\n".join(out) + s[k:]
open(sf, "w").write(s)
print("appended", len(out))
