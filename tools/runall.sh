#!/bin/bash
# runs every claimed property's check at the given tier (default quick) and prints one line per property
TIER=${1:-quick}
cd "$(dirname "$0")/.."
for p in $(python3 -c "import json;print(' '.join(c['property_id'] for c in json.load(open('MANIFEST.json'))['checks']))"); do
  ./check $p --tier $TIER | grep -E "^(OK|VIOLATION|KNOWN)" | cut -c1-160
done
