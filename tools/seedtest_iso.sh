#!/bin/bash
# seedtest_iso.sh <property> <patch.diff> [tier] [seed]: like seedtest.sh, but in the isolated copy /tmp/mut (see mkisolated.sh)
P=$1; PATCH=$2; TIER=${3:-quick}; SEED=${4:-}
cd /tmp/mut/repo && git status --short | grep -q . && { echo "/tmp/mut/repo not clean"; exit 2; }
git -C /tmp/mut/repo apply $PATCH || { echo "apply failed"; exit 2; }
cd /tmp/mut/verif && ./check $P --tier $TIER ${SEED:+--seed $SEED} | tail -3; RC=${PIPESTATUS[0]}
git -C /tmp/mut/repo checkout -- .
echo "seedtest $P $PATCH rc=$RC"
