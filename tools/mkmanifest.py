#!/usr/bin/env python3
"""Writes MANIFEST.json from manifest.base.json (per-property texts) + props.json (which properties are claimed)."""
import json, os
VERIF = os.path.dirname(os.path.dirname(os.path.abspath(__file__)))
props = json.load(open(os.path.join(VERIF, "props.json")))
base = json.load(open(os.path.join(VERIF, "manifest.base.json")))
allp = [json.loads(l)["id"] for l in open(os.path.join(VERIF, "properties.jsonl"))]
checks, na = [], []
for pid in allp:
    if pid in props and pid in base["checks"]:
        b = base["checks"][pid]
        checks.append({
            "property_id": pid,
            "quick_cmd": f"./check {pid} --tier quick",
            "thorough_cmd": f"./check {pid} --tier thorough",
            "evidence_file": f"/verif/evidence/{pid}.json",
            "replay_cmd_template": f"./check {pid} --replay {{path}}",
            "engine": "lean-model+correspondence",
            "level_claimed": {"category": "proof", "text": b["text"], "design_ref": b["design_ref"]},
            "level_note": b["note"],
            "technique": b.get("technique", "Lean 4 theorems about a hand-written operational model; model tied to the code by a differential correspondence run on every check"),
        })
    else:
        na.append({"property_id": pid, "reason": base["not_applicable"].get(pid, "not yet covered by the framework at this commit (model and correspondence under construction); no alternative technique is substituted")})
m = {
    "version": 1,
    "setup_cmd": "./setup.sh",
    "hooks": {"guard": "axelarnetwork_axelar_cgp_soroban_verif", "enable": "no hooks are needed: the harness reaches everything through generated clients, pub methods and env.as_contract storage reads",
              "baseline_off_cmd": "cd /repo && cargo test --workspace --no-fail-fast --offline", "source_commits": [], "add_only": True},
    "engines": [{"name": "lean-model+correspondence", "path": "/verif/lean + /verif/harness + /verif/check",
                 "serves_properties": [c["property_id"] for c in checks],
                 "kind_free_text": "Lean 4 operational models and property theorems (lake build, #print axioms audit), Rust harness executing generated operation sequences on the real contracts, compiled Lean driver replaying them on the model, observations diffed"}],
    "checks": checks,
    "not_applicable": na,
    "notes": base["notes"],
}
json.dump(m, open(os.path.join(VERIF, "MANIFEST.json"), "w"), indent=1)
print("claimed:", [c["property_id"] for c in checks], "not claimed:", [n["property_id"] for n in na])
