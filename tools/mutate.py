#!/usr/bin/env python3
"""mutate.py list | run [--only REGEX] [--limit N]: systematic single-site source mutations of /repo's contracts (classic mutation
operators), each applied to /repo's working tree, built with the harness, run against the quick checks of all properties
in parallel, and undone.  A mutant no check reports is a SURVIVOR: either equivalent, or outside the 18 properties, or a
gap in the correspondence generators — survivors are triaged by hand (mutants/TRIAGE.md).
Results accumulate in /verif/mutants/RESULTS.json (resumable)."""
import re, os, sys, json, subprocess, glob, hashlib
from concurrent.futures import ThreadPoolExecutor
V = '/verif'; R = '/repo'
FILES = sorted(
    [f for f in glob.glob(f'{R}/contracts/*/src/*.rs') if not f.endswith(('testutils.rs', 'lib.rs', 'error.rs'))] +
    [f for f in glob.glob(f'{R}/packages/axelar-soroban-std/src/*.rs') if os.path.basename(f) in ('ttl.rs', 'token.rs', 'address.rs', 'events.rs')] +
    glob.glob(f'{R}/packages/axelar-soroban-std/src/interfaces/*.rs'))
TOKEN_OPS = [
    (r' <= ', ' < '), (r' < ', ' <= '), (r' >= ', ' > '), (r' > ', ' >= '), (r' == ', ' != '), (r' != ', ' == '),
    (r' && ', ' || '), (r' \|\| ', ' && '),
    (r'\.persistent\(\)', '.temporary()'), (r'\.instance\(\)', '.temporary()'),
    (r'\.is_err\(\)', '.is_ok()'), (r'\.is_ok\(\)', '.is_err()'), (r'\.is_some\(\)', '.is_none()'), (r'\.is_none\(\)', '.is_some()'),
    (r'\btrue\b', 'false'), (r'\bfalse\b', 'true'),
    (r'if !', 'if '), (r'ensure!\(\s*!', 'ensure!('),
    (r' \+ ', ' - '), (r' - ', ' + '), (r' \+= ', ' -= '), (r' -= ', ' += '),
    (r'\.has\(', '.has_not('),   # placeholder, handled below
    (r'checked_add', 'wrapping_add'), (r'checked_sub', 'wrapping_sub'),
    (r'\bmin\(', 'max('), (r'\bmax\(', 'min('),
]
def body_lines(path):
    src = open(path).read().split('\n')
    out = []
    for i, l in enumerate(src):
        if l.strip().startswith('#[cfg(test)]'):
            break
        out.append((i, l))
    return src, out
def sites():
    res = []
    for f in FILES:
        src, lines = body_lines(f)
        rel = os.path.relpath(f, R)
        depth_stmt = None
        params = []          # parameter names of the function whose body we are in (wrong-variable operator)
        sig = None
        for i, l in lines:
            # track function signatures (possibly spanning lines) to know the parameter names in scope
            if re.search(r'\bfn \w+', l):
                sig = ''
            if sig is not None:
                sig += ' ' + l.split('//')[0]
                if '{' in l or ';' in l:
                    inner = sig[sig.find('(') + 1: sig.rfind(')')] if '(' in sig and ')' in sig else ''
                    params = [m.group(1) for m in re.finditer(r'(?:^|,)\s*(?:mut )?(\w+)\s*:', inner) if m.group(1) not in ('env', 'self', '_env')]
                    sig = None
                    continue
            elif params and len(params) >= 2 and '(' in l and not l.strip().startswith(('//', '#[', 'use ', 'fn ', 'pub fn ')):
                code0 = l.split('//')[0]
                for k, pn in enumerate(params):
                    for m in re.finditer(r'(?<![\w.])' + re.escape(pn) + r'(?![\w(])', code0):
                        alt = params[(k + 1) % len(params)]
                        new0 = code0[:m.start()] + alt + code0[m.end():]
                        res.append(dict(file=rel, line=i, kind='wrong-variable', old=[l], new=[new0]))
            s = l.strip()
            if s.startswith('//') or s.startswith('use ') or s.startswith('#[') or s.startswith('///'):
                continue
            code = l.split('//')[0]
            for pat, rep in TOKEN_OPS:
                if rep == '.has_not(':
                    continue
                for m in re.finditer(pat, code):
                    new = code[:m.start()] + rep + code[m.end():]
                    res.append(dict(file=rel, line=i, kind=f'{pat.strip()}→{rep.strip()}', old=[l], new=[new]))
            # statement deletion: single-line ensure!/require_auth/`?;` calls that bind nothing
            if re.match(r'\s*ensure!\(.*\);\s*$', code) or re.match(r'\s*[\w:.&()\[\], ]*\.require_auth\(\);\s*$', code) or \
               (re.match(r'\s*[\w:.]+\(.*\)\?;\s*$', code) and not s.startswith('let ') and not s.startswith('return')):
                res.append(dict(file=rel, line=i, kind='delete-statement', old=[l], new=[re.match(r'\s*', l).group(0) + '// (deleted)']))
            # multi-line ensure!( … );
            if re.match(r'\s*ensure!\(\s*$', code):
                j = i
                while j < len(src) and not src[j].strip().endswith(');'):
                    j += 1
                res.append(dict(file=rel, line=i, kind='delete-statement', old=src[i:j + 1], new=['// (deleted)'] * (j + 1 - i)))
            # statement deletion: storage writes, event emissions, ttl extensions, cross-contract calls whose result is unused
            if re.match(r'\s*(event::\w+\(|extend_\w+\(|env\.storage\(\)|[\w.]+\.(set|remove|extend_ttl)\()', code) and code.rstrip().endswith(';') and not s.startswith('let '):
                res.append(dict(file=rel, line=i, kind='delete-effect', old=[l], new=[re.match(r'\s*', l).group(0) + '// (deleted)']))
            # swallowed failures: `f(..)?;` → `let _ = f(..);`   and   `client.call(..);` → `let _ = client.try_call(..);`
            m = re.match(r'(\s*)([\w:.&]+\(.*\))\?;\s*$', code)
            if m and not s.startswith(('let ', 'return')):
                res.append(dict(file=rel, line=i, kind='swallow-error', old=[l], new=[f"{m.group(1)}let _ = {m.group(2)};"]))
            m = re.match(r'(\s*)(\w+)\.(\w+)\((.*)\);\s*$', code)
            if m and not s.startswith(('let ', 'return')) and not m.group(3).startswith(('try_', 'set', 'remove', 'extend', 'publish', 'push', 'require_auth', 'emit', 'copy', 'insert')):
                res.append(dict(file=rel, line=i, kind='swallow-error', old=[l], new=[f"{m.group(1)}let _ = {m.group(2)}.try_{m.group(3)}({m.group(4)});"]))
            # early success: a fallible function returns Ok(()) before doing anything
            if re.match(r'\s*(pub )?fn \w+.*-> Result<\(\), ContractError> \{\s*$', code):
                res.append(dict(file=rel, line=i, kind='early-ok', old=[l], new=[l + ' return Ok(());']))
            # integer literal off by one (not in attribute / const-generic positions)
            for m in re.finditer(r'(?<![\w.])(\d+)(?![\w.])', code):
                v = int(m.group(1))
                if v > 100000 or 'repr(' in code or '::<' in code:
                    continue
                for nv in ([v + 1] if v == 0 else [v - 1, v + 1]):
                    new = code[:m.start()] + str(nv) + code[m.end():]
                    res.append(dict(file=rel, line=i, kind='int-literal', old=[l], new=[new]))
            # values of two adjacent `field: value,` lines of a struct literal exchanged (only same-typed swaps compile)
            m1 = re.match(r'(\s*)(\w+): (.+),\s*$', code)
            if m1 and i + 1 < len(src):
                m2 = re.match(r'(\s*)(\w+): (.+),\s*$', src[i + 1].split('//')[0])
                if m2 and m1.group(1) == m2.group(1) and m1.group(3) != m2.group(3) and not m1.group(3).strip().startswith(('fn', '&str')):
                    res.append(dict(file=rel, line=i, kind='swap-fields', old=[l, src[i + 1]],
                                    new=[f"{m1.group(1)}{m1.group(2)}: {m2.group(3)},", f"{m2.group(1)}{m2.group(2)}: {m1.group(3)},"]))
            # `unwrap_or(x)` defaults, Some/None
            for m in re.finditer(r'unwrap_or_default\(\)', code):
                pass
            # adjacent-argument swap in single-line calls (only type-correct swaps compile)
            m = re.search(r'(\w+)\(([^()]*,[^()]*)\)', code)
            if m and not s.startswith('fn ') and not s.startswith('pub fn ') and 'fn ' not in code:
                args = [a for a in m.group(2).split(',')]
                for k in range(len(args) - 1):
                    if args[k].strip() == args[k + 1].strip() or not args[k].strip() or not args[k + 1].strip():
                        continue
                    sw = args[:k] + [args[k + 1], args[k]] + args[k + 2:]
                    new = code[:m.start(2)] + ','.join(sw) + code[m.end(2):]
                    res.append(dict(file=rel, line=i, kind='swap-args', old=[l], new=[new]))
    for r in res:
        r['id'] = hashlib.sha1(json.dumps([r['file'], r['line'], r['kind'], r['new']]).encode()).hexdigest()[:10]
    return res
def apply(site):
    p = f"{R}/{site['file']}"
    src = open(p).read().split('\n')
    assert src[site['line']:site['line'] + len(site['old'])] == site['old'], 'source moved'
    src[site['line']:site['line'] + len(site['old'])] = site['new']
    open(p, 'w').write('\n'.join(src))
def clean():
    return subprocess.run(['git', '-C', R, 'status', '--short'], capture_output=True, text=True).stdout.strip() == ''
PROPS = [c['property_id'] for c in json.load(open(f'{V}/MANIFEST.json'))['checks']]
def run_check(p):
    r = subprocess.run([f'{V}/check', p, '--tier', 'quick'], cwd=V, capture_output=True, text=True)
    m = re.search(r'VIOLATION property=\S+ replay=\S*?(replay-[a-z-]+|\S+)-?\d*\.\w+( no-failing-input-found)?', r.stdout)
    return p, ('violation' if 'VIOLATION' in r.stdout else None), r.returncode
def auto_triage(s):
    """survivors that are outside the 18 properties by construction"""
    old = s['old'][0]
    if s['kind'] == 'delete-effect' and 'extend_' in old and 'ttl' in old:
        return 'outside: only a storage-lifetime extension is dropped (lifetimes beyond the modelled horizon of 4096 ledgers are in no property)'
    if s['file'].endswith('axelar-soroban-std/src/ttl.rs'):
        return 'outside: storage-lifetime constants (lifetimes beyond the modelled horizon of 4096 ledgers are in no property)'
    if s['kind'] == 'int-literal' and ('BytesN<' in old or 'Symbol,' in old):
        return 'outside: type parameter inside a cfg(test / testutils) event helper'
    if s['kind'] == 'int-literal' and re.search(r'^\s*\w+ = \d+,\s*(//.*)?$', old):
        return 'tolerated by design: an error / enum discriminant is renumbered (errors are compared by class, §10; the `MessageType` contracttype enum of types.rs is not used by the codec, which has its own)'
    if s['file'].endswith('axelar-soroban-std/src/events.rs'):
        return 'outside: test-utility code (cfg(test / testutils)), not contract behaviour'
    return None
def retest(path):
    """re-run the SURVIVED mutants recorded in another results file against THIS /verif and /repo"""
    prev = json.load(open(path))
    outp = f'{V}/mutants/RESULTS.json'
    res = json.load(open(outp)) if os.path.exists(outp) else {}
    env = dict(os.environ, CARGO_NET_OFFLINE='true')
    for k, s in prev.items():
        if s['status'] != 'SURVIVED':
            res.setdefault(k, {kk: s[kk] for kk in ('file', 'line', 'kind', 'old', 'new', 'status') if kk in s} | ({'by': s.get('by')} if s.get('by') else {}))
            continue
        t = auto_triage(s)
        if t:
            res[k] = {kk: s[kk] for kk in ('file', 'line', 'kind', 'old', 'new')} | {'status': 'survived', 'triage': t}
            continue
        if k in res and res[k].get('retested'):
            continue
        assert clean(), '/repo not clean'
        try:
            apply(s)
            b = subprocess.run(['cargo', 'build', '--offline'], cwd=f'{V}/harness', capture_output=True, text=True, env=env)
            with ThreadPoolExecutor(max_workers=16) as ex:
                out = list(ex.map(run_check, PROPS))
            killed = [p for p, v, rc in out if v]
            res[k] = {kk: s[kk] for kk in ('file', 'line', 'kind', 'old', 'new')} | {'status': 'killed' if killed else 'survived', 'by': killed, 'retested': True}
        finally:
            subprocess.run(['git', '-C', R, 'checkout', '--', '.'])
        print(k, s['file'], s['line'] + 1, s['kind'], res[k]['status'], res[k].get('by', ''), flush=True)
        json.dump(res, open(outp, 'w'), indent=1)
    json.dump(res, open(outp, 'w'), indent=1)
    subprocess.run(['cargo', 'build', '--offline'], cwd=f'{V}/harness', capture_output=True, env=env)
def main():
    if sys.argv[1] == 'retest':
        return retest(sys.argv[2])
    ss = sites()
    if sys.argv[1] == 'list':
        from collections import Counter
        print(len(ss), 'sites'); print(Counter(s['kind'] for s in ss).most_common()); print(Counter(s['file'] for s in ss).most_common())
        return
    only = None; limit = None
    a = sys.argv[2:]
    while a:
        if a[0] == '--only': only = re.compile(a[1]); a = a[2:]
        elif a[0] == '--limit': limit = int(a[1]); a = a[2:]
        else: a = a[1:]
    outp = f'{V}/mutants/RESULTS.json'
    res = json.load(open(outp)) if os.path.exists(outp) else {}
    env = dict(os.environ, CARGO_NET_OFFLINE='true')
    n = 0
    for s in ss:
        if s['id'] in res or (only and not only.search(s['file'] + ' ' + s['kind'])):
            continue
        if limit is not None and n >= limit:
            break
        n += 1
        assert clean(), '/repo not clean'
        try:
            apply(s)
            b = subprocess.run(['cargo', 'build', '--offline'], cwd=f'{V}/harness', capture_output=True, text=True, env=env)
            if b.returncode != 0:
                res[s['id']] = dict(s, status='no-compile')
            else:
                with ThreadPoolExecutor(max_workers=16) as ex:
                    out = list(ex.map(run_check, PROPS))
                killed = [p for p, v, rc in out if v]
                broken = [p for p, v, rc in out if rc not in (0, 1)]
                res[s['id']] = dict(s, status='killed' if killed else 'SURVIVED', by=killed, check_errors=broken)
        finally:
            subprocess.run(['git', '-C', R, 'checkout', '--', '.'])
        r = res[s['id']]
        print(s['id'], s['file'], s['line'] + 1, s['kind'], r['status'], r.get('by', ''), flush=True)
        json.dump(res, open(outp, 'w'), indent=1)
    subprocess.run(['cargo', 'build', '--offline'], cwd=f'{V}/harness', capture_output=True, env=env)
main()
