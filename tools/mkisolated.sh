#!/bin/bash
# mkisolated.sh: refresh the isolated copy /tmp/mut/{repo,verif} used to evaluate changes without touching /repo
# (the copy's harness is pointed at /tmp/mut/repo; ./check finds everything else relative to itself).
set -e
mkdir -p /tmp/mut
[ -d /tmp/mut/repo ] || git clone -q /repo /tmp/mut/repo
git -C /tmp/mut/repo fetch -q origin; git -C /tmp/mut/repo reset -q --hard $(git -C /repo rev-parse HEAD); git -C /tmp/mut/repo clean -fdq -e target
rsync -a --delete --exclude runs --exclude harness/target --exclude lean/.lake --exclude .git --exclude 'seeded_incoming*' /verif/ /tmp/mut/verif/
mkdir -p /tmp/mut/verif/runs
sed -i 's#"/repo/#"/tmp/mut/repo/#g' /tmp/mut/verif/harness/src/*.rs /tmp/mut/verif/harness/Cargo.toml
sed -i "s#R = '/repo'#R = '/tmp/mut/repo'#; s#V = '/verif'#V = '/tmp/mut/verif'#" /tmp/mut/verif/tools/mutate.py
echo refreshed
