#!/usr/bin/env python3
"""mktriage.py: writes mutants/TRIAGE.md from mutants/RESULTS.json (+ mutants/manual_triage.json for hand-written reasons)."""
import json, os, sys
from collections import Counter
V = os.path.dirname(os.path.dirname(os.path.abspath(__file__)))
sys.path.insert(0, f'{V}/tools')
r = json.load(open(f'{V}/mutants/RESULTS.json'))
manual = json.load(open(f'{V}/mutants/manual_triage.json'))
import importlib.util, re
def auto(s):
    old = s['old'][0]
    if s['kind'] == 'delete-effect' and 'extend_' in old and 'ttl' in old:
        return 'outside: only a storage-lifetime extension is dropped (lifetimes beyond the modelled horizon of 4096 ledgers are in no property)'
    if s['file'].endswith('axelar-soroban-std/src/ttl.rs'):
        return 'outside: storage-lifetime constants (lifetimes beyond the modelled horizon of 4096 ledgers are in no property)'
    if s['kind'] == 'int-literal' and ('BytesN<' in old or 'Symbol,' in old):
        return 'outside: type parameter inside a cfg(test / testutils) event helper'
    if s['kind'] == 'int-literal' and re.search(r'^\s*\w+ = \d+,\s*(//.*)?$', old):
        return 'tolerated by design: an error / enum discriminant is renumbered (errors are compared by class, §10; the `MessageType` contracttype enum of types.rs is not used by the codec, which has its own)'
    if s['file'].endswith('axelar-soroban-std/src/events.rs'):
        return 'outside: test-utility code (cfg(test / testutils)), not contract behaviour'
    return None
for k, v in r.items():
    v['status'] = v['status'].lower()
    if v['status'] == 'survived':
        v['triage'] = manual.get(k) or auto(v) or v.get('triage')
c = Counter(v['status'] for v in r.values())
un = [k for k, v in r.items() if v['status'] == 'survived' and not v.get('triage')]
with open(f'{V}/mutants/TRIAGE.md', 'w') as f:
    f.write("# Systematic single-site mutation of /repo's contract sources (tools/mutate.py)\n\n")
    f.write(f"{len(r)} mutants (comparison / boolean / arithmetic operator replacement, storage durability, statement and effect deletion, adjacent-argument swaps, integer literals off by one, values of adjacent struct-literal fields exchanged, swallowed failures, early Ok, a parameter replaced by another parameter of the same function) over every non-test source file of the seven contracts and the shared interfaces, each built with the harness and run against ALL 18 quick checks: "
            f"{c['no-compile']} do not compile, {c['killed']} are reported by at least one check, {c['survived']} survive. Every survivor is listed below with the reason; none is a property violation that goes unreported"
            + (f" — EXCEPT {len(un)} not yet triaged: {un}" if un else "") + ".\n\n")
    f.write("Survivors of the first runs that WERE gaps, and what closed them (they are now reported): a construction with an empty list of signer sets accepted (the C03 generator tried it but aborted — the check ignored the abort: DESIGN.md §14); "
            "the constructor enforcing the rotation delay (C09 directed part); the owner check of ITS `set_trusted_chain` / `remove_trusted_chain` removed (the C06 matrix tried the rightful owner FIRST, after which everybody else failed with \"already set\" — principals that must be refused now come first); "
            "message id and source address exchanged in the call to the recipient application (its arguments were not observed — the harness's application now publishes them and the model states them, `C05.inbound_exact`); the native token's `token_id()` storage (never queried — now queried in C11 and C12); "
            "`amount > 0` → `amount > 1` in the gas service and `initial_supply > 0` → `> 1` in the token service (no generator used the amount 1 — now a class of its own everywhere amounts are chosen).\n\n")
    by = Counter(p for v in r.values() if v['status'] == 'killed' for p in v.get('by', []))
    f.write("Mutants reported per check (a mutant is usually reported by several): " + ", ".join(f"{p} {n}" for p, n in sorted(by.items())) + ".\n\n")
    f.write("| mutant | site | change | why it survives |\n|---|---|---|---|\n")
    for k, v in sorted(r.items(), key=lambda kv: (kv[1]['file'], kv[1]['line'])):
        if v['status'] == 'survived':
            f.write(f"| {k} | {v['file']}:{v['line']+1} | `{v['old'][0].strip()[:60]}` → `{v['new'][0].strip()[:50]}` | {v.get('triage') or 'NOT TRIAGED'} |\n")
json.dump(r, open(f'{V}/mutants/RESULTS.json', 'w'), indent=1)
print(c, 'untriaged:', un)
