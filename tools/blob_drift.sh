#!/bin/bash
# Informational (not a check): runs the C12 operation sequences against the CHECKED-IN interchain_token.wasm that ITS deploys
# in this repository, instead of the native token built from contracts/interchain-token/src, and reports where the
# blob departs from the token model.
cd "$(dirname "$0")/.." && mkdir -p runs/tmp
target/debug/cgp-harness gen C12 quick ${1:-1} runs/tmp/C12n.trace && sed 's/^scenario tk /scenario tkw /' runs/tmp/C12n.trace | grep -v "^#" > runs/tmp/C12w.in \
 && target/debug/cgp-harness replay runs/tmp/C12w.in runs/tmp/C12w.trace \
 && lean/.lake/build/bin/cgp-driver runs/tmp/C12w.trace | grep -v "^COV" | awk '{print $4, $5, $6}' | sort | uniq -c | sort -rn
