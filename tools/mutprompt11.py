#!/usr/bin/env python3
"""Print the prompt given to a mutation sub-agent for one property (property text only)."""
import json, sys
pid = sys.argv[1]
for l in open('/verif/properties.jsonl'):
    p = json.loads(l)
    if p['id'] == pid:
        break
else:
    sys.exit("no such property")
wt = f"/tmp/wt11/{pid}"
print(f"""You are helping to evaluate a verification tool by producing realistic *bugs* for it to find. You work ONLY inside the git worktree {wt} (a checkout of the Rust workspace axelarnetwork/axelar-cgp-soroban: Soroban/Stellar smart contracts — gateway, interchain token service, token, gas service, operators, upgrader, example). Never touch /repo or /verif, and do not read anything under /verif.

The sandbox is offline. Build and test with:  cd {wt} && CARGO_NET_OFFLINE=true cargo test --workspace --no-fail-fast --offline   (first build takes a few minutes; the target dir is inside the worktree). The existing suite (about 160 tests) passes on the unchanged checkout.

Here is a semantic property the code base is supposed to satisfy:

  Title: {p['title']}
  Statement: {p['statement']}
  Quantified over: {p['quantifier']['text']}

Your task: produce TWO different source changes (mutations) to the non-test source code of the workspace (files under contracts/*/src or packages/*/src, not tests, not testutils) such that, for each change separately:
  1. the workspace still compiles and the WHOLE existing test suite still passes unchanged (run it and confirm);
  2. the change makes the property above FALSE for the real contracts;
  3. the violation needs something specific to manifest — a particular multi-step sequence of operations, an unusual/boundary input, a particular history or configuration, or two cooperating sites that each look fine alone — NOT something that ordinary use would expose at once (do not simply break the happy path);
  4. (round 11) the tool under evaluation compares the real contracts with a reference model on generated operation sequences
     (it observes return values, error/success, emitted events with all fields, and reads back balances / registry / status
     queries after every step); ten earlier rounds (over 350 changes) already covered: dropped / moved / loosened authorisation and validity checks, replay guards,
     storage durability (including state moved to temporary storage with a long lifetime: the tool lets months of ledgers pass), hashed-data omissions, overflow rewrites and narrowing casts (u16/u32/i64: amounts 2^k+d around every limb boundary, decimals up to u32::MAX), event field slips, swallowed sub-call failures, batch handling and position inside a batch,
     boundary values (0, 1, max), second-invocation state, query functions, constructors (several / malformed initial sets), administrative operations, one address in
     two roles, blanket vs exact authorisation, unusual metadata (whitespace, NUL, unicode incl. U+FFFD and other valid-but-odd UTF-8), short / long / degenerate byte strings, the zero address and look-alike
     addresses, ids squatted before registration, chain names equal to the hub's or the
     contract's own or in mixed case, version-string ordering, a failing call by an outsider in between, newly exported functions, inputs that equal one another,
     non-canonical ABI encodings of the whole payload AND of the wrapped inner message (trailing bytes, dirty padding, moved offsets, dirty upper bytes of small integers, equal 64-bit limbs in the amount word),
     expired signer sets (re-installed, re-submitting their old batches), retention values 0..17 / 2^32 / u64::MAX with long rotation histories, messages addressed to the gateway itself,
     replacing a live allowance (withdraw, same amount with earlier / later expiration) and walking the ledger across expirations.
     Round 9 added: (chain, id) pairs that collide once joined with a separator character; account-type (G...) addresses as message destinations; origin chain names that
     only look like a trusted one (NUL / blank padded, prefix, extension, other case); the service / gas service / gateway itself as recipient, spender or sender; histories of 260+ rotations;
     well-formed messages of 4 KB - 70 KB; allowances lasting weeks that are re-approved, allowances of exactly i128::MAX; a contract that owns itself; an operator that is also the call target;
     chain names / ids / sender strings of 20, 21, 32, 33, 70, 300 characters; third-party tokens whose metadata getters answer differently on a second read; and an owner's
     upgrade-to-the-same-code + migrate step inserted at random points of every history (so migration hooks that reset or touch state are seen).
     Round 10 added: weightless extra signers in a proof; signed batches of 40-300 messages; candidate signer sets of 130-300 entries with a bad last entry; a pending approval
     re-approved with other content; data sent to account-type recipients; bypass rotations by the latest set inside the delay window; deployment at ledger time 0; payloads over 128 KiB;
     calls made between `upgrade` and `migrate`; third-party tokens whose `decimals()` traps or returns a non-u32 value; zero-filled optional byte fields; strings starting with U+FEFF.
     Think adversarially about what such a tool is STILL least likely to generate or observe, for example: state that depends on the ORDER of two
     earlier independent operations; the third or later occurrence of something (third rotation, third token, third minter, third message in a batch); two different
     tokens / chains / messages whose identifiers are related (one a prefix of the other, equal after truncation, equal hash prefix); behaviour keyed on a property of an ADDRESS or
     id value (its first / last byte, parity, ordering relative to another address); a change that only shows when two specific entry points are used on the SAME
     object in a specific order (e.g. register-then-deploy vs deploy-then-register, approve-then-rotate vs rotate-then-approve, add-remove-add); interactions across two contracts where the
     change sits in the shared package (packages/axelar-soroban-std) or in the callee while the property is about the caller; amounts or counts that are exact multiples
     or sums of earlier ones (spend exactly the remaining allowance in two steps, collect exactly what two payments added); and
     the change looks like something a developer could plausibly write (an off-by-one, a reordered/dropped check, a wrong variable, a too-loose comparison, a refactoring slip), is small (a few lines), and the two changes differ in mechanism and location.

For each change k in {{1,2}} write these files into {wt}/out/m<k>/ :
  - patch.diff : output of `git diff` containing ONLY the source mutation (no demonstration files), applicable with `git apply` at the worktree's HEAD;
  - demo.rs : a self-contained Rust integration test file (to be copied to a path you name, e.g. contracts/<crate>/tests/seeded_demo.rs) with one or more #[test]s that FAIL with the mutation applied and PASS on the unchanged checkout. Confirm both directions yourself by actually running it;
  - meta.json : {{"property": "{pid}", "summary": "<one sentence: what was changed>", "needs": "<what specific input/sequence/history is needed for it to manifest>", "demo_path": "<where demo.rs must be copied, relative to the worktree root>", "demo_cmd": "<exact cargo test command to run the demo>", "suite_passes_with_mutation": true}}

When done, revert the worktree's tracked files to HEAD (git checkout -- .) and remove your demo files from the source tree (keep only {wt}/out/). Do not commit anything. Finally reply with a brief summary of the two mutations (files/lines changed, how they manifest) — the details must be in the out/ files.
""")
