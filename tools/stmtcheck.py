#!/usr/bin/env python3
"""stmtcheck.py <statements-file> <proved-file>: every theorem/def statement of the first file must occur verbatim
(modulo whitespace) in the second, and the second must contain no sorry."""
import re, sys
def stmts(src):
    out = {}
    # split at top-level 'theorem' / 'def' keywords
    for m in re.finditer(r"^(theorem|def)\s+([\w.']+)(.*?)(?=^\S|\Z)", src, re.M | re.S):
        kind, name, body = m.group(1), m.group(2), m.group(3)
        if kind == "theorem":
            # statement = up to the first ':= by' or ':=\n' that starts the proof
            k = re.search(r":=\s*(by\b|\n)", body)
            st = body[:k.start()] if k else body
        else:
            st = body
        out[name] = re.sub(r"\s+", " ", st).strip()
    return out
a = stmts(open(sys.argv[1]).read())
bsrc = open(sys.argv[2]).read()
b = stmts(bsrc)
bad = 0
for n, s in a.items():
    if n not in b:
        print("MISSING", n); bad += 1
    elif b[n] != s:
        print("CHANGED", n); print("  want:", s[:300]); print("  have:", b[n][:300]); bad += 1
nocomment = re.sub(r"/-.*?-/", "", bsrc, flags=re.S)
if re.search(r"\bsorry\b", re.sub(r"--.*", "", nocomment)):
    print("contains sorry"); bad += 1
print("ok" if not bad else f"{bad} problem(s)", len(a), "statements")
sys.exit(1 if bad else 0)
