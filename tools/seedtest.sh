#!/bin/bash
# seedtest.sh <property> <patch.diff> [tier]: apply the seeded change to /repo, run the property's check, undo.
P=$1; PATCH=$2; TIER=${3:-quick}
cd /repo && git status --short | grep -q . && { echo "/repo not clean"; exit 2; }
git -C /repo apply $PATCH || { echo "apply failed"; exit 2; }
cd /verif && ./check $P --tier $TIER | tail -3; RC=${PIPESTATUS[0]}
git -C /repo checkout -- .
echo "seedtest $P $PATCH rc=$RC"
