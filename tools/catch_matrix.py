#!/usr/bin/env python3
"""catch_matrix.py [names...]: for each seeded change, apply it to /repo, run EVERY property's quick check in parallel,
undo it, and record which checks report a violation.  Writes seeded/MATRIX.json and seeded/MATRIX.md."""
import subprocess, json, os, sys, glob, re
from concurrent.futures import ThreadPoolExecutor
V = '/verif'
props = [c['property_id'] for c in json.load(open(f'{V}/MANIFEST.json'))['checks']]
names = sys.argv[1:] or sorted(os.path.basename(os.path.dirname(p)) for p in glob.glob(f'{V}/seeded/*/patch.diff'))
out_path = f'{V}/seeded/MATRIX.json'
matrix = json.load(open(out_path)) if os.path.exists(out_path) else {}
def clean():
    return subprocess.run(['git', '-C', '/repo', 'status', '--short'], capture_output=True, text=True).stdout.strip() == ''
def run_check(p):
    r = subprocess.run([f'{V}/check', p, '--tier', 'quick'], cwd=V, capture_output=True, text=True)
    m = re.search(r'VIOLATION property=\S+ replay=\S*replay-([a-z-]+)-', r.stdout)
    return p, (m.group(1) if m else ('violation' if 'VIOLATION' in r.stdout else None))
for n in names:
    assert clean(), '/repo not clean'
    patch = f'{V}/seeded/{n}/patch.diff'
    if subprocess.run(['git', '-C', '/repo', 'apply', patch]).returncode != 0:
        print(n, 'apply failed'); continue
    try:
        # build once (the first check would do it under a lock anyway)
        subprocess.run(['cargo', 'build', '--offline'], cwd=f'{V}/harness', capture_output=True, env=dict(os.environ, CARGO_NET_OFFLINE='true'))
        with ThreadPoolExecutor(max_workers=9) as ex:
            res = dict(ex.map(run_check, props))
    finally:
        subprocess.run(['git', '-C', '/repo', 'checkout', '--', '.'])
    matrix[n] = {p: c for p, c in res.items() if c}
    print(n, matrix[n], flush=True)
    json.dump(matrix, open(out_path, 'w'), indent=1, sort_keys=True)
subprocess.run(['cargo', 'build', '--offline'], cwd=f'{V}/harness', capture_output=True, env=dict(os.environ, CARGO_NET_OFFLINE='true'))
with open(f'{V}/seeded/MATRIX.md', 'w') as f:
    f.write('| seeded change | breaks | reported by (class) |\n|---|---|---|\n')
    for n in sorted(matrix):
        meta = json.load(open(f'{V}/seeded/{n}/meta.json'))
        f.write(f"| {n} | {meta['breaks_property']} | " + ', '.join(f'{p} ({c})' for p, c in sorted(matrix[n].items())) + ' |\n')
