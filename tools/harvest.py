#!/usr/bin/env python3
"""harvest.py [names...]: for each seeded change, apply it to /repo, run the check of the property it breaks under
several seeds, undo it.  Records per-seed detection in seeded/SEEDS.json (how robust detection is to the random seed)
and stages the minimised failing trace of the first detection in runs/harvest/<property>/seeded-<name>.trace
(moved into corpus/ by hand afterwards: corpus traces are replayed first by every check, on the unchanged tree they agree)."""
import subprocess, json, os, sys, glob, re, shutil
V = '/verif'
SEEDS = [1, 2, 3]
names = sys.argv[1:] or sorted(os.path.basename(os.path.dirname(p)) for p in glob.glob(f'{V}/seeded/*/patch.diff'))
out_path = f'{V}/seeded/SEEDS.json'
res = json.load(open(out_path)) if os.path.exists(out_path) else {}
env = dict(os.environ, CARGO_NET_OFFLINE='true')
def clean():
    return subprocess.run(['git', '-C', '/repo', 'status', '--short'], capture_output=True, text=True).stdout.strip() == ''
for n in names:
    assert clean(), '/repo not clean'
    meta = json.load(open(f'{V}/seeded/{n}/meta.json'))
    pid = meta['breaks_property']
    if subprocess.run(['git', '-C', '/repo', 'apply', f'{V}/seeded/{n}/patch.diff']).returncode != 0:
        print(n, 'apply failed'); continue
    try:
        subprocess.run(['cargo', 'build', '--offline'], cwd=f'{V}/harness', capture_output=True, env=env)
        det = {}
        staged = False
        for s in SEEDS:
            r = subprocess.run([f'{V}/check', pid, '--tier', 'quick', '--seed', str(s)], cwd=V, capture_output=True, text=True)
            m = re.search(r'VIOLATION property=\S+ replay=(\S+)( no-failing-input-found)?', r.stdout)
            det[str(s)] = (os.path.basename(m.group(1)) + (m.group(2) or '')) if m else None
            if m and not m.group(2) and not staged and m.group(1).endswith('.trace') and os.path.exists(m.group(1)):
                d = f'{V}/runs/harvest/{pid}'
                os.makedirs(d, exist_ok=True)
                shutil.copy(m.group(1), f'{d}/seeded-{n}.trace')
                staged = True
    finally:
        subprocess.run(['git', '-C', '/repo', 'checkout', '--', '.'])
    res[n] = det
    print(n, pid, det, flush=True)
    json.dump(res, open(out_path, 'w'), indent=1, sort_keys=True)
subprocess.run(['cargo', 'build', '--offline'], cwd=f'{V}/harness', capture_output=True, env=env)
missed = {n: d for n, d in res.items() if not all(d.values())}
print('not detected under every seed:', json.dumps(missed, indent=1))
