#!/bin/bash
# confirm_mut.sh <incoming-dir e.g. /verif/seeded_incoming/C01/m1> : in the scratch worktree /tmp/wt/confirm
#  (1) suite passes with the mutation, (2) demo fails with it, (3) demo passes without it.
set -u
D=$1
W=/tmp/wt/confirm
export CARGO_NET_OFFLINE=true
if [ ! -d $W ]; then git -C /repo worktree add --detach $W HEAD -q; fi
cd $W && git checkout -q -- . && git clean -fdq -e target
DEMO_PATH=$(python3 -c "import json;print(json.load(open('$D/meta.json'))['demo_path'])")
DEMO_NAME=$(basename $DEMO_PATH .rs)
git apply $D/patch.diff || { echo "RESULT $D apply-failed"; exit 1; }
SUITE=$(cargo test --workspace --no-fail-fast --offline 2>&1 | grep -a -E "^test result" | awk '{p+=$4; f+=$6} END {print p"/"f}')
cp $D/demo.rs $W/$DEMO_PATH
WITH=$(cargo test --workspace --offline --test $DEMO_NAME 2>&1 | grep -a -E "^test result" | awk '{p+=$4; f+=$6} END {print p"/"f}')
git apply -R $D/patch.diff
WITHOUT=$(cargo test --workspace --offline --test $DEMO_NAME 2>&1 | grep -a -E "^test result" | awk '{p+=$4; f+=$6} END {print p"/"f}')
rm -f $W/$DEMO_PATH; git checkout -q -- . ; git clean -fdq -e target
echo "RESULT $D suite_with_mutation(pass/fail)=$SUITE demo_with=$WITH demo_without=$WITHOUT"
