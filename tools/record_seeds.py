#!/usr/bin/env python3
"""record_seeds.py <incoming-dir> <suffix> <confirm-log>...: move confirmed changes into /verif/seeded/<prop>-<suffix>-<m>/"""
import json, os, re, shutil, sys
inc, suffix, logs = sys.argv[1], sys.argv[2], sys.argv[3:]
text = "".join(open(l).read() for l in logs)
n = 0
for m in re.finditer(r"RESULT (\S+)/(C\d+)/(m\d) suite_with_mutation\(pass/fail\)=(\S+) demo_with=(\S+) demo_without=(\S+)", text):
    base, pid, mk, suite, dw, dwo = m.groups()
    src = f'{inc}/{pid}/{mk}'
    if not os.path.isdir(src):
        continue
    sp, sf = suite.split('/'); wp, wf = dw.split('/'); op, of = dwo.split('/')
    if int(sf) != 0 or int(wf) == 0 or int(of) != 0:
        print("NOT CONFIRMED", pid, mk, suite, dw, dwo); continue
    dst = f'/verif/seeded/{pid}-{suffix}-{mk}'
    os.makedirs(dst, exist_ok=True)
    shutil.copy(f'{src}/patch.diff', f'{dst}/patch.diff'); shutil.copy(f'{src}/demo.rs', f'{dst}/demo.rs')
    meta = json.load(open(f'{src}/meta.json'))
    json.dump({
        "breaks_property": pid, "summary": meta.get("summary"), "needs_to_manifest": meta.get("needs"),
        "demo_path": meta.get("demo_path"), "demo_cmd": meta.get("demo_cmd"),
        "origin": "written by an independent sub-agent given only the property text and a scratch worktree (second round, asked for less obvious sites)",
        "confirmed_by_me": {"how": "tools/confirm_mut.sh in a scratch worktree of /repo HEAD: apply patch, run the whole suite, copy demo, run it, revert patch, run it again",
                            "existing_suite_with_change_pass_fail": suite, "demo_with_change_pass_fail": dw, "demo_without_change_pass_fail": dwo}},
        open(f'{dst}/meta.json', 'w'), indent=1)
    n += 1
print(n, "recorded")
