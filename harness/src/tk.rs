//! Token world: the native InterchainToken built from /repo's current tree.
#![allow(dead_code)]
use crate::common::*;
use interchain_token::{InterchainToken, InterchainTokenClient};
use soroban_sdk::testutils::Ledger as _;
use soroban_sdk::{Address, BytesN, Env, IntoVal, Val, Vec as SVec};
use soroban_token_sdk::metadata::TokenMetadata;

pub struct TkWorld {
    pub env: Env,
    pub tk: Option<Address>,
    pub cursor: usize,
    /// run the CHECKED-IN wasm blob (what ITS deploys in this repository) instead of the native contract
    pub blob: bool,
}

const TOKEN_WASM: &[u8] = include_bytes!("/repo/contracts/interchain-token-service/tests/testdata/interchain_token.wasm");

type R<T, E, F> = Result<Result<Result<T, E>, Result<F, soroban_sdk::InvokeError>>, String>;

impl TkWorld {
    pub fn new() -> Self {
        TkWorld { env: new_env(), tk: None, cursor: 0, blob: false }
    }
    fn client(&self) -> InterchainTokenClient<'static> {
        InterchainTokenClient::new(&self.env, self.tk.as_ref().expect("token not constructed"))
    }
    fn events(&mut self) -> String {
        match &self.tk {
            Some(g) => new_events(&self.env, &mut self.cursor, &[g.clone()]),
            None => String::new(),
        }
    }
    fn fin<T, E: core::fmt::Debug, F: core::fmt::Debug>(&mut self, r: R<T, E, F>, show: impl Fn(&T) -> String) -> (String, String) {
        let ev = self.events();
        match r {
            Ok(Ok(Ok(v))) => (format!("ok{}{ev}", show(&v)), String::new()),
            Ok(Ok(Err(e))) => ("err".into(), short_err(&format!("conv:{e:?}"))),
            Ok(Err(Ok(e))) => ("err".into(), short_err(&format!("{e:?}"))),
            Ok(Err(Err(e))) => ("err".into(), short_err(&format!("host:{e:?}"))),
            Err(p) => ("err".into(), short_err(&format!("panic:{p}"))),
        }
    }

    pub fn exec(&mut self, t: &[&str]) -> (String, String) {
        let env = self.env.clone();
        let unit = |_: &()| String::new();
        match t[0] {
            "time" => {
                env.ledger().set_timestamp(pu64(t[1]));
                env.ledger().set_sequence_number(pu32(t[2]));
                ("ok".into(), String::new())
            }
            "probe_extra" => {
                // probe_extra <addresses> <tokens>: every exported function of the contract that the model does not know is
                // called without any authorisation (none exists on the unchanged tree apart from the `todo!()` stubs of the
                // token); whatever it does, the modelled state must not change — the following queries show it
                let known: [&str; 21] = ["__constructor", "set_admin", "admin", "mint", "token_id", "is_minter", "mint_from", "add_minter", "remove_minter", "allowance", "approve", "balance", "transfer", "transfer_from", "burn", "burn_from", "decimals", "name", "symbol", "owner", "transfer_ownership"];
                let addrs: Vec<Address> = t[1].split(',').filter(|x| !x.is_empty() && *x != "-").map(|x| Addr::parse(x).sdk(&env)).collect();
                let toks: Vec<(Address, i128)> = t[2].split(',').filter(|x| !x.is_empty() && *x != "-").map(|x| (Addr::parse(x).sdk(&env), 1i128)).collect();
                let mut names = vec![];
                if let Some(c) = self.tk.clone() {
                    names = probe_unknown_entry_points(&env, &c, "/repo/contracts/interchain-token/src/contract.rs", &known, &addrs, &toks);
                }
                let _ = self.events();
                ("ok".into(), format!("probed={}", names.join(",")))
            }
            "tk.new" => {
                let addr = Addr::parse(t[1]).sdk(&env);
                let owner = Addr::parse(t[2]).sdk(&env);
                let minter: Option<Address> = if t[3] == "-" { None } else { Some(Addr::parse(t[3]).sdk(&env)) };
                let token_id: BytesN<32> = b32(&env, &unhx32(t[4]));
                let md = TokenMetadata { name: sstr(&env, &unhx(t[5])), symbol: sstr(&env, &unhx(t[6])), decimal: pu32(t[7]) };
                let blob = self.blob;
                let r = guarded(|| {
                    if blob {
                        env.register_at(&addr, TOKEN_WASM, (owner, minter, token_id, md));
                    } else {
                        env.register_at(&addr, InterchainToken, (owner, minter, token_id, md));
                    }
                });
                match r {
                    Ok(()) => {
                        self.tk = Some(addr);
                        let ev = self.events();
                        (format!("ok{ev}"), String::new())
                    }
                    Err(e) => {
                        use soroban_sdk::testutils::Events as _;
                        self.cursor = env.events().all().len() as usize;
                        ("err".into(), short_err(&e))
                    }
                }
            }
            "tk.maxlive" => (format!("ok u{}", env.storage().max_ttl()), String::new()),
            _ if self.tk.is_none() => ("err".into(), "no-token".into()),
            "tk.mint_from" => {
                let (m, to, a) = (Addr::parse(t[1]).sdk(&env), Addr::parse(t[2]).sdk(&env), pi128(t[3]));
                let args: SVec<Val> = (m.clone(), to.clone(), a).into_val(&env);
                let wrong: SVec<Val> = (m.clone(), to.clone(), a.wrapping_add(1)).into_val(&env);
                install_auth(&env, &AuthSpec::parse(t[4]), self.tk.as_ref().unwrap(), "mint_from", args, wrong);
                let r = guarded(|| self.client().try_mint_from(&m, &to, &a));
                self.fin(r, unit)
            }
            "tk.mint" => {
                let (to, a) = (Addr::parse(t[1]).sdk(&env), pi128(t[2]));
                let args: SVec<Val> = (to.clone(), a).into_val(&env);
                let wrong: SVec<Val> = (to.clone(), a.wrapping_add(1)).into_val(&env);
                install_auth(&env, &AuthSpec::parse(t[3]), self.tk.as_ref().unwrap(), "mint", args, wrong);
                let r = guarded(|| self.client().try_mint(&to, &a));
                self.fin(r, unit)
            }
            "tk.add_minter" | "tk.remove_minter" => {
                let m = Addr::parse(t[1]).sdk(&env);
                let args: SVec<Val> = (m.clone(),).into_val(&env);
                let wrong: SVec<Val> = (self.tk.clone().unwrap(),).into_val(&env);
                let f = &t[0][3..];
                install_auth(&env, &AuthSpec::parse(t[2]), self.tk.as_ref().unwrap(), f, args, wrong);
                let r = if f == "add_minter" { guarded(|| self.client().try_add_minter(&m)) } else { guarded(|| self.client().try_remove_minter(&m)) };
                self.fin(r, unit)
            }
            "tk.approve" => {
                let (f, s, a, e) = (Addr::parse(t[1]).sdk(&env), Addr::parse(t[2]).sdk(&env), pi128(t[3]), pu32(t[4]));
                let args: SVec<Val> = (f.clone(), s.clone(), a, e).into_val(&env);
                let wrong: SVec<Val> = (f.clone(), s.clone(), a.wrapping_add(1), e).into_val(&env);
                install_auth(&env, &AuthSpec::parse(t[5]), self.tk.as_ref().unwrap(), "approve", args, wrong);
                let r = guarded(|| self.client().try_approve(&f, &s, &a, &e));
                self.fin(r, unit)
            }
            "tk.transfer" => {
                let (f, to, a) = (Addr::parse(t[1]).sdk(&env), Addr::parse(t[2]).sdk(&env), pi128(t[3]));
                let args: SVec<Val> = (f.clone(), to.clone(), a).into_val(&env);
                let wrong: SVec<Val> = (f.clone(), to.clone(), a.wrapping_add(1)).into_val(&env);
                install_auth(&env, &AuthSpec::parse(t[4]), self.tk.as_ref().unwrap(), "transfer", args, wrong);
                let r = guarded(|| self.client().try_transfer(&f, &to, &a));
                self.fin(r, unit)
            }
            "tk.transfer_from" => {
                let (s, f, to, a) = (Addr::parse(t[1]).sdk(&env), Addr::parse(t[2]).sdk(&env), Addr::parse(t[3]).sdk(&env), pi128(t[4]));
                let args: SVec<Val> = (s.clone(), f.clone(), to.clone(), a).into_val(&env);
                let wrong: SVec<Val> = (s.clone(), f.clone(), to.clone(), a.wrapping_add(1)).into_val(&env);
                install_auth(&env, &AuthSpec::parse(t[5]), self.tk.as_ref().unwrap(), "transfer_from", args, wrong);
                let r = guarded(|| self.client().try_transfer_from(&s, &f, &to, &a));
                self.fin(r, unit)
            }
            "tk.burn" => {
                let (f, a) = (Addr::parse(t[1]).sdk(&env), pi128(t[2]));
                let args: SVec<Val> = (f.clone(), a).into_val(&env);
                let wrong: SVec<Val> = (f.clone(), a.wrapping_add(1)).into_val(&env);
                install_auth(&env, &AuthSpec::parse(t[3]), self.tk.as_ref().unwrap(), "burn", args, wrong);
                let r = guarded(|| self.client().try_burn(&f, &a));
                self.fin(r, unit)
            }
            "tk.burn_from" => {
                let (s, f, a) = (Addr::parse(t[1]).sdk(&env), Addr::parse(t[2]).sdk(&env), pi128(t[3]));
                let args: SVec<Val> = (s.clone(), f.clone(), a).into_val(&env);
                let wrong: SVec<Val> = (s.clone(), f.clone(), a.wrapping_add(1)).into_val(&env);
                install_auth(&env, &AuthSpec::parse(t[4]), self.tk.as_ref().unwrap(), "burn_from", args, wrong);
                let r = guarded(|| self.client().try_burn_from(&s, &f, &a));
                self.fin(r, unit)
            }
            "tk.transfer_ownership" | "tk.set_admin" => {
                let n = Addr::parse(t[1]).sdk(&env);
                let args: SVec<Val> = (n.clone(),).into_val(&env);
                let wrong: SVec<Val> = (self.tk.clone().unwrap(),).into_val(&env);
                let f = &t[0][3..];
                install_auth(&env, &AuthSpec::parse(t[2]), self.tk.as_ref().unwrap(), f, args, wrong);
                let r = if f == "set_admin" { guarded(|| self.client().try_set_admin(&n)) } else { guarded(|| self.client().try_transfer_ownership(&n)) };
                self.fin(r, unit)
            }
            "tk.balance" => {
                let a = Addr::parse(t[1]).sdk(&env);
                let r = guarded(|| self.client().try_balance(&a));
                self.fin(r, |v: &i128| format!(" X{v}"))
            }
            "tk.allowance" => {
                let (f, s) = (Addr::parse(t[1]).sdk(&env), Addr::parse(t[2]).sdk(&env));
                let r = guarded(|| self.client().try_allowance(&f, &s));
                self.fin(r, |v: &i128| format!(" X{v}"))
            }
            "tk.token_id" => {
                let r = guarded(|| self.client().try_token_id());
                self.fin(r, |v: &BytesN<32>| format!(" x{}", hex::encode(v.to_array())))
            }
            "tk.upgrade_migrate" => {
                let tk = self.tk.clone().unwrap();
                let r = upgrade_migrate(&env, &tk, t[1]);
                let _ = self.events();
                r
            }
            "tk.owner" => {
                let r = guarded(|| self.client().try_owner());
                self.fin(r, |v: &Address| format!(" {}", Addr::from_sdk(v).tok()))
            }
            "tk.admin" => {
                let r = guarded(|| self.client().try_admin());
                self.fin(r, |v: &Address| format!(" {}", Addr::from_sdk(v).tok()))
            }
            "tk.is_minter" => {
                let a = Addr::parse(t[1]).sdk(&env);
                let r = guarded(|| self.client().try_is_minter(&a));
                self.fin(r, |v: &bool| format!(" b{}", *v as u8))
            }
            other => panic!("unknown token op {other}"),
        }
    }
}
