//! ITS world: real gateway + gas service + InterchainTokenService (deploying the checked-in token wasm),
//! real asset contracts, a custom token with configurable metadata, and a recipient application.
#![allow(dead_code)]
use crate::common::*;
use crate::gs::sac_exec;
use crate::gw::GwWorld;
use axelar_gas_service::AxelarGasService;
use axelar_soroban_std::types::Token;
use interchain_token::InterchainTokenClient;
use interchain_token_service::executable::InterchainTokenExecutableInterface;
use interchain_token_service::types::{DeployInterchainToken, HubMessage, InterchainTransfer, Message, TokenManagerType};
use interchain_token_service::{InterchainTokenService, InterchainTokenServiceClient};
use soroban_sdk::token::TokenClient;
use soroban_sdk::xdr::ToXdr;
use soroban_sdk::{contract, contractimpl, symbol_short, Address, Bytes, BytesN, Env, IntoVal, String as SString, Symbol, Val, Vec as SVec};
use soroban_token_sdk::metadata::TokenMetadata;

const TOKEN_WASM: &[u8] = include_bytes!("/repo/contracts/interchain-token-service/tests/testdata/interchain_token.wasm");

pub mod custom {
    use soroban_sdk::{contract, contractimpl, symbol_short, Address, Bytes, BytesN, Env, String as SString};
    /// third-party token with arbitrary metadata (decimals may exceed 255), balances and authorised transfers
    #[contract]
    pub struct CustomToken;
    #[contractimpl]
    impl CustomToken {
        pub fn __constructor(env: Env, name: SString, symbol: SString, decimals: u32) {
            env.storage().instance().set(&symbol_short!("name"), &name);
            env.storage().instance().set(&symbol_short!("symbol"), &symbol);
            env.storage().instance().set(&symbol_short!("decimals"), &decimals);
        }
        /// a token whose answers CHANGE: after `set_alt`, each metadata getter gives its constructor value the first time it is
        /// asked after `arm` and the alternative value every further time (a caller that reads once never notices)
        pub fn set_alt(env: Env, name: SString, symbol: SString, decimals: u32) {
            env.storage().instance().set(&symbol_short!("altname"), &name);
            env.storage().instance().set(&symbol_short!("altsym"), &symbol);
            env.storage().instance().set(&symbol_short!("altdec"), &decimals);
        }
        pub fn arm(env: Env) {
            for k in [symbol_short!("rname"), symbol_short!("rsym"), symbol_short!("rdec")] {
                env.storage().instance().set(&k, &0u32);
            }
        }
        fn nth_read(env: &Env, k: soroban_sdk::Symbol) -> u32 {
            let n: u32 = env.storage().instance().get(&k).unwrap_or(0);
            env.storage().instance().set(&k, &(n + 1));
            n
        }
        pub fn name(env: Env) -> SString {
            let n = Self::nth_read(&env, symbol_short!("rname"));
            match env.storage().instance().get::<_, SString>(&symbol_short!("altname")) {
                Some(alt) if n >= 1 => alt,
                _ => env.storage().instance().get(&symbol_short!("name")).unwrap(),
            }
        }
        pub fn symbol(env: Env) -> SString {
            let n = Self::nth_read(&env, symbol_short!("rsym"));
            match env.storage().instance().get::<_, SString>(&symbol_short!("altsym")) {
                Some(alt) if n >= 1 => alt,
                _ => env.storage().instance().get(&symbol_short!("symbol")).unwrap(),
            }
        }
        /// from now on `decimals()` cannot be read: mode 1 traps, mode 2 answers with a value that is no u32
        pub fn set_broken(env: Env, mode: u32) {
            env.storage().instance().set(&symbol_short!("broken"), &mode);
        }
        pub fn decimals(env: Env) -> soroban_sdk::Val {
            use soroban_sdk::IntoVal;
            match env.storage().instance().get::<_, u32>(&symbol_short!("broken")) {
                Some(1) => panic!("decimals unavailable"),
                Some(_) => return (-7i128).into_val(&env),
                None => {}
            }
            Self::decimals_u32(env.clone()).into_val(&env)
        }
        fn decimals_u32(env: Env) -> u32 {
            let n = Self::nth_read(&env, symbol_short!("rdec"));
            match env.storage().instance().get::<_, u32>(&symbol_short!("altdec")) {
                Some(alt) if n >= 1 => alt,
                _ => env.storage().instance().get(&symbol_short!("decimals")).unwrap(),
            }
        }
        pub fn balance(env: Env, id: Address) -> i128 {
            env.storage().persistent().get(&id).unwrap_or(0)
        }
        pub fn mint(env: Env, to: Address, amount: i128) {
            let b: i128 = env.storage().persistent().get(&to).unwrap_or(0);
            env.storage().persistent().set(&to, &(b + amount));
        }
        pub fn transfer(env: Env, from: Address, to: Address, amount: i128) {
            from.require_auth();
            if amount < 0 {
                panic!("negative amount");
            }
            let fb: i128 = env.storage().persistent().get(&from).unwrap_or(0);
            if fb < amount {
                panic!("insufficient balance");
            }
            env.storage().persistent().set(&from, &(fb - amount));
            let tb: i128 = env.storage().persistent().get(&to).unwrap_or(0);
            env.storage().persistent().set(&to, &(tb + amount));
        }
    }


}
pub use custom::{CustomToken, CustomTokenClient};

/// tell a harness token (if it is one) that a new reader begins: the next read of each metadata getter is a "first" read
pub fn arm_token(env: &Env, token: &Address) {
    let _ = guarded(|| env.try_invoke_contract::<soroban_sdk::Val, soroban_sdk::Error>(token, &soroban_sdk::Symbol::new(env, "arm"), soroban_sdk::Vec::new(env)));
}

pub mod recv {
    use soroban_sdk::{contract, contractimpl, symbol_short, Address, Bytes, BytesN, Env, String as SString};
    use interchain_token_service::executable::InterchainTokenExecutableInterface;
    /// recipient application for transfers with data
    #[contract]
    pub struct RecvApp;
    #[contractimpl]
    impl InterchainTokenExecutableInterface for RecvApp {
        fn interchain_token_service(env: &Env) -> Address {
            env.storage().instance().get(&symbol_short!("its")).unwrap()
        }
        fn execute_with_interchain_token(env: &Env, source_chain: SString, message_id: SString, source_address: Bytes, payload: Bytes, token_id: BytesN<32>, token_address: Address, amount: i128) {
            Self::validate(env);
            // publish exactly what the service handed over (compared with the model's `evAppExecuted`)
            env.events().publish((symbol_short!("recv_exec"),), (source_chain, message_id, source_address, payload.clone(), token_id, token_address, amount));
            let n: u32 = env.storage().instance().get(&symbol_short!("count")).unwrap_or(0);
            env.storage().instance().set(&symbol_short!("count"), &(n + 1));
            env.storage().instance().set(&symbol_short!("last"), &(payload, amount));
        }
    }
    #[contractimpl]
    impl RecvApp {
        pub fn __constructor(env: Env, its: Address) {
            env.storage().instance().set(&symbol_short!("its"), &its);
        }
        pub fn count(env: Env) -> u32 {
            env.storage().instance().get(&symbol_short!("count")).unwrap_or(0)
        }
    }


}
pub use recv::{RecvApp, RecvAppClient};

fn source_const(name: &str) -> String {
    // constants the model depends on are extracted from the source text on every run
    let src = std::fs::read_to_string("/repo/contracts/interchain-token-service/src/contract.rs").unwrap_or_default();
    for line in src.lines() {
        let l = line.trim();
        if l.starts_with("const ") && l.contains(name) {
            if let Some(i) = l.find('"') {
                if let Some(j) = l[i + 1..].find('"') {
                    return l[i + 1..i + 1 + j].to_string();
                }
            }
        }
    }
    String::new()
}

pub struct ItsWorld {
    pub recv_apps: Vec<Address>,
    pub gw: GwWorld,
    pub its: Option<Address>,
    pub gs: Option<Address>,
    pub hub_chain: Vec<u8>,
    pub hub_addr: Vec<u8>,
}

type R<T, E, F> = Result<Result<Result<T, E>, Result<F, soroban_sdk::InvokeError>>, String>;

impl ItsWorld {
    pub fn new() -> Self {
        ItsWorld { recv_apps: vec![], gw: GwWorld::new(), its: None, gs: None, hub_chain: vec![], hub_addr: vec![] }
    }
    fn client(&self) -> InterchainTokenServiceClient<'static> {
        InterchainTokenServiceClient::new(&self.gw.env, self.its.as_ref().expect("its not constructed"))
    }
    fn events(&mut self) -> String {
        let mut watch = vec![];
        for a in [&self.its, &self.gw.gw, &self.gs].into_iter().flatten() {
            watch.push(a.clone());
        }
        // recipient applications publish what they were handed
        watch.extend(self.recv_apps.iter().cloned());
        if watch.len() < 3 {
            watch.push(Addr::c(255).sdk(&self.gw.env)); // keep the `E@addr` form
            watch.push(Addr::c(254).sdk(&self.gw.env));
        }
        new_events(&self.gw.env, &mut self.gw.cursor, &watch)
    }
    fn fin<T, E: core::fmt::Debug, F: core::fmt::Debug>(&mut self, r: R<T, E, F>, show: impl Fn(&T) -> String) -> (String, String) {
        let ev = self.events();
        match r {
            Ok(Ok(Ok(v))) => (format!("ok{}{ev}", show(&v)), String::new()),
            Ok(Ok(Err(e))) => ("err".into(), short_err(&format!("conv:{e:?}"))),
            Ok(Err(Ok(e))) => ("err".into(), short_err(&format!("{e:?}"))),
            Ok(Err(Err(e))) => ("err".into(), short_err(&format!("host:{e:?}"))),
            Err(p) => ("err".into(), short_err(&format!("panic:{p}"))),
        }
    }
    /// the hub payload the service will send for `message` to `dest` (needed as an argument of the gas-payment authorisation)
    fn hub_payload(&self, dest: &SString, message: Message) -> Option<Bytes> {
        let env = &self.gw.env;
        guarded(|| HubMessage::SendToHub { destination_chain: dest.clone(), message }.abi_encode(env)).ok().and_then(|r| r.ok())
    }
    fn pay_gas_tree(&self, payload: &Bytes, spender: &Address, gas: &Token) -> Inv {
        let env = &self.gw.env;
        let gs = self.gs.clone().unwrap();
        let its = self.its.clone().unwrap();
        let xfer = Inv::new(&gas.address, "transfer", (spender.clone(), gs.clone(), gas.amount).into_val(env), vec![]);
        Inv::new(
            &gs,
            "pay_gas",
            (its, sstr(env, &self.hub_chain), sstr(env, &self.hub_addr), payload.clone(), spender.clone(), gas.clone(), Bytes::new(env)).into_val(env),
            vec![xfer],
        )
    }

    pub fn exec(&mut self, t: &[&str]) -> (String, String) {
        let env = self.gw.env.clone();
        if t[0].starts_with("gw.") || t[0] == "time" || t[0] == "tick" {
            return self.gw.exec(t);
        }
        if let Some(r) = sac_exec(&env, t) {
            let _ = self.events();
            return r;
        }
        let bn = |_: &BytesN<32>| String::new();
        let _ = bn;
        match t[0] {
            "probe_extra" => {
                // see gw.rs: exported functions unknown to the model, called without any authorisation
                let known: [&str; 21] = ["__constructor", "chain_name", "gas_service", "interchain_token_wasm_hash", "its_hub_address", "its_hub_chain_name", "is_trusted_chain", "set_trusted_chain", "remove_trusted_chain", "interchain_token_deploy_salt", "interchain_token_id", "canonical_token_deploy_salt", "token_address", "token_manager_type", "deploy_interchain_token", "deploy_remote_interchain_token", "deploy_remote_canonical_token", "interchain_transfer", "register_canonical_token", "gateway", "execute"];
                let addrs: Vec<Address> = t[1].split(',').filter(|x| !x.is_empty() && *x != "-").map(|x| Addr::parse(x).sdk(&env)).collect();
                let toks: Vec<(Address, i128)> = t[2].split(',').filter(|x| !x.is_empty() && *x != "-").map(|x| (Addr::parse(x).sdk(&env), 1i128)).collect();
                let mut names = vec![];
                if let Some(c) = self.its.clone() {
                    names = probe_unknown_entry_points(&env, &c, "/repo/contracts/interchain-token-service/src/contract.rs", &known, &addrs, &toks);
                }
                let _ = self.events();
                ("ok".into(), format!("probed={}", names.join(",")))
            }
            "its.new" => {
                // its.new <its> <owner> <gas-service> <hub-address> <chain-name>     (gateway must exist)
                let gw = self.gw.gw.clone().expect("gateway first");
                let its = Addr::parse(t[1]).sdk(&env);
                let owner = Addr::parse(t[2]).sdk(&env);
                let gs = Addr::parse(t[3]).sdk(&env);
                let hub_addr = unhx(t[4]);
                let chain = unhx(t[5]);
                env.register_at(&gs, AxelarGasService, (Addr::c(1).sdk(&env), Addr::c(2).sdk(&env)));
                let wasm_hash = env.deployer().upload_contract_wasm(TOKEN_WASM);
                env.register_at(&its, InterchainTokenService, (owner, gw, gs.clone(), sstr(&env, &hub_addr), sstr(&env, &chain), wasm_hash));
                self.its = Some(its);
                self.gs = Some(gs);
                self.hub_addr = hub_addr;
                self.hub_chain = sstr_bytes(&self.client().its_hub_chain_name());
                let _ = self.events();
                let net = env.ledger().network_id().to_array();
                (
                    format!(
                        "ok hub={} pid={} psalt={} pcanon={} net={}",
                        hx(&self.hub_chain),
                        hx(source_const("PREFIX_INTERCHAIN_TOKEN_ID").as_bytes()),
                        hx(source_const("PREFIX_INTERCHAIN_TOKEN_SALT").as_bytes()),
                        hx(source_const("PREFIX_CANONICAL_TOKEN_SALT").as_bytes()),
                        hex::encode(net)
                    ),
                    String::new(),
                )
            }
            "ctok.new" => {
                let a = Addr::parse(t[1]).sdk(&env);
                env.register_at(&a, CustomToken, (sstr(&env, &unhx(t[2])), sstr(&env, &unhx(t[3])), pu32(t[4])));
                let _ = self.events();
                ("ok".into(), String::new())
            }
            "ctok.shifty" => {
                // ctok.shifty <addr> <altname> <altsymbol> <altdecimals>: from now on the token changes its answers on re-reading
                let a = Addr::parse(t[1]).sdk(&env);
                CustomTokenClient::new(&env, &a).set_alt(&sstr(&env, &unhx(t[2])), &sstr(&env, &unhx(t[3])), &pu32(t[4]));
                let _ = self.events();
                ("ok".into(), String::new())
            }
            "ctok.break" => {
                // ctok.break <addr> <mode>: the token's `decimals()` traps (1) or answers with a non-u32 value (2) from now on
                let a = Addr::parse(t[1]).sdk(&env);
                CustomTokenClient::new(&env, &a).set_broken(&pu32(t[2]));
                let _ = self.events();
                ("ok".into(), String::new())
            }
            "ctok.mint" => {
                let a = Addr::parse(t[1]).sdk(&env);
                CustomTokenClient::new(&env, &a).mint(&Addr::parse(t[2]).sdk(&env), &pi128(t[3]));
                let _ = self.events();
                ("ok".into(), String::new())
            }
            "recv.new" => {
                let a = Addr::parse(t[1]).sdk(&env);
                env.register_at(&a, RecvApp, (self.its.clone().unwrap(),));
                self.recv_apps.push(a.clone());
                let _ = self.events();
                ("ok".into(), String::new())
            }
            "recv.count" => {
                let a = Addr::parse(t[1]).sdk(&env);
                (format!("ok u{}", RecvAppClient::new(&env, &a).count()), String::new())
            }
            // ---- generic token reads / user moves (any token contract)
            "tok.balance" => {
                let tk = Addr::parse(t[1]).sdk(&env);
                let who = Addr::parse(t[2]).sdk(&env);
                match guarded(|| TokenClient::new(&env, &tk).try_balance(&who)) {
                    Ok(Ok(Ok(b))) => (format!("ok X{b}"), String::new()),
                    other => ("err".into(), short_err(&format!("{other:?}"))),
                }
            }
            "tok.meta" => {
                let tk = Addr::parse(t[1]).sdk(&env);
                arm_token(&env, &tk);
                let c = TokenClient::new(&env, &tk);
                match guarded(|| (c.name(), c.symbol(), c.decimals())) {
                    Ok((n, s, d)) => (format!("ok s{} s{} u{}", hx(&sstr_bytes(&n)), hx(&sstr_bytes(&s)), d), String::new()),
                    Err(e) => ("err".into(), short_err(&e)),
                }
            }
            "tok.owner" => {
                let tk = Addr::parse(t[1]).sdk(&env);
                match guarded(|| InterchainTokenClient::new(&env, &tk).try_owner()) {
                    Ok(Ok(Ok(a))) => (format!("ok {}", Addr::from_sdk(&a).tok()), String::new()),
                    other => ("err".into(), short_err(&format!("{other:?}"))),
                }
            }
            "tok.is_minter" => {
                let tk = Addr::parse(t[1]).sdk(&env);
                let a = Addr::parse(t[2]).sdk(&env);
                match guarded(|| InterchainTokenClient::new(&env, &tk).try_is_minter(&a)) {
                    Ok(Ok(Ok(b))) => (format!("ok b{}", b as u8), String::new()),
                    other => ("err".into(), short_err(&format!("{other:?}"))),
                }
            }
            "tok.token_id" => {
                let tk = Addr::parse(t[1]).sdk(&env);
                match guarded(|| InterchainTokenClient::new(&env, &tk).try_token_id()) {
                    Ok(Ok(Ok(b))) => (format!("ok x{}", hex::encode(b.to_array())), String::new()),
                    other => ("err".into(), short_err(&format!("{other:?}"))),
                }
            }
            "tok.transfer" => {
                let tk = Addr::parse(t[1]).sdk(&env);
                let (f, to, a) = (Addr::parse(t[2]).sdk(&env), Addr::parse(t[3]).sdk(&env), pi128(t[4]));
                let tree = Inv::new(&tk, "transfer", (f.clone(), to.clone(), a).into_val(&env), vec![]);
                install_auth_tree(&env, t[5], &tree, (f.clone(), to.clone(), a.wrapping_add(1)).into_val(&env));
                let r = guarded(|| TokenClient::new(&env, &tk).try_transfer(&f, &to, &a));
                let _ = self.events();
                match r {
                    Ok(Ok(Ok(()))) => ("ok".into(), String::new()),
                    other => ("err".into(), short_err(&format!("{other:?}"))),
                }
            }
            "tok.mint_from" => {
                let tk = Addr::parse(t[1]).sdk(&env);
                let (m, to, a) = (Addr::parse(t[2]).sdk(&env), Addr::parse(t[3]).sdk(&env), pi128(t[4]));
                let tree = Inv::new(&tk, "mint_from", (m.clone(), to.clone(), a).into_val(&env), vec![]);
                install_auth_tree(&env, t[5], &tree, (m.clone(), to.clone(), a.wrapping_add(1)).into_val(&env));
                let r = guarded(|| InterchainTokenClient::new(&env, &tk).try_mint_from(&m, &to, &a));
                let _ = self.events();
                match r {
                    Ok(Ok(Ok(()))) => ("ok".into(), String::new()),
                    other => ("err".into(), short_err(&format!("{other:?}"))),
                }
            }
            _ if self.its.is_none() => ("err".into(), "no-its".into()),
            "its.set_trusted" | "its.remove_trusted" => {
                let its = self.its.clone().unwrap();
                let c = sstr(&env, &unhx(t[1]));
                let f = if t[0] == "its.set_trusted" { "set_trusted_chain" } else { "remove_trusted_chain" };
                let tree = Inv::new(&its, f, (c.clone(),).into_val(&env), vec![]);
                install_auth_tree(&env, t[2], &tree, (sstr(&env, b"other-chain"),).into_val(&env));
                let r = if t[0] == "its.set_trusted" { guarded(|| self.client().try_set_trusted_chain(&c)) } else { guarded(|| self.client().try_remove_trusted_chain(&c)) };
                self.fin(r, |_| String::new())
            }
            "its.transfer_ownership" => {
                let its = self.its.clone().unwrap();
                let n = Addr::parse(t[1]).sdk(&env);
                let tree = Inv::new(&its, "transfer_ownership", (n.clone(),).into_val(&env), vec![]);
                install_auth_tree(&env, t[2], &tree, (its.clone(),).into_val(&env));
                let r = guarded(|| self.client().try_transfer_ownership(&n));
                self.fin(r, |_| String::new())
            }
            "its.upgrade_migrate" => {
                let its = self.its.clone().unwrap();
                let r = upgrade_migrate(&env, &its, t[1]);
                let _ = self.events();
                r
            }
            "its.owner" => {
                let r = guarded(|| self.client().try_owner());
                self.fin(r, |v: &Address| format!(" {}", Addr::from_sdk(v).tok()))
            }
            "its.is_trusted" => {
                let r = guarded(|| self.client().try_is_trusted_chain(&sstr(&env, &unhx(t[1]))));
                self.fin(r, |v: &bool| format!(" b{}", *v as u8))
            }
            "its.deploy" => {
                // its.deploy <caller> <salt> <name> <symbol> <decimals> <supply> <minter|-> <auth>
                let its = self.its.clone().unwrap();
                let caller = Addr::parse(t[1]).sdk(&env);
                let salt = b32(&env, &unhx32(t[2]));
                let md = TokenMetadata { name: sstr(&env, &unhx(t[3])), symbol: sstr(&env, &unhx(t[4])), decimal: pu32(t[5]) };
                let supply = pi128(t[6]);
                let minter: Option<Address> = if t[7] == "-" { None } else { Some(Addr::parse(t[7]).sdk(&env)) };
                let args: SVec<Val> = (caller.clone(), salt.clone(), md.clone(), supply, minter.clone()).into_val(&env);
                let wrong: SVec<Val> = (caller.clone(), salt.clone(), md.clone(), supply.wrapping_add(1), minter.clone()).into_val(&env);
                let tree = Inv::new(&its, "deploy_interchain_token", args, vec![]);
                install_auth_tree(&env, t[8], &tree, wrong);
                let r = guarded(|| self.client().try_deploy_interchain_token(&caller, &salt, &md, &supply, &minter));
                self.fin(r, |v: &BytesN<32>| format!(" x{}", hex::encode(v.to_array())))
            }
            "its.register_canonical" => {
                let tk = Addr::parse(t[1]).sdk(&env);
                env.set_auths(&[]);
                let r = guarded(|| self.client().try_register_canonical_token(&tk));
                self.fin(r, |v: &BytesN<32>| format!(" x{}", hex::encode(v.to_array())))
            }
            "its.deploy_remote" => {
                // its.deploy_remote <caller> <salt> <dest> <gastoken> <gasamount> <auth>
                let its = self.its.clone().unwrap();
                let caller = Addr::parse(t[1]).sdk(&env);
                let salt = b32(&env, &unhx32(t[2]));
                let dest = sstr(&env, &unhx(t[3]));
                let gas = Token { address: Addr::parse(t[4]).sdk(&env), amount: pi128(t[5]) };
                // what the service will announce: the registered token's own metadata
                let mut subs = vec![];
                if let Ok(Ok(Ok(tid))) = guarded(|| {
                    let ds = self.client().interchain_token_deploy_salt(&caller, &salt);
                    self.client().try_interchain_token_id(&Address::from_string(&SString::from_str(&env, "GAAAAAAAAAAAAAAAAAAAAAAAAAAAAAAAAAAAAAAAAAAAAAAAAAAAAWHF")), &ds)
                }) {
                    if let Ok(Ok(Ok(taddr))) = guarded(|| self.client().try_token_address(&tid)) {
                        let tc = TokenClient::new(&env, &taddr);
                        if let Ok((n, s, d)) = guarded(|| (tc.name(), tc.symbol(), tc.decimals())) {
                            let msg = Message::DeployInterchainToken(DeployInterchainToken { token_id: tid, name: n, symbol: s, decimals: d as u8, minter: None });
                            if let Some(p) = self.hub_payload(&dest, msg) {
                                subs.push(self.pay_gas_tree(&p, &caller, &gas));
                            }
                        }
                    }
                }
                let args: SVec<Val> = (caller.clone(), salt.clone(), dest.clone(), gas.clone()).into_val(&env);
                let wrong: SVec<Val> = (caller.clone(), salt.clone(), sstr(&env, b"elsewhere"), gas.clone()).into_val(&env);
                let tree = Inv::new(&its, "deploy_remote_interchain_token", args, subs);
                install_auth_tree(&env, t[6], &tree, wrong);
                let r = guarded(|| self.client().try_deploy_remote_interchain_token(&caller, &salt, &dest, &gas));
                self.fin(r, |v: &BytesN<32>| format!(" x{}", hex::encode(v.to_array())))
            }
            "its.deploy_remote_canonical" => {
                // its.deploy_remote_canonical <token> <dest> <spender> <gastoken> <gasamount> <auth>
                let tk = Addr::parse(t[1]).sdk(&env);
                let dest = sstr(&env, &unhx(t[2]));
                let spender = Addr::parse(t[3]).sdk(&env);
                let gas = Token { address: Addr::parse(t[4]).sdk(&env), amount: pi128(t[5]) };
                let mut tree: Option<Inv> = None;
                if let Ok(Ok(Ok(tid))) = guarded(|| {
                    let ds = self.client().canonical_token_deploy_salt(&tk);
                    self.client().try_interchain_token_id(&Address::from_string(&SString::from_str(&env, "GAAAAAAAAAAAAAAAAAAAAAAAAAAAAAAAAAAAAAAAAAAAAAAAAAAAAWHF")), &ds)
                }) {
                    // the announcement carries the metadata of the token REGISTERED under the id (normally `tk` itself; another
                    // token when the id was taken before `tk` could be registered): the spender's authorisation is for that payload
                    let registered = match guarded(|| self.client().try_token_address(&tid)) {
                        Ok(Ok(Ok(a))) => a,
                        _ => tk.clone(),
                    };
                    let tc = TokenClient::new(&env, &registered);
                    arm_token(&env, &registered);
                    if let Ok((n, s, d)) = guarded(|| (tc.name(), tc.symbol(), tc.decimals())) {
                        let msg = Message::DeployInterchainToken(DeployInterchainToken { token_id: tid, name: n, symbol: s, decimals: d as u8, minter: None });
                        if let Some(p) = self.hub_payload(&dest, msg) {
                            tree = Some(self.pay_gas_tree(&p, &spender, &gas));
                        }
                    }
                }
                // (before the authorisations are installed: they are for the one invocation that follows)
                arm_token(&env, &tk);
                if let Ok(Ok(Ok(tid))) = guarded(|| {
                    let ds = self.client().canonical_token_deploy_salt(&tk);
                    self.client().try_interchain_token_id(&Address::from_string(&SString::from_str(&env, "GAAAAAAAAAAAAAAAAAAAAAAAAAAAAAAAAAAAAAAAAAAAAAAAAAAAAWHF")), &ds)
                }) {
                    if let Ok(Ok(Ok(a))) = guarded(|| self.client().try_token_address(&tid)) {
                        arm_token(&env, &a);
                    }
                }
                match (&tree, t[6]) {
                    (None, "*") => env.mock_all_auths_allowing_non_root_auth(),
                    (_, "-") | (None, _) => env.set_auths(&[]),
                    (Some(tr), spec) => install_auth_tree(&env, spec, tr, (1u32,).into_val(&env)),
                }
                let r = guarded(|| self.client().try_deploy_remote_canonical_token(&tk, &dest, &spender, &gas));
                self.fin(r, |v: &BytesN<32>| format!(" x{}", hex::encode(v.to_array())))
            }
            "its.transfer" => {
                // its.transfer <caller> <tokenid> <dest> <destaddr> <amount> <data|~> <gastoken> <gasamount> <auth>
                let its = self.its.clone().unwrap();
                let caller = Addr::parse(t[1]).sdk(&env);
                let tid = b32(&env, &unhx32(t[2]));
                let dest = sstr(&env, &unhx(t[3]));
                let dest_addr = sbytes(&env, &unhx(t[4]));
                let amount = pi128(t[5]);
                let data: Option<Bytes> = if t[6] == "~" { None } else { Some(sbytes(&env, &unhx(t[6]))) };
                let gas = Token { address: Addr::parse(t[7]).sdk(&env), amount: pi128(t[8]) };
                let mut subs = vec![];
                if let (Ok(Ok(Ok(taddr))), Ok(Ok(Ok(mgr)))) = (guarded(|| self.client().try_token_address(&tid)), guarded(|| self.client().try_token_manager_type(&tid))) {
                    match mgr {
                        TokenManagerType::NativeInterchainToken => subs.push(Inv::new(&taddr, "burn", (caller.clone(), amount).into_val(&env), vec![])),
                        TokenManagerType::LockUnlock => subs.push(Inv::new(&taddr, "transfer", (caller.clone(), its.clone(), amount).into_val(&env), vec![])),
                    }
                }
                if amount >= 0 {
                    let msg = Message::InterchainTransfer(InterchainTransfer {
                        token_id: tid.clone(),
                        source_address: caller.clone().to_xdr(&env),
                        destination_address: dest_addr.clone(),
                        amount,
                        data: data.clone(),
                    });
                    if let Some(p) = self.hub_payload(&dest, msg) {
                        subs.push(self.pay_gas_tree(&p, &caller, &gas));
                    }
                }
                let args: SVec<Val> = (caller.clone(), tid.clone(), dest.clone(), dest_addr.clone(), amount, data.clone(), gas.clone()).into_val(&env);
                let wrong: SVec<Val> = (caller.clone(), tid.clone(), dest.clone(), dest_addr.clone(), amount.wrapping_add(1), data.clone(), gas.clone()).into_val(&env);
                let tree = Inv::new(&its, "interchain_transfer", args, subs);
                install_auth_tree(&env, t[9], &tree, wrong);
                let r = guarded(|| self.client().try_interchain_transfer(&caller, &tid, &dest, &dest_addr, &amount, &data, &gas));
                self.fin(r, |_| String::new())
            }
            "its.execute" => {
                // its.execute <srcchain> <msgid> <srcaddr> <payload>
                let its = self.its.clone().unwrap();
                let args: SVec<Val> = (sstr(&env, &unhx(t[1])), sstr(&env, &unhx(t[2])), sstr(&env, &unhx(t[3])), sbytes(&env, &unhx(t[4]))).into_val(&env);
                env.set_auths(&[]);
                let r = guarded(|| env.try_invoke_contract::<Val, soroban_sdk::Error>(&its, &Symbol::new(&env, "execute"), args));
                let ev = self.events();
                match r {
                    Ok(Ok(Ok(_))) => (format!("ok{ev}"), String::new()),
                    other => ("err".into(), short_err(&format!("{other:?}"))),
                }
            }
            "its.token_address" => {
                let r = guarded(|| self.client().try_token_address(&b32(&env, &unhx32(t[1]))));
                self.fin(r, |v: &Address| format!(" {}", Addr::from_sdk(v).tok()))
            }
            "its.manager" => {
                let r = guarded(|| self.client().try_token_manager_type(&b32(&env, &unhx32(t[1]))));
                self.fin(r, |v: &TokenManagerType| format!(" u{}", *v as u32))
            }
            "its.q_deploy_salt" => {
                let r = guarded(|| self.client().try_interchain_token_deploy_salt(&Addr::parse(t[1]).sdk(&env), &b32(&env, &unhx32(t[2]))));
                self.fin(r, |v: &BytesN<32>| format!(" x{}", hex::encode(v.to_array())))
            }
            "its.q_token_id" => {
                let r = guarded(|| self.client().try_interchain_token_id(&Addr::parse(t[1]).sdk(&env), &b32(&env, &unhx32(t[2]))));
                self.fin(r, |v: &BytesN<32>| format!(" x{}", hex::encode(v.to_array())))
            }
            "its.q_canonical_salt" => {
                let r = guarded(|| self.client().try_canonical_token_deploy_salt(&Addr::parse(t[1]).sdk(&env)));
                self.fin(r, |v: &BytesN<32>| format!(" x{}", hex::encode(v.to_array())))
            }
            other => panic!("unknown its op {other}"),
        }
    }
}
