//! Operators world: real AxelarOperators + a harness-defined probe target contract that logs every call.
#![allow(dead_code)]
use crate::common::*;
use axelar_operators::{AxelarOperators, AxelarOperatorsClient};
use soroban_sdk::testutils::Ledger as _;
use soroban_sdk::xdr::ScVal;
use soroban_sdk::{contract, contractimpl, symbol_short, Address, Env, IntoVal, Symbol, TryFromVal, Val, Vec as SVec};

#[contract]
pub struct Probe;

#[contractimpl]
impl Probe {
    fn log_entry(env: &Env, entry: SVec<Val>) {
        let mut l: SVec<SVec<Val>> = env.storage().instance().get(&symbol_short!("log")).unwrap_or(SVec::new(env));
        l.push_back(entry);
        env.storage().instance().set(&symbol_short!("log"), &l);
    }
    pub fn echo(env: Env, v: Val) -> Val {
        Self::log_entry(&env, (symbol_short!("echo"), v).into_val(&env));
        v
    }
    pub fn sum(env: Env, a: u32, b: u32) -> u32 {
        Self::log_entry(&env, (symbol_short!("sum"), a, b).into_val(&env));
        a + b
    }
    pub fn noop(env: Env) {
        Self::log_entry(&env, (symbol_short!("noop"),).into_val(&env));
    }
    pub fn boom(env: Env, x: u32) {
        Self::log_entry(&env, (symbol_short!("boom"), x).into_val(&env));
        panic!("probe target fails on purpose");
    }
    /// succeeds only if `a` authorised this sub-call or is the direct caller
    pub fn need_auth(env: Env, a: Address) -> bool {
        a.require_auth();
        Self::log_entry(&env, (Symbol::new(&env, "need_auth"), a).into_val(&env));
        true
    }
    pub fn count(env: Env) -> u32 {
        let l: SVec<SVec<Val>> = env.storage().instance().get(&symbol_short!("log")).unwrap_or(SVec::new(&env));
        l.len()
    }
    pub fn last(env: Env) -> Val {
        let l: SVec<SVec<Val>> = env.storage().instance().get(&symbol_short!("log")).unwrap_or(SVec::new(&env));
        l.last().unwrap_or(SVec::new(&env)).to_val()
    }
}

/// parse one simple ScVal token (the inverse of scv_tok for the shapes the generators use)
pub fn parse_scv(env: &Env, t: &str) -> Val {
    let (k, rest) = t.split_at(1);
    match k {
        "u" => rest.parse::<u32>().unwrap().into_val(env),
        "U" => rest.parse::<u64>().unwrap().into_val(env),
        "W" => rest.parse::<u128>().unwrap().into_val(env),
        "X" => rest.parse::<i128>().unwrap().into_val(env),
        "b" => (rest == "1").into_val(env),
        "v" => ().into_val(env),
        "x" => sbytes(env, &unhx(rest)).into_val(env),
        "s" => sstr(env, &unhx(rest)).into_val(env),
        "y" => Symbol::new(env, rest).into_val(env),
        "C" | "A" => Addr::parse(t).sdk(env).into_val(env),
        "[" => {
            let inner = &t[1..t.len() - 1];
            let mut v: SVec<Val> = SVec::new(env);
            if !inner.is_empty() {
                for p in inner.split(';') {
                    v.push_back(parse_scv(env, p));
                }
            }
            v.into_val(env)
        }
        _ => panic!("bad scval token {t}"),
    }
}
/// argument list token: `[a;b;c]` (flat; nested vectors are not used as arguments)
pub fn parse_args(env: &Env, t: &str) -> SVec<Val> {
    let inner = &t[1..t.len() - 1];
    let mut v: SVec<Val> = SVec::new(env);
    if !inner.is_empty() {
        // split at top level only
        let mut depth = 0;
        let mut cur = String::new();
        for ch in inner.chars() {
            match ch {
                '[' => {
                    depth += 1;
                    cur.push(ch)
                }
                ']' => {
                    depth -= 1;
                    cur.push(ch)
                }
                ';' if depth == 0 => {
                    v.push_back(parse_scv(env, &cur));
                    cur.clear();
                }
                _ => cur.push(ch),
            }
        }
        v.push_back(parse_scv(env, &cur));
    }
    v
}

pub struct OpsWorld {
    pub env: Env,
    pub ops: Option<Address>,
    pub probe: Option<Address>,
    pub cursor: usize,
}

impl OpsWorld {
    pub fn new() -> Self {
        OpsWorld { env: new_env(), ops: None, probe: None, cursor: 0 }
    }
    fn client(&self) -> AxelarOperatorsClient<'static> {
        AxelarOperatorsClient::new(&self.env, self.ops.as_ref().expect("operators not constructed"))
    }
    fn events(&mut self) -> String {
        match &self.ops {
            Some(g) => new_events(&self.env, &mut self.cursor, &[g.clone()]),
            None => String::new(),
        }
    }
    pub fn exec(&mut self, t: &[&str]) -> (String, String) {
        let env = self.env.clone();
        match t[0] {
            "time" => {
                env.ledger().set_timestamp(pu64(t[1]));
                // the sequence number never moves backwards (ticks may have advanced it)
                let cur = env.ledger().sequence();
                env.ledger().set_sequence_number(cur.max(pu32(t[2])));
                ("ok".into(), String::new())
            }
            "tick" => {
                // some ledgers close (fewer than any persistent / instance entry lives): nothing observable may change
                let cur = env.ledger().sequence();
                env.ledger().set_sequence_number(cur + pu32(t[1]));
                ("ok".into(), String::new())
            }
            "probe_extra" => {
                // probe_extra <addresses> <tokens>: every exported function of the contract that the model does not know is
                // called without any authorisation (none exists on the unchanged tree apart from the `todo!()` stubs of the
                // token); whatever it does, the modelled state must not change — the following queries show it
                let known: [&str; 5] = ["__constructor", "is_operator", "add_operator", "remove_operator", "execute"];
                let addrs: Vec<Address> = t[1].split(',').filter(|x| !x.is_empty() && *x != "-").map(|x| Addr::parse(x).sdk(&env)).collect();
                let toks: Vec<(Address, i128)> = t[2].split(',').filter(|x| !x.is_empty() && *x != "-").map(|x| (Addr::parse(x).sdk(&env), 1i128)).collect();
                let mut names = vec![];
                if let Some(c) = self.ops.clone() {
                    names = probe_unknown_entry_points(&env, &c, "/repo/contracts/axelar-operators/src/contract.rs", &known, &addrs, &toks);
                }
                
                ("ok".into(), format!("probed={}", names.join(",")))
            }
            "op.new" => {
                let addr = Addr::parse(t[1]).sdk(&env);
                let owner = Addr::parse(t[2]).sdk(&env);
                let probe = Addr::parse(t[3]).sdk(&env);
                env.register_at(&addr, AxelarOperators, (owner,));
                env.register_at(&probe, Probe, ());
                self.ops = Some(addr);
                self.probe = Some(probe);
                let _ = self.events();
                ("ok".into(), String::new())
            }
            "op.add" | "op.remove" => {
                let a = Addr::parse(t[1]).sdk(&env);
                let ops = self.ops.clone().unwrap();
                let f = if t[0] == "op.add" { "add_operator" } else { "remove_operator" };
                let tree = Inv::new(&ops, f, (a.clone(),).into_val(&env), vec![]);
                install_auth_tree(&env, t[2], &tree, (ops.clone(),).into_val(&env));
                let r = if t[0] == "op.add" { guarded(|| self.client().try_add_operator(&a)) } else { guarded(|| self.client().try_remove_operator(&a)) };
                let ev = self.events();
                match r {
                    Ok(Ok(Ok(()))) => (format!("ok{ev}"), String::new()),
                    other => ("err".into(), short_err(&format!("{other:?}"))),
                }
            }
            "op.transfer_ownership" => {
                let a = Addr::parse(t[1]).sdk(&env);
                let ops = self.ops.clone().unwrap();
                let tree = Inv::new(&ops, "transfer_ownership", (a.clone(),).into_val(&env), vec![]);
                install_auth_tree(&env, t[2], &tree, (ops.clone(),).into_val(&env));
                let r = guarded(|| self.client().try_transfer_ownership(&a));
                let ev = self.events();
                match r {
                    Ok(Ok(Ok(()))) => (format!("ok{ev}"), String::new()),
                    other => ("err".into(), short_err(&format!("{other:?}"))),
                }
            }
            "op.execute" => {
                // op.execute <operator> <contract> <func> <args> <auth>
                let operator = Addr::parse(t[1]).sdk(&env);
                let contract = Addr::parse(t[2]).sdk(&env);
                let func = Symbol::new(&env, t[3]);
                let args = parse_args(&env, t[4]);
                let ops = self.ops.clone().unwrap();
                let root: SVec<Val> = (operator.clone(), contract.clone(), func.clone(), args.clone()).into_val(&env);
                let wrong: SVec<Val> = (operator.clone(), contract.clone(), Symbol::new(&env, "other"), args.clone()).into_val(&env);
                let tree = Inv::new(&ops, "execute", root, vec![]);
                install_auth_tree(&env, t[5], &tree, wrong);
                let r = guarded(|| self.client().try_execute(&operator, &contract, &func, &args));
                let ev = self.events();
                match r {
                    Ok(Ok(Ok(v))) => (format!("ok {}{ev}", val_tok(&env, &v)), String::new()),
                    other => ("err".into(), short_err(&format!("{other:?}"))),
                }
            }
            "op.is_operator" => {
                let a = Addr::parse(t[1]).sdk(&env);
                match guarded(|| self.client().try_is_operator(&a)) {
                    Ok(Ok(Ok(b))) => (format!("ok b{}", b as u8), String::new()),
                    _ => ("err".into(), String::new()),
                }
            }
            "op.upgrade_migrate" => {
                let ops = self.ops.clone().unwrap();
                let r = upgrade_migrate(&env, &ops, t[1]);
                let _ = self.events();
                r
            }
            "op.owner" => match guarded(|| self.client().try_owner()) {
                Ok(Ok(Ok(a))) => (format!("ok {}", Addr::from_sdk(&a).tok()), String::new()),
                _ => ("err".into(), String::new()),
            },
            "probe.count" => {
                let p = ProbeClient::new(&env, self.probe.as_ref().unwrap());
                (format!("ok u{}", p.count()), String::new())
            }
            "probe.last" => {
                let p = ProbeClient::new(&env, self.probe.as_ref().unwrap());
                let l = p.last();
                let sv = ScVal::try_from_val(&env, &l).unwrap();
                (format!("ok {}", scv_tok(&sv)), String::new())
            }
            other => panic!("unknown operators op {other}"),
        }
    }
}

/// the target of an execution EQUAL to the operator named in it: a contract that is an operator calls itself through the
/// operators contract (only a blanket authorisation can stand for a live contract in the test host), and an ordinary member names
/// its own (code-less) address as target
fn operator_is_target(run: &mut crate::Run) {
    let ops = Addr::c(160);
    let probe = Addr::c(161);
    let owner0 = Addr::c(1);
    let member = Addr::c(10);
    run.scenario("op", "c17-operator-is-target");
    run.op("time 1000 10", "time");
    run.op(&format!("op.new {} {} {}", ops.tok(), owner0.tok(), probe.tok()), "construct");
    run.op(&format!("op.execute {} {} echo [u5] *", probe.tok(), probe.tok()), "execute-never-target-is-operator-everyone");
    run.op(&format!("op.add {} {}", probe.tok(), owner0.tok()), "add-live-contract");
    run.op(&format!("op.add {} {}", member.tok(), owner0.tok()), "add-fresh-right");
    run.op(&format!("op.is_operator {}", probe.tok()), "q");
    for (func, args) in [("echo", "[u5]"), ("sum", "[u1;u2]"), ("noop", "[]"), ("boom", "[u1]")] {
        run.op(&format!("op.execute {} {} {func} {args} *", probe.tok(), probe.tok()), "execute-member-target-is-operator-everyone");
        run.op("probe.count", "q");
        run.op("probe.last", "q");
        run.op(&format!("op.execute {} {} {func} {args} -", probe.tok(), probe.tok()), "execute-member-target-is-operator-nobody");
        run.op(&format!("op.execute {} {} {func} {args} {}", member.tok(), probe.tok(), member.tok()), "execute-member-right");
        run.op("probe.count", "q");
        run.op(&format!("op.execute {} {} {func} {args} {}", member.tok(), member.tok(), member.tok()), "execute-member-target-is-operator-no-contract");
    }
}

pub fn gen_c17(run: &mut crate::Run, seed: u64, thorough: bool) {
    operator_is_target(run);
    let mut rng = Rng::new(seed);
    let histories = if thorough { 300 } else { 40 };
    let len = if thorough { 30 } else { 26 };
    let ops = Addr::c(160);
    let probe = Addr::c(161);
    let owner0 = Addr::c(1);
    for h in 0..histories {
        run.scenario("op", &format!("c17-{h}"));
        run.op("time 1000 10", "time");
        run.op(&format!("op.new {} {} {}", ops.tok(), owner0.tok(), probe.tok()), "construct");
        let people: Vec<Addr> = (10..15).map(Addr::c).collect();
        let mut owner = owner0.clone();
        let mut former_owner: Option<Addr> = None;
        let mut members: Vec<Addr> = vec![];
        let mut former: Vec<Addr> = vec![];
        // "ghosts": ACCOUNT-type addresses that share their 32 bytes with a contract-type person, and the all-zero account
        // (the library's ZERO_ADDRESS). Membership is per ADDRESS: adding a ghost makes nobody else a member.
        // (the test host cannot mock an exact authorisation for an account address: ghosts call only under `*` or nothing)
        let ghosts: Vec<Addr> = vec![Addr { contract: false, id: people[0].id }, Addr { contract: false, id: people[1].id }, Addr { contract: false, id: [0u8; 32] }];
        for _ in 0..len {
            let a = if rng.chance(1, 6) { rng.pick(&ghosts).clone() } else { rng.pick(&people).clone() };
            let auth_for = |right: &Addr, rng: &mut Rng, former_owner: &Option<Addr>| -> (String, &'static str) {
                match rng.below(16) {
                    0 => ("-".into(), "nobody"),
                    1 => (Addr::c(99).tok(), "stranger"),
                    2 => (format!("{}!", right.tok()), "right-other-args"),
                    3 => match former_owner {
                        Some(f) if f != right => (f.tok(), "former-owner"),
                        _ => (right.tok(), "right"),
                    },
                    4 => (owner0.tok(), if *right == owner0 { "right" } else { "first-owner" }),
                    5 => ("*".into(), "everyone"),
                    _ => (right.tok(), "right"),
                }
            };
            match rng.below(12) {
                0..=2 => {
                    let cls = if members.contains(&a) { "dup" } else if former.contains(&a) { "readd" } else { "fresh" };
                    let (au, ac) = auth_for(&owner, &mut rng, &former_owner);
                    let o = run.op(&format!("op.add {} {}", a.tok(), au), &format!("add-{cls}-{ac}"));
                    if o.starts_with("ok") {
                        members.push(a.clone());
                        former.retain(|x| *x != a);
                    }
                }
                3 | 4 => {
                    let cls = if members.contains(&a) { "present" } else if former.contains(&a) { "again" } else { "absent" };
                    let (au, ac) = auth_for(&owner, &mut rng, &former_owner);
                    let o = run.op(&format!("op.remove {} {}", a.tok(), au), &format!("remove-{cls}-{ac}"));
                    if o.starts_with("ok") {
                        members.retain(|x| *x != a);
                        former.push(a.clone());
                    }
                }
                5 => {
                    let new = if rng.chance(1, 3) { owner.clone() } else { rng.pick(&[Addr::c(1), Addr::c(2), Addr::c(10)]).clone() };
                    let (au, ac) = auth_for(&owner, &mut rng, &former_owner);
                    let o = run.op(&format!("op.transfer_ownership {} {}", new.tok(), au), &format!("transfer_ownership-{ac}"));
                    if o.starts_with("ok") {
                        former_owner = Some(owner.clone());
                        owner = new;
                    }
                    run.op("op.owner", "q");
                }
                _ => {
                    // execute: caller class x target call x authorisation
                    let caller = match rng.below(5) {
                        0 if !former.is_empty() => rng.pick(&former).clone(),
                        1 => owner.clone(),
                        2 => a.clone(),
                        _ if !members.is_empty() => rng.pick(&members).clone(),
                        _ => a.clone(),
                    };
                    let ccls = if members.contains(&caller) { "member" } else if former.contains(&caller) { "former" } else if caller == owner { "owner" } else { "never" };
                    let (func, args, tcls): (&str, String, &str) = match rng.below(12) {
                        0 => ("noop", "[]".into(), "void"),
                        1 => ("sum", format!("[u{};u{}]", rng.below(1000), rng.below(1000)), "u32"),
                        2 => ("sum", format!("[u{};u{}]", u32::MAX, 1 + rng.below(5)), "target-overflow"),
                        3 => ("echo", format!("[x{}]", hx(&rng.bytes(rng.0 as usize % 40))), "bytes"),
                        4 => ("echo", format!("[[u1;x00ff;{}]]", a.tok()), "vec"),
                        5 => ("echo", format!("[{}]", a.tok()), "address"),
                        6 => ("echo", "[v]".into(), "void-arg"),
                        7 => ("boom", format!("[u{}]", rng.below(9)), "target-fails"),
                        8 => ("nosuchfn", "[]".into(), "no-such-function"),
                        9 => ("sum", "[u1]".into(), "wrong-arity"),
                        10 => ("need_auth", format!("[{}]", ops.tok()), "as-operators-contract"),
                        _ => ("echo", format!("[s{}]", hx("héllo wörld".as_bytes())), "string"),
                    };
                    let contract = if rng.chance(1, 15) { Addr::c(162) } else { probe.clone() };
                    let tcls2 = if contract == probe { "" } else { "-no-contract" };
                    let (au, ac) = if caller.contract { auth_for(&caller, &mut rng, &former_owner) } else if rng.chance(1, 2) { ("*".to_string(), "everyone") } else { ("-".to_string(), "nobody") };
                    let gcls = if caller.contract { if ghosts.iter().any(|g| members.contains(g) && g.id == caller.id) { "-twin-of-member-ghost" } else { "" } } else { "-ghost" };
                    run.op(&format!("op.execute {} {} {} {} {}", caller.tok(), contract.tok(), func, args, au), &format!("execute-{ccls}{gcls}-{tcls}{tcls2}-{ac}"));
                    run.op("probe.count", "q");
                    run.op("probe.last", "q");
                }
            }
            for p in people.iter().chain(ghosts.iter()) {
                run.op(&format!("op.is_operator {}", p.tok()), "q");
            }
        }
    }
}
