//! Shared helpers: PRNG, token codec, addresses, generic ScVal printer, event capture.
#![allow(dead_code)]
use soroban_sdk::testutils::Events as _;
use soroban_sdk::xdr::{self, ScAddress, ScVal};
use soroban_sdk::{Address, Bytes, BytesN, Env, String as SString, TryFromVal, Val};
use std::fmt::Write as _;

pub struct Rng(pub u64);
impl Rng {
    pub fn new(seed: u64) -> Self {
        // the seed is scrambled first: with a plain linear start state, seeds n and n+1 would yield the same stream shifted
        // by one draw (the shards of one run use consecutive seeds)
        let mut z = seed.wrapping_mul(0x9E3779B97F4A7C15).wrapping_add(0x1234_5678_9abc_def1);
        z = (z ^ (z >> 30)).wrapping_mul(0xBF58476D1CE4E5B9);
        z = (z ^ (z >> 27)).wrapping_mul(0x94D049BB133111EB);
        Rng(z ^ (z >> 31))
    }
    pub fn next(&mut self) -> u64 {
        self.0 = self.0.wrapping_add(0x9E3779B97F4A7C15);
        let mut z = self.0;
        z = (z ^ (z >> 30)).wrapping_mul(0xBF58476D1CE4E5B9);
        z = (z ^ (z >> 27)).wrapping_mul(0x94D049BB133111EB);
        z ^ (z >> 31)
    }
    pub fn below(&mut self, n: u64) -> u64 {
        if n == 0 {
            0
        } else {
            self.next() % n
        }
    }
    pub fn range(&mut self, lo: u64, hi_incl: u64) -> u64 {
        lo + self.below(hi_incl - lo + 1)
    }
    pub fn chance(&mut self, num: u64, den: u64) -> bool {
        self.below(den) < num
    }
    pub fn pick<'a, T>(&mut self, xs: &'a [T]) -> &'a T {
        &xs[self.below(xs.len() as u64) as usize]
    }
    pub fn bytes(&mut self, n: usize) -> Vec<u8> {
        (0..n).map(|_| self.next() as u8).collect()
    }
    pub fn shuffle<T>(&mut self, xs: &mut [T]) {
        for i in (1..xs.len()).rev() {
            let j = self.below(i as u64 + 1) as usize;
            xs.swap(i, j);
        }
    }
}

pub fn keccak(data: &[u8]) -> [u8; 32] {
    use tiny_keccak::{Hasher, Keccak};
    let mut k = Keccak::v256();
    k.update(data);
    let mut out = [0u8; 32];
    k.finalize(&mut out);
    out
}

/// hex token; "-" stands for the empty byte string so that no token is empty
pub fn hx(b: &[u8]) -> String {
    if b.is_empty() {
        "-".to_string()
    } else {
        hex::encode(b)
    }
}
pub fn unhx(s: &str) -> Vec<u8> {
    if s == "-" {
        vec![]
    } else {
        hex::decode(s).unwrap_or_else(|_| panic!("bad hex token {s}"))
    }
}
pub fn unhx32(s: &str) -> [u8; 32] {
    let v = unhx(s);
    let mut a = [0u8; 32];
    a.copy_from_slice(&v);
    a
}

/// Address token: `C<hex32>` contract, `A<hex32>` account.
#[derive(Clone, Debug, PartialEq, Eq, Hash, PartialOrd, Ord)]
pub struct Addr {
    pub contract: bool,
    pub id: [u8; 32],
}
impl Addr {
    pub fn c(n: u8) -> Addr {
        let mut id = [0u8; 32];
        id[0] = 0xC0;
        id[31] = n;
        id[15] = n.wrapping_mul(37).wrapping_add(11);
        Addr { contract: true, id }
    }
    pub fn a(n: u8) -> Addr {
        let mut id = [0u8; 32];
        id[0] = 0xA0;
        id[31] = n;
        id[7] = n.wrapping_mul(91).wrapping_add(3);
        Addr { contract: false, id }
    }
    pub fn tok(&self) -> String {
        format!("{}{}", if self.contract { "C" } else { "A" }, hex::encode(self.id))
    }
    pub fn parse(s: &str) -> Addr {
        let contract = match &s[..1] {
            "C" => true,
            "A" => false,
            _ => panic!("bad addr token {s}"),
        };
        Addr { contract, id: unhx32(&s[1..]) }
    }
    pub fn strkey(&self) -> String {
        if self.contract {
            stellar_strkey::Contract(self.id).to_string()
        } else {
            stellar_strkey::ed25519::PublicKey(self.id).to_string()
        }
    }
    pub fn sdk(&self, env: &Env) -> Address {
        Address::from_string(&SString::from_str(env, &self.strkey()))
    }
    pub fn from_sdk(a: &Address) -> Addr {
        let sc: ScAddress = a.try_into().expect("address to ScAddress");
        Addr::from_sc(&sc)
    }
    pub fn from_sc(sc: &ScAddress) -> Addr {
        match sc {
            ScAddress::Account(xdr::AccountId(xdr::PublicKey::PublicKeyTypeEd25519(xdr::Uint256(k)))) => {
                Addr { contract: false, id: *k }
            }
            ScAddress::Contract(xdr::Hash(h)) => Addr { contract: true, id: *h },
        }
    }
}

pub fn sstr(env: &Env, b: &[u8]) -> SString {
    SString::from_bytes(env, b)
}
pub fn sbytes(env: &Env, b: &[u8]) -> Bytes {
    Bytes::from_slice(env, b)
}
pub fn b32(env: &Env, b: &[u8; 32]) -> BytesN<32> {
    BytesN::from_array(env, b)
}
pub fn sstr_bytes(s: &SString) -> Vec<u8> {
    let mut v = vec![0u8; s.len() as usize];
    s.copy_into_slice(&mut v);
    v
}

/// Generic canonical text for an ScVal (the Lean driver has the same printer).
pub fn scv_tok(v: &ScVal) -> String {
    match v {
        ScVal::Bool(b) => format!("b{}", if *b { 1 } else { 0 }),
        ScVal::Void => "v".into(),
        ScVal::U32(n) => format!("u{n}"),
        ScVal::I32(n) => format!("i{n}"),
        ScVal::U64(n) => format!("U{n}"),
        ScVal::I64(n) => format!("I{n}"),
        ScVal::U128(p) => format!("W{}", ((p.hi as u128) << 64) | p.lo as u128),
        ScVal::I128(p) => format!("X{}", (((p.hi as i128) << 64) as i128) | (p.lo as i128)),
        ScVal::Bytes(b) => format!("x{}", hx(b.as_slice())),
        ScVal::String(s) => format!("s{}", hx(s.as_slice())),
        ScVal::Symbol(s) => format!("y{}", String::from_utf8_lossy(s.as_slice())),
        ScVal::Address(a) => Addr::from_sc(a).tok(),
        ScVal::Vec(Some(vs)) => {
            let mut s = String::from("[");
            for (i, x) in vs.iter().enumerate() {
                if i > 0 {
                    s.push(';');
                }
                s.push_str(&scv_tok(x));
            }
            s.push(']');
            s
        }
        ScVal::Map(Some(m)) => {
            let mut s = String::from("{");
            for (i, e) in m.iter().enumerate() {
                if i > 0 {
                    s.push(';');
                }
                let _ = write!(s, "{}={}", scv_tok(&e.key), scv_tok(&e.val));
            }
            s.push('}');
            s
        }
        ScVal::Error(e) => format!("!{e:?}").replace(' ', ""),
        other => format!("?{}", other.name()),
    }
}

pub fn val_tok(env: &Env, v: &Val) -> String {
    match ScVal::try_from_val(env, v) {
        Ok(sv) => scv_tok(&sv),
        Err(_) => "?val".into(),
    }
}

/// Events emitted since `cursor` by any of `watch`, as ` E:<topic0>:<topic>...:<data>` tokens.
pub fn new_events(env: &Env, cursor: &mut usize, watch: &[Address]) -> String {
    // (the SDK's `env.events().all()` turns EVERY event recorded so far into host objects on every call — quadratic in the
    // length of a history and never freed; this reads the same list on the Rust side and converts only the new entries)
    let watch_ids: Vec<Addr> = watch.iter().map(Addr::from_sdk).collect();
    let all = env.host().get_events().unwrap().0;
    let mut out = String::new();
    let mut n = 0usize;
    for e in all.into_iter() {
        if let xdr::ContractEvent {
            type_: xdr::ContractEventType::Contract,
            contract_id: Some(contract_id),
            body: xdr::ContractEventBody::V0(xdr::ContractEventV0 { topics, data }),
            ..
        } = e.event
        {
            let i = n;
            n += 1;
            if i < *cursor {
                continue;
            }
            let c = Addr { contract: true, id: contract_id.0 };
            if !watch_ids.is_empty() && !watch_ids.iter().any(|w| *w == c) {
                continue;
            }
            out.push_str(" E");
            if watch.len() != 1 {
                let _ = write!(out, "@{}", c.tok());
            }
            for t in topics.iter() {
                out.push(':');
                let v: Val = Val::try_from_val(env, t).unwrap();
                out.push_str(&val_tok(env, &v));
            }
            out.push(':');
            let v: Val = Val::try_from_val(env, &data).unwrap();
            out.push_str(&val_tok(env, &v));
        }
    }
    *cursor = n;
    out
}

/// Trace writer: one scenario = one fresh world.
pub struct Trace {
    pub lines: Vec<String>,
    pub classes: std::collections::BTreeMap<String, u64>,
}
impl Trace {
    pub fn new() -> Self {
        Trace { lines: vec![], classes: Default::default() }
    }
    pub fn scenario(&mut self, name: &str) {
        self.lines.push(format!("scenario {name}"));
    }
    pub fn rec(&mut self, op: &str, obs: &str, class: &str) {
        *self.classes.entry(class.to_string()).or_insert(0) += 1;
        self.lines.push(format!("{op} => {obs} ## class={class}"));
    }
}

/// decimal u128 / i128 tokens
pub fn pu128(s: &str) -> u128 {
    s.parse().unwrap_or_else(|_| panic!("bad u128 {s}"))
}
pub fn pi128(s: &str) -> i128 {
    s.parse().unwrap_or_else(|_| panic!("bad i128 {s}"))
}
pub fn pu64(s: &str) -> u64 {
    s.parse().unwrap_or_else(|_| panic!("bad u64 {s}"))
}
pub fn pu32(s: &str) -> u32 {
    s.parse().unwrap_or_else(|_| panic!("bad u32 {s}"))
}

/// Auth token: "-" none, "*" everyone, else comma list of `<addr>` (exact) or `<addr>!` (same address, other arguments)
#[derive(Clone, Debug)]
pub enum AuthSpec {
    None,
    All,
    List(Vec<(Addr, bool)>),
}
impl AuthSpec {
    pub fn parse(s: &str) -> AuthSpec {
        match s {
            "-" => AuthSpec::None,
            "*" => AuthSpec::All,
            _ => AuthSpec::List(
                s.split(',')
                    .map(|t| {
                        if let Some(a) = t.strip_suffix('!') {
                            (Addr::parse(a), true)
                        } else {
                            (Addr::parse(t), false)
                        }
                    })
                    .collect(),
            ),
        }
    }
    pub fn tok(&self) -> String {
        match self {
            AuthSpec::None => "-".into(),
            AuthSpec::All => "*".into(),
            AuthSpec::List(v) => v
                .iter()
                .map(|(a, w)| format!("{}{}", a.tok(), if *w { "!" } else { "" }))
                .collect::<Vec<_>>()
                .join(","),
        }
    }
    pub fn exact(addrs: &[Addr]) -> AuthSpec {
        if addrs.is_empty() {
            AuthSpec::None
        } else {
            AuthSpec::List(addrs.iter().map(|a| (a.clone(), false)).collect())
        }
    }
}

/// Install mock authorisations for one root invocation.
/// `args` are the exact arguments; entries flagged "wrong" get `wrong_args` instead.
pub fn install_auth(
    env: &Env,
    spec: &AuthSpec,
    contract: &Address,
    fn_name: &str,
    args: soroban_sdk::Vec<Val>,
    wrong_args: soroban_sdk::Vec<Val>,
) {
    use soroban_sdk::testutils::{MockAuth, MockAuthInvoke};
    match spec {
        AuthSpec::None => env.set_auths(&[]),
        AuthSpec::All => env.mock_all_auths(),
        AuthSpec::List(v) => {
            let addrs: Vec<Address> = v.iter().map(|(a, _)| a.sdk(env)).collect();
            let invokes: Vec<MockAuthInvoke> = v
                .iter()
                .map(|(_, wrong)| MockAuthInvoke {
                    contract,
                    fn_name,
                    args: if *wrong { wrong_args.clone() } else { args.clone() },
                    sub_invokes: &[],
                })
                .collect();
            let mocks: Vec<MockAuth> = addrs
                .iter()
                .zip(invokes.iter())
                .map(|(a, i)| MockAuth { address: a, invoke: i })
                .collect();
            env.mock_auths(&mocks);
        }
    }
}

/// Run a closure catching native panics (host errors surface as Err from try_ calls; panics from `register` etc. are caught here).
pub fn guarded<T>(f: impl FnOnce() -> T) -> Result<T, String> {
    let r = std::panic::catch_unwind(std::panic::AssertUnwindSafe(f));
    match r {
        Ok(v) => Ok(v),
        Err(e) => {
            let msg = if let Some(s) = e.downcast_ref::<String>() {
                s.clone()
            } else if let Some(s) = e.downcast_ref::<&str>() {
                s.to_string()
            } else {
                "panic".to_string()
            };
            Err(msg)
        }
    }
}

pub fn short_err(s: &str) -> String {
    let t: String = s.chars().filter(|c| !c.is_whitespace()).take(60).collect();
    t.replace("##", "#").replace("=>", "=")
}

/// A test Env that never writes snapshot files on drop.
pub fn new_env() -> Env {
    let env = Env::new_with_config(soroban_sdk::testutils::EnvTestConfig { capture_snapshot_at_drop: false });
    #[allow(deprecated)]
    env.budget().reset_unlimited();
    // Persistent and instance entries (and contract code) outlive every history the harness plays, long sleeps included: on
    // the network an archived persistent entry can be restored by anyone, so its lapse is not an observable change of contract
    // state — whereas a TEMPORARY entry is gone for good once its lifetime ends, and temporary lifetimes are left as they are.
    {
        use soroban_sdk::testutils::Ledger as _;
        env.ledger().with_mut(|li| li.min_persistent_entry_ttl = 6_000_000);
    }
    // no DIAGNOSTIC events (one per host-function call of every wasm invocation, kept for the whole life of the host): they are
    // never read, and over a long history they cost gigabytes; contract events are unaffected
    let _ = env.host().set_diagnostic_level(Default::default());
    env
}

// ------------------------------------------------------------------------------------------------
// authorisation TREES (root invocation + the sub-invocations made on behalf of the same address)
// ------------------------------------------------------------------------------------------------
#[derive(Clone)]
pub struct Inv {
    pub contract: Address,
    pub fn_name: String,
    pub args: soroban_sdk::Vec<Val>,
    pub subs: Vec<Inv>,
}
impl Inv {
    pub fn new(contract: &Address, fn_name: &str, args: soroban_sdk::Vec<Val>, subs: Vec<Inv>) -> Inv {
        Inv { contract: contract.clone(), fn_name: fn_name.to_string(), args, subs }
    }
    /// leaked on purpose: MockAuthInvoke borrows everything and the harness is short-lived
    fn leak(&self) -> &'static soroban_sdk::testutils::MockAuthInvoke<'static> {
        let subs: Vec<soroban_sdk::testutils::MockAuthInvoke<'static>> = self.subs.iter().map(|s| s.leak_owned()).collect();
        let subs: &'static [soroban_sdk::testutils::MockAuthInvoke<'static>] = Box::leak(subs.into_boxed_slice());
        Box::leak(Box::new(soroban_sdk::testutils::MockAuthInvoke {
            contract: Box::leak(Box::new(self.contract.clone())),
            fn_name: Box::leak(self.fn_name.clone().into_boxed_str()),
            args: self.args.clone(),
            sub_invokes: subs,
        }))
    }
    fn leak_owned(&self) -> soroban_sdk::testutils::MockAuthInvoke<'static> {
        let subs: Vec<soroban_sdk::testutils::MockAuthInvoke<'static>> = self.subs.iter().map(|s| s.leak_owned()).collect();
        let subs: &'static [soroban_sdk::testutils::MockAuthInvoke<'static>] = Box::leak(subs.into_boxed_slice());
        soroban_sdk::testutils::MockAuthInvoke {
            contract: Box::leak(Box::new(self.contract.clone())),
            fn_name: Box::leak(self.fn_name.clone().into_boxed_str()),
            args: self.args.clone(),
            sub_invokes: subs,
        }
    }
}

/// Auth entries for trees: `<addr>` authorises the full tree, `<addr>!` the tree with other root arguments,
/// `<addr>~` the root invocation only (sub-invocations missing).  Only plain entries count as authorisation.
pub fn install_auth_tree(env: &Env, spec_tok: &str, tree: &Inv, wrong_root_args: soroban_sdk::Vec<Val>) {
    use soroban_sdk::testutils::MockAuth;
    match spec_tok {
        "-" => env.set_auths(&[]),
        "*" => env.mock_all_auths_allowing_non_root_auth(),
        _ => {
            let mut mocks: Vec<MockAuth<'static>> = vec![];
            for t in spec_tok.split(',') {
                let (a, inv) = if let Some(a) = t.strip_suffix('!') {
                    let mut w = tree.clone();
                    w.args = wrong_root_args.clone();
                    (a, w)
                } else if let Some(a) = t.strip_suffix('~') {
                    let mut w = tree.clone();
                    w.subs.clear();
                    (a, w)
                } else {
                    (t, tree.clone())
                };
                let addr: &'static Address = Box::leak(Box::new(Addr::parse(a).sdk(env)));
                mocks.push(MockAuth { address: addr, invoke: inv.leak() });
            }
            env.mock_auths(&mocks);
        }
    }
}

// ------------------------------------------------------------------------------------------------
// Upgrade to the SAME code followed by the migration of the current tree
// ------------------------------------------------------------------------------------------------
/// `<x>.upgrade_migrate <auth>`: `upgrade(sha256(""))` — for a natively registered contract a legal upgrade to its own code —
/// and then `migrate(())`, each under the given authorisation ("@" stands for the contract's current owner). "ok" iff both
/// succeed. The migration code of the current tree runs; whatever it does, the modelled state must come out unchanged (the
/// queries and operations that follow show it).
fn owner_tok(env: &Env, c: &Address, auth_tok: &str) -> String {
    use soroban_sdk::Symbol;
    if auth_tok == "@" {
        match guarded(|| env.try_invoke_contract::<Address, soroban_sdk::Error>(c, &Symbol::new(env, "owner"), soroban_sdk::Vec::new(env))) {
            Ok(Ok(Ok(o))) => Addr::from_sdk(&o).tok(),
            _ => "-".to_string(),
        }
    } else {
        auth_tok.to_string()
    }
}
/// `upgrade(sha256(""))` alone (opens the migration window)
pub fn upgrade_step(env: &Env, c: &Address, auth_tok: &str) -> (String, String) {
    use soroban_sdk::{IntoVal, Symbol};
    let tok = owner_tok(env, c, auth_tok);
    let h: BytesN<32> = env.crypto().sha256(&Bytes::new(env)).into();
    let tree = Inv::new(c, "upgrade", (h.clone(),).into_val(env), vec![]);
    install_auth_tree(env, &tok, &tree, (BytesN::<32>::from_array(env, &[0x43; 32]),).into_val(env));
    let r = guarded(|| env.try_invoke_contract::<Val, soroban_sdk::Error>(c, &Symbol::new(env, "upgrade"), (h,).into_val(env)));
    match r {
        Ok(Ok(Ok(_))) => ("ok".into(), String::new()),
        other => ("err".into(), short_err(&format!("upgrade:{other:?}"))),
    }
}
/// `migrate(())` alone (needs and closes the window)
pub fn migrate_step(env: &Env, c: &Address, auth_tok: &str) -> (String, String) {
    use soroban_sdk::{IntoVal, Symbol};
    let tok = owner_tok(env, c, auth_tok);
    let d: soroban_sdk::Vec<Val> = ((),).into_val(env);
    let tree = Inv::new(c, "migrate", d.clone(), vec![]);
    install_auth_tree(env, &tok, &tree, (7u32, 8u32).into_val(env));
    let r = guarded(|| env.try_invoke_contract::<Val, soroban_sdk::Error>(c, &Symbol::new(env, "migrate"), d));
    match r {
        Ok(Ok(Ok(_))) => ("ok".into(), String::new()),
        other => ("err".into(), short_err(&format!("migrate:{other:?}"))),
    }
}
pub fn upgrade_migrate(env: &Env, c: &Address, auth_tok: &str) -> (String, String) {
    let (o, d) = upgrade_step(env, c, auth_tok);
    if o != "ok" {
        return (o, d);
    }
    let (o, d) = migrate_step(env, c, auth_tok);
    if o == "ok" { (o, d) } else { ("err-migrate".into(), d) }
}

// ------------------------------------------------------------------------------------------------
// Entry points the model does not know
// ------------------------------------------------------------------------------------------------
/// Names and parameter types of the functions a contract EXPORTS according to its source text: every `fn` of a
/// `#[contractimpl] impl Trait for X` block and every `pub fn` of a `#[contractimpl] impl X` block.
pub fn exported_fns(src_path: &str) -> Vec<(String, Vec<String>)> {
    let src = std::fs::read_to_string(src_path).unwrap_or_default();
    let mut out = vec![];
    let lines: Vec<&str> = src.lines().collect();
    let mut i = 0;
    while i < lines.len() {
        if lines[i].trim_start().starts_with("#[cfg(test)]") {
            break;
        }
        if lines[i].trim() == "#[contractimpl]" {
            // find the impl line
            let mut j = i + 1;
            while j < lines.len() && !lines[j].trim_start().starts_with("impl") {
                j += 1;
            }
            if j >= lines.len() {
                break;
            }
            let is_trait = lines[j].contains(" for ");
            let mut depth: i32 = 0;
            let mut k = j;
            let mut started = false;
            while k < lines.len() {
                let l = lines[k];
                if started && depth == 1 {
                    let t = l.trim_start();
                    let (is_pub, rest) = if let Some(r) = t.strip_prefix("pub fn ") { (true, Some(r)) } else if let Some(r) = t.strip_prefix("fn ") { (false, Some(r)) } else { (false, None) };
                    if let Some(rest) = rest {
                        if is_trait || is_pub {
                            let name: String = rest.chars().take_while(|c| c.is_alphanumeric() || *c == '_').collect();
                            // parameter text up to the matching ')'
                            let mut sig = String::new();
                            let mut m = k;
                            loop {
                                sig.push_str(lines[m]);
                                sig.push(' ');
                                if lines[m].contains('{') || lines[m].trim_end().ends_with(';') || m + 1 >= lines.len() {
                                    break;
                                }
                                m += 1;
                            }
                            let inner = match (sig.find('('), sig.rfind(')')) {
                                (Some(a), Some(b)) if b > a => sig[a + 1..b].to_string(),
                                _ => String::new(),
                            };
                            let mut params = vec![];
                            let mut d = 0;
                            let mut cur = String::new();
                            for ch in inner.chars() {
                                match ch {
                                    '<' | '(' => { d += 1; cur.push(ch); }
                                    '>' | ')' => { d -= 1; cur.push(ch); }
                                    ',' if d == 0 => { params.push(cur.clone()); cur.clear(); }
                                    _ => cur.push(ch),
                                }
                            }
                            if !cur.trim().is_empty() {
                                params.push(cur);
                            }
                            let types: Vec<String> = params
                                .iter()
                                .filter_map(|p| p.split_once(':').map(|(n, t)| (n.trim().to_string(), t.trim().trim_start_matches('&').trim().to_string())))
                                .filter(|(n, t)| !(n.ends_with("env") || t == "Env"))
                                .map(|(_, t)| t)
                                .collect();
                            out.push((name, types));
                        }
                    }
                }
                for ch in l.chars() {
                    if ch == '{' { depth += 1; started = true; }
                    if ch == '}' { depth -= 1; }
                }
                if started && depth == 0 {
                    break;
                }
                k += 1;
            }
            i = k;
        }
        i += 1;
    }
    out
}

/// Calls every exported function the model does not know (`known`) with NO authorisation at all and arguments drawn from the
/// given pools. Whatever they return, nothing the model tracks may change: the generator's next queries show it.
/// Returns the names that were probed.
pub fn probe_unknown_entry_points(env: &Env, contract: &Address, src_path: &str, known: &[&str], addrs: &[Address], tokens: &[(Address, i128)]) -> Vec<String> {
    use soroban_sdk::{IntoVal, Symbol, Val};
    let mut probed = vec![];
    for (name, types) in exported_fns(src_path) {
        if known.contains(&name.as_str()) {
            continue;
        }
        // candidate values per parameter
        let mut cands: Vec<Vec<Val>> = vec![];
        let mut callable = true;
        for t in &types {
            let t = t.replace(' ', "");
            let vs: Vec<Val> = match t.as_str() {
                "Address" => addrs.iter().map(|a| a.into_val(env)).collect(),
                "Token" => tokens.iter().map(|(a, n)| axelar_soroban_std::types::Token { address: a.clone(), amount: *n }.into_val(env)).collect(),
                "i128" => vec![1i128.into_val(env), 7i128.into_val(env)],
                "u128" => vec![1u128.into_val(env)],
                "u32" => vec![1u32.into_val(env)],
                "u64" => vec![1u64.into_val(env)],
                "bool" => vec![true.into_val(env), false.into_val(env)],
                "String" => vec![soroban_sdk::String::from_str(env, "x").into_val(env)],
                "Bytes" => vec![soroban_sdk::Bytes::from_slice(env, b"x").into_val(env)],
                "BytesN<32>" => vec![soroban_sdk::BytesN::<32>::from_array(env, &[0u8; 32]).into_val(env)],
                s if s.starts_with("Option<") => vec![().into_val(env)],
                "()" => vec![().into_val(env)],
                _ => {
                    callable = false;
                    vec![]
                }
            };
            cands.push(vs);
        }
        probed.push(name.clone());
        if !callable {
            continue;
        }
        // a bounded walk through the product of candidates
        let total: usize = cands.iter().map(|c| c.len().max(1)).product::<usize>().min(24);
        for n in 0..total {
            let mut args: soroban_sdk::Vec<Val> = soroban_sdk::Vec::new(env);
            let mut q = n;
            for c in &cands {
                let k = q % c.len().max(1);
                q /= c.len().max(1);
                args.push_back(c[k]);
            }
            env.set_auths(&[]);
            let sym = Symbol::new(env, &name);
            let c2 = contract.clone();
            let _ = guarded(|| env.try_invoke_contract::<Val, soroban_sdk::Error>(&c2, &sym, args.clone()));
        }
    }
    probed
}
