//! ABI codec world (C10): calls HubMessage/Message abi_encode / abi_decode of the ITS crate directly.
#![allow(dead_code)]
use crate::common::*;
use interchain_token_service::types::{DeployInterchainToken, HubMessage, InterchainTransfer, Message};
use soroban_sdk::{Bytes, BytesN, Env, String as SString};

pub struct AbiWorld {
    pub env: Env,
}

#[derive(Clone, Debug)]
pub enum M {
    T { tid: [u8; 32], src: Vec<u8>, dst: Vec<u8>, amount: i128, data: Option<Vec<u8>> },
    D { tid: [u8; 32], name: Vec<u8>, symbol: Vec<u8>, decimals: u8, minter: Option<Vec<u8>> },
}
#[derive(Clone, Debug)]
pub enum HM {
    S(Vec<u8>, M),
    R(Vec<u8>, M),
}
fn opt_tok(o: &Option<Vec<u8>>) -> String {
    match o {
        None => "~".into(),
        Some(b) => hx(b),
    }
}
fn opt_parse(s: &str) -> Option<Vec<u8>> {
    if s == "~" {
        None
    } else {
        Some(unhx(s))
    }
}
impl M {
    pub fn tok(&self) -> String {
        match self {
            M::T { tid, src, dst, amount, data } => format!("T:{}:{}:{}:{}:{}", hex::encode(tid), hx(src), hx(dst), amount, opt_tok(data)),
            M::D { tid, name, symbol, decimals, minter } => format!("D:{}:{}:{}:{}:{}", hex::encode(tid), hx(name), hx(symbol), decimals, opt_tok(minter)),
        }
    }
    pub fn parse(s: &str) -> M {
        let p: Vec<&str> = s.split(':').collect();
        match p[0] {
            "T" => M::T { tid: unhx32(p[1]), src: unhx(p[2]), dst: unhx(p[3]), amount: pi128(p[4]), data: opt_parse(p[5]) },
            "D" => M::D { tid: unhx32(p[1]), name: unhx(p[2]), symbol: unhx(p[3]), decimals: p[4].parse().unwrap(), minter: opt_parse(p[5]) },
            _ => panic!("bad msg token"),
        }
    }
    pub fn sdk(&self, env: &Env) -> Message {
        match self {
            M::T { tid, src, dst, amount, data } => Message::InterchainTransfer(InterchainTransfer {
                token_id: BytesN::from_array(env, tid),
                source_address: sbytes(env, src),
                destination_address: sbytes(env, dst),
                amount: *amount,
                data: data.as_ref().map(|d| sbytes(env, d)),
            }),
            M::D { tid, name, symbol, decimals, minter } => Message::DeployInterchainToken(DeployInterchainToken {
                token_id: BytesN::from_array(env, tid),
                name: sstr(env, name),
                symbol: sstr(env, symbol),
                decimals: *decimals,
                minter: minter.as_ref().map(|d| sbytes(env, d)),
            }),
        }
    }
    pub fn from_sdk(m: &Message) -> M {
        match m {
            Message::InterchainTransfer(t) => M::T {
                tid: t.token_id.to_array(),
                src: t.source_address.to_alloc_vec(),
                dst: t.destination_address.to_alloc_vec(),
                amount: t.amount,
                data: t.data.as_ref().map(|d| d.to_alloc_vec()),
            },
            Message::DeployInterchainToken(d) => M::D {
                tid: d.token_id.to_array(),
                name: sstr_bytes(&d.name),
                symbol: sstr_bytes(&d.symbol),
                decimals: d.decimals,
                minter: d.minter.as_ref().map(|d| d.to_alloc_vec()),
            },
        }
    }
}
impl HM {
    pub fn tok(&self) -> String {
        match self {
            HM::S(c, m) => format!("S/{}/{}", hx(c), m.tok()),
            HM::R(c, m) => format!("R/{}/{}", hx(c), m.tok()),
        }
    }
    pub fn parse(s: &str) -> HM {
        let p: Vec<&str> = s.splitn(3, '/').collect();
        match p[0] {
            "S" => HM::S(unhx(p[1]), M::parse(p[2])),
            "R" => HM::R(unhx(p[1]), M::parse(p[2])),
            _ => panic!("bad hub token"),
        }
    }
    pub fn sdk(&self, env: &Env) -> HubMessage {
        match self {
            HM::S(c, m) => HubMessage::SendToHub { destination_chain: sstr(env, c), message: m.sdk(env) },
            HM::R(c, m) => HubMessage::ReceiveFromHub { source_chain: sstr(env, c), message: m.sdk(env) },
        }
    }
    pub fn from_sdk(h: &HubMessage) -> HM {
        match h {
            HubMessage::SendToHub { destination_chain, message } => HM::S(sstr_bytes(destination_chain), M::from_sdk(message)),
            HubMessage::ReceiveFromHub { source_chain, message } => HM::R(sstr_bytes(source_chain), M::from_sdk(message)),
        }
    }
}

impl AbiWorld {
    pub fn new() -> Self {
        AbiWorld { env: new_env() }
    }
    pub fn exec(&mut self, t: &[&str]) -> (String, String) {
        let env = self.env.clone();
        match t[0] {
            "abi.enc" => {
                let m = M::parse(t[1]).sdk(&env);
                match guarded(|| m.abi_encode(&env)) {
                    Ok(Ok(b)) => (format!("ok x{}", hx(&b.to_alloc_vec())), String::new()),
                    Ok(Err(e)) => ("err".into(), format!("{e:?}")),
                    Err(p) => ("panic".into(), short_err(&p)),
                }
            }
            "abi.enc_hub" => {
                let m = HM::parse(t[1]).sdk(&env);
                match guarded(|| m.abi_encode(&env)) {
                    Ok(Ok(b)) => (format!("ok x{}", hx(&b.to_alloc_vec())), String::new()),
                    Ok(Err(e)) => ("err".into(), format!("{e:?}")),
                    Err(p) => ("panic".into(), short_err(&p)),
                }
            }
            "abi.dec" => {
                let b = Bytes::from_slice(&env, &unhx(t[1]));
                match guarded(|| Message::abi_decode(&env, &b)) {
                    Ok(Ok(m)) => (format!("ok {}", M::from_sdk(&m).tok()), String::new()),
                    Ok(Err(e)) => ("err".into(), format!("{e:?}")),
                    Err(p) => ("panic".into(), short_err(&p)),
                }
            }
            "abi.dec_hub" => {
                let b = Bytes::from_slice(&env, &unhx(t[1]));
                match guarded(|| HubMessage::abi_decode(&env, &b)) {
                    Ok(Ok(m)) => (format!("ok {}", HM::from_sdk(&m).tok()), String::new()),
                    Ok(Err(e)) => ("err".into(), format!("{e:?}")),
                    Err(p) => ("panic".into(), short_err(&p)),
                }
            }
            other => panic!("unknown abi op {other}"),
        }
    }
}

// ------------------------------------------------------------------------------------------------
fn word(n: u128) -> Vec<u8> {
    let mut w = vec![0u8; 16];
    w.extend_from_slice(&n.to_be_bytes());
    w
}
fn bytes_of_len(rng: &mut Rng, n: usize) -> Vec<u8> {
    rng.bytes(n)
}
fn utf8_name(rng: &mut Rng, class: u64) -> Vec<u8> {
    match class % 7 {
        0 => b"Token".to_vec(),
        1 => "Τοκεν-令牌-🪙".as_bytes().to_vec(),
        2 => vec![],
        3 => "é".repeat(16).into_bytes(),        // 32 bytes exactly
        4 => "x".repeat(33).into_bytes(),
        5 => "名".repeat(1 + rng.below(20) as usize).into_bytes(),
        _ => (0..rng.below(40)).map(|_| b'a' + (rng.below(26) as u8)).collect(),
    }
}

pub fn random_msg(rng: &mut Rng) -> M {
    let lens = [0usize, 1, 20, 31, 32, 33, 64, 100];
    let tid = { let mut a = [0u8; 32]; a.copy_from_slice(&rng.bytes(32)); a };
    if rng.chance(1, 2) {
        let amount: i128 = match rng.below(8) {
            0 => 0,
            1 => 1,
            2 => 1i128 << 64,
            3 => i128::MAX,
            4 => (1i128 << 126) - 1,
            _ => rng.next() as i128,
        };
        let data = match rng.below(4) {
            0 => None,
            1 => Some(vec![]),
            _ => Some({ let n = *rng.pick(&lens); rng.bytes(n) }),
        };
        M::T { tid, src: { let n = *rng.pick(&lens); rng.bytes(n) }, dst: { let n = *rng.pick(&lens); rng.bytes(n) }, amount, data }
    } else {
        let c1 = rng.next();
        let c2 = rng.next();
        let minter = match rng.below(4) {
            0 => None,
            1 => Some(vec![]),
            _ => Some({ let n = *rng.pick(&lens); rng.bytes(n) }),
        };
        M::D { tid, name: utf8_name(rng, c1), symbol: utf8_name(rng, c2), decimals: *rng.pick(&[0u8, 7, 18, 255]), minter }
    }
}

/// mutate a valid encoding in one labelled way
fn mutate(rng: &mut Rng, enc: &[u8]) -> (Vec<u8>, &'static str) {
    let mut b = enc.to_vec();
    let nwords = b.len() / 32;
    let widx = |rng: &mut Rng| (rng.below(nwords.max(1) as u64) as usize) * 32;
    match rng.below(22) {
        0 => {
            let i = rng.below(b.len() as u64) as usize;
            b[i] ^= 1 << rng.below(8);
            (b, "bitflip")
        }
        1 => {
            b.truncate(b.len() - 1);
            (b, "truncate-1")
        }
        2 => {
            let k = 32 * (1 + rng.below(3) as usize);
            b.truncate(b.len().saturating_sub(k));
            (b, "truncate-words")
        }
        3 => {
            b.push(0);
            (b, "trailing-byte")
        }
        4 => {
            b.extend_from_slice(&[0u8; 32]);
            (b, "trailing-zero-word")
        }
        5 => {
            b.extend_from_slice(&rng.bytes(32));
            (b, "trailing-garbage-word")
        }
        6 => {
            b[31] = *rng.pick(&[2u8, 5, 6, 255]);
            (b, "tag-out-of-range")
        }
        7 => {
            let i = rng.below(31) as usize;
            b[i] = 1;
            (b, "tag-dirty-upper-bytes")
        }
        8 => {
            b[31] = *rng.pick(&[0u8, 1, 3, 4]);
            (b, "tag-other-valid")
        }
        9 => {
            // amount / decimals word (5th word) out of range
            if b.len() >= 160 {
                let hi = rng.below(16) as usize;
                b[128 + hi] |= 0x80;
            }
            (b, "word5-high-bits")
        }
        10 => {
            if b.len() >= 160 {
                b[128 + 16] |= 0x80; // bit 127
            }
            (b, "word5-bit127")
        }
        11 => {
            if b.len() >= 160 {
                b[128 + 30] |= 0x01; // 256 for decimals / harmless for amount
            }
            (b, "word5-256")
        }
        12 => {
            // offset word altered
            let o = [64usize, 96, 160];
            let i = *rng.pick(&o);
            if b.len() >= i + 32 {
                let delta = *rng.pick(&[1u8, 32, 64]);
                b[i + 31] = b[i + 31].wrapping_add(delta);
            }
            (b, "offset-altered")
        }
        13 => {
            let i = widx(rng);
            b[i..i + 24].copy_from_slice(&[0xffu8; 24]);
            (b, "word-upper-bytes-ff")
        }
        14 => {
            // last byte of the buffer non-zero (padding or data)
            let n = b.len();
            b[n - 1] ^= 0x5a;
            (b, "last-byte")
        }
        15 | 16 | 17 | 18 => {
            // a length word near 2^32 / 2^64: find a tail length word = a word following the heads
            let heads = if b.len() >= 192 { 192 } else { 96 };
            if b.len() >= heads + 32 {
                let v: u128 = match rng.below(8) {
                    0 => (1u128 << 32) - 1,
                    1 => 1u128 << 32,
                    2 => (1u128 << 64) - 64,
                    3 => (1u128 << 64) - 63,
                    4 => (1u128 << 64) - 33,
                    5 => (1u128 << 64) - 1,
                    6 => 1u128 << 64,
                    _ => (1u128 << 63) + 5,
                };
                b[heads..heads + 32].copy_from_slice(&word(v));
            }
            (b, "length-huge")
        }
        19 => {
            // non-zero padding after a short dynamic field: set the byte right before a word boundary in the tails
            let n = b.len();
            if n >= 224 {
                b[n - 2] |= 0x01;
            }
            (b, "padding-nonzero")
        }
        20 => {
            let i = widx(rng);
            let w: Vec<u8> = rng.bytes(32);
            b[i..i + 32].copy_from_slice(&w);
            (b, "word-randomised")
        }
        _ => {
            // swap two words
            if nwords >= 2 {
                let i = widx(rng);
                let j = widx(rng);
                for k in 0..32 {
                    b.swap(i + k, j + k);
                }
            }
            (b, "swap-words")
        }
    }
}

pub fn gen_c10(run: &mut crate::Run, seed: u64, thorough: bool) {
    let mut rng = Rng::new(seed);
    run.scenario("abi", "c10");
    let nmsgs = if thorough { 3000 } else { 250 };
    let nmut = if thorough { 12 } else { 6 };
    let env = new_env();
    for i in 0..nmsgs {
        let m = random_msg(&mut rng);
        let hub = rng.chance(2, 3);
        let (enc_op, dec_op, tok) = if hub {
            let chain = match rng.below(5) {
                0 => vec![],
                1 => "цепь".as_bytes().to_vec(),
                2 => vec![b'c'; 32],
                _ => b"ethereum".to_vec(),
            };
            let h = if rng.chance(1, 2) { HM::S(chain, m.clone()) } else { HM::R(chain, m.clone()) };
            ("abi.enc_hub", "abi.dec_hub", h.tok())
        } else {
            ("abi.enc", "abi.dec", m.tok())
        };
        let kind = if hub { "hub" } else { "msg" };
        let o = run.op(&format!("{enc_op} {tok}"), &format!("encode-{kind}"));
        if let Some(hexs) = o.strip_prefix("ok x") {
            let enc = unhx(hexs);
            run.op(&format!("{dec_op} {}", hx(&enc)), &format!("roundtrip-{kind}"));
            // the "wrong" decoder on a valid encoding
            if i % 7 == 0 {
                let other = if hub { "abi.dec" } else { "abi.dec_hub" };
                run.op(&format!("{other} {}", hx(&enc)), &format!("cross-decoder-{kind}"));
            }
            for _ in 0..nmut {
                let (mb, cls) = mutate(&mut rng, &enc);
                if mb.is_empty() {
                    continue;
                }
                run.op(&format!("{dec_op} {}", hx(&mb)), &format!("mut-{cls}-{kind}"));
            }
            // mutate the INNER message of a hub message and re-wrap canonically
            if hub && i % 3 == 0 {
                let inner_enc = {
                    let mm = m.sdk(&env);
                    mm.abi_encode(&env).ok().map(|b| b.to_alloc_vec())
                };
                if let Some(ie) = inner_enc {
                    let (mi, cls) = mutate(&mut rng, &ie);
                    // canonical outer wrapper around a broken inner message, built by hand (independent of the repo's encoder)
                    let chain = b"axelar".to_vec();
                    let mut outer = vec![];
                    outer.extend_from_slice(&word(4));
                    outer.extend_from_slice(&word(96));
                    let chain_tail_len = 32 + ((chain.len() + 31) / 32) * 32;
                    outer.extend_from_slice(&word(96 + chain_tail_len as u128));
                    outer.extend_from_slice(&word(chain.len() as u128));
                    let mut c = chain.clone();
                    c.resize(((chain.len() + 31) / 32) * 32, 0);
                    outer.extend_from_slice(&c);
                    outer.extend_from_slice(&word(mi.len() as u128));
                    let mut p = mi.clone();
                    p.resize(((mi.len() + 31) / 32) * 32, 0);
                    outer.extend_from_slice(&p);
                    run.op(&format!("abi.dec_hub {}", hx(&outer)), &format!("inner-mut-{cls}"));
                }
            }
        }
    }
    // directed: the shortest inputs (no bytes at all, fewer than one word, exactly one word) for both decoders, and canonical
    // hub wrappers around an inner message of those lengths — an orderly rejection, never a crash
    for n in [0usize, 1, 5, 31, 32, 33, 64] {
        let b = vec![0u8; n];
        run.op(&format!("abi.dec {}", hx(&b)), &format!("short-input-zero-len{n}"));
        run.op(&format!("abi.dec_hub {}", hx(&b)), &format!("short-input-zero-len{n}-hub"));
        let mut t = vec![0u8; n];
        if n > 0 {
            t[n - 1] = 4;
        }
        run.op(&format!("abi.dec_hub {}", hx(&t)), &format!("short-input-typed-len{n}-hub"));
        for outer_ty in [3u128, 4] {
            let chain = b"axelar".to_vec();
            let mut outer = vec![];
            outer.extend_from_slice(&word(outer_ty));
            outer.extend_from_slice(&word(96));
            let chain_tail_len = 32 + ((chain.len() + 31) / 32) * 32;
            outer.extend_from_slice(&word(96 + chain_tail_len as u128));
            outer.extend_from_slice(&word(chain.len() as u128));
            let mut c = chain.clone();
            c.resize(((chain.len() + 31) / 32) * 32, 0);
            outer.extend_from_slice(&c);
            outer.extend_from_slice(&word(n as u128));
            let mut p = vec![0u8; n];
            p.resize(((n + 31) / 32) * 32, 0);
            outer.extend_from_slice(&p);
            run.op(&format!("abi.dec_hub {}", hx(&outer)), &format!("wrapper-type{outer_ty}-inner-len{n}"));
        }
    }
    // directed: byte fields whose CONTENT is degenerate (all zero / all 0xff) at every interesting length — an empty optional
    // field reads back as absent, a non-empty one never does, whatever its content
    for fill in [0u8, 0xff] {
        for n in [1usize, 20, 31, 32, 33, 64] {
            let v = vec![fill; n];
            let msgs = vec![
                M::T { tid: [3; 32], src: vec![1], dst: vec![2], amount: 5, data: Some(v.clone()) },
                M::T { tid: [3; 32], src: v.clone(), dst: v.clone(), amount: 5, data: None },
                M::D { tid: [3; 32], name: b"N".to_vec(), symbol: b"S".to_vec(), decimals: 7, minter: Some(v.clone()) },
            ];
            for m in msgs {
                for wrap in 0..3 {
                    let (enc_op, dec_op, tok) = match wrap {
                        0 => ("abi.enc", "abi.dec", m.tok()),
                        1 => ("abi.enc_hub", "abi.dec_hub", HM::S(b"ethereum".to_vec(), m.clone()).tok()),
                        _ => ("abi.enc_hub", "abi.dec_hub", HM::R(b"ethereum".to_vec(), m.clone()).tok()),
                    };
                    let o = run.op(&format!("{enc_op} {tok}"), "encode-degenerate-bytes");
                    if let Some(hexs) = o.strip_prefix("ok x") {
                        run.op(&format!("{dec_op} {hexs}"), &format!("roundtrip-degenerate-bytes-fill{fill}-len{n}"));
                    }
                }
            }
        }
    }
    // unrepresentable messages: negative amounts (the real encoder panics), invalid UTF-8
    for amt in [-1i128, i128::MIN, -(1i128 << 64)] {
        let m = M::T { tid: [1; 32], src: vec![1], dst: vec![2], amount: amt, data: None };
        run.op(&format!("abi.enc {}", m.tok()), "encode-negative-amount");
        run.op(&format!("abi.enc_hub {}", HM::S(b"eth".to_vec(), m.clone()).tok()), "encode-negative-amount-hub");
    }
    for bad in [vec![0xffu8], vec![0xc0, 0x80], vec![0xed, 0xa0, 0x80], vec![0xf4, 0x90, 0x80, 0x80], vec![0xe2, 0x82], b"ok\x80".to_vec()] {
        let m = M::D { tid: [1; 32], name: bad.clone(), symbol: b"S".to_vec(), decimals: 7, minter: None };
        run.op(&format!("abi.enc {}", m.tok()), "encode-invalid-utf8-name");
        let m2 = M::D { tid: [1; 32], name: b"N".to_vec(), symbol: bad.clone(), decimals: 7, minter: None };
        run.op(&format!("abi.enc {}", m2.tok()), "encode-invalid-utf8-symbol");
        let good = M::T { tid: [1; 32], src: vec![1], dst: vec![2], amount: 5, data: None };
        run.op(&format!("abi.enc_hub {}", HM::R(bad.clone(), good).tok()), "encode-invalid-utf8-chain");
        // the same bytes inside an otherwise canonical encoding, built via a valid name of the same length then patched
        let filler: Vec<u8> = vec![b'a'; bad.len()];
        let mv = M::D { tid: [1; 32], name: filler.clone(), symbol: b"S".to_vec(), decimals: 7, minter: None };
        if let Ok(b) = mv.sdk(&env).abi_encode(&env) {
            let mut e = b.to_alloc_vec();
            // name tail: offset of first dyn field = 192; data starts at 224
            e[224..224 + bad.len()].copy_from_slice(&bad);
            run.op(&format!("abi.dec {}", hx(&e)), "decode-invalid-utf8-name");
        }
    }
    // messages of every SIZE class: byte fields of 4 000 … 70 000 bytes (well-formed messages far beyond any fixed buffer)
    for n in [4000usize, 4096, 4097, 5000, 9000, 33000, 70000] {
        let v: Vec<u8> = (0..n).map(|k| (k % 251) as u8 + 1).collect();
        let msgs = vec![
            M::T { tid: [4; 32], src: v.clone(), dst: vec![2], amount: 5, data: None },
            M::T { tid: [4; 32], src: vec![1], dst: v.clone(), amount: 5, data: None },
            M::T { tid: [4; 32], src: vec![1], dst: vec![2], amount: 5, data: Some(v.clone()) },
            M::D { tid: [4; 32], name: vec![b'n'; n], symbol: b"S".to_vec(), decimals: 7, minter: Some(v.clone()) },
        ];
        for (k, m) in msgs.into_iter().enumerate() {
            if n > 9000 && k > 1 {
                continue;
            }
            for wrap in 0..3 {
                let (enc_op, dec_op, tok) = match wrap {
                    0 => ("abi.enc", "abi.dec", m.tok()),
                    1 => ("abi.enc_hub", "abi.dec_hub", HM::S(b"ethereum".to_vec(), m.clone()).tok()),
                    _ => ("abi.enc_hub", "abi.dec_hub", HM::R(b"ethereum".to_vec(), m.clone()).tok()),
                };
                let o = run.op(&format!("{enc_op} {tok}"), &format!("encode-large-{n}"));
                if let Some(hexs) = o.strip_prefix("ok x") {
                    run.op(&format!("{dec_op} {hexs}"), &format!("roundtrip-large-{n}"));
                    let mut e = unhx(hexs);
                    e.push(0);
                    run.op(&format!("{dec_op} {}", hx(&e)), &format!("large-{n}-trailing-byte"));
                }
            }
        }
    }
    // VALID UTF-8 that a careless validity test might take for a sign of damage: the replacement character itself, NUL, a byte
    // order mark, the code points around the surrogate gap, the last code point, a four-byte sequence, combining marks
    for (k, good) in ["\u{FFFD}", "Wrapped \u{FFFD} Token", "\u{0}", "a\u{0}b", "\u{FEFF}T", "\u{D7FF}\u{E000}", "\u{10FFFF}", "\u{1F680}", "e\u{301}\u{301}", "\u{7F}\u{80}\u{7FF}\u{800}\u{FFFF}\u{10000}"].iter().enumerate() {
        let g = good.as_bytes().to_vec();
        let msgs = vec![
            M::D { tid: [2; 32], name: g.clone(), symbol: b"S".to_vec(), decimals: 7, minter: None },
            M::D { tid: [2; 32], name: b"N".to_vec(), symbol: g.clone(), decimals: 7, minter: None },
        ];
        for m in msgs {
            let o = run.op(&format!("abi.enc {}", m.tok()), &format!("encode-unusual-valid-utf8-{k}"));
            if let Some(hexs) = o.strip_prefix("ok x") {
                run.op(&format!("abi.dec {hexs}"), &format!("roundtrip-unusual-valid-utf8-{k}"));
            }
        }
        let t = M::T { tid: [1; 32], src: vec![1], dst: vec![2], amount: 5, data: None };
        for h in [HM::R(g.clone(), t.clone()), HM::S(g.clone(), t.clone())] {
            let o = run.op(&format!("abi.enc_hub {}", h.tok()), &format!("encode-unusual-valid-utf8-chain-{k}"));
            if let Some(hexs) = o.strip_prefix("ok x") {
                run.op(&format!("abi.dec_hub {hexs}"), &format!("roundtrip-unusual-valid-utf8-chain-{k}"));
            }
        }
    }
    // the uint256 amount word limb by limb: every combination of {0, 1, 2^63, all ones, one shared random value} in the two
    // upper 64-bit limbs, over a low half with bit 127 clear / set — only (0, 0, low < 2^127) is an amount
    {
        let shared = rng.next() | 1;
        let limb_vals = [0u64, 1, 1 << 63, u64::MAX, shared];
        let t = M::T { tid: [9; 32], src: vec![1], dst: vec![2], amount: 1000, data: None };
        let plain = t.sdk(&env).abi_encode(&env).unwrap().to_alloc_vec();
        let hub = HM::R(b"ethereum".to_vec(), t.clone()).sdk(&env).abi_encode(&env).unwrap().to_alloc_vec();
        let hub_inner = 96 + 32 + 32 + 32;
        for &l3 in &limb_vals {
            for &l2 in &limb_vals {
                for hi127 in [false, true] {
                    if l3 == 0 && l2 == 0 && !hi127 {
                        continue;
                    }
                    let mut e = plain.clone();
                    e[128..136].copy_from_slice(&l3.to_be_bytes());
                    e[136..144].copy_from_slice(&l2.to_be_bytes());
                    if hi127 {
                        e[144] |= 0x80;
                    }
                    let nm = |v: u64| if v == 0 { "0" } else if v == 1 { "1" } else if v == 1 << 63 { "2^63" } else if v == u64::MAX { "ones" } else { "r" };
                    let cls = format!("amount-limbs-{}-{}-{}", nm(l3), nm(l2), if hi127 { "bit127" } else { "low" });
                    run.op(&format!("abi.dec {}", hx(&e)), &cls);
                    let mut e = hub.clone();
                    e[hub_inner + 128..hub_inner + 136].copy_from_slice(&l3.to_be_bytes());
                    e[hub_inner + 136..hub_inner + 144].copy_from_slice(&l2.to_be_bytes());
                    if hi127 {
                        e[hub_inner + 144] |= 0x80;
                    }
                    run.op(&format!("abi.dec_hub {}", hx(&e)), &format!("{cls}-hub"));
                }
            }
        }
        // and the uint8 decimals word of a deploy message byte by byte: any non-zero byte above the lowest makes it no uint8
        let d = M::D { tid: [9; 32], name: b"N".to_vec(), symbol: b"S".to_vec(), decimals: 18, minter: None };
        let plain = d.sdk(&env).abi_encode(&env).unwrap().to_alloc_vec();
        for i in 0..31usize {
            let mut e = plain.clone();
            e[128 + i] = 1;
            run.op(&format!("abi.dec {}", hx(&e)), &format!("decimals-word-byte{i}"));
        }
    }
    // random byte strings
    let nrand = if thorough { 20000 } else { 600 };
    for _ in 0..nrand {
        let len = match rng.below(6) {
            0 => rng.below(32) as usize,
            1 => 32,
            2 => 32 * rng.range(1, 10) as usize,
            _ => rng.below(400) as usize,
        };
        let mut b = rng.bytes(len);
        if b.len() >= 32 && rng.chance(3, 4) {
            // plausible tag so that the decoder gets past the first check
            for x in b[..31].iter_mut() {
                *x = 0;
            }
            b[31] = rng.below(5) as u8;
        }
        if b.is_empty() {
            continue;
        }
        let op = if rng.chance(1, 2) { "abi.dec" } else { "abi.dec_hub" };
        run.op(&format!("{op} {}", hx(&b)), "random-bytes");
    }
}
