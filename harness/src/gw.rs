//! Gateway world: executes protocol ops against the real AxelarGateway (native, from /repo's working tree).
#![allow(dead_code)]
use crate::common::*;
use axelar_gateway::types::{
    CommandType, Message, Proof, ProofSignature, ProofSigner, WeightedSigner, WeightedSigners,
};
use axelar_gateway::{AxelarGateway, AxelarGatewayClient};
use ed25519_dalek::{Signer as _, SigningKey};
use soroban_sdk::testutils::Ledger as _;
use soroban_sdk::xdr::ToXdr;
use soroban_sdk::{Address, BytesN, Env, IntoVal, Val, Vec as SVec};

pub const NKEYS: usize = 24;

pub fn key(i: usize) -> SigningKey {
    let mut seed = b"cgp-verif-signing-key-__".to_vec();
    seed.push(i as u8);
    SigningKey::from_bytes(&keccak(&seed))
}
pub fn pk(i: usize) -> [u8; 32] {
    key(i).verifying_key().to_bytes()
}
pub fn key_by_pk(p: &[u8; 32]) -> Option<SigningKey> {
    (0..NKEYS).map(key).find(|k| &k.verifying_key().to_bytes() == p)
}

#[derive(Clone, Debug, PartialEq)]
pub struct WS {
    pub signers: Vec<([u8; 32], u128)>,
    pub threshold: u128,
    pub nonce: [u8; 32],
}
#[derive(Clone, Debug, PartialEq)]
pub enum Sig {
    U,
    S { pk: [u8; 32], msg: Vec<u8>, intact: bool },
}
#[derive(Clone, Debug, PartialEq)]
pub struct Pf {
    pub signers: Vec<([u8; 32], u128, Sig)>,
    pub threshold: u128,
    pub nonce: [u8; 32],
}
#[derive(Clone, Debug, PartialEq)]
pub struct Msg {
    pub chain: Vec<u8>,
    pub id: Vec<u8>,
    pub src: Vec<u8>,
    pub contract: Addr,
    pub ph: [u8; 32],
}

impl WS {
    pub fn tok(&self) -> String {
        let s = if self.signers.is_empty() {
            "-".to_string()
        } else {
            self.signers.iter().map(|(k, w)| format!("{}:{}", hex::encode(k), w)).collect::<Vec<_>>().join(",")
        };
        format!("{}/{}/{}", self.threshold, hex::encode(self.nonce), s)
    }
    pub fn parse(t: &str) -> WS {
        let p: Vec<&str> = t.split('/').collect();
        let signers = if p[2] == "-" {
            vec![]
        } else {
            p[2].split(',')
                .map(|e| {
                    let q: Vec<&str> = e.split(':').collect();
                    (unhx32(q[0]), pu128(q[1]))
                })
                .collect()
        };
        WS { signers, threshold: pu128(p[0]), nonce: unhx32(p[1]) }
    }
    pub fn sdk(&self, env: &Env) -> WeightedSigners {
        let mut v = SVec::new(env);
        for (k, w) in &self.signers {
            v.push_back(WeightedSigner { signer: b32(env, k), weight: *w });
        }
        WeightedSigners { signers: v, threshold: self.threshold, nonce: b32(env, &self.nonce) }
    }
    /// the harness's own recipe: keccak of the host's XDR of the struct
    pub fn hash(&self, env: &Env) -> [u8; 32] {
        let x = self.sdk(env).to_xdr(env);
        keccak(&x.to_alloc_vec())
    }
    pub fn rotation_data_hash(&self, env: &Env) -> [u8; 32] {
        let x = (CommandType::RotateSigners, self.sdk(env)).to_xdr(env);
        keccak(&x.to_alloc_vec())
    }
    pub fn total(&self) -> Option<u128> {
        let mut t = 0u128;
        for (_, w) in &self.signers {
            t = t.checked_add(*w)?;
        }
        Some(t)
    }
}

impl Sig {
    pub fn tok(&self) -> String {
        match self {
            Sig::U => "U".into(),
            Sig::S { pk, msg, intact } => format!("S{}.{}.{}", hex::encode(pk), hx(msg), if *intact { 1 } else { 0 }),
        }
    }
    pub fn parse(t: &str) -> Sig {
        if t == "U" {
            return Sig::U;
        }
        let p: Vec<&str> = t[1..].split('.').collect();
        Sig::S { pk: unhx32(p[0]), msg: unhx(p[1]), intact: p[2] == "1" }
    }
    pub fn sdk(&self, env: &Env) -> ProofSignature {
        match self {
            Sig::U => ProofSignature::Unsigned,
            Sig::S { pk, msg, intact } => {
                let sk = key_by_pk(pk).expect("signature provenance names a key outside the pool");
                let mut s = sk.sign(msg).to_bytes();
                if !*intact {
                    s[7] ^= 0x10;
                }
                ProofSignature::Signed(BytesN::from_array(env, &s))
            }
        }
    }
}

impl Pf {
    pub fn tok(&self) -> String {
        let s = if self.signers.is_empty() {
            "-".to_string()
        } else {
            self.signers
                .iter()
                .map(|(k, w, s)| format!("{}:{}:{}", hex::encode(k), w, s.tok()))
                .collect::<Vec<_>>()
                .join(",")
        };
        format!("{}/{}/{}", self.threshold, hex::encode(self.nonce), s)
    }
    pub fn parse(t: &str) -> Pf {
        let p: Vec<&str> = t.split('/').collect();
        let signers = if p[2] == "-" {
            vec![]
        } else {
            p[2].split(',')
                .map(|e| {
                    let q: Vec<&str> = e.splitn(3, ':').collect();
                    (unhx32(q[0]), pu128(q[1]), Sig::parse(q[2]))
                })
                .collect()
        };
        Pf { signers, threshold: pu128(p[0]), nonce: unhx32(p[1]) }
    }
    pub fn sdk(&self, env: &Env) -> Proof {
        let mut v = SVec::new(env);
        for (k, w, s) in &self.signers {
            v.push_back(ProofSigner {
                signer: WeightedSigner { signer: b32(env, k), weight: *w },
                signature: s.sdk(env),
            });
        }
        Proof { signers: v, threshold: self.threshold, nonce: b32(env, &self.nonce) }
    }
    pub fn declared(&self) -> WS {
        WS {
            signers: self.signers.iter().map(|(k, w, _)| (*k, *w)).collect(),
            threshold: self.threshold,
            nonce: self.nonce,
        }
    }
}

impl Msg {
    pub fn tok(&self) -> String {
        format!("{}.{}.{}.{}.{}", hx(&self.chain), hx(&self.id), hx(&self.src), self.contract.tok(), hex::encode(self.ph))
    }
    pub fn parse(t: &str) -> Msg {
        let p: Vec<&str> = t.split('.').collect();
        Msg { chain: unhx(p[0]), id: unhx(p[1]), src: unhx(p[2]), contract: Addr::parse(p[3]), ph: unhx32(p[4]) }
    }
    pub fn sdk(&self, env: &Env) -> Message {
        Message {
            source_chain: sstr(env, &self.chain),
            message_id: sstr(env, &self.id),
            source_address: sstr(env, &self.src),
            contract_address: self.contract.sdk(env),
            payload_hash: b32(env, &self.ph),
        }
    }
}
pub fn msgs_tok(ms: &[Msg]) -> String {
    if ms.is_empty() {
        "-".into()
    } else {
        ms.iter().map(|m| m.tok()).collect::<Vec<_>>().join(",")
    }
}
pub fn msgs_parse(t: &str) -> Vec<Msg> {
    if t == "-" {
        vec![]
    } else {
        t.split(',').map(Msg::parse).collect()
    }
}
pub fn sets_tok(ss: &[WS]) -> String {
    if ss.is_empty() {
        "-".into()
    } else {
        ss.iter().map(|s| s.tok()).collect::<Vec<_>>().join(";")
    }
}
pub fn sets_parse(t: &str) -> Vec<WS> {
    if t == "-" {
        vec![]
    } else {
        t.split(';').map(WS::parse).collect()
    }
}
pub fn approve_data_hash(env: &Env, ms: &[Msg]) -> [u8; 32] {
    let mut v: SVec<Message> = SVec::new(env);
    for m in ms {
        v.push_back(m.sdk(env));
    }
    let x = (CommandType::ApproveMessages, v).to_xdr(env);
    keccak(&x.to_alloc_vec())
}
pub fn digest(domain: &[u8; 32], signers_hash: &[u8; 32], data_hash: &[u8; 32]) -> Vec<u8> {
    let mut m = domain.to_vec();
    m.extend_from_slice(signers_hash);
    m.extend_from_slice(data_hash);
    keccak(&m).to_vec()
}

pub struct GwWorld {
    pub env: Env,
    pub gw: Option<Address>,
    pub cursor: usize,
}

fn res_unit<E: core::fmt::Debug, F: core::fmt::Debug>(r: Result<Result<(), E>, Result<F, soroban_sdk::InvokeError>>) -> (String, String) {
    match r {
        Ok(Ok(())) => ("ok".into(), String::new()),
        Ok(Err(e)) => ("err".into(), format!("conv:{e:?}")),
        Err(Ok(e)) => ("err".into(), format!("{e:?}")),
        Err(Err(e)) => ("err".into(), format!("host:{e:?}")),
    }
}

impl GwWorld {
    pub fn new() -> Self {
        let env = new_env();
        GwWorld { env, gw: None, cursor: 0 }
    }
    fn client(&self) -> AxelarGatewayClient<'static> {
        AxelarGatewayClient::new(&self.env, self.gw.as_ref().expect("gateway not constructed"))
    }
    fn events(&mut self) -> String {
        match &self.gw {
            Some(g) => new_events(&self.env, &mut self.cursor, &[g.clone()]),
            None => String::new(),
        }
    }

    /// Execute one op (tokens before `=>`). Returns (observation, diagnostics).
    pub fn exec(&mut self, t: &[&str]) -> (String, String) {
        let env = self.env.clone();
        #[allow(deprecated)]
        env.budget().reset_unlimited();
        match t[0] {
            "time" => {
                env.ledger().set_timestamp(pu64(t[1]));
                // the sequence number never moves backwards (ticks may have advanced it)
                let cur = env.ledger().sequence();
                env.ledger().set_sequence_number(cur.max(pu32(t[2])));
                ("ok".into(), String::new())
            }
            "tick" => {
                // some ledgers close (fewer than any persistent / instance entry lives): nothing observable may change
                let cur = env.ledger().sequence();
                env.ledger().set_sequence_number(cur + pu32(t[1]));
                ("ok".into(), String::new())
            }
            "probe_extra" => {
                // probe_extra <addresses> <tokens>: every exported function of the contract that the model does not know is
                // called without any authorisation (none exists on the unchanged tree apart from the `todo!()` stubs of the
                // token); whatever it does, the modelled state must not change — the following queries show it
                let known: [&str; 11] = ["__constructor", "call_contract", "is_message_approved", "is_message_executed", "validate_message", "approve_messages", "rotate_signers", "epoch", "epoch_by_signers_hash", "signers_hash_by_epoch", "validate_proof"];
                let addrs: Vec<Address> = t[1].split(',').filter(|x| !x.is_empty() && *x != "-").map(|x| Addr::parse(x).sdk(&env)).collect();
                let toks: Vec<(Address, i128)> = t[2].split(',').filter(|x| !x.is_empty() && *x != "-").map(|x| (Addr::parse(x).sdk(&env), 1i128)).collect();
                let mut names = vec![];
                if let Some(c) = self.gw.clone() {
                    names = probe_unknown_entry_points(&env, &c, "/repo/contracts/axelar-gateway/src/contract.rs", &known, &addrs, &toks);
                }
                let _ = self.events();
                ("ok".into(), format!("probed={}", names.join(",")))
            }
            "gw.new" => {
                let addr = Addr::parse(t[1]).sdk(&env);
                let owner = Addr::parse(t[2]).sdk(&env);
                let operator = Addr::parse(t[3]).sdk(&env);
                let domain = b32(&env, &unhx32(t[4]));
                let min_delay = pu64(t[5]);
                let retention = pu64(t[6]);
                let sets = sets_parse(t[7]);
                let mut v: SVec<WeightedSigners> = SVec::new(&env);
                for s in &sets {
                    v.push_back(s.sdk(&env));
                }
                let r = guarded(|| {
                    env.register_at(&addr, AxelarGateway, (owner, operator, domain, min_delay, retention, v));
                });
                match r {
                    Ok(()) => {
                        self.gw = Some(addr);
                        let ev = self.events();
                        (format!("ok{ev}"), String::new())
                    }
                    Err(e) => {
                        // failed construction: nothing is registered; later queries are answered "err"
                        self.cursor = { use soroban_sdk::testutils::Events as _; env.events().all().len() as usize };
                        ("err".into(), short_err(&e))
                    }
                }
            }
            _ if self.gw.is_none() => ("err".into(), "no-gateway".into()),
            "gw.approve" => {
                let ms = msgs_parse(t[1]);
                let pf = Pf::parse(t[2]);
                let mut v: SVec<Message> = SVec::new(&env);
                for m in &ms {
                    v.push_back(m.sdk(&env));
                }
                env.set_auths(&[]);
                let r = guarded(|| self.client().try_approve_messages(&v, &pf.sdk(&env)));
                self.finish_unit(r)
            }
            "gw.rotate" => {
                let ws = WS::parse(t[1]);
                let pf = Pf::parse(t[2]);
                let bypass = t[3] == "1";
                let auth = AuthSpec::parse(t[4]);
                let gw = self.gw.clone().unwrap();
                let wsd = ws.sdk(&env);
                let pfd = pf.sdk(&env);
                let args: SVec<Val> = (wsd.clone(), pfd.clone(), bypass).into_val(&env);
                let wrong: SVec<Val> = (wsd.clone(), pfd.clone(), !bypass).into_val(&env);
                install_auth(&env, &auth, &gw, "rotate_signers", args, wrong);
                let r = guarded(|| self.client().try_rotate_signers(&wsd, &pfd, &bypass));
                self.finish_unit(r)
            }
            "gw.validate_proof" => {
                let dh = b32(&env, &unhx32(t[1]));
                let pf = Pf::parse(t[2]);
                env.set_auths(&[]);
                let r = guarded(|| self.client().try_validate_proof(&dh, &pf.sdk(&env)));
                let ev = self.events();
                match r {
                    Ok(Ok(Ok(b))) => (format!("ok b{}{ev}", b as u8), String::new()),
                    Ok(Ok(Err(e))) => ("err".into(), format!("conv:{e:?}")),
                    Ok(Err(Ok(e))) => ("err".into(), format!("{e:?}")),
                    Ok(Err(Err(e))) => ("err".into(), short_err(&format!("host:{e:?}"))),
                    Err(p) => ("err".into(), short_err(&format!("panic:{p}"))),
                }
            }
            "gw.validate_message" => {
                let caller = Addr::parse(t[1]).sdk(&env);
                let chain = sstr(&env, &unhx(t[2]));
                let id = sstr(&env, &unhx(t[3]));
                let src = sstr(&env, &unhx(t[4]));
                let ph = b32(&env, &unhx32(t[5]));
                let auth = AuthSpec::parse(t[6]);
                let gw = self.gw.clone().unwrap();
                let args: SVec<Val> = (caller.clone(), chain.clone(), id.clone(), src.clone(), ph.clone()).into_val(&env);
                let mut other = unhx32(t[5]);
                other[0] ^= 1;
                let wrong: SVec<Val> = (caller.clone(), chain.clone(), id.clone(), src.clone(), b32(&env, &other)).into_val(&env);
                install_auth(&env, &auth, &gw, "validate_message", args, wrong);
                let r = guarded(|| self.client().try_validate_message(&caller, &chain, &id, &src, &ph));
                let ev = self.events();
                match r {
                    Ok(Ok(Ok(b))) => (format!("ok b{}{ev}", b as u8), String::new()),
                    Ok(Ok(Err(e))) => ("err".into(), format!("conv:{e:?}")),
                    Ok(Err(Ok(e))) => ("err".into(), format!("{e:?}")),
                    Ok(Err(Err(e))) => ("err".into(), short_err(&format!("host:{e:?}"))),
                    Err(p) => ("err".into(), short_err(&format!("panic:{p}"))),
                }
            }
            "gw.call_contract" => {
                let caller = Addr::parse(t[1]).sdk(&env);
                let chain = sstr(&env, &unhx(t[2]));
                let dest = sstr(&env, &unhx(t[3]));
                let payload = sbytes(&env, &unhx(t[4]));
                let auth = AuthSpec::parse(t[5]);
                let gw = self.gw.clone().unwrap();
                let args: SVec<Val> = (caller.clone(), chain.clone(), dest.clone(), payload.clone()).into_val(&env);
                let mut p2 = unhx(t[4]);
                p2.push(0);
                let wrong: SVec<Val> = (caller.clone(), chain.clone(), dest.clone(), sbytes(&env, &p2)).into_val(&env);
                install_auth(&env, &auth, &gw, "call_contract", args, wrong);
                let r = guarded(|| self.client().try_call_contract(&caller, &chain, &dest, &payload));
                self.finish_unit(r)
            }
            "gw.transfer_ownership" | "gw.transfer_operatorship" => {
                let new = Addr::parse(t[1]).sdk(&env);
                let auth = AuthSpec::parse(t[2]);
                let gw = self.gw.clone().unwrap();
                let fname = &t[0][3..];
                let args: SVec<Val> = (new.clone(),).into_val(&env);
                let wrong: SVec<Val> = (gw.clone(),).into_val(&env);
                install_auth(&env, &auth, &gw, fname, args, wrong);
                let r = if fname == "transfer_ownership" {
                    guarded(|| self.client().try_transfer_ownership(&new))
                } else {
                    guarded(|| self.client().try_transfer_operatorship(&new))
                };
                self.finish_unit(r)
            }
            "gw.epoch" => match guarded(|| self.client().try_epoch()) {
                Ok(Ok(Ok(e))) => (format!("ok U{e}"), String::new()),
                _ => ("err".into(), String::new()),
            },
            "gw.upgrade" | "gw.migrate" => {
                let gw = self.gw.clone().unwrap();
                let r = if t[0] == "gw.upgrade" { upgrade_step(&env, &gw, t[1]) } else { migrate_step(&env, &gw, t[1]) };
                let _ = self.events();
                r
            }
            "gw.upgrade_migrate" => {
                let gw = self.gw.clone().unwrap();
                let r = upgrade_migrate(&env, &gw, t[1]);
                let _ = self.events();
                r
            }
            "gw.owner" => match guarded(|| self.client().try_owner()) {
                Ok(Ok(Ok(a))) => (format!("ok {}", Addr::from_sdk(&a).tok()), String::new()),
                _ => ("err".into(), String::new()),
            },
            "gw.operator" => match guarded(|| self.client().try_operator()) {
                Ok(Ok(Ok(a))) => (format!("ok {}", Addr::from_sdk(&a).tok()), String::new()),
                _ => ("err".into(), String::new()),
            },
            "gw.hash_by_epoch" => match guarded(|| self.client().try_signers_hash_by_epoch(&pu64(t[1]))) {
                Ok(Ok(Ok(h))) => (format!("ok x{}", hex::encode(h.to_array())), String::new()),
                _ => ("err".into(), String::new()),
            },
            "gw.epoch_by_hash" => match guarded(|| self.client().try_epoch_by_signers_hash(&b32(&env, &unhx32(t[1])))) {
                Ok(Ok(Ok(e))) => (format!("ok U{e}"), String::new()),
                _ => ("err".into(), String::new()),
            },
            "gw.is_approved" => {
                let m = Msg::parse(t[1]).sdk(&env);
                match guarded(|| {
                    self.client().try_is_message_approved(&m.source_chain, &m.message_id, &m.source_address, &m.contract_address, &m.payload_hash)
                }) {
                    Ok(Ok(Ok(b))) => (format!("ok b{}", b as u8), String::new()),
                    _ => ("err".into(), String::new()),
                }
            }
            "gw.is_executed" => {
                match guarded(|| self.client().try_is_message_executed(&sstr(&env, &unhx(t[1])), &sstr(&env, &unhx(t[2])))) {
                    Ok(Ok(Ok(b))) => (format!("ok b{}", b as u8), String::new()),
                    _ => ("err".into(), String::new()),
                }
            }
            other => panic!("unknown gateway op {other}"),
        }
    }

    fn finish_unit<E: core::fmt::Debug, F: core::fmt::Debug>(
        &mut self,
        r: Result<Result<Result<(), E>, Result<F, soroban_sdk::InvokeError>>, String>,
    ) -> (String, String) {
        let ev = self.events();
        match r {
            Ok(rr) => {
                let (o, d) = res_unit(rr);
                if o == "ok" {
                    (format!("ok{ev}"), d)
                } else {
                    (o, short_err(&d))
                }
            }
            Err(p) => ("err".into(), short_err(&format!("panic:{p}"))),
        }
    }
}
